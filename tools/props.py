"""Per-property configuration of the check: Lean modules, theorem obligations, correspondence suites."""

TRUSTED_BASE = [
    "Lean 4.33.0 kernel (leanchecker re-check in the thorough tier)",
    "axioms allowed per theorem: propext, Classical.choice, Quot.sound (audited with #print axioms on every run)",
    "correspondence harness (/verif/harness) + line-protocol driver (/verif/lean/Driver): the only tie between model and Rust code",
    "constant extractor tools/extract_consts.py (regenerates XetModel/Generated/Consts.lean from the Rust sources on every run)",
    "Rust code is modelled, not verified: theorems are about the Lean model; BLAKE3/SHA-256/CRC-32/LZ4/gearhash-SIMD are compared, not proved",
]

PROPS = {
    "C04": {
        "modules": ["XetProps.C04"],
        "theorems": [
            "Xet.Chunker.C04_params_ok",
            "Xet.Chunker.C04_production_params",
            "Xet.Chunker.C04_partition_independent",
            "Xet.Chunker.C04_any_two_partitions",
            "Xet.Chunker.C04_concat_spec",
            "Xet.Chunker.C04_concat",
            "Xet.Chunker.C04_bounds_all",
            "Xet.Chunker.C04_bounds_min",
            "Xet.Chunker.C04_content_defined",
            "Xet.Chunker.C04_content_defined_list",
            "Xet.Chunker.C04_chunks_are_complete",
            "Xet.Chunker.C04_next_safe",
            "Xet.Chunker.specSplitR_eq",
        ],
        "suites": ["chunker"],
        "level_text": "Theorems for every byte stream, every partition into calls and every Params with minC<maxC: the code-shaped model of "
                      "Chunker::next/next_block/finish equals the reference byte automaton (partition independence), chunks concatenate to the "
                      "input, bounds, content-definedness, no usize underflow. Tied to the Rust Chunker by a differential run (boundaries and the "
                      "per-call (chunk?, consumed) trace) over generated and engineered streams; the gear table and constants are re-extracted from source.",
        "design_ref": "DESIGN.md section 4, C04",
        "technique": "Lean 4 proof (induction over the byte list; refinement code-shaped next -> byte automaton) + differential correspondence",
        "rule": "cases = (target 2^7..2^16 [2^20 thorough], stream kind random/constant/periodic/low-entropy/never-match/engineered-match, "
                "partition one-shot/fixed/random incl. 0- and 1-byte calls); distinct by hash(stream, partition, target); "
                "non-trivial = produced at least two chunks",
        "assumptions": ["gearhash SIMD path == scalar semantics (compared on every case, not proved)",
                        "compute_data_hash of chunks is checked by the C06 suite, here only by the harness monitor"],
    },
    "C06": {
        "modules": ["XetProps.C06"],
        "theorems": [
            "Xet.Merkle.C06_branching_ok",
            "Xet.Merkle.C06_level_shrinks",
            "Xet.Merkle.C06_merge_terminates",
            "Xet.Merkle.C06_producer_eq_validators",
            "Xet.Merkle.C06_hex_roundtrip",
            "Xet.Merkle.C06_hex_length",
            "Xet.Merkle.C06_hex_injective",
            "Xet.Merkle.C06_hashedwrite_streaming",
        ],
        "suites": ["hashes"],
        "level_text": "Theorems for every chunk list and every choice of hash primitives: producer xorb hash = validators' route, merge "
                      "terminates with one root and every level shrinks, hex text form round-trips and is injective, the streaming HashedWrite "
                      "digest equals the one-shot hash for every pattern of short inner writes. 'Equals an independent implementation of the "
                      "published construction' is decided by the correspondence: an independent Lean BLAKE3 recomputes every data/internal/"
                      "xorb/file/range/hmac hash the Rust code produces.",
        "design_ref": "DESIGN.md section 4, C06",
        "technique": "Lean 4 proof over abstract hash primitives + differential correspondence with an independent Lean BLAKE3",
        "rule": "cases = byte strings at every BLAKE3 block/chunk/tree boundary + random lengths; chunk lists of 0..5000 entries with controlled "
                "hash[3]%4 patterns, repeated hashes (same/different length), zero hash, extreme lengths; salts; hmac keys; hex texts (valid, "
                "upper-case, short, long, non-hex); HashedWrite with short inner writes. distinct by content hash; non-trivial = more than "
                "one BLAKE3 chunk / at least 3 list entries",
        "assumptions": ["BLAKE3 itself is compared against an independent implementation, not proved",
                        "collision resistance is never assumed; sensitivity is monitored on the implementation by single edits"],
    },
    "C07": {
        "modules": ["XetProps.C07Final"],
        "theorems": [
            "Xet.Xorb.C07_le3_roundtrip", "Xet.Xorb.C07_le32_roundtrip", "Xet.Xorb.C07_hash_bytes_roundtrip",
            "Xet.Xorb.C07_scheme_code_roundtrip", "Xet.Xorb.C07_max_chunk_fits",
            "Xet.Xorb.C07_const_chunk_version", "Xet.Xorb.C07_const_ident_main", "Xet.Xorb.C07_const_ident_hashes",
            "Xet.Xorb.C07_const_ident_boundaries", "Xet.Xorb.C07_const_format_version", "Xet.Xorb.C07_const_format_version_ne_v0",
            "Xet.Xorb.C07_const_hashes_version", "Xet.Xorb.C07_const_boundaries_version",
            "Xet.Xorb.C07_chunk_header_roundtrip", "Xet.Xorb.C07_chunk_roundtrip", "Xet.Xorb.C07_chunk_size",
            "Xet.Xorb.C07_decoders_agree", "Xet.Xorb.C07_footer_roundtrip", "Xet.Xorb.C07_footer_length",
            "Xet.Xorb.C07_footer_body_roundtrip", "Xet.Xorb.C07_object_roundtrip", "Xet.Xorb.C07_serialized_footer_wf",
            "Xet.Xorb.C07_chunk_roundtrip_final", "Xet.Xorb.C07_decoders_agree_final", "Xet.Xorb.C07_object_roundtrip_final",
            "Xet.Bg4.C07_bg4", "Xet.Bg4.C07_bg4_sizes", "Xet.Bg4.C07_bg4_inverse",
        ],
        "suites": ["bg4", "xorb"],
        "level_text": "Theorems for every LZ4 codec pair that round-trips, every scheme per chunk (None/LZ4/BG4+LZ4, automatic choice as "
                      "oracle) including the incompressible fallback, all chunk lists bounded only by the u24/u32 field widths: chunk header, "
                      "single chunk (sync and async decoder), chunk sequences (sync = async = stream decoder = chunks + prefix-sum offsets), "
                      "footer V1, and the whole object: deserialize(serialize) returns the same CasObject, get_all_bytes and "
                      "get_bytes_by_chunk_range for EVERY range i<j<=n return exactly the chunks, uncompressed lengths are the sums; BG4 "
                      "regroup(split d) = d for every byte list (every residue mod 4). Tied to the Rust by byte-for-byte comparison of "
                      "serialized objects (the model re-serializes from the chunk data; LZ4 encoder output is an oracle verified by an "
                      "independent Lean LZ4 decoder), every range read, and the three decoders.",
        "design_ref": "DESIGN.md section 4, C07",
        "technique": "Lean 4 proof over an abstract LZ4 codec + byte-exact differential correspondence",
        "rule": "xorb: chunk lists of 1..200 [1500 thorough] chunks, lengths 1..131072 incl. every residue mod 4, contents random/zeros/"
                "text/f32/u16-pattern/mixed, scheme None/LZ4/BG4+LZ4/auto; all chunk ranges of small objects, random + invalid ranges of "
                "large ones; bg4: every length 0..70 and boundary lengths; distinct by hash of the object; non-trivial = at least two chunks",
        "assumptions": ["LZ4 frame codec round trip (Codec.RoundTrip): lz4_flex is not proved; the driver checks the Rust encoder's output "
                        "with an independent Lean decoder", "total uncompressed content < 2^32 and serialized size < 2^32 (u32 fields)",
                        "scheme choice (BG4Predictor heuristic, floats) is an oracle: any choice round-trips"],
    },
    "C09": {
        "modules": ["XetProps.C09Search"],
        "theorems": [
            "Xet.InterpSearch.C09_search_constants_ok", "Xet.InterpSearch.C09_search_bounds_production",
            "Xet.InterpSearch.C09_search_checked_ops", "Xet.InterpSearch.C09_search_safe", "Xet.InterpSearch.C09_search_arrangement",
            "Xet.InterpSearch.C09_search", "Xet.InterpSearch.C09_search_sound", "Xet.InterpSearch.C09_search_list",
            "Xet.InterpSearch.C09_search_production",
        ],
        "suites": ["shard", "interp_search"],
        "level_text": "Interpolation search (search_on_sorted_u64s): theorem for every sorted table, every probe function (so float rounding is "
                      "irrelevant), key and capacity: the result is a permutation of all values stored under the key when fewer than the "
                      "capacity match, else exactly capacity of them; every read index lies in the table, no u64 under/overflow, termination. "
                      "Shard file format: the byte-exact Lean model of serialize_from and of all readers is tied to the Rust by differential "
                      "runs (serialized bytes, every file lookup incl. absent and prefix-colliding hashes, scans, totals, size accounting); "
                      "the round-trip theorems over the format model are being added (see evidence obligations).",
        "design_ref": "DESIGN.md section 4, C09",
        "technique": "Lean 4 proof (loop invariant, all probe oracles) + byte-exact differential correspondence of the shard format",
        "rule": "shard: contents 0..250 xorbs / 0..400 files, key distributions uniform/clustered/extremes/shared truncated prefix (1..9 equal "
                "prefixes), duplicate chunk hashes, re-added keys, all four flag combinations, empty records; every stored file hash + adjacent "
                "absent hashes looked up; interp_search: sorted tables 0..4000 [40000] records in 8 key distributions x present/absent/"
                "neighbour keys x capacity 1..10 with full seek-trace comparison; distinct by content hash; non-trivial = >=2 records / loop ran",
        "assumptions": ["the f64 expression of compute_probe_location is an arbitrary function in the theorems",
                        "sort_unstable_by_key order among equal truncated chunk hashes is canonicalised before comparison"],
    },
    "C20": {
        "modules": ["XetProps.C20"],
        "theorems": [
            "Xet.Singleflight.C20_one_task",
            "Xet.Singleflight.C20_runTask_first",
            "Xet.Singleflight.C20_outcome",
            "Xet.Singleflight.C20_outcome_same_key",
            "Xet.Singleflight.C20_keys_separate",
            "Xet.Singleflight.C20_flight_agrees",
            "Xet.Singleflight.C20_unique_owner",
            "Xet.Singleflight.C20_no_lost_wakeup",
            "Xet.Singleflight.C20_waiter_wakes",
            "Xet.Singleflight.C20_new_flight",
            "Xet.Singleflight.C20_no_deadlock",
            "Xet.Singleflight.C20_runs_bounded",
            "Xet.Singleflight.C20_progress",
        ],
        "suites": ["singleflight"],
        "level_text": "Theorems for every number of callers and keys, every interleaving of the code's lock regions and every task outcome "
                      "(ok/err/panic), proved as one inductive invariant over all action sequences of a small-step model of "
                      "Group::work/get_call_or_create/remove_call, Call::complete/get_future/get and OwnerTask+PinnedDrop: at most one task "
                      "run per CallId (exactly one once a result exists), every returned caller got exactly its flight's stored outcome "
                      "(never NoResult/CallMissing), different keys never share a CallId, a completed call has no un-notified registered "
                      "waiter, a lookup never joins a flight whose owner has run remove_call (fresh CallId otherwise), and every maximal "
                      "execution is finite and ends with every caller returned (variant + per-caller deadlock freedom). Tied to the Rust "
                      "Group by trace inclusion: hook-logged event orders of real runs on current-thread, multi-thread and several "
                      "current-thread runtimes are replayed through the model's step function (including observed created/found, "
                      "read/registered, returned values).",
        "design_ref": "DESIGN.md section 4, C20",
        "technique": "Lean 4 proof (inductive invariant over an interleaving semantics; variant for progress) + trace-inclusion correspondence "
                     "with seeded schedules and parked narrow windows",
        "rule": "cases = (runtime ct/mt/multi-ct, 1..7 callers [12 thorough], 1..3 keys, per-caller arrival delay none/yields/sleep/until-N-events/"
                "wave after k returns, task duration likewise, outcome ok/err/panic, per-(caller,window) park none/sleep/wait-for-N-events/"
                "thread-yield) + 4 directed window scenarios; distinct by hash(mode, keys, observed event order); non-trivial = some flight "
                "shared by at least two callers",
        "assumptions": ["atomicity of the model actions = documented semantics of tokio Mutex, parking_lot RwLock, tokio Notify "
                        "(a Notified future created before notify_waiters is woken even if not yet polled) and of the tokio task harness "
                        "(a panicking task's future is dropped before its JoinHandle resolves): modelled, not verified",
                        "an enabled action is eventually executed (the runtime keeps polling woken tasks); the runtime itself is not modelled",
                        "cancellation of the owning caller is outside C20's quantifier (F13, observed in the thorough tier, not claimed)",
                        "outcomes are canonicalised: InternalError(e)/WaiterInternalError(fmt e) -> err e, JoinError/OwnerPanicked -> panic"],
    },
    "C17": {
        "modules": ["XetProps.C17"],
        "theorems": [
            "Xet.Recon.C17_sequential",
            "Xet.Recon.C17_parallel",
            "Xet.Recon.C17_parallel_tiling",
            "Xet.Recon.C17_seq_eq_par",
            "Xet.Recon.C17_warm_eq_cold",
            "Xet.Recon.C17_trim",
            "Xet.Recon.C17_get_one_term",
            "Xet.Recon.C17_seq_reported_edge",
        ],
        "suites": ["reconstruct"],
        "level_text": "Theorems for every well-formed plan (any number of terms, repeated xorbs, any fetch ranges containing their terms, "
                      "any chunk sizes >= 1, no size bounds), every byte range with offset + (end-start) <= |concatenated terms| (or no range, "
                      "offset 0), every cache behaviour whose hits return what was put, and EVERY completion order of the parallel writer's "
                      "tasks: the code-shaped model of reconstruct_file_to_writer / reconstruct_file_to_writer_parallel / write_term / "
                      "get_one_term outputs ((terms' data).drop offset).take len, returns len = bytes written, the positioned writes are "
                      "pairwise disjoint and tile [0,len), sequential = parallel, warm = cold = no cache, trimming by chunk byte indices returns "
                      "exactly the term's chunks. Tied to the Rust RemoteClient by a differential run against a loop-back HTTP server and the "
                      "real DiskCache (output digest + returned length per plan x range x writer x cache mode), plus monitors on the implementation.",
        "design_ref": "DESIGN.md section 4, C17",
        "technique": "Lean 4 proof (induction over the term list; pointwise invariant for writes applied in any order) + differential correspondence",
        "rule": "cases = (plan: 1..9 [40 thorough] terms over 1..4 xorbs of 1..9 [24] chunks of 1..3500 [20500] bytes of non-constant data, "
                "repeated xorbs / repeated identical terms, fetch-info style exact / enlarged / hull / whole-xorb / mixed (+ a decoy range), "
                "Vec order shuffled, optional response delays) x (range class: none, whole-explicit, single/first/last byte, random, prefix, "
                "suffix(end = file length), boundary-aligned, inside-one-term, mid-start-mid-end, straddle-boundary; optional trailing extra "
                "terms) x (sequential, parallel) x (cache off, cold, warm); distinct by hash(terms, call, data prefix); "
                "non-trivial = at least 2 terms in the call and a mid-term start or mid-term end",
        "assumptions": ["HTTP layer / blob store modelled as 'chunk range -> those chunks' (httpmock + reqwest are compared, not proved)",
                        "chunk cache modelled as an oracle whose hits return the bytes that were put (C12's conclusion, hypothesis CacheFaithful); "
                        "cache.put has no effect on the value returned by get_one_term (false on the real code under concurrent puts: finding F15)",
                        "every fetch-info has its own URL (as the production server's presigned per-range URLs); with a URL shared by two "
                        "fetch ranges the real single-flight group mixes the ranges: finding F14",
                        "tokio scheduling = arbitrary permutation of the positioned writes; dev-profile panics are explicit model outcomes",
                        "well-formedness excludes 'no byte range but offset > 0' (sequential writer then returns more than it wrote, theorem C17_seq_reported_edge)"],
    },
}

HOOK_COMMITS = ["9bb2102", "a056c58", "25c3aff", "24644df", "9cc9f64"]
NOT_YET = {}
