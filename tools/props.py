"""Per-property configuration of the check: Lean modules, theorem obligations, correspondence suites."""

TRUSTED_BASE = [
    "Lean 4.33.0 kernel (leanchecker re-check in the thorough tier)",
    "axioms allowed per theorem: propext, Classical.choice, Quot.sound (audited with #print axioms on every run)",
    "correspondence harness (/verif/harness) + line-protocol driver (/verif/lean/Driver): the only tie between model and Rust code",
    "constant extractor tools/extract_consts.py (regenerates XetModel/Generated/Consts.lean from the Rust sources on every run)",
    "Rust code is modelled, not verified: theorems are about the Lean model; BLAKE3/SHA-256/CRC-32/LZ4/gearhash-SIMD are compared, not proved",
]

PROPS = {
    "C04": {
        "modules": ["XetProps.C04"],
        "theorems": [
            "Xet.Chunker.C04_params_ok",
            "Xet.Chunker.C04_production_params",
            "Xet.Chunker.C04_partition_independent",
            "Xet.Chunker.C04_any_two_partitions",
            "Xet.Chunker.C04_concat_spec",
            "Xet.Chunker.C04_concat",
            "Xet.Chunker.C04_bounds_all",
            "Xet.Chunker.C04_bounds_min",
            "Xet.Chunker.C04_content_defined",
            "Xet.Chunker.C04_content_defined_list",
            "Xet.Chunker.C04_chunks_are_complete",
            "Xet.Chunker.C04_next_safe",
            "Xet.Chunker.specSplitR_eq",
        ],
        "suites": ["chunker"],
        "level_text": "Theorems for every byte stream, every partition into calls and every Params with minC<maxC: the code-shaped model of "
                      "Chunker::next/next_block/finish equals the reference byte automaton (partition independence), chunks concatenate to the "
                      "input, bounds, content-definedness, no usize underflow. Tied to the Rust Chunker by a differential run (boundaries and the "
                      "per-call (chunk?, consumed) trace) over generated and engineered streams; the gear table and constants are re-extracted from source.",
        "design_ref": "DESIGN.md section 4, C04",
        "technique": "Lean 4 proof (induction over the byte list; refinement code-shaped next -> byte automaton) + differential correspondence",
        "rule": "cases = (target 2^7..2^16 [2^20 thorough], stream kind random/constant/periodic/low-entropy/never-match/engineered-match, "
                "partition one-shot/fixed/random incl. 0- and 1-byte calls); distinct by hash(stream, partition, target); "
                "non-trivial = produced at least two chunks",
        "assumptions": ["gearhash SIMD path == scalar semantics (compared on every case, not proved)",
                        "compute_data_hash of chunks is checked by the C06 suite, here only by the harness monitor"],
    },
    "C06": {
        "modules": ["XetProps.C06"],
        "theorems": [
            "Xet.Merkle.C06_branching_ok",
            "Xet.Merkle.C06_level_shrinks",
            "Xet.Merkle.C06_merge_terminates",
            "Xet.Merkle.C06_producer_eq_validators",
            "Xet.Merkle.C06_hex_roundtrip",
            "Xet.Merkle.C06_hex_length",
            "Xet.Merkle.C06_hex_injective",
            "Xet.Merkle.C06_hashedwrite_streaming",
        ],
        "suites": ["hashes"],
        "level_text": "Theorems for every chunk list and every choice of hash primitives: producer xorb hash = validators' route, merge "
                      "terminates with one root and every level shrinks, hex text form round-trips and is injective, the streaming HashedWrite "
                      "digest equals the one-shot hash for every pattern of short inner writes. 'Equals an independent implementation of the "
                      "published construction' is decided by the correspondence: an independent Lean BLAKE3 recomputes every data/internal/"
                      "xorb/file/range/hmac hash the Rust code produces.",
        "design_ref": "DESIGN.md section 4, C06",
        "technique": "Lean 4 proof over abstract hash primitives + differential correspondence with an independent Lean BLAKE3",
        "rule": "cases = byte strings at every BLAKE3 block/chunk/tree boundary + random lengths; chunk lists of 0..5000 entries with controlled "
                "hash[3]%4 patterns, repeated hashes (same/different length), zero hash, extreme lengths; salts; hmac keys; hex texts (valid, "
                "upper-case, short, long, non-hex); HashedWrite with short inner writes. distinct by content hash; non-trivial = more than "
                "one BLAKE3 chunk / at least 3 list entries",
        "assumptions": ["BLAKE3 itself is compared against an independent implementation, not proved",
                        "collision resistance is never assumed; sensitivity is monitored on the implementation by single edits"],
    },
}

HOOK_COMMITS = []
NOT_YET = {}
