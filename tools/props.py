"""Per-property configuration of the check: Lean modules, theorem obligations, correspondence suites."""

TRUSTED_BASE = [
    "Lean 4.33.0 kernel (leanchecker re-check in the thorough tier)",
    "axioms allowed per theorem: propext, Classical.choice, Quot.sound (audited with #print axioms on every run)",
    "correspondence harness (/verif/harness) + line-protocol driver (/verif/lean/Driver): the only tie between model and Rust code",
    "constant extractor tools/extract_consts.py (regenerates XetModel/Generated/Consts.lean from the Rust sources on every run)",
    "Rust code is modelled, not verified: theorems are about the Lean model; BLAKE3/SHA-256/CRC-32/LZ4/gearhash-SIMD are compared, not proved",
]

PROPS = {
    "C04": {
        "modules": ["XetProps.C04"],
        "theorems": [
            "Xet.Chunker.C04_params_ok",
            "Xet.Chunker.C04_production_params",
            "Xet.Chunker.C04_partition_independent",
            "Xet.Chunker.C04_any_two_partitions",
            "Xet.Chunker.C04_concat_spec",
            "Xet.Chunker.C04_concat",
            "Xet.Chunker.C04_bounds_all",
            "Xet.Chunker.C04_bounds_min",
            "Xet.Chunker.C04_content_defined",
            "Xet.Chunker.C04_content_defined_list",
            "Xet.Chunker.C04_chunks_are_complete",
            "Xet.Chunker.C04_next_safe",
            "Xet.Chunker.specSplitR_eq",
        ],
        "suites": ["chunker", "session"],
        "level_text": "Theorems for every byte stream, every partition into calls and every Params with minC<maxC: the code-shaped model of "
                      "Chunker::next/next_block/finish equals the reference byte automaton (partition independence), chunks concatenate to the "
                      "input, bounds, content-definedness, no usize underflow. Tied to the Rust Chunker by a differential run (boundaries and the "
                      "per-call (chunk?, consumed) trace) over generated and engineered streams; the gear table and constants are re-extracted from source. "
                      "The glue that decides which call partition the chunker sees (SingleFileCleaner::add_data's re-partitioning of large calls, "
                      "data_client::clean_file's read loop) is covered by the session suite: the chunks the cleaner cut = the one-shot chunking of the bytes.",
        "design_ref": "DESIGN.md section 4, C04",
        "technique": "Lean 4 proof (induction over the byte list; refinement code-shaped next -> byte automaton) + differential correspondence",
        "rule": "cases = (target 2^7..2^16 [2^20 thorough], stream kind random/constant/periodic/low-entropy/never-match/engineered-match, "
                "partition one-shot/fixed/random incl. 0- and 1-byte calls); distinct by hash(stream, partition, target); "
                "non-trivial = produced at least two chunks",
        "assumptions": ["gearhash SIMD path == scalar semantics (compared on every case, not proved)",
                        "compute_data_hash of chunks is checked by the C06 suite, here only by the harness monitor"],
    },
    "C06": {
        "modules": ["XetProps.C06", "XetProps.C06Sens", "XetProps.C06Text"],
        "spec_ops": ["hash.", "hex.", "hashedwrite"],
        "theorems": [
            "Xet.Merkle.C06_sensitivity",
            "Xet.Merkle.C06_sensitivity_root",
            "Xet.Merkle.C06_sensitivity_file",
            "Xet.Merkle.C06_sensitivity_range",
            "Xet.Merkle.C06_sensitivity_data",
            "Xet.Merkle.C06_lens_functional_data",
            "Xet.Merkle.C06_decimal_inj",
            "Xet.Merkle.C06_nodeText_inj",
            "Xet.Merkle.C06_hashNodeSeq_extract",
            "Xet.Merkle.C06_tree_leaves",
            "Xet.Merkle.C06_tree_hash",
            "Xet.Merkle.C06_memo_irrelevant",
            "Xet.Merkle.C06_memo_irrelevant_pure",
            "Xet.Merkle.C06_memo_bridge",
            "Xet.Merkle.C06_memo_bridge_hyp",
            "Xet.Merkle.C06_branching_ok",
            "Xet.Merkle.C06_level_shrinks",
            "Xet.Merkle.C06_merge_terminates",
            "Xet.Merkle.C06_producer_eq_validators",
            "Xet.Merkle.C06_hex_roundtrip",
            "Xet.Merkle.C06_hex_length",
            "Xet.Merkle.C06_hex_injective",
            "Xet.Merkle.C06_hashedwrite_streaming",
            "Xet.Merkle.C06_hashedwrite_streaming_faulty",
            "Xet.Merkle.C06_hashedwrite_retry_exact",
            "Xet.Hash.C06_base64_roundtrip", "Xet.Hash.C06_base64_shape", "Xet.Hash.C06_base64_injective",
            "Xet.Hash.C06_base64_bytes_roundtrip", "Xet.Hash.C06_base64_rejects_padding",
            "Xet.Hash.C06_base64_canonical", "Xet.Hash.C06_base64_unique_text", "Xet.Hash.C06_base64_parse_iff",
        ],
        "suites": ["hashes", "xorb_validate"],
        "level_text": "Theorems for every chunk list and every choice of hash primitives: producer xorb hash = validators' route, merge "
                      "terminates with one root and every level shrinks, sensitivity in collision-extraction form (two different non-empty chunk lists "
                      "with equal xorb/file/range hash yield an explicit collision of a hash primitive, a leaf hash in the range of the interior "
                      "hash, or the single-leaf length case - no injectivity of any hash is assumed), the memo database is irrelevant exactly "
                      "under MemoConsistent, hex text form round-trips and is injective, the streaming HashedWrite "
                      "digest equals the one-shot hash for every pattern of short inner writes and of transient inner-writer errors with the caller "
                      "presenting the rest again (the bytes that reached the inner writer are then a prefix of the caller's data). 'Equals an independent implementation of the "
                      "published construction' is decided by the correspondence: an independent Lean BLAKE3 recomputes every data/internal/"
                      "xorb/file/range/hmac hash the Rust code produces.",
        "design_ref": "DESIGN.md section 4, C06",
        "technique": "Lean 4 proof over abstract hash primitives + differential correspondence with an independent Lean BLAKE3",
        "rule": "cases = byte strings at every BLAKE3 block/chunk/tree boundary + random lengths; chunk lists of 0..5000 entries with controlled "
                "hash[3]%4 patterns, repeated hashes (same/different length), zero hash, extreme lengths; salts; hmac keys; hex texts (valid, "
                "upper-case, short, long, non-hex); HashedWrite with short inner writes and with transient errors after partial progress. distinct by content hash; non-trivial = more than "
                "one BLAKE3 chunk / at least 3 list entries",
        "assumptions": ["BLAKE3 itself is compared against an independent implementation, not proved",
                        "collision resistance is never assumed; sensitivity is monitored on the implementation by single edits"],
    },
    "C07": {
        "modules": ["XetProps.C07Final"],
        "theorems": [
            "Xet.Xorb.C07_le3_roundtrip", "Xet.Xorb.C07_le32_roundtrip", "Xet.Xorb.C07_hash_bytes_roundtrip",
            "Xet.Xorb.C07_scheme_code_roundtrip", "Xet.Xorb.C07_max_chunk_fits",
            "Xet.Xorb.C07_const_chunk_version", "Xet.Xorb.C07_const_ident_main", "Xet.Xorb.C07_const_ident_hashes",
            "Xet.Xorb.C07_const_ident_boundaries", "Xet.Xorb.C07_const_format_version", "Xet.Xorb.C07_const_format_version_ne_v0",
            "Xet.Xorb.C07_const_hashes_version", "Xet.Xorb.C07_const_boundaries_version",
            "Xet.Xorb.C07_chunk_header_roundtrip", "Xet.Xorb.C07_chunk_roundtrip", "Xet.Xorb.C07_chunk_size",
            "Xet.Xorb.C07_decoders_agree", "Xet.Xorb.C07_footer_roundtrip", "Xet.Xorb.C07_footer_length",
            "Xet.Xorb.C07_footer_body_roundtrip", "Xet.Xorb.C07_object_roundtrip", "Xet.Xorb.C07_serialized_footer_wf",
            "Xet.Xorb.C07_chunk_roundtrip_final", "Xet.Xorb.C07_decoders_agree_final", "Xet.Xorb.C07_object_roundtrip_final",
            "Xet.Bg4.C07_bg4", "Xet.Bg4.C07_bg4_sizes", "Xet.Bg4.C07_bg4_inverse",
        ],
        "suites": ["bg4", "xorb"],
        "level_text": "Theorems for every LZ4 codec pair that round-trips, every scheme per chunk (None/LZ4/BG4+LZ4, automatic choice as "
                      "oracle) including the incompressible fallback, all chunk lists bounded only by the u24/u32 field widths: chunk header, "
                      "single chunk (sync and async decoder), chunk sequences (sync = async = stream decoder = chunks + prefix-sum offsets), "
                      "footer V1, and the whole object: deserialize(serialize) returns the same CasObject, get_all_bytes and "
                      "get_bytes_by_chunk_range for EVERY range i<j<=n return exactly the chunks, uncompressed lengths are the sums; BG4 "
                      "regroup(split d) = d for every byte list (every residue mod 4). Tied to the Rust by byte-for-byte comparison of "
                      "serialized objects (the model re-serializes from the chunk data; LZ4 encoder output is an oracle verified by an "
                      "independent Lean LZ4 decoder), every range read, and the three decoders.",
        "design_ref": "DESIGN.md section 4, C07",
        "technique": "Lean 4 proof over an abstract LZ4 codec + byte-exact differential correspondence",
        "rule": "xorb: chunk lists of 1..200 [1500 thorough] chunks, lengths 1..131072 incl. every residue mod 4, contents random/zeros/"
                "text/f32/u16-pattern/mixed, scheme None/LZ4/BG4+LZ4/auto; all chunk ranges of small objects, random + invalid ranges of "
                "large ones; bg4: every length 0..70 and boundary lengths; distinct by hash of the object; non-trivial = at least two chunks",
        "assumptions": ["LZ4 frame codec round trip (Codec.RoundTrip): lz4_flex is not proved; the driver checks the Rust encoder's output "
                        "with an independent Lean decoder", "total uncompressed content < 2^32 and serialized size < 2^32 (u32 fields)",
                        "scheme choice (BG4Predictor heuristic, floats) is an oracle: any choice round-trips"],
    },
    "C09": {
        "modules": ["XetProps.C09Search", "XetProps.C09", "XetProps.C09Readers"],
        "theorems": [
            "Xet.InterpSearch.C09_search_constants_ok", "Xet.InterpSearch.C09_search_bounds_production",
            "Xet.InterpSearch.C09_search_checked_ops", "Xet.InterpSearch.C09_search_safe", "Xet.InterpSearch.C09_search_arrangement",
            "Xet.InterpSearch.C09_search", "Xet.InterpSearch.C09_search_sound", "Xet.InterpSearch.C09_search_list",
            "Xet.InterpSearch.C09_search_production",
            "Xet.Shard.C09_scan", "Xet.Shard.C09_scan_offsets", "Xet.Shard.C09_scan_tables", "Xet.Shard.C09_stable_table_legal",
            "Xet.Shard.C09_totals", "Xet.Shard.C09_totals_fit", "Xet.Shard.C09_size", "Xet.Shard.C09_accounting_invariant",
            "Xet.Shard.C09_size_built", "Xet.Shard.C09_file_lookup", "Xet.Shard.C09_file_lookup_present",
            "Xet.Shard.C09_file_lookup_absent", "Xet.Shard.C09_file_lookup_sound", "Xet.Shard.C09_file_lookup_any_order",
            "Xet.Shard.C09_file_table", "Xet.Shard.C09_cas_table", "Xet.Shard.C09_lookup_sorted", "Xet.Shard.C09_sortByKey",
            "Xet.Shard.C09_hash_order", "Xet.Shard.C09_built_sorted", "Xet.Shard.C09_file_record_roundtrip",
            "Xet.Shard.C09_cas_record_roundtrip", "Xet.Shard.C09_bookend", "Xet.Shard.C09_footer_roundtrip",
            "Xet.Shard.C09_readers_agree", "Xet.Shard.C09_readers_exact", "Xet.Shard.C09_stream_views_return",
            "Xet.Shard.C09_minimal_accessors", "Xet.Shard.C09_minimal_size", "Xet.Shard.C09_minimal_reserialize",
            "Xet.Shard.C09_minimal_reserialize_flags", "Xet.Shard.C09_readers_any_trailer", "Xet.Shard.C09_readers_keyed_export",
            "Xet.Shard.C09_stream_total", "Xet.Shard.C09_minimal_total", "Xet.Shard.C09_walk_fuel_adequate",
            "Xet.Shard.C09_stream_wrong_tag", "Xet.Shard.C09_truncated_stream", "Xet.Shard.C09_truncated_prefix",
            "Xet.Shard.C09_truncated_minimal", "Xet.Shard.C09_cut_after_sections", "Xet.Shard.C09_sections_end",
            "Xet.Shard.C09_readers_agree_any_input", "Xet.Shard.C09_minimal_accessors_total",
        ],
        "suites": ["shard", "interp_search", "shard_stream"],
        "level_text": "Interpolation search (search_on_sorted_u64s): theorem for every sorted table, every probe function (so float rounding is "
                      "irrelevant), key and capacity: the result is a permutation of all values stored under the key when fewer than the "
                      "capacity match, else exactly capacity of them; every read index lies in the table, no u64 under/overflow, termination. "
                      "Shard file format: the byte-exact Lean model of serialize_from and of all readers is tied to the Rust by differential "
                      "runs (serialized bytes, every file lookup incl. absent and prefix-colliding hashes, scans, totals, size accounting); "
                      "round-trip theorems for every well-formed in-memory content (decidable Mem.WF), any size and key distribution and every chunk table "
                      "the unstable sort may produce: the seekable readers applied to serialize(m) return exactly the footer, the file records, "
                      "the xorb records and the chunk table; get_file_reconstruction_info(h) returns the stored record / not-found for EVERY hash "
                      "when fewer than 8 stored files share its truncated prefix (for every order the search may deliver matches) and the collision "
                      "error otherwise; lookup tables are key-sorted; footer totals and serialized length equal the in-memory accounting (invariant "
                      "preserved by add_cas_block/add_file_reconstruction_info incl. replacements). Streaming and minimal readers (process_shard_stream and its section "
                      "walkers, MDBFileInfoView/MDBCASInfoView, MDBMinimalShard::from_reader/file/cas/serialize) are modelled code-shaped on a "
                      "front-to-back byte stream; theorems for every well-formed content and every chunk table: with every callback / "
                      "include_files / include_cas combination they return exactly the stored file and xorb records in order (raw bytes, owned "
                      "re-decoding, header, entry(i), verification(i), chunk(i)), hence agree with the seekable scans; the same on every keyed "
                      "export (8 flag combinations) and with any bytes behind the CAS bookend; the re-serialized minimal shard is read back by the "
                      "seekable reader with the content's records and byte totals; on ANY input both readers end Ok / UnexpectedEof / "
                      "ShardVersionError (the loops need no fuel), the minimal reader fails exactly when the streaming reader fails and otherwise "
                      "stores exactly the delivered views, and file(i)/cas(i) never hit their expect() (data up to 4 GiB); a shard truncated "
                      "before the end of the CAS bookend gives UnexpectedEof after delivering exactly the complete records before the cut.",
        "design_ref": "DESIGN.md section 4, C09",
        "technique": "Lean 4 proof (loop invariant, all probe oracles) + byte-exact differential correspondence of the shard format",
        "rule": "shard: contents 0..250 xorbs / 0..400 files, key distributions uniform/clustered/extremes/shared truncated prefix (1..9 equal "
                "prefixes), duplicate chunk hashes, re-added keys, all four flag combinations, empty records; every stored file hash + adjacent "
                "absent hashes looked up; interp_search: sorted tables 0..4000 [40000] records in 8 key distributions x present/absent/"
                "neighbour keys x capacity 1..10 with full seek-trace comparison; shard_stream: contents 0..25 [80] xorbs / 0..40 [120] files, "
                "4 key distributions, all four flag combinations, empty records, empty shard; per shard 2 [4] keyed exports and 3 [8] corrupted "
                "images; 4 callback x 4 option combinations x Cursor / 1-61-byte pieces / async slice / async pieces; truncations at every "
                "record boundary -49..+49 bytes; distinct by content hash; non-trivial = >=2 records / loop ran",
        "assumptions": ["the f64 expression of compute_probe_location is an arbitrary function in the theorems",
                        "sort_unstable_by_key order among equal truncated chunk hashes is canonicalised before comparison",
                        "streaming readers: 64-bit usize; the reader yields no I/O error other than end of input; the per-record buffer reservation (Vec::with_capacity / resize from the announced entry count) succeeds - on a corrupted (not serialized) input announcing a huge count its failure aborts the process: observation O1 in DESIGN.md 9.4, outside C09 which speaks about serialized shards",
                        "MDBMinimalShard accessor theorems require the stored sections to fit the u32 offsets (<= 4 GiB); beyond that `len as u32` wraps (modelled by u32Wrap, excluded by hypothesis)"],
    },
    "C19": {
        "modules": ["XetProps.C19"],
        "theorems": [
            "Xet.CrashFS.C19_crash_states",
            "Xet.CrashFS.C19_crash_states_ends",
            "Xet.CrashFS.C19_leftovers_invisible",
            "Xet.CrashFS.C19_final_names",
            "Xet.CrashFS.C19_name_identifies_content",
            "Xet.CrashFS.C19_prefix_safe_flush",
            "Xet.CrashFS.C19_prefix_safe_write_out",
            "Xet.CrashFS.C19_prefix_safe_union",
            "Xet.CrashFS.C19_any_history_shard",
            "Xet.CrashFS.C19_prefix_safe_consolidate",
            "Xet.CrashFS.C19_consolidateFx",
            "Xet.CrashFS.C19_rounds_agree_with_C10",
            "Xet.CrashFS.C19_covers_records",
            "Xet.CrashFS.C19_prefix_safe_safe_file",
            "Xet.CrashFS.C19_prefix_safe_local_put",
            "Xet.CrashFS.C19_prefix_safe_cache_put",
            "Xet.CrashFS.C19_cache_item_name",
            "Xet.CrashFS.C19_reopen_inv_shard",
            "Xet.CrashFS.C19_reopen_inv_cache",
            "Xet.CrashFS.C19_temp_name_entropy",
        ],
        "suites": ["crash"],
        "level_text": "For every operation that publishes a file under a final name (shard flush, write_out_from_reader, shard_file_op, "
                      "consolidate_shards_in_directory, SafeFileCreator, LocalClient::put, DiskCache::put) the Rust code is compiled to its "
                      "sequence of file-system effects (create tmp, one append per write call, rename, unlink, mkdir/rmdir/chmod); theorems over EVERY "
                      "prefix of that sequence (every crash point), every split of the buffered writes, every temp name, every eviction choice and "
                      "every prior directory state satisfying the component's invariant: (a) every file under a final name is consistent with its name "
                      "(shard: name = data hash of content and a valid shard; xorb: validates for the hash in its name; cache item: length and CRC of "
                      "its name), nothing but the complete new content ever appears under the final name; (b) every final-named file of the start "
                      "state is still there unchanged, or (consolidation / subsuming cache put) a final-named file holding all its records is there: "
                      "the merged shard is renamed into place before any input is unlinked and is never unlinked itself; (c) temp names are matched "
                      "by none of the restart scans, the cache scan removes them; the invariant is re-established after restart and holds after any "
                      "history of interrupted writes. 'Name = content hash' only in collision-extraction form (alternative conclusion: an explicit "
                      "data-hash collision). Tied to the Rust by killing a child process with strace signal injection right before each of its "
                      "state-changing system calls (all crash points in the quick tier), comparing the observed effect sequence with the model's "
                      "(trace inclusion) and the real directory after the kill with the model's crash state, and running retrievability monitors with "
                      "the real loaders (ShardFileManager, MDBShardFile::load_all_valid, LocalClient, DiskCache) on the crashed directory. "
                      "Partial: the crash model is the property's own (completed system calls persist, rename atomic, no torn page cache, single "
                      "writer); fsync / directory-entry durability after power loss are outside any executable model here; clause (b) for items "
                      "subsumed by a cache put rests on the stated coverage hypothesis about the caller's data (ranges of one content-addressed xorb).",
        "design_ref": "DESIGN.md section 4, C19",
        "technique": "Lean 4 proof (frame lemma for write-temp-then-rename, induction over consolidation rounds, all prefixes) + crash-injecting "
                     "differential correspondence (strace -e inject=<syscall>:signal=SIGKILL:when=<n>)",
        "rule": "cases = (operation in {flush, writeout, consolidate, union, localput, cacheput, safefile}) x (3-5 prior histories each: empty dir, "
                "existing files, leftover temp of an earlier crash, identical content already present, guard cases (merge reproduces an input; "
                "directory left by an earlier killed consolidation), subsuming and evicting cache puts, replace_existing / new_unnamed) x (4 data seeds, "
                "16 thorough) x (every crash point k = 1..N, N = 2..16 per scenario; quick = all k if N <= 40); distinct by hash(op, history, effect "
                "sequence); non-trivial = at least 2 crash points",
        "assumptions": ["crash model: a completed system call persists, rename is atomic and replaces the target, the page cache is never torn, "
                        "no other process writes to the directory during the operation (C12/C13 cover concurrent cache users)",
                        "SafeFileCreator opens its temp file without O_TRUNC: modelled as creating an empty file, i.e. the 10-character random "
                        "temp name is assumed not to exist yet",
                        "cache, clause (b) for subsumed items: hypothesis hover/hsub (the new item's data covers the data of the items it subsumes)",
                        "validity of the written bytes is an input of the write theorems (flush: serialization of a well-formed content, proved; "
                        "write_out_from_reader / LocalClient::put: hypothesis V / Vx on the bytes handed in, discharged by C09/C10 resp. C08)",
                        "strace counts `when=` per thread and per system call; the suite derives every crash point's ordinal from a dry run and "
                        "checks that no other thread reaches it (otherwise key strace-failed)"],
    },
    "C20": {
        "modules": ["XetProps.C20"],
        "theorems": [
            "Xet.Singleflight.C20_one_task",
            "Xet.Singleflight.C20_runTask_first",
            "Xet.Singleflight.C20_outcome",
            "Xet.Singleflight.C20_outcome_same_key",
            "Xet.Singleflight.C20_keys_separate",
            "Xet.Singleflight.C20_flight_agrees",
            "Xet.Singleflight.C20_unique_owner",
            "Xet.Singleflight.C20_no_lost_wakeup",
            "Xet.Singleflight.C20_waiter_wakes",
            "Xet.Singleflight.C20_new_flight",
            "Xet.Singleflight.C20_no_deadlock",
            "Xet.Singleflight.C20_runs_bounded",
            "Xet.Singleflight.C20_progress",
        ],
        "suites": ["singleflight"],
        "level_text": "Theorems for every number of callers and keys, every interleaving of the code's lock regions and every task outcome "
                      "(ok/err/panic), proved as one inductive invariant over all action sequences of a small-step model of "
                      "Group::work/get_call_or_create/remove_call, Call::complete/get_future/get and OwnerTask+PinnedDrop: at most one task "
                      "run per CallId (exactly one once a result exists), every returned caller got exactly its flight's stored outcome "
                      "(never NoResult/CallMissing), different keys never share a CallId, a completed call has no un-notified registered "
                      "waiter, a lookup never joins a flight whose owner has run remove_call (fresh CallId otherwise), and every maximal "
                      "execution is finite and ends with every caller returned (variant + per-caller deadlock freedom). Tied to the Rust "
                      "Group by trace inclusion: hook-logged event orders of real runs on current-thread, multi-thread and several "
                      "current-thread runtimes are replayed through the model's step function (including observed created/found, "
                      "read/registered, returned values).",
        "design_ref": "DESIGN.md section 4, C20",
        "technique": "Lean 4 proof (inductive invariant over an interleaving semantics; variant for progress) + trace-inclusion correspondence "
                     "with seeded schedules and parked narrow windows",
        "rule": "cases = (runtime ct/mt/multi-ct, 1..7 callers [12 thorough], 1..3 keys, per-caller arrival delay none/yields/sleep/until-N-events/"
                "wave after k returns, task duration likewise, outcome ok/err/panic, per-(caller,window) park none/sleep/wait-for-N-events/"
                "thread-yield) + 4 directed window scenarios; distinct by hash(mode, keys, observed event order); non-trivial = some flight "
                "shared by at least two callers",
        "assumptions": ["atomicity of the model actions = documented semantics of tokio Mutex, parking_lot RwLock, tokio Notify "
                        "(a Notified future created before notify_waiters is woken even if not yet polled) and of the tokio task harness "
                        "(a panicking task's future is dropped before its JoinHandle resolves): modelled, not verified",
                        "an enabled action is eventually executed (the runtime keeps polling woken tasks); the runtime itself is not modelled",
                        "cancellation of the owning caller is outside C20's quantifier (F13, observed in the thorough tier, not claimed)",
                        "outcomes are canonicalised: InternalError(e)/WaiterInternalError(fmt e) -> err e, JoinError/OwnerPanicked -> panic"],
    },
    "C17": {
        "modules": ["XetProps.C17"],
        "theorems": [
            "Xet.Recon.C17_sequential",
            "Xet.Recon.C17_parallel",
            "Xet.Recon.C17_parallel_tiling",
            "Xet.Recon.C17_seq_eq_par",
            "Xet.Recon.C17_warm_eq_cold",
            "Xet.Recon.C17_trim",
            "Xet.Recon.C17_get_one_term",
            "Xet.Recon.C17_seq_reported_edge",
            "Xet.Recon.C17_fetch_sharing_needs_fetch_range_key",
        ],
        "suites": ["reconstruct"],
        "level_text": "Theorems for every well-formed plan (any number of terms, repeated xorbs, any fetch ranges containing their terms, "
                      "any chunk sizes >= 1, no size bounds), every byte range with offset + (end-start) <= |concatenated terms| (or no range, "
                      "offset 0), every cache behaviour whose hits return what was put, and EVERY completion order of the parallel writer's "
                      "tasks: the code-shaped model of reconstruct_file_to_writer / reconstruct_file_to_writer_parallel / write_term / "
                      "get_one_term outputs ((terms' data).drop offset).take len, returns len = bytes written, the positioned writes are "
                      "pairwise disjoint and tile [0,len), sequential = parallel, warm = cold = no cache, trimming by chunk byte indices returns "
                      "exactly the term's chunks. Tied to the Rust RemoteClient by a differential run against a loop-back HTTP server and the "
                      "real DiskCache (output digest + returned length per plan x range x writer x cache mode), plus monitors on the implementation.",
        "design_ref": "DESIGN.md section 4, C17",
        "technique": "Lean 4 proof (induction over the term list; pointwise invariant for writes applied in any order) + differential correspondence",
        "rule": "cases = (plan: 1..9 [40 thorough] terms over 1..4 xorbs of 1..9 [24] chunks of 1..3500 [20500] bytes of non-constant data, "
                "repeated xorbs / repeated identical terms, fetch-info style exact / enlarged / hull / whole-xorb / mixed (+ a decoy range), "
                "Vec order shuffled, optional response delays) x (range class: none, whole-explicit, single/first/last byte, random, prefix, "
                "suffix(end = file length), boundary-aligned, inside-one-term, mid-start-mid-end, straddle-boundary; optional trailing extra "
                "terms) x (sequential, parallel) x (cache off, cold, warm); distinct by hash(terms, call, data prefix); "
                "non-trivial = at least 2 terms in the call and a mid-term start or mid-term end",
        "assumptions": ["HTTP layer / blob store modelled as 'chunk range -> those chunks' (httpmock + reqwest are compared, not proved)",
                        "chunk cache modelled as an oracle whose hits return the bytes that were put (C12's conclusion, hypothesis CacheFaithful); "
                        "cache.put has no effect on the value returned by get_one_term (false on the real code under concurrent puts: finding F15)",
                        "every fetch-info has its own URL (as the production server's presigned per-range URLs); with a URL shared by two "
                        "fetch ranges the real single-flight group mixes the ranges: finding F14",
                        "tokio scheduling = arbitrary permutation of the positioned writes; dev-profile panics are explicit model outcomes",
                        "well-formedness excludes 'no byte range but offset > 0' (sequential writer then returns more than it wrote, theorem C17_seq_reported_edge)"],
    },
    "C05": {
        "modules": ["XetProps.C05", "XetProps.C05Manager"],
        "theorems": [
            "Xet.Shard.C05_mem_loop", "Xet.Shard.C05_mem_zero_iff", "Xet.Shard.C05_lookup_invariant", "Xet.Shard.C05_mem",
            "Xet.Shard.C05_truthful_index", "Xet.Shard.C05_direct", "Xet.Shard.C05_disk", "Xet.Shard.C05_first_n",
            "Xet.Shard.C05_disk_wf", "Xet.Shard.C05_disk_wf_candidates",
            "Xet.Shard.C05_manager", "Xet.Shard.C05_manager_first_n", "Xet.Shard.C05_manager_invariants",
            "Xet.Shard.C05_manager_invariants_step", "Xet.Shard.C05_manager_invariants_preserved",
            "Xet.Shard.C05_manager_reachable", "Xet.Shard.C05_manager_wf", "Xet.Shard.C05_manager_wf_unkeyed",
            "Xet.Shard.DirectTruthful.first_n",
        ],
        "suites": ["shard", "manager"],
        "level_text": "In-memory index: for every shard reachable from the empty one by add_cas_block / add_file_reconstruction_info / union / "
                      "difference the lookup-map invariant holds and every answer (n, fse) has 1 <= n <= |q|, fse.end = fse.start + n <= |X.chunks|, "
                      "X.chunks[start+i].hash = q[i], fse.bytes = sum of those lengths. On-disk readers: for EVERY byte string, footer, HMAC key and "
                      "EVERY candidate list (so truncated-prefix collisions and arbitrary chunk-table contents are covered by construction) an answer "
                      "of chunk_hash_dedup_query(_direct) names n records carrying keyed(q[0..n)) in order with bytes = their summed lengths; on "
                      "serialize(m) of a well-formed m the named block is a block of m. Shard manager: for EVERY manager state (arbitrary lookup "
                      "tables, shard lists, bytes) an answer is the in-memory answer or the direct answer on the bytes of a registered shard at a "
                      "table element (C05_direct applies, records keyed with that shard's footer key). On states reachable by add_cas_block / "
                      "add_file_reconstruction_info / flush / register_shards (any bytes; consolidation products enter through register_shards) "
                      "every shard carries its collection's key, every table element names an existing shard and a row of its truncated-hash "
                      "listing (<= 2^16 shards per collection), and over shard files (serialized well-formed contents, keyed exports with any of "
                      "the 8 flag combinations) the answer is Truthful for a block of the answering shard under the collection's key.",
        "design_ref": "DESIGN.md section 4, C05",
        "technique": "Lean 4 proof (loop invariants over the code-shaped query loops; arbitrary bytes / candidates) + differential correspondence",
        "rule": "shard: 12-40 queries per generated shard: present runs, absent, partially matching, running past the xorb end, length 1, starting "
                "at the last chunk, same truncated prefix with different hash; candidates as returned by the real table search; distinct by "
                "shard content hash; non-trivial = shard has >= 2 records",
        "assumptions": ["RowsValid / C05_manager_wf: at most 2^16 shards per collection (shard_index is stored as u16)",
                        "chunk_hash_dedup_query_direct with a (cas index, offset) hint past the block end is outside the claim (rows of a legal chunk table never are; with the manager theorems this only concerns non-reachable states / bytes that are not shard files)",
                        "the in-memory answer names the block the lookup map holds (may outlive a replaced cas_content entry, as in the Rust)"],
    },
    "C14": {
        "modules": ["XetProps.C14", "XetProps.C14Upload"],
        "theorems": [
            "Xet.Dedup.C14_file_conservation", "Xet.Dedup.C14_file_conservation_prefix", "Xet.Dedup.C14_pointer_size", "Xet.Dedup.C14_record_size",
            "Xet.Dedup.C14_session_sum", "Xet.Dedup.C14_session_sum_totals", "Xet.Dedup.C14_session_conserved", "Xet.Dedup.localQuery_legal",
            "Xet.Dedup.processLoop_inv", "Xet.Dedup.answersLegal_iff", "Xet.Dedup.lensFunctional_or_collision",
            "Xet.UploadBytes.C14_upload_layer_projects", "Xet.UploadBytes.C14_xorb_accumulator_exact", "Xet.UploadBytes.C14_xorb_upload_bytes_exact",
            "Xet.UploadBytes.C14_shard_upload_bytes_exact", "Xet.UploadBytes.C14_total_upload_bytes_exact", "Xet.UploadBytes.C14_upload_bytes_only_on_success",
            "Xet.UploadBytes.C14_xorb_accumulator_bounded", "Xet.UploadBytes.C14_upload_bytes_needs_take_after_join",
        ],
        "suites": ["deduper", "session", "session_conc", "session_faults"],
        "level_text": "Theorems for every hash-primitive record, limits, EVERY defrag decision procedure, every partition of a file's chunk list into "
                      "process_chunks calls and every oracle with legal answers: total bytes/chunks = what was fed, new + deduplicated = total, "
                      "withheld <= new, pointer size = total bytes = file_size of the record (preserved by merge_in / finalize); session metrics = sum "
                      "over files for every sequence of completions. The upload-byte clause is a theorem over a byte-accounting layer on the C16 upload model "
                      "(every history of registrations with any byte counts, completions in any order with any outcome, finalize at any point, any list "
                      "of shards): the accumulator equals the bytes of the puts that returned Ok in every state, a successful finalize reports exactly "
                      "the bytes of all puts / of all accepted shards / their sum, nothing is reported otherwise; taking the metrics before the join loop "
                      "(the repaired defect F3) is refuted by a decided witness. Tied to the code by `up.bytes` histories of real sessions whose puts are "
                      "held and released by the suite session_faults, with a store-side ledger as direct monitor, and by the upload monitors of `session` "
                      "(partial: tokio JoinSet and the atomicity of one accumulator update are modelled).",
        "design_ref": "DESIGN.md section 4, C01..C11",
        "technique": "Lean 4 proof (invariants over the deduper history and over the upload-task history, induction) + differential correspondence (scripted FileDeduper, real sessions, real sessions with held puts and injected upload faults)",
        "rule": "session_faults: 5 configurations x 40 [600] scenarios with a byte history each (up.bytes); deduper: 70 [900] files per limit configuration (6 [12] configurations), chunk sequences fresh/mixed/fragmented (1 old : 1-3 fresh)/"
                "self-repeating/long old runs, truthful-but-adversarial answers (any duplicate, shorter runs, misses), global-dedup second pass; "
                "session: 5 [11] configurations x 2 [12] stores x 2-4 sessions x 1-5 files, sequential and interleaved cleaners, re-uploads; "
                "distinct by hash of the op line; non-trivial = multi-call file / non-empty session",
        "assumptions": ["answers legal = count/bytes part of truthfulness (C05)",
                        "LensFunctionalChunks: equal chunk hash => equal length within one file (its failure is a data-hash collision)",
                        "the model covers all completion orders; the runs exercise those the suite scripts (random release orders, puts joined by finalize) and those tokio produced"],
    },
    "C15": {
        "modules": ["XetProps.C15"],
        "theorems": [
            "Xet.Dedup.C15_mid_file_xorbs", "Xet.Dedup.C15_every_call_boundary", "Xet.Dedup.C15_file_to_aggregator", "Xet.Dedup.C15_zero_exactly_listed",
            "Xet.Dedup.C15_merge_preserves", "Xet.Dedup.C15_no_unresolved", "Xet.Dedup.C15_aggregate_xorbs", "Xet.Dedup.C15_production_constants",
            "Xet.Dedup.C15_field_widths", "Xet.Dedup.C15_cas_entries_fit",
        ],
        "suites": ["deduper", "session", "session_conc"],
        "level_text": "Same quantifiers as C14 plus maxXorbChunks >= 1 and every chunk 1..maxChunk <= maxXorbBytes bytes: every xorb cut mid-file and every "
                      "xorb the session aggregator hands to the store is non-empty, within both limits, made of chunks within the chunk bound; new_data "
                      "and current_session_data are within limits at every call boundary; zero-hash segments are exactly the listed ones (kept by "
                      "merge_in's shift) and all patched by finalize, so no emitted record has a zero xorb reference; with the regenerated production "
                      "constants all lengths fit the u24/u32 fields (decide). Real sessions: every put within limits and accepted by validate_cas_object.",
        "design_ref": "DESIGN.md section 4, C01..C11",
        "technique": "Lean 4 proof (invariant over histories) + differential correspondence",
        "rule": "as C14; limit configurations include max chunks 1, 2, 3 and byte limits just above one chunk",
        "assumptions": ["as C14", "stored answers never name the zero hash and no cut xorb hashes to zero (only for the no-unresolved clause)"],
    },
    "C03": {
        "modules": ["XetProps.C03", "XetProps.C01Pointer"],
        "theorems": ["Xet.Pointer.C03_pointer_injective", "Xet.Pointer.C03_pointer_injective_iff",
                     
            "Xet.Dedup.C03_pointer_hash", "Xet.Dedup.C03_pointer_function", "Xet.Dedup.C03_independent", "Xet.Dedup.C03_bytes_function",
            "Xet.Dedup.C03_same_bytes_same_pointer", "Xet.Dedup.C03_salt", "Xet.Dedup.C03_salt_file", "Xet.Dedup.C03_salt_empty_file",
        ],
        "suites": ["session", "deduper", "hashes", "session_conc", "pointer"],
        "level_text": "Pointer text: the rendering is injective, equal pointer texts <=> equal (hash, size) (C03_pointer_injective_iff); the parser is many-to-one on texts (upper-case hex, 0x / underscore sizes, layout), only the rendering needs to be injective. "
                      "The pointer hash is file_node_hash(chunk (hash,len) list, salt) for ANY oracle answers; the pointer size is the number of bytes for "
                      "every legal history; composed with C04: both are functions of the bytes and the salt only, for every partition of the bytes into "
                      "add_data calls, every grouping into process_chunks calls, every oracle, limits and defrag procedure; different salts => collision "
                      "of the keyed primitive on distinct (key,msg) pairs (never injectivity). Real sessions: the model recomputes every pointer from the "
                      "bytes alone (Lean chunker + Lean BLAKE3) and it equals the pointer the session produced, whatever was deduplicated. Excluded "
                      "point (known finding): the empty file hashes to zero under every salt.",
        "design_ref": "DESIGN.md section 4, C01..C11",
        "technique": "Lean 4 proof (composition of the C04 and dedup-history theorems) + differential correspondence",
        "rule": "as C14 (session suite: pointers recomputed from bytes for every file incl. interleaved cleaners and later sessions); hashes: salts zero/ones/random",
        "assumptions": ["data-hash collision appears as a disjunct of C03_bytes_function", "concurrency beyond interleaved add_data calls on one thread is not exercised"],
    },
    "C01": {
        "modules": ["XetProps.C01", "XetProps.C01EndToEnd", "XetProps.C01Pointer"],
        "theorems": ["Xet.Pointer.C01_pointer_render", "Xet.Pointer.C01_pointer_render_panics", "Xet.Pointer.C01_pointer_roundtrip", "Xet.Pointer.C01_pointer_sniff", "Xet.Pointer.C01_pointer_valid_sound", "Xet.Pointer.C01_pointer_accept_sound", "Xet.Pointer.C01_pointer_parse_fields", "Xet.Pointer.C01_pointer_reject", "Xet.Pointer.C01_pointer_reject_overflow",
                     "Xet.E2E.C01_end_to_end", "Xet.E2E.C01_end_to_end_canonical", "Xet.E2E.C01_end_to_end_empty",
                     "Xet.E2E.C01_e2e_core", "Xet.E2E.C01_e2e_chunker_link", "Xet.E2E.C01_e2e_cleaner_calls",
                     "Xet.E2E.C01_e2e_cleaner_refines", "Xet.E2E.C01_e2e_fetch_bytes", "Xet.E2E.C01_e2e_local_range",
                     "Xet.E2E.C01_e2e_response_plan", "Xet.E2E.C01_e2e_response_exists", "Xet.E2E.C01_e2e_puts_provenance",
                     "Xet.E2E.C01_e2e_production_sizes", "Xet.E2E.C01_e2e_empty_stream", "Xet.E2E.ex_end_to_end",
                     "Xet.Dedup.C01_inv_init", "Xet.Dedup.C01_inv_step", "Xet.Dedup.C01_inv_calls", "Xet.Dedup.C01_inv_spelled",
                     "Xet.Dedup.C01_finalize", "Xet.Dedup.C01_merge_in", "Xet.Dedup.C01_agg_finalize",
                     "Xet.Dedup.C01_roundtrip", "Xet.Dedup.C01_range", "Xet.Dedup.C01_range_is_slice",
                     "Xet.Dedup.rangeBytes_eq", "Xet.Dedup.truthful_hash_to_data"],
        "suites": ["session", "deduper", "session_conc", "pointer"],
        "level_text": "Pointer text step (C01Pointer): for every hash and every size <= i64::MAX the cleaner's rendering is byte for byte `# xet version 0\\nfilesize = <dec>\\nhash = '<64 hex>'\\n`, init_from_string of it is valid and equals the cleaner's value field for field, it is below POINTER_FILE_LIMIT and is_xet_pointer_file / init_from_path accept it (sizes >= 2^63 cannot be rendered: Display asserts and panics - proved and reproduced); for every text of the modelled TOML grammar a valid parse has version 0, the hash string and a size 0..i64::MAX, and acceptance by the download path implies exactly 64 hex digits. "
                      "Invariant proved for every hash primitives, limits (incl. 0/1), EVERY defrag decision procedure, every store and every "
                      "data-truthful oracle, over every history of interleaved files and completions followed by finish: each file's segments resolve "
                      "(in the store plus the xorbs this session cut) to exactly the chunks fed; preserved by continue-merge, new segment, local "
                      "self-reference, rejection, cuts (patching exactly the internal refs), merge_in's shift and DataAggregator::finalize. Hence every "
                      "finished file's record downloads to the fed bytes and every byte range to the corresponding slice. Composition at byte level "
                      "(C01EndToEnd, C04 + C01 + C07 + C17 composed): for every finished file whose chunks are the chunker model's output for ANY "
                      "partition of its bytes, on a blob store holding CasObject::serialize of every xorb under ANY per-chunk compression schemes, "
                      "for EVERY reconstruction response a correct server can derive from the file's record (whole file or any byte range, any "
                      "window of terms containing it, any fetch ranges containing their terms) and any faithful chunk cache, both downloader "
                      "writers (sequential; parallel in every completion order) produce exactly the fed bytes resp. the slice and report the "
                      "number of bytes written; the server's response shape is the one recorded assumption and is shown satisfiable. Tied to the Rust by real "
                      "sessions on a local store (several sessions per store, five [eleven] limit configurations): every file downloaded whole and by "
                      "range after each session, and the model replays each session (chunker + dedup + aggregation) and reproduces pointers, puts, "
                      "records and metrics exactly. Concurrency: the model's histories are arbitrary interleavings of the files' calls (theorems), and "
                      "suite session_conc cleans 2-12 files of a session concurrently on the multi-thread runtime (spawned tasks / worker pools, "
                      "rendezvous before finish, bursts, jitter inside xet-core at the cfg hook points) and checks pointers against the model "
                      "and a sequential reference store, downloads, structure, metrics and a re-upload echo session. Partial: real thread "
                      "interleavings are sampled, not enumerated; the HTTP path is not modelled here (the reconstruction arithmetic is C17).",
        "design_ref": "DESIGN.md section 4, C01..C11; Appendix A.2",
        "technique": "Lean 4 proof (resolve invariant over all histories) + differential correspondence on real sessions",
        "rule": "session_conc: 24 [150] worlds x 5 [10] limit configurations of 2-4 sessions with 2-12 files built for cross-file duplication (identical files, shared prefix/suffix/middle, concatenations, empty and sub-chunk files, splices of earlier sessions), random add_data partitions and pauses, all files cleaned concurrently (task per file or 2-8 workers; rendezvous before finish; bursts), then a sequential echo session; session: 5 [11] limit configurations x 2 [12] stores x 2-4 sessions x 1-5 files built from fresh bytes, stretches of earlier files "
                "and repeated blocks (cross-file, cross-session and self dedup), empty / sub-chunk / multi-xorb sizes, random add_data partitions, "
                "sequential or interleaved cleaners, re-uploads; every file of the store downloaded whole + 3 ranges after each session; "
                "distinct by hash of the session op; non-trivial = non-empty session",
        "assumptions": ["pointer text: Rust str modelled as UTF-8 bytes; the toml crate is the pinned 0.5.11, modelled statement by statement for the grammar rendered pointers and their mutations use; outside that grammar (table headers, dotted keys, arrays, inline tables, multi-line strings, \\u escapes, date-times, exponent floats) the model answers none and only the header stage is compared; the round trip is for size <= 2^63-1",
                        "oracle answers are data-truthful (C05 + no data-hash collision: truthful_hash_to_data is in collision-extraction form)",
                        "StoreConsistent / NoZeroName on the final store (C06 collision-freeness, extraction form)",
                        "every chunk has at least one byte (C04_bounds_all)",
                        "end-to-end: the reconstruction response is produced by the CAS server, outside xet-core; assumed shape ServerResponse (one term per record segment = (xorb, chunk range, unpacked bytes); a window of consecutive terms containing the requested range with the offset into the first; fetch ranges inside the xorb containing their terms)",
                        "end-to-end: LZ4 codec round trip (Codec.RoundTrip), stored objects and their content < 2^32 bytes (u32 footer fields), chunks of the prior store 1..MAXIMUM_CHUNK_SIZE bytes, every chunk fed in the session <= MAXIMUM_CHUNK_SIZE",
                        "end-to-end: a chunk-cache hit returns the term's bytes (CacheFaithful, C12's conclusion)"],
    },
    "C02": {
        "modules": ["XetProps.C02"],
        "theorems": ["Xet.Dedup.C02_names", "Xet.Dedup.C02_casinfo", "Xet.Dedup.C02_consistent", "Xet.Dedup.C02_no_zero_segment"],
        "suites": ["session", "session_conc"],
        "level_text": "For every history (same quantifiers as C01): every xorb put is named cas_node_hash of its chunks and its CAS info entries are the "
                      "running sums; every emitted file record has in-range segments in the final store whose byte counts are the sums of the referenced "
                      "chunk lengths, file hash = file_node_hash(all chunks, salt), verification[i] = range hash of the hashes segment i covers, "
                      "metadata = the SHA passed in. That the SHA is SHA-256 of the bytes, that stored xorbs decode and are accepted by "
                      "validate_cas_object for their own name is decided on real sessions by an independent validator in the suite (xorb files read "
                      "from disk, chunk hashes recomputed) and by the Lean SHA-256.",
        "design_ref": "DESIGN.md section 4, C01..C11",
        "technique": "Lean 4 proof + independent validator over the real store and shards",
        "rule": "as C01; every session's returned file records and every put xorb are validated; SHA-256 of every file recomputed by the Lean implementation",
        "assumptions": ["as C01"],
    },
    "C11": {
        "modules": ["XetProps.C11", "XetProps.C11Manager", "XetProps.C11Repeat"],
        "theorems": ["Xet.Dedup.C11_recorded", "Xet.Dedup.C11_recorded_always", "Xet.Dedup.C11_chunks_recorded",
                     "Xet.Shard.C11_lookup_complete", "Xet.Shard.C11_lookup_complete_register", "Xet.Shard.C11_flush_finds",
                     "Xet.Shard.C11_flush_mem_empty",
                     "Xet.Dedup.C11_defrag_warmup", "Xet.Dedup.C11_defrag_long_run_accepted", "Xet.Dedup.C11_defrag_short_run_rejected",
                     "Xet.Dedup.C11_repeat_free", "Xet.Dedup.C11_repeat_free_real_estimator", "Xet.Dedup.C11_repeat_free_no_defrag",
                     "Xet.Dedup.C11_repeat_needs_answers", "Xet.Dedup.firstPass_covered", "Xet.Dedup.C11_repeat_free_lookup",
                     "Xet.Dedup.firstPass_id_of_covered", "Xet.Dedup.C11_repeat_free_lookup_two_pass"],
        "suites": ["session", "manager", "session_conc", "deduper"],
        "level_text": "For every history, legal or not: every xorb handed to the store (cut mid-file or from the session aggregator, incl. the final "
                      "one) has its CAS info registered with the session shard, and every chunk of it is in that info. Lookup completeness of ShardFileManager "
                      "is proved: a chunk at offset <= u16::MAX of a block of a serialized well-formed shard registered under a new name below the "
                      "index cap is found in every later state (n >= 1, the block and position named, truthful), and after add_cas_block + flush "
                      "every chunk of the block is found - under explicit side conditions, each shown necessary by an example. The end-to-end "
                      "half (a later session re-uploading the content transfers no new chunk bytes) composes these through the real session code "
                      "is proved on the client side (C11_repeat_free: for every number of files, interleaving and partition into process_chunks calls, if "
                      "every deduped_blocks slot the deduper consults holds an answer and the defrag procedure accepts those runs - for the real estimator: "
                      "runs of >= 8 chunks - the finalized session hands no xorb to the store and reports new_bytes = new_chunks = 0; an unanswered slot is "
                      "stored again, by example; C11_repeat_free_lookup composes this with a model of the first loop of process_chunks - validated against the real "
                      "FileDeduper by the dedup.firstpass operations: same positions asked, same slots left, one and two passes - so the hypothesis becomes one on the "
                      "lookup interface: every query that starts with a known chunk is answered with n >= 1 inside the query); that the real lookups answer every such query is the manager half above composed through the real session code, "
                      "checked on real multi-session stores (partial: that last composition is a monitor, not a theorem). The one way the code stores "
                      "a FOUND run again, fragmentation prevention, is delimited by theorems: nothing is rejected before 128 ranges were recorded, a run of "
                      ">= 8 chunks is never rejected, a short run after 128 one-chunk ranges is (the recorded finding of C11).",
        "design_ref": "DESIGN.md section 4, C01..C11",
        "technique": "Lean 4 proof + differential correspondence / monitor on real multi-session stores",
        "rule": "as C01; about half of the later sessions re-upload earlier files unchanged and must report new_bytes = 0",
        "assumptions": ["C11_lookup_complete side conditions (each shown necessary by an example): no other chunk of the shard shares the truncated 64-bit prefix; the hash is recorded once in the shard; no other shard of collection 0 (except byte-identical copies) lists an insertable row with that prefix; offset <= u16::MAX; <= 2^16 shards in collection 0; total_indexed_chunks < CHUNK_INDEX_TABLE_MAX_SIZE at registration; new shard name; the in-memory shard does not answer first; C11_flush_finds additionally: the in-memory content is Mem.WF"],
    },
    "C12": {
        "modules": ["XetProps.C12"],
        "theorems": [
            "Xet.Cache.C12_invariant", "Xet.Cache.C12_hit_partial", "Xet.Cache.C12_get_seq",
            "Xet.Cache.C12_scan_total", "Xet.Cache.C12_prefix_F14_witness", "Xet.Cache.C12_get_no_panic",
            "Xet.Cache.C12_no_panic_step", "Xet.Cache.C12_no_panic",
            "Xet.Cache.itemPath_inj", "Xet.Cache.b64Decode_encode", "Xet.Cache.b64Encode_decode",
            "Xet.Cache.parseFileName_fileName", "Xet.Cache.fileName_parse",
            "Xet.Cache.parseHeader_encodeFile", "Xet.Cache.getRange_encodeFile",
            "Xet.Cache.Detectable.erase", "Xet.Cache.Detectable.mkdir", "Xet.Cache.Detectable.write", "Xet.Cache.Detectable.trans",
        ],
        "suites": ["cache_seq", "cache_conc"],
        "level_text": "Theorems for every CRC function, every reference data X, every history = any interleaving of consistent puts and "
                      "arbitrary gets of any number of threads at schedule-point granularity (all eviction choices, all deletion orders) "
                      "and any number of close/damage/re-open events with Detectable damage: a hit returns exactly the slice of the "
                      "reference xorb and the rebased offsets (C12_hit_partial, C12_get_seq); no operation and (after the F14 fix) no "
                      "directory scan has a panic outcome; file-name/key-dir/header codecs round-trip and are canonical. PARTIAL: the damage "
                      "class is 'CRC-consistent item files are untouched' (the model, like the code, re-checks only the CRC on read); "
                      "renames/moves preserving the (len,crc) name fields are outside it (F12, known finding). Tied to DiskCache by two "
                      "differential suites (sequential histories with damage and re-open; hook-driven thread schedules).",
        "design_ref": "DESIGN.md section 4, C12/C13",
        "technique": "Lean 4 proof (invariant over a step-granular concurrent semantics + scan) + differential correspondence with oracle replay",
        "rule": "cache_seq case = one sequence of ~60-80 ops (2-4 keys, 3-9 chunks, capacity 0.5x-6x the largest item, puts of random "
                "sub-ranges incl. malformed arguments, gets incl. empty/out-of-range, close + 0-3 damage actions of 15 kinds + re-open with "
                "same/half/double capacity); distinct by hash of the request line; non-trivial = at least one eviction and one hit. "
                "cache_conc case = one schedule (2-4 threads x 1-2 ops from a small pool so identical puts meet, optional solo prefix + re-open); "
                "non-trivial = more than 2 steps per thread",
        "assumptions": ["CRC-32 itself is compared (Lean CRC-32 vs crc32fast on every file), not proved; theorems hold for every crc function",
                        "std::fs / rename atomicity / Mutex behave as the step semantics says; segments between two schedule points are atomic in the model",
                        "read_dir order and rand::random eviction choices are oracle inputs observed on the implementation"],
    },
    "C13": {
        "modules": ["XetProps.C13", "XetProps.C13Disk"],
        "theorems": [
            "Xet.Cache.C13_exact", "Xet.Cache.C13_commit_no_underflow", "Xet.Cache.C13_capacity", "Xet.Cache.C13_files_tracked",
            "Xet.Cache.C13_read_back_drops", "Xet.Cache.C13_prefix_weak", "Xet.Cache.C13_prefix_F10_witness",
            "Xet.Cache.C13_disk_full_thm", "Xet.Cache.C13_disk_full_of_len", "Xet.Cache.C13_reachable_inv",
            "Xet.Cache.C13_reopen_exact_thm", "Xet.Cache.C13_reopen_exact_len", "Xet.Cache.C13_reopen_exact_valid",
            "Xet.Cache.C13_disk_full_false", "Xet.Cache.C13_reopen_exact_false", "Xet.Cache.C13_stale_entry_witness",
        ],
        "suites": ["cache_seq", "cache_conc"],
        "level_text": "Theorems over ALL interleavings (any number of threads, any oracle values, identical concurrent puts included) of the "
                      "post-fix step function: num_items = number of tracked entries and total_bytes = sum of their lengths in every reachable "
                      "state; every commit of an item <= capacity ends with total_bytes <= capacity; the state lock is never poisoned; at every "
                      "quiescent point every file at an item path is tracked. For the pre-fix step: item count exact, total_bytes never too small, "
                      "plus the decide'd witness schedule where it is too large (F10). Totals = disk: at every quiescent point of every interleaving at which each tracked entry has its "
                      "file, num_items = number of files and total_bytes = sum of their lengths (files < 2^64 bytes). Re-open with the same "
                      "capacity, any read_dir order: counters exact, total_bytes <= capacity, no entry twice, every tracked entry has its file, "
                      "every file <= capacity of a valid key is tracked. The two statements as first written in C13.lean are refuted in the model "
                      "(2^64-byte put; 3-byte key: artefacts of the model's unbounded lists and arbitrary keys) and the stale-entry schedule (an "
                      "entry shadowed by a covering entry cannot be read back) is a decided witness; re-open with another capacity or of a damaged "
                      "directory is covered by the suites (partial).",
        "design_ref": "DESIGN.md section 4, C12/C13",
        "technique": "Lean 4 proof (invariants over the step-granular concurrent semantics) + differential correspondence (hook-driven schedules)",
        "rule": "see C12",
        "assumptions": ["no single item larger than the capacity (hypothesis of C13_capacity; the suites also generate larger items and then switch the capacity monitor off)",
                        "Mutex / std::fs as in C12",
                        "re-open theorems: keys as Rust's Key produces them (32-byte hash + UTF-8 prefix) for the 'every file is tracked' clause; file lengths < 2^64; case-sensitive file system (paths are compared exactly in the model's FS)"],
    },
    "C08": {
        "modules": ["XetProps.C08"],
        "theorems": [
            "Xet.Xorb.C08_sound_seekable",
            "Xet.Xorb.C08_sound_seekable_nonempty",
            "Xet.Xorb.C08_sound_streaming",
            "Xet.Xorb.C08_sound_streaming_shapes",
            "Xet.Xorb.C08_complete",
            "Xet.Xorb.C08_complete_own_hash",
            "Xet.Xorb.C08_validators_agree",
            "Xet.Xorb.C08_validators_agree_general",
            "Xet.Xorb.C08_serialized_decodes",
            "Xet.Xorb.C08_decodes_unique",
            "Xet.Xorb.C08_footer_parser_total",
            "Xet.Xorb.C08_footer_parser_no_panic",
            "Xet.Xorb.C08_chunk_decoder_total",
            "Xet.Xorb.C08_alloc_bounded",
            "Xet.Xorb.C08_no_panic",
            "Xet.Xorb.C08_no_panic_by_length",
            "Xet.Xorb.C08_validate_outcomes",
        ],
        "suites": ["xorb_validate"],
        "level_text": "Soundness for EVERY byte string, codec (no round-trip assumption), hash primitives and maxChunk: if the seekable or the "
                      "streaming validator accepts obj for h then the chunk region decodes to chunks whose recomputed root equals h and the footer it "
                      "relied on (hashes, boundaries, unpacked offsets, position) matches them - for all three accept shapes of the streaming validator "
                      "(footer, no footer, v0). Completeness: a serialized xorb is accepted by both validators for its own hash and rejected for any "
                      "other; the two validators agree on arbitrary input with >= 1 chunk. Totality: the footer parser never panics and its tables "
                      "are bounded by the bytes available; the validators never panic under explicit size bounds (< 2^32; the region beyond is F7). "
                      "Tied to the Rust by ~8000 mutated inputs per run (every header byte and footer byte flipped, truncation at every offset, "
                      "spliced/duplicated/dropped chunks, inflated counts, v0 and footer-less objects, random bytes): both validators' verdicts equal "
                      "the model's (with an independent Lean LZ4 decoder); any panic or unsound accept is a monitor failure.",
        "design_ref": "DESIGN.md section 4, C08",
        "technique": "Lean 4 proof (invariants over the validators' chunk walks; arbitrary bytes) + mutation-based differential correspondence",
        "rule": "14 [120] valid objects (1-40 chunks, all schemes) x (valid, other hash, no footer, v0, every chunk-header byte flip, every footer "
                "byte flip [sampled for large objects], content flips, truncation at every offset, dup/drop/swap chunk, trailing bytes, inflated "
                "fields) + 150 [3000] random strings; distinct by hash(bytes, h); non-trivial = not accepted by the seekable validator",
        "assumptions": ["no-panic theorems need obj.length + 2*maxChunk + 8 <= u32::MAX and declared numChunks*maxChunk <= u32::MAX (seekable); the "
                        "excluded region (> 32768 maximal chunks) is the documented overflow F7 (dev-profile panic), not exercised in the quick tier",
                        "LZ4 decoding is the independent Lean decoder, compared not proved",
                        "the Rust prealloc_num_chunks cap is not modelled (allocation bound is stated on the parsed tables)"],
    },
    "C10": {
        "modules": ["XetProps.C10"],
        "theorems": [
            "Xet.Shard.C10_flag_compare",
            "Xet.Shard.C10_richer_variant",
            "Xet.Shard.C10_merge_files_union",
            "Xet.Shard.C10_unionFind",
            "Xet.Shard.C10_merge_files_difference",
            "Xet.Shard.C10_merge_cas_union",
            "Xet.Shard.C10_merge_cas_difference",
            "Xet.Shard.C10_setop_wf",
            "Xet.Shard.C10_setop_wf_minimal",
            "Xet.Shard.C10_same_file_implies_agree",
            "Xet.Shard.C10_setop_scan",
            "Xet.Shard.C10_union_lookup",
            "Xet.Shard.C10_setop_difference_wf",
            "Xet.Shard.C10_difference_lookup",
            "Xet.Shard.C10_totals",
            "Xet.Shard.C10_tables",
            "Xet.Shard.C10_setop_dedup_truthful",
            "Xet.Shard.C10_setop_bytes",
            "Xet.Shard.C10_setop_bytes_closed",
            "Xet.Shard.C10_refines_memory_difference",
            "Xet.Shard.C10_refines_memory_union",
            "Xet.Shard.C10_union_record_relation",
            "Xet.Shard.C10_refines_memory_union_eq",
            "Xet.Shard.C10_group_end",
            "Xet.Shard.C10_union_chain",
            "Xet.Shard.C10_consolidate_records",
            "Xet.Shard.C10_consolidate_directory",
        ],
        "suites": ["shard_ops"],
        "level_text": "For strictly sorted well-formed inputs: the merged file/xorb lists of union contain, for EVERY hash, exactly the record of the side "
                      "that has it, and when both do the richer variant as the code defines it (first if flags equal or including, second if strictly "
                      "including, merged header + first's segments + verification/metadata from whichever side has them if incomparable); difference "
                      "= exactly the second's records whose hash is not in the first. set_operation's output equals serialize of that content byte "
                      "for byte, so every C09/C05 theorem (scan, every lookup incl. absent hashes and the 8-collision error, totals, tables, dedup "
                      "truthfulness) applies to it; relation to the in-memory union/difference. Consolidation: grouping, union chains and the "
                      "directory-level statement (retrievable keys preserved, returned shards exist and are named by content hash, only covered "
                      "inputs deleted, finished-hash guard in event order).",
        "design_ref": "DESIGN.md section 4, C10",
        "technique": "Lean 4 proof (refinement of the streaming merge to the in-memory spec, lifted through the C09 round trip) + byte-exact differential correspondence",
        "rule": "60 [700] shard pairs (disjoint / identical / empty / overlapping with all flag pairs for the same file), union and difference each; "
                "14 [150] session directories of 1-7 shards with distinct mtimes, thresholds 1, sizes/2+-, 2^30; distinct by content hash",
        "assumptions": ["SameFileSameSegments (verify_same_file is a debug assertion only): needed only for incomparable flags",
                        "combined record count < 2^32 (u32 table indices, unchecked in the Rust)",
                        "the order among equal truncated chunk hashes (unstable sort) is canonicalised; a merged shard is identified by its canonical bytes",
                        "thresholds above ~2^30 are not exercised: consolidate preallocates 3 x target_max_size bytes (observation)"],
    },
    "C16": {
        "modules": ["XetProps.C16"],
        "theorems": [
            "Xet.Uploads.C16_order",
            "Xet.Uploads.C16_success_means_all_stored",
            "Xet.Uploads.C16_not_swallowed",
            "Xet.Uploads.C16_error_reported",
            "Xet.Uploads.C16_unreported_window",
            "Xet.Uploads.C16_reported_by_next_register",
            "Xet.Uploads.C16_reported_by_finalize",
            "Xet.Uploads.C16_latch",
            "Xet.Uploads.C16_prefix_F9_witness",
        ],
        "suites": ["session_faults", "session"],
        "level_text": "Over ALL sequences of register / task-completion / finalize events (any number of xorbs, any completion order and outcomes, events "
                      "after finalize): shard uploads start only when every put of the session completed successfully; a session whose finalize "
                      "returns Ok has all puts and shard uploads successful; any failed upload makes finalize fail and some API call return an error "
                      "(the pre-fix history F9 is kept as a decide'd witness of the unlatched step function). Tied to the Rust by real sessions "
                      "whose puts are held and released with scripted outcomes and orders and whose shard uploads can fail; the observed history is "
                      "replayed through the model. Partial: tokio JoinSet/abort-on-drop, the upload semaphore and real timing are modelled abstractly; "
                      "xorbs of earlier sessions are covered by C01/C11.",
        "design_ref": "DESIGN.md section 4, C16",
        "technique": "Lean 4 proof (inductive invariant over all event sequences) + fault-injecting differential correspondence",
        "rule": "3 limit configurations x 40 [600] scenarios: each single put failing in turn, random multi-fault sets, shard upload failures, random "
                "release orders, continue-or-stop after an API error; distinct by trace; non-trivial = at least two upload tasks",
        "assumptions": ["register is atomic in the model (the Rust releases the lock between reap and spawn while waiting for a permit)",
                        "after a failing finalize the remaining puts are aborted on drop (timing dependent): per-task outcomes are compared only for successful sessions",
                        "non-store error exits (permit, add_cas_block, shard flush) are not modelled"],
    },
    "C18": {
        "modules": ["XetProps.C18", "XetProps.C18Manager"],
        "theorems": [
            "Xet.Shard.C18_expiry",
            "Xet.Shard.C18_expiry_not_loaded",
            "Xet.Shard.C18_expiry_deleted_iff",
            "Xet.Shard.C18_expiry_grace",
            "Xet.Shard.C18_expiry_deleted_of_grace",
            "Xet.Shard.C18_expiry_deleted_and_loaded_iff",
            "Xet.Shard.C18_expiry_deleted_not_loaded",
            "Xet.Shard.C18_expiry_never",
            "Xet.Shard.C18_export",
            "Xet.Shard.C18_export_bytes",
            "Xet.Shard.C18_export_footer",
            "Xet.Shard.C18_export_parsed",
            "Xet.Shard.C18_keyed_block",
            "Xet.Shard.C18_export_content_wf",
            "Xet.Shard.C18_no_raw_hash",
            "Xet.Shard.C18_export_zero_key",
            "Xet.Shard.C18_dedup_preserved_shard",
            "Xet.Shard.C18_dedup_no_chunk_table",
            "Xet.Shard.C18_dedup_truthful",
            "Xet.Shard.C18_dedup_truthful_raw",
            "Xet.Shard.C18_dedup_preserved_manager", "Xet.Shard.C18_dedup_preserved_manager_spec",
            "Xet.Shard.C18_dedup_preserved_manager_iff", "Xet.Shard.C18_fresh_manager", "Xet.Shard.C18_manager_truthful",
            "Xet.Shard.C18_manager_rows",
        ],
        "suites": ["keyed", "manager"],
        "level_text": "For every well-formed shard, key, time and all eight include-flag combinations: exportKeyed(serialize m) equals the closed-form "
                      "serialization with every chunk hash in the xorb lists and the chunk table replaced by its keyed form (zero key = identity), "
                      "xorb and file hashes kept, file records kept or dropped as requested, tables present as requested, footer key/creation/"
                      "expiry/totals; parsed back it is exactly that content; no raw chunk hash survives unless it equals a keyed form. Dedup "
                      "lookups with unkeyed hashes on the exported shard give the same answer as on the source under no-collision hypotheses on "
                      "the query, and are truthful always. Expiry: exact truth table of loaded/deleted incl. saturation. Through the shard manager: registering the "
                      "real export (all 8 flag combinations; with the chunk table dropped register_shards rebuilds the rows by scanning) instead "
                      "of the source shard into any manager that answers not-found gives the same answer to an unkeyed query, under "
                      "NoTruncCollision, NoDuplicateChunk, KeyedInjOn and chunk offsets <= u16::MAX; without them both answers are truthful.",
        "design_ref": "DESIGN.md section 4, C18",
        "technique": "Lean 4 proof (closed form of the export, lifted through the C09 round trip) + byte-exact differential correspondence",
        "rule": "24 [250] shards x 8 flag combinations x zero/random key x validity 0..21 days; byte scan for raw chunk hashes; dedup queries before/"
                "after; expiry by patching the footer of a copy to now+-d, 0, u64::MAX with grace 0/10/1000/u64::MAX",
        "assumptions": ["C18_dedup_preserved_manager: base manager answers not-found to the query, < 2^16 shards per collection, both registrations under new names with the index below its cap",
                        "creation time is read from the produced footer (clock is an oracle)", "expiry arithmetic saturates in the model; the Rust panics for validity >= ~9.2e18 s (SystemTime overflow), not exercised"],
    },
}

HOOK_COMMITS = ["9bb2102", "a056c58", "25c3aff", "24644df", "9cc9f64", "baf5f6a", "26ae716", "f518c42", "27a34b3", "add05e9", "b59948c", "7cd7bca"]
NOT_YET = {}
