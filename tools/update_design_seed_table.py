#!/usr/bin/env python3
import subprocess, re
t = subprocess.run(['python3', '/verif/tools/seed_table.py'], capture_output=True, text=True).stdout
p = '/verif/DESIGN.md'
s = open(p).read()
s = re.sub(r'<!-- SEED-TABLE-BEGIN -->.*?<!-- SEED-TABLE-END -->', lambda m: '<!-- SEED-TABLE-BEGIN -->\n' + t + '<!-- SEED-TABLE-END -->', s, flags=re.S)
open(p, 'w').write(s)
print('table rows:', t.count('\n') - 2)
