#!/usr/bin/env python3
"""Keep a confirmed seeded change under /verif/seeded/<Cxx>-<k>/ from a seed directory and seed_eval result files.

usage: seed_keep.py <seed dir> <id e.g. C04-2> <result.json> [more result.json (later ones override checks)]
Copies patch.diff, the demonstration (run.sh + demo files), notes.md; writes meta.json.
"""
import json, os, re, shutil, sys

seed, sid = sys.argv[1], sys.argv[2]
results = [json.load(open(p)) for p in sys.argv[3:] if open(p).read().strip()]
dst = f"/verif/seeded/{sid}"
os.makedirs(dst, exist_ok=True)
for f in os.listdir(seed):
    if f.endswith(".log") or f.endswith(".txt") and "suite" in f:
        continue
    src = os.path.join(seed, f)
    if os.path.isfile(src) and os.path.getsize(src) < 400_000:
        shutil.copy(src, os.path.join(dst, f))
notes = open(os.path.join(seed, "notes.md")).read() if os.path.exists(os.path.join(seed, "notes.md")) else ""
title = next((l.lstrip("# ").strip() for l in notes.splitlines() if l.startswith("#")), "")


def section(rx):
    m = re.search(r"^#+\s*[^\n]*(" + rx + r")[^\n]*\n(.*?)(?=^#+\s|\Z)", notes, re.S | re.M | re.I)
    return re.sub(r"\s+", " ", m.group(2)).strip()[:1500] if m else ""


confirm = next((r for r in reversed(results) if "demo_with_change_rc" in r), {})
checks = {}
for r in results:
    for pid, c in r.get("checks", {}).items():
        lines = c["lines"]
        viol = [l for l in lines if l.startswith("VIOLATION")]
        concrete = [l for l in viol if "no-failing-input-found" not in l]
        checks[pid] = {"rc": c["rc"], "verdict": "caught-with-replay" if concrete else ("caught-no-failing-input-found" if viol else "missed"),
                       "first_violation": (concrete or viol or [""])[0], "detail": c.get("detail", "")[:600]}
meta = {
    "id": sid, "property": sid.split("-")[0], "title": title,
    "breaks": section(r"clause|breaks|broken"),
    "needs_to_manifest": section(r"needed|manifest|trigger"),
    "files": sorted(os.listdir(dst)),
    "what_was_run": {
        "where": "a scratch git worktree of /repo HEAD (never /repo itself); patch applied with `git apply patch.diff`",
        "demonstration": "bash run.sh from the worktree root, once on the unchanged tree and once with the change",
        "demo_without_change_rc": confirm.get("demo_without_change_rc"), "demo_with_change_rc": confirm.get("demo_with_change_rc"),
        "demo_with_change_tail": confirm.get("demo_with_change_tail", "")[-400:],
        "existing_suite_with_change": "cargo test --workspace --no-fail-fast --offline (demo files removed first)",
        "existing_suite_result": confirm.get("suite_with_change"),
        "checks": "XET_REPO=<worktree> ./check <id> (quick tier, seed 1) for each property listed under `checks`",
    },
    "checks": checks,
}
json.dump(meta, open(os.path.join(dst, "meta.json"), "w"), indent=1)
print(sid, {k: v["verdict"] for k, v in checks.items()}, "demo", confirm.get("demo_without_change_rc"), confirm.get("demo_with_change_rc"), "suite", confirm.get("suite_with_change"))
