"""Constants of mdb_shard/src/interpolation_search.rs for XetModel/Generated/Consts.lean (C09 search).

Merge into tools/extract_more.py:  `import extract_more_search; extract_more_search.run(ex, emit)` inside its
`run(ex, emit)`, or paste the body.  `ex` is the extract_consts module (helpers `read`, `strip_comments`,
`const_int`, `fail`, `REPO`), `emit` appends one line to the generated file (inside `namespace Xet.Gen`).
"""


def run(ex, emit):
    src = ex.strip_comments(ex.read(f"{ex.REPO}/mdb_shard/src/interpolation_search.rs"))
    # both are function-local `const NAME: u64 = <literal>;` items of search_on_sorted_u64s
    w = ex.const_int(src, "READ_WINDOW_SIZE")
    d = ex.const_int(src, "EXPECTED_MAX_NUM_DUPLICATES")
    emit("/-- `READ_WINDOW_SIZE` of `search_on_sorted_u64s` -/")
    emit(f"def readWindowSize : Nat := {w}")
    emit("/-- `EXPECTED_MAX_NUM_DUPLICATES` of `search_on_sorted_u64s` -/")
    emit(f"def expectedMaxNumDuplicates : Nat := {d}")
    emit("")
    # the model's clamp / branch structure is tied to these source fragments; a change is a broken tie
    for name, frag in [
        ("search.clamp", ".max(lo + 1)\n            .min(hi - 1)"),
        ("search.guard", "while lo + READ_WINDOW_SIZE < hi"),
        ("search.less", "if candidate_probe_index + READ_WINDOW_SIZE > probe_index"),
        ("search.greater", "if candidate_probe_index - probe_index <= READ_WINDOW_SIZE"),
        ("search.jump_less", "(READ_WINDOW_SIZE).min(probe_index - (lo + 1))"),
        ("search.jump_equal", "(EXPECTED_MAX_NUM_DUPLICATES).min(probe_index - (lo + 1))"),
        ("search.jump_greater", "(lo + READ_WINDOW_SIZE).min(hi - 1)"),
    ]:
        if " ".join(frag.split()) not in " ".join(src.split()):
            ex.fail(name, "source fragment the model follows is no longer present")
