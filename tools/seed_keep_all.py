#!/usr/bin/env python3
"""Run seed_keep.py for every seed under /tmp/mut_out/<Cxx>/<k> that has result files; later results override earlier ones."""
import glob, os, subprocess, sys
res = {}
for f in sorted(glob.glob('/tmp/mut_out/results/*.json'), key=os.path.getmtime):
    if not open(f).read().strip() or '.s2j' in os.path.basename(f):      # (.s2j* = fragility runs with another VERIF_SEED)
        continue
    sid = os.path.basename(f).split('.')[0]          # C04_2
    res.setdefault(sid, []).append(f)
for sid, files in sorted(res.items()):
    if sid.startswith('REFAC'):
        continue
    pid, k = sid.split('_')
    seed = f'/tmp/mut_out/{pid}/{k}'
    if not os.path.isdir(seed):
        continue
    subprocess.run([sys.executable, '/verif/tools/seed_keep.py', seed, f'{pid}-{k}'] + files)
