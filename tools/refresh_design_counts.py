#!/usr/bin/env python3
"""Rewrite the obligation counts of DESIGN.md section 9.2 from tools/props.py."""
import re, sys, os
sys.path.insert(0, os.path.dirname(__file__))
import props
p = os.path.join(os.path.dirname(__file__), '..', 'DESIGN.md')
s = open(p).read()
a = s.index('### 9.2 Per property'); b = s.index('### 9.3 Deviations')
out = []
for line in s[a:b].split('\n'):
    m = re.match(r'\| (C\d\d) \| ([^|]*) \| ([^|]*) \| ([^|]*) \| (.*)$', line)
    if m and m.group(1) in props.PROPS:
        n = len(props.PROPS[m.group(1)]['theorems'])
        line = f"| {m.group(1)} | {m.group(2).strip()} | {re.sub(r'^[0-9]+', str(n), m.group(3).strip())} | {m.group(4).strip()} | {m.group(5)}"
    out.append(line)
open(p, 'w').write(s[:a] + '\n'.join(out) + s[b:])
