#!/usr/bin/env python3
"""Evaluate a seeded change against the checks, in an isolated lab copy (/tmp/seedlab: a git worktree of /repo plus a copy of
/verif whose harness points at that worktree), so that /repo itself is not touched while other runs use it.

usage: seed_eval.py <dir with patch.diff, run.sh, demo files> <property id> [more property ids…] [--confirm]
  --confirm : also (1) run the demonstration without and with the change, (2) run the crates' existing tests with the change.
Prints one JSON line with the results.
"""
import json, os, subprocess, sys, shutil, time

LAB = os.environ.get("SEEDLAB", "/tmp/seedlab")
LREPO = f"{LAB}/repo"
LVERIF = f"{LAB}/verif"


def sh(cmd, cwd=None, timeout=3000, env=None):
    try:
        p = subprocess.run(cmd, cwd=cwd, shell=True, timeout=timeout, stdout=subprocess.PIPE, stderr=subprocess.STDOUT, text=True, errors="replace",
                           env=dict(os.environ, CARGO_NET_OFFLINE="true", **(env or {})))
        return p.returncode, p.stdout
    except subprocess.TimeoutExpired as e:
        return 124, (e.stdout or "") + "TIMEOUT"


def sync_lab():
    # refresh the lab's copy of /verif (sources only) and keep its build outputs
    sh(f"rsync -a --exclude run --exclude replays --exclude evidence --exclude harness/target --exclude harness/Cargo.lock --exclude lean/.lake --exclude incoming --exclude seeded /verif/ {LVERIF}/")
    sh(f"sed -i 's#\"/repo/#\"{LREPO}/#g' {LVERIF}/harness/Cargo.toml")
    sh("git checkout -q -- . && git clean -fdq -e target", cwd=LREPO)
    rc, head = sh("git -C /repo rev-parse HEAD")
    sh(f"git checkout -q --detach {head.strip()}", cwd=LREPO)


def main():
    args = [a for a in sys.argv[1:] if not a.startswith("--")]
    confirm = "--confirm" in sys.argv
    d = os.path.abspath(args[0])
    pids = args[1:]
    res = {"seed": d, "properties": pids}
    sync_lab()
    patch = os.path.join(d, "patch.diff")
    if confirm:
        # demonstration on the unchanged tree
        for f in os.listdir(d):
            pass
        rc0, out0 = sh(f"bash {d}/run.sh", cwd=LREPO, timeout=2400)
        res["demo_without_change_rc"] = rc0
        sh("git checkout -q -- . ", cwd=LREPO)
    rc, out = sh(f"git apply {patch}", cwd=LREPO)
    if rc != 0:
        res["apply_failed"] = out[-500:]
        print(json.dumps(res)); return 1
    if confirm:
        rc1, out1 = sh(f"bash {d}/run.sh", cwd=LREPO, timeout=2400)
        res["demo_with_change_rc"] = rc1
        res["demo_with_change_tail"] = out1[-600:]
        # remove the demo files again (keep only the source change) before running the crates' own tests
        sh("git stash -q && git clean -fdq -e target && git stash pop -q", cwd=LREPO)
        t0 = time.time()
        rct, outt = sh("timeout 2400 cargo test --workspace --no-fail-fast --offline 2>&1 | grep -E '^test result|^test .* FAILED'", cwd=LREPO, timeout=2600)
        passed = sum(int(l.split(" passed")[0].split()[-1]) for l in outt.splitlines() if l.startswith("test result") and " passed" in l)
        failed = sum(int(l.split(" failed")[0].split()[-1]) for l in outt.splitlines() if l.startswith("test result") and " failed" in l)
        failed_names = [l.split()[1] for l in outt.splitlines() if l.startswith("test ") and l.rstrip().endswith("FAILED")]
        # file_utils::file_metadata::tests::test_set_metadata_* are flaky on the unchanged tree when several test runs share the machine
        real = [n for n in failed_names if "file_metadata::tests::test_set_metadata" not in n]
        res["suite_with_change"] = {"passed": passed, "failed": failed, "failed_tests": failed_names, "failed_not_known_flaky": real, "secs": round(time.time() - t0)}
        # remove the demo files again (keep only the source change)
        sh("git stash -q && git clean -fdq -e target && git stash pop -q", cwd=LREPO)
    res["checks"] = {}
    for pid in pids:
        rc, out = sh(f"XET_REPO={LREPO} timeout 2400 ./check {pid}", cwd=LVERIF, timeout=2600)
        lines = [l for l in out.splitlines() if l.startswith("VIOLATION") or l.startswith("KNOWN-FINDING") or l.startswith(pid + ":")]
        detail = ""
        for l in lines:
            if l.startswith("VIOLATION"):
                rp = l.split("replay=")[1].split()[0]
                try:
                    j = json.load(open(os.path.join(LVERIF, rp)))
                    detail = (j.get("desc") or json.dumps(j.get("correspondence") or j.get("audit_problems") or j.get("lake_build"))[:300])
                except Exception:
                    pass
                break
        res["checks"][pid] = {"rc": rc, "lines": lines[:6], "detail": str(detail)[:400]}
    sh("git checkout -q -- . && git clean -fdq -e target", cwd=LREPO)
    print(json.dumps(res))
    return 0


if __name__ == "__main__":
    sys.exit(main())
