"""Additional constant extractors contributed per slice; called by extract_consts.py."""
import os
import sys
sys.path.insert(0, os.path.dirname(os.path.abspath(__file__)))
import extract_more_search


def run(ex, emit):
    extract_more_search.run(ex, emit)
