#!/usr/bin/env python3
"""Markdown table of the kept seeded changes (from seeded/*/meta.json) for DESIGN.md section 9.6."""
import glob, json, os, re
rows = []
for f in sorted(glob.glob('/verif/seeded/C*/meta.json')):
    m = json.load(open(f))
    home = m['property']
    title = re.sub(r'^C\d\d\s*[/—-]*\s*(change|regression|mutation)?\s*\d*\s*[—:-]*\s*', '', m.get('title', ''), flags=re.I).strip() or m.get('title', '')
    title = title.replace('|', '/')[:140]
    checks = m.get('checks', {})
    def cell(pid):
        c = checks.get(pid)
        if not c:
            return ''
        v = c['verdict']
        d = re.sub(r'\s+', ' ', c.get('detail', ''))[:110].replace('|', '/')
        if v == 'caught-with-replay':
            return f'**{pid}** replay: {d}'
        if v == 'caught-no-failing-input-found':
            return f'{pid}: correspondence broken (no-failing-input-found)'
        return f'{pid}: not flagged'
    others = '; '.join(cell(p) for p in checks if p != home)
    sw = (m.get('what_was_run', {}).get('existing_suite_result') or {})
    suite = f"{sw.get('passed','?')} passed" + (f", flaky only: {len(sw.get('failed_tests', []))}" if sw.get('failed_tests') and not sw.get('failed_not_known_flaky') else ('' if not sw.get('failed_not_known_flaky') else f", FAILED {sw.get('failed_not_known_flaky')}"))
    rows.append(f"| {m['id']} | {title} | {suite} | {cell(home)} | {others} |")
print('| seed | change | existing tests with it | home property check | other checks run |')
print('|---|---|---|---|---|')
print('\n'.join(rows))
