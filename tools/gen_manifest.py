#!/usr/bin/env python3
"""Regenerate MANIFEST.json from tools/props.py (the single table of claimed properties)."""
import json, os, sys
ROOT = os.path.dirname(os.path.dirname(os.path.abspath(__file__)))
sys.path.insert(0, os.path.join(ROOT, "tools"))
import props

ALL = [f"C{i:02d}" for i in range(1, 21)]
checks = []
for pid in ALL:
    if pid not in props.PROPS:
        continue
    c = props.PROPS[pid]
    checks.append({
        "property_id": pid,
        "quick_cmd": f"./check {pid} --tier quick",
        "thorough_cmd": f"./check {pid} --tier thorough",
        "evidence_file": f"evidence/{pid}.json",
        "replay_cmd_template": "./check --replay {path}",
        "engine": "lean4-proof+correspondence",
        "level_claimed": {"category": "proof", "text": c.get("level_text", ""), "design_ref": c.get("design_ref", "DESIGN.md section 4")},
        "level_note": c.get("level_note", "Trusted: Lean kernel; axioms propext/Classical.choice/Quot.sound; the correspondence harness and constant extractor that tie the hand-written model to the Rust source; primitives compared not proved."),
        "technique": c.get("technique", "Lean 4 theorem over the model + differential correspondence check against the Rust crates"),
    })
na = [{"property_id": pid, "reason": props.NOT_YET.get(pid, "check not built yet in this revision (planned; see DESIGN.md section 4)")}
      for pid in ALL if pid not in props.PROPS]
m = {
    "version": 1,
    "setup_cmd": "./check --setup",
    "hooks": {
        "guard": "xet_verif",
        "enable": "RUSTFLAGS=\"--cfg xet_verif\" (set by ./check when it builds /verif/harness against /repo's working tree)",
        "baseline_off_cmd": "cd /repo && cargo test --workspace --no-fail-fast --offline",
        "source_commits": props.HOOK_COMMITS,
        "add_only": True,
    },
    "engines": [{"name": "lean4-proof+correspondence", "path": "check", "serves_properties": [c["property_id"] for c in checks],
                 "kind_free_text": "Lean 4 theorems about an executable model (lean/), tied to the Rust code by a differential correspondence harness (harness/) and a constant extractor (tools/extract_consts.py)"}],
    "checks": checks,
    "not_applicable": na,
    "notes": "All checks: ./check <id>. Evidence rewritten on every run. Known findings: KNOWN_FINDINGS.json.",
}
json.dump(m, open(os.path.join(ROOT, "MANIFEST.json"), "w"), indent=1)
print("MANIFEST.json:", len(checks), "checks,", len(na), "not yet claimed")
