/-
Line-protocol handler for the chunk-cache model (command prefix `cache.`).

`cache.seq  cap=<n> f10=<0|1> f14=<0|1> nk=<K> k<i>=<hex key bytes> x<i>=<blobOff>:<b0>.<b1>... ops=<op>;<op>;...`
   one whole sequential history per line; ops (fields separated by `:`):
     P:<ki>:<s>:<e>:<ev>                 put of the slice [s,e) of reference xorb ki
     Q:<ki>:<s>:<e>:<offs>:<off>:<len>:<ev>  put with explicit offsets (`.`-separated) and data from the blob
     G:<ki>:<s>:<e>                      get
     W:<path>:<off>:<len>                (closed) write a file       M:<path>  mkdir     D:<path>  delete entry
     R:<cap>:<order>                     re-open; order = `,`-separated paths = read_dir order oracle
   <ev> = `-` or `+`-separated evicted entries `<ki>.<s>.<e>.<len>.<crc>` (oracle, observed on the implementation)
   answer: per op `<result> n=<numItems> b=<totalBytes> S=<snapshot> L=<fnv of listing>` joined by ` | `

`cache.conc …` : the same preamble, `threads=<n>`, and a schedule (see `handleConc`).
-/
import XetModel.Cache
import XetModel.Prim.Crc32
import Driver.Util
namespace Xet.Drv
namespace CacheDrv
open Xet.Cache

def realCrc (b : Bytes) : UInt32 := Xet.Prim.crc32L b

def nameOfStr (s : String) : Name := s.toUTF8.toList
def strOfName (n : Name) : String := String.ofList (n.map fun b => Char.ofNat b.toNat)

def pathOfStr (s : String) : Path :=
  if s.isEmpty then [] else (s.splitOn "/").map nameOfStr

def strOfPath (p : Path) : String := "/".intercalate (p.map strOfName)

def fnv64 (s : String) : UInt64 :=
  s.toUTF8.foldl (fun h b => (h ^^^ b.toUInt64) * 0x100000001b3) 0xcbf29ce484222325

structure SeqEnv where
  keys : Array Key
  xorbs : Array (Nat × List Nat)   -- blob offset, chunk boundaries (b0 = 0)
  blob : Blob

def keyIdx (env : SeqEnv) (k : Key) : String :=
  match env.keys.toList.findIdx? (· == k) with
  | some i => toString i
  | none => "?" ++ hexOfBytes k

def errStr : Err → String
  | .invalidArgs => "InvalidArguments"
  | .badRange => "BadRange"
  | .io => "IO"
  | .lockPoison => "LockPoison"
  | .parse => "Parse"
  | .general => "General"

def resStr : Res → String
  | .ok => "ok"
  | .hit d offs => s!"hit:{d.length}:{realCrc d}:{joinNat offs "."}"
  | .miss => "miss"
  | .err e => "err:" ++ errStr e
  | .panic => "panic"

def itemStr (it : Item) : String := s!"{it.start.toNat}.{it.stop.toNat}.{it.len.toNat}.{it.crc.toNat}"

def snapshotStr (env : SeqEnv) (st : CState) : String :=
  let ents := st.items.filter (fun e => !e.2.isEmpty)
  let strs := ents.map fun e =>
    (keyIdx env e.1, "+".intercalate (e.2.map fun c => itemStr c.item ++ (if c.cid ∈ st.verified then ".1" else ".0")))
  let sorted := strs.toArray.qsort (fun a b => a.1 < b.1) |>.toList
  ",".intercalate (sorted.map fun e => e.1 ++ ":" ++ e.2)

def listingStr (fs : FS) : String :=
  let strs := fs.map fun e =>
    strOfPath e.1 ++ (match e.2 with
      | .dir => "=d"
      | .file c => s!"=f{c.length}.{realCrc c}")
  let sorted := strs.toArray.qsort (· < ·) |>.toList
  ",".intercalate sorted

def stateStr (env : SeqEnv) (verbose : Bool) (w : World) : String :=
  let l := listingStr w.fs
  s!"n={w.st.numItems} b={w.st.totalBytes} S={snapshotStr env w.st} L={if verbose then l else toString (fnv64 l).toNat}"

/-- key reference: index into the key table, or `h<hex key bytes>` -/
def parseKeyRef (env : SeqEnv) (s : String) : Option Key :=
  if s.startsWith "h" then bytesOfHex (s.drop 1).toString
  else s.toNat?.bind fun i => env.keys[i]?

def parseItem (env : SeqEnv) (s : String) : Option (Key × Item) :=
  match s.splitOn "." with
  | [k, a, b, l, c] =>
    match parseKeyRef env k, a.toNat?, b.toNat?, l.toNat?, c.toNat? with
    | some k, some a, some b, some l, some c =>
      some (k, ⟨UInt32.ofNat a, UInt32.ofNat b, UInt64.ofNat l, UInt32.ofNat c⟩)
    | _, _, _, _, _ => none
  | _ => none

def parseEv (env : SeqEnv) (s : String) : Option (List (Key × Item)) :=
  if s == "-" || s.isEmpty then some []
  else (s.splitOn "+").mapM (parseItem env)

/-- turn observed evicted entries into `(key, index)` choices against the state the eviction
    loop will see (after the subsumed entries of `(k, new)` are gone) -/
def resolveChoices (items : Items) : List (Key × Item) → Option (List EvChoice)
  | [] => some []
  | (k, it) :: rest => do
    let cells ← lookupK items k
    let i ← indexOfItem cells it
    let cells' := cells.eraseIdx i
    let items' := if cells'.isEmpty then eraseK items k else setK items k cells'
    let tl ← resolveChoices items' rest
    pure ((k, i) :: tl)

def xorbSlice (env : SeqEnv) (ki s e : Nat) : Option (List Nat × Bytes) := do
  let (off, bounds) ← env.xorbs[ki]?
  let bs ← bounds[s]?
  let be ← bounds[e]?
  if s ≥ e then none
  let offs := ((bounds.drop s).take (e - s + 1)).map (· - bs)
  pure (offs, sliceL env.blob (off + bs) (be - bs))

def mkRange (s e : Nat) : Range := ⟨UInt32.ofNat s, UInt32.ofNat e⟩

/-- eviction choices for a sequential put: the commit sees the state after possible stale
    matches were dropped by `validate_match`, so resolve against a dry run without evictions:
    we instead resolve lazily inside `seqPut` below. -/
def seqPut (fixed : Bool) (w : World) (k : Key) (r : Range) (offs : List Nat) (data : Bytes)
    (ev : List (Key × Item)) : Option OpOut :=
  -- run to the commit point first (no oracle needed before it)
  let rec toWritten : Nat → World → Option World
    | 0, _ => none
    | f+1, w =>
      match w.threads[0]? with
      | some (PC.done _) => some w
      | some (PC.written _ _) => some w
      | _ => match step realCrc fixed w (.go 0 {}) with
        | none => none
        | some w' => toWritten f w'
  match step realCrc fixed w (.start 0 (.put k r offs data)) with
  | none => none
  | some w0 =>
    match toWritten 1000 w0 with
    | none => none
    | some w1 =>
      match w1.threads[0]? with
      | some (PC.written k' it) =>
        -- state the eviction loop sees
        let cells := getK w1.st.items k'
        let acc := removeSubsumed fixed it cells
        let st1 := afterRemove w1.st k' acc (subsumedIdx it 0 cells).length
        match resolveChoices st1.items ev with
        | none => none
        | some ch => runToDone realCrc fixed ch 1000 w1
      | _ => if ev.isEmpty then runToDone realCrc fixed [] 1000 w1 else none

def applyOp (env : SeqEnv) (fixed lenient verbose : Bool) (w : World) (tok : String) : World × String :=
  let f := tok.splitOn ":"
  let bad := (w, "bad-op")
  let fin (w' : World) (r : String) := (w', r ++ " " ++ stateStr env verbose w')
  match f with
  | ["P", ki, s, e, ev] =>
    match ki.toNat?, s.toNat?, e.toNat? with
    | some ki, some s, some e =>
      match env.keys[ki]?, xorbSlice env ki s e, parseEv env ev with
      | some k, some (offs, data), some evs =>
        match seqPut fixed w k (mkRange s e) offs data evs with
        | some o => fin o.w (resStr o.res)
        | none => fin w "illegal"
      | _, _, _ => bad
    | _, _, _ => bad
  | ["Q", ki, s, e, offs, off, len, ev] =>
    match ki.toNat?, s.toNat?, e.toNat?, off.toNat?, len.toNat? with
    | some ki, some s, some e, some off, some len =>
      match env.keys[ki]?, parseEv env ev with
      | some k, some evs =>
        match seqPut fixed w k (mkRange s e) (natList offs ".") (sliceL env.blob off len) evs with
        | some o => fin o.w (resStr o.res)
        | none => fin w "illegal"
      | _, _ => bad
    | _, _, _, _, _ => bad
  | ["G", ki, s, e] =>
    match ki.toNat?, s.toNat?, e.toNat? with
    | some ki, some s, some e =>
      match env.keys[ki]? with
      | some k =>
        match runOp realCrc fixed 1000 w (.get k (mkRange s e)) [] with
        | some o => fin o.w (resStr o.res)
        | none => fin w "illegal"
      | none => bad
    | _, _, _ => bad
  | ["W", p, off, len] =>
    match off.toNat?, len.toNat? with
    | some off, some len =>
      fin { w with st := CState.empty, fs := FS.put w.fs (pathOfStr p) (.file (sliceL env.blob off len)) } "w"
    | _, _ => bad
  | ["M", p] => fin { w with st := CState.empty, fs := FS.mkdir w.fs (pathOfStr p) } "m"
  | ["D", p] => fin { w with st := CState.empty, fs := FS.erase w.fs (pathOfStr p) } "d"
  | ["R", cap, order] =>
    match cap.toNat? with
    | some cap =>
      let ord := if order.isEmpty then [] else (order.splitOn ",").map pathOfStr
      if !orderLegal w.fs ord then fin w "illegal-order"
      else
        match scan lenient w.fs cap ord with
        | none => fin { w with st := CState.empty } "err"
        | some out =>
          match out.res with
          | .panic => fin { w with st := CState.empty, fs := out.s.fs } "panic"
          | .ok => fin ⟨out.s.st, out.s.fs, cap, false, [.idle]⟩ "ok"
    | none => bad
  | _ => bad

def parseEnv (blob : Blob) (toks : List String) : Option SeqEnv := do
  let nk ← kvNat toks "nk"
  let keys ← (List.range nk).mapM fun i => (kv toks s!"k{i}").bind bytesOfHex
  let xorbs ← (List.range nk).mapM fun i => do
    let v ← kv toks s!"x{i}"
    match v.splitOn ":" with
    | [off, bs] => do
      let o ← off.toNat?
      pure (o, natList bs ".")
    | _ => none
  pure ⟨keys.toArray, xorbs.toArray, blob⟩

def handleSeq (blob : Blob) (toks : List String) : String :=
  match parseEnv blob toks, kvNat toks "cap", kvNat toks "f10", kvNat toks "f14" with
  | some env, some cap, some fixed, some f14 =>
    let verbose := (kvNat toks "verbose").getD 0 == 1
    let opsTok := (toks.find? (·.startsWith "ops=")).map (·.drop 4 |>.toString)
    match opsTok with
    | none => "bad-op"
    | some ops =>
      let w0 : World := ⟨CState.empty, [], cap, false, [.idle]⟩
      let (_, outs) := (ops.splitOn ";").foldl
        (fun (acc : World × List String) tok =>
          if tok.isEmpty then acc else
          let (w', s) := applyOp env (fixed == 1) (f14 == 1) verbose acc.1 tok
          (w', s :: acc.2))
        (w0, [])
      " | ".intercalate outs.reverse
  | _, _, _, _ => "bad-op"

/-! ### `cache.conc`: a schedule of the step-granular concurrent semantics

`cache.conc cap=<n> f10= f14= threads=<N> nk=.. k<i>=.. x<i>=.. sched=<step>;<step>;...`
  S:<tid>:P:<ki>:<s>:<e>  |  S:<tid>:G:<ki>:<s>:<e>     thread `tid` starts the operation
  T:<tid>:<ev>:<pick>      thread `tid` runs to its next schedule point; <ev> as in `cache.seq` (used by the
                           commit, in the order given); <pick> = `-` or `<s>.<e>.<len>.<crc>`: the subsumed
                           entry whose file the step deletes (observed)
  R:<cap>:<order>          close and re-open (all threads idle)
answer per step: `<program counter> n= b= S= L=`  -/

def pcStr : PC → String
  | .idle => "idle"
  | .matched (.get _ _) _ => "cache.get.matched"
  | .matched (.put _ _ _ _) _ => "cache.put.matched"
  | .noMatch _ => "cache.put.nomatch"
  | .written _ _ => "cache.put.written"
  | .unlinking _ sub _ => if sub.isEmpty then "cache.put.unlink_evicted" else "cache.put.unlink_subsumed"
  | .removing _ _ => "cache.remove_item.unlink"
  | .done r => "done:" ++ resStr r

def parseOpTok (env : SeqEnv) : List String → Option Op
  | ["P", ki, s, e] => do
    let ki ← ki.toNat?
    let s ← s.toNat?
    let e ← e.toNat?
    let k ← env.keys[ki]?
    let (offs, data) ← xorbSlice env ki s e
    pure (.put k (mkRange s e) offs data)
  | ["G", ki, s, e] => do
    let ki ← ki.toNat?
    let s ← s.toNat?
    let e ← e.toNat?
    let k ← env.keys[ki]?
    pure (.get k (mkRange s e))
  | _ => none

def parsePick (s : String) : Option (Option Item) :=
  if s == "-" then some none
  else match (s.splitOn ".").map (·.toNat?) with
    | [some a, some b, some l, some c] => some (some ⟨UInt32.ofNat a, UInt32.ofNat b, UInt64.ofNat l, UInt32.ofNat c⟩)
    | _ => none

def concStep (env : SeqEnv) (fixed lenient verbose : Bool) (w : World) (tok : String) : World × String :=
  let bad := (w, "bad-op")
  let fin (w' : World) (tid : Nat) := (w', pcStr (w'.threads.getD tid .idle) ++ " " ++ stateStr env verbose w')
  match tok.splitOn ":" with
  | "S" :: tid :: opToks =>
    match tid.toNat?, parseOpTok env opToks with
    | some tid, some op =>
      match step realCrc fixed w (.start tid op) with
      | some w' => fin w' tid
      | none => (w, "illegal " ++ stateStr env verbose w)
    | _, _ => bad
  | ["T", tid, ev, pick] =>
    match tid.toNat?, parseEv env ev, parsePick pick with
    | some tid, some evs, some pk =>
      let pc := w.threads.getD tid .idle
      -- resolve the oracle values against the thread's program counter
      let choices : Option (List EvChoice) := match pc with
        | .written k it =>
          let cells := getK w.st.items k
          let acc := removeSubsumed fixed it cells
          let st1 := afterRemove w.st k acc (subsumedIdx it 0 cells).length
          resolveChoices st1.items evs
        | _ => if evs.isEmpty then some [] else none
      let pickIdx : Option Nat := match pc, pk with
        | .unlinking _ sub _, some it => sub.findIdx? (· == it)
        | .unlinking k sub _, none =>
          -- nothing disappeared: an entry whose file is already gone (first such), else 0
          some ((sub.findIdx? fun it => (FS.get w.fs (itemPath k it)).isNone).getD 0)
        | _, _ => some 0
      match choices, pickIdx with
      | some ch, some pi =>
        match step realCrc fixed w (.go tid ⟨ch, pi⟩) with
        | some w' => fin w' tid
        | none => (w, "illegal " ++ stateStr env verbose w)
      | _, _ => (w, "illegal-oracle " ++ stateStr env verbose w)
    | _, _, _ => bad
  | ["R", cap, order] =>
    match cap.toNat? with
    | some cap =>
      let ord := if order.isEmpty then [] else (order.splitOn ",").map pathOfStr
      if !orderLegal w.fs ord then (w, "illegal-order")
      else
        match reopen lenient w w.fs cap ord with
        | some w' => (w', "ok " ++ stateStr env verbose w')
        | none => (w, "reopen-failed " ++ stateStr env verbose w)
    | none => bad
  | _ => bad

def handleConc (blob : Blob) (toks : List String) : String :=
  match parseEnv blob toks, kvNat toks "cap", kvNat toks "f10", kvNat toks "f14", kvNat toks "threads" with
  | some env, some cap, some fixed, some f14, some n =>
    let verbose := (kvNat toks "verbose").getD 0 == 1
    match (toks.find? (·.startsWith "sched=")).map (·.drop 6 |>.toString) with
    | none => "bad-op"
    | some sched =>
      let w0 : World := ⟨CState.empty, [], cap, false, List.replicate n .idle⟩
      let (_, outs) := (sched.splitOn ";").foldl
        (fun (acc : World × List String) tok =>
          if tok.isEmpty then acc else
          let (w', s) := concStep env (fixed == 1) (f14 == 1) verbose acc.1 tok
          (w', s :: acc.2))
        (w0, [])
      " | ".intercalate outs.reverse
  | _, _, _, _, _ => "bad-op"

end CacheDrv

/-- entry point of the chunk-cache handler (all helpers live in `Xet.Drv.CacheDrv`) -/
def handleCache (blob : Blob) (cmd : String) (toks : List String) : String :=
  match cmd with
  | "cache.seq" => CacheDrv.handleSeq blob toks
  | "cache.conc" => CacheDrv.handleConc blob toks
  | _ => "bad-op"

end Xet.Drv
