import XetModel.Uploads
import XetModel.UploadBytes
import Driver.Util
/-!
Driver handler for the upload-task bookkeeping model (C16).  Command prefix `up.`.

* `up.trace ev=<e1,e2,…>` → `final=<none|ok|err> apiErrors=<n> shards=<0|1> latch=<0|1> tasks=<…>`:
  replays the event list through `Xet.Uploads.run` from `S.init` and prints the end state.
  `ev=` (empty) is the empty history.

Event tokens:
  `r1` / `r0`            an API call reached `register_new_xorb_for_upload` with a non-empty / empty xorb
  `c<i>:1` / `c<i>:0`    background `put` number `i` finished ok / failed
  `f<1|0>:<o>:<1|0>`     `finalize`: last xorb non-empty?; `<o>` = outcomes (string of `0`/`1`, `-` when empty) of
                         the tasks still running when the join loop waits for them, in id order; shards ok?

`tasks=` has one letter per task in id order: `r` running, `O`/`F` done ok/failed (not reaped),
`o`/`f` reaped ok/failed.  Anything ill-formed → `bad-op`.

* `up.obs ev=<…>` → `final=<none|ok|err> apiErrors=<n> shards=<0|1> tasks=<…>`: the same replay, projected to what
  a client-side observer sees (no latch; per task only `r` not finished, `o` finished ok, `f` finished failed).

* `up.bytes ev=<…>` → `final=<none|ok|err> xorb=<n|none> shard=<n|none> total=<n|none>`: replay through the byte-accounting layer
  `Xet.UploadBytes.runB false` (C14, upload-byte clause).  Event tokens: `r<1|0>:<sz>` (register; `sz` = byte count the put
  returns on success), `c<i>:<1|0>`, `f<1|0>:<lastSz>:<o>:<shards>` with `<shards>` = `-` or `/`-separated `<len>.<1|0>`
  (shard length, accepted by the store?) in upload order.
-/
namespace Xet.Drv
open Xet.Uploads

def upBit (s : String) : Option Bool :=
  if s == "1" then some true else if s == "0" then some false else none

def upBits (s : String) : Option (List Bool) :=
  if s == "-" then some []
  else if s.isEmpty then none
  else s.toList.mapM fun c => if c == '1' then some true else if c == '0' then some false else none

def parseUpEv (tok : String) : Option Ev :=
  match tok.toList with
  | [] => none
  | kind :: restChars =>
    let body := String.ofList restChars
    if kind == 'r' then (upBit body).map Ev.register
    else if kind == 'c' then
      match body.splitOn ":" with
      | [i, ok] =>
        match i.toNat?, upBit ok with
        | some i, some ok => some (.complete i ok)
        | _, _ => none
      | _ => none
    else if kind == 'f' then
      match body.splitOn ":" with
      | [ne, outs, sh] =>
        match upBit ne, upBits outs, upBit sh with
        | some ne, some outs, some sh => some (.finalize ne outs sh)
        | _, _, _ => none
      | _ => none
    else none

def upTaskChar : TaskSt → Char
  | .running => 'r'
  | .done true => 'O'
  | .done false => 'F'
  | .reaped true => 'o'
  | .reaped false => 'f'

def upShow (s : S) : String :=
  let fin := match s.finalized with
    | none => "none"
    | some true => "ok"
    | some false => "err"
  let b (x : Bool) : String := if x then "1" else "0"
  s!"final={fin} apiErrors={s.apiErrors} shards={b s.shardUploadsStarted} latch={b s.latch} tasks={String.ofList (s.tasks.map upTaskChar)}"

def upObsChar : TaskSt → Char
  | .running => 'r'
  | .done true | .reaped true => 'o'
  | .done false | .reaped false => 'f'

def upShowObs (s : S) : String :=
  let fin := match s.finalized with
    | none => "none"
    | some true => "ok"
    | some false => "err"
  let b (x : Bool) : String := if x then "1" else "0"
  -- after a failing finalize the implementation aborts the remaining puts when the session is dropped (timing dependent;
  -- the model completes them): the per-task column is compared only for sessions that finalized successfully
  let tasks := if s.finalized == some true then String.ofList (s.tasks.map upObsChar) else "*"
  s!"final={fin} apiErrors={s.apiErrors} shards={b s.shardUploadsStarted} tasks={tasks}"

def parseShards (s : String) : Option (List (Nat × Bool)) :=
  if s == "-" then some []
  else (s.splitOn "/").mapM fun t =>
    match t.splitOn "." with
    | [l, ok] =>
      match l.toNat?, upBit ok with
      | some l, some ok => some (l, ok)
      | _, _ => none
    | _ => none

def parseUpEvB (tok : String) : Option Xet.UploadBytes.EvB :=
  match tok.toList with
  | [] => none
  | kind :: restChars =>
    let body := String.ofList restChars
    if kind == 'r' then
      match body.splitOn ":" with
      | [ne, sz] =>
        match upBit ne, sz.toNat? with
        | some ne, some sz => some (.register ne sz)
        | _, _ => none
      | _ => none
    else if kind == 'c' then
      match body.splitOn ":" with
      | [i, ok] =>
        match i.toNat?, upBit ok with
        | some i, some ok => some (.complete i ok)
        | _, _ => none
      | _ => none
    else if kind == 'f' then
      match body.splitOn ":" with
      | [ne, lsz, outs, sh] =>
        match upBit ne, lsz.toNat?, upBits outs, parseShards sh with
        | some ne, some lsz, some outs, some sh => some (.finalize ne lsz outs sh)
        | _, _, _, _ => none
      | _ => none
    else none

def upShowBytes (b : Xet.UploadBytes.SB) : String :=
  let fin := match b.s.finalized with
    | none => "none"
    | some true => "ok"
    | some false => "err"
  let o (x : Option Nat) : String := match x with
    | none => "none"
    | some n => toString n
  s!"final={fin} xorb={o b.reportedXorb} shard={o b.reportedShard} total={o b.reportedTotal}"

def handleUploads (_blob : Blob) (cmd : String) (toks : List String) : String :=
  if cmd == "up.bytes" then
    match kv toks "ev" with
    | none => "bad-op"
    | some evs =>
      let evToks := if evs.isEmpty then [] else evs.splitOn ","
      match evToks.mapM parseUpEvB with
      | none => "bad-op"
      | some es => upShowBytes (Xet.UploadBytes.runB false Xet.UploadBytes.SB.init es)
  else if cmd == "up.trace" || cmd == "up.obs" then
    match kv toks "ev" with
    | none => "bad-op"
    | some evs =>
      let evToks := if evs.isEmpty then [] else evs.splitOn ","
      match evToks.mapM parseUpEv with
      | none => "bad-op"
      | some es => if cmd == "up.trace" then upShow (run S.init es) else upShowObs (run S.init es)
  else "bad-op"

end Xet.Drv
