import XetModel.InterpSearch
import XetModel.Generated.Consts
import Driver.Util
namespace Xet.Drv
open Xet.InterpSearch

/-- little-endian unsigned integer of `len` bytes at `off`. -/
def leNat (b : Blob) (off len : Nat) : Nat :=
  (List.range len).foldr (fun i acc => acc * 256 + (b.get! (off + i)).toNat) 0

/-- the serialized table as the Rust reader sees it: `n` records of an 8-byte key and a `vs`-byte value. -/
def tableOfBlob (b : Blob) (off n vs : Nat) : Table :=
  let ps := 8 + vs
  let ks := Array.ofFn (n := n) fun i => leNat b (off + i.val * ps) 8
  let vals := Array.ofFn (n := n) fun i => leNat b (off + i.val * ps + 8) vs
  Table.ofArrays ks vals

def errName : Err → String
  | .underflow => "underflow" | .overflow => "overflow" | .oob => "oob" | .fuel => "fuel"

def showRes : Except Err Res → String
  | .ok r => s!"{joinNat r.out}|{joinNat r.seeks}"
  | .error e => s!"err:{errName e}"

/--
* `search.run off=O n=N vs=V rs=R cap=K keys=k1,k2,… [w=W d=D]` — table of `N` records at blob offset `O`,
  value size `V` bytes, `read_start = R`, result capacity `K`; one answer `out|seeks` per key joined by `;`.
  `w`/`d` default to the constants regenerated from the Rust source.
* `search.probe lo= lokey= hi= hikey= key=` — `compute_probe_location` (float emulation + clamp).
* `search.consts` — the regenerated constants.
-/
def handleSearch (blob : Blob) (cmd : String) (toks : List String) : String :=
  match cmd with
  | "search.run" =>
    match kvNat toks "off", kvNat toks "n", kvNat toks "vs", kvNat toks "rs", kvNat toks "cap" with
    | some off, some n, some vs, some rs, some cap =>
      if off + n * (8 + vs) > blob.size then "bad-op" else
      let w := (kvNat toks "w").getD Gen.readWindowSize
      let d := (kvNat toks "d").getD Gen.expectedMaxNumDuplicates
      let t := tableOfBlob blob off n vs
      let p : Params := ⟨w, d, cap, rs, 8 + vs⟩
      let keys := natList ((kv toks "keys").getD "")
      ";".intercalate (keys.map fun k => showRes (search interpProbe p t k))
    | _, _, _, _, _ => "bad-op"
  | "search.probe" =>
    match kvNat toks "lo", kvNat toks "lokey", kvNat toks "hi", kvNat toks "hikey", kvNat toks "key" with
    | some lo, some lokey, some hi, some hikey, some key =>
      match computeProbe interpProbe key lo lokey hi hikey with
      | .ok v => toString v
      | .error e => s!"err:{errName e}"
    | _, _, _, _, _ => "bad-op"
  | "search.consts" => s!"w={Gen.readWindowSize} d={Gen.expectedMaxNumDuplicates}"
  | _ => "bad-op"

end Xet.Drv
