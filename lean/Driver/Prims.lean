import XetModel.Hash
import XetModel.Prim.Blake3
import XetModel.Prim.Sha256
import XetModel.Prim.Crc32
import Driver.Util
namespace Xet.Drv

/-- the concrete primitives: independent Lean BLAKE3 with the keys regenerated from the Rust source -/
def realPrims : HashPrims where
  dataHash b := Hash.ofBytes (Prim.blake3KeyedL Gen.dataKey b)
  internalHash b := Hash.ofBytes (Prim.blake3KeyedL Gen.internalNodeKey b)
  verifyHash b := Hash.ofBytes (Prim.blake3KeyedL Gen.verificationKey b)
  keyed k b := Hash.ofBytes (Prim.blake3KeyedL k b)

def hashHex (h : Hash) : String := String.ofList (h.hex.map fun b => Char.ofNat b.toNat)

def parseHash (s : String) : Option Hash := Hash.fromHex (s.toList.map fun c => UInt8.ofNat c.toNat)

/-- `hex:len,hex:len,…` -/
def parseChunkList (s : String) : Option (List (Hash × Nat)) :=
  if s.isEmpty then some [] else
  (s.splitOn ",").mapM fun t =>
    match t.splitOn ":" with
    | [h, l] => do
      let hh ← parseHash h
      let n ← l.toNat?
      pure (hh, n)
    | _ => none

def parseHashList (s : String) : Option (List Hash) :=
  if s.isEmpty then some [] else (s.splitOn ",").mapM parseHash

end Xet.Drv
