import XetModel.ShardFormat
import Driver.Prims
namespace Xet.Drv
open Xet.Shard

def fnvS (bs : List UInt8) : UInt64 :=
  bs.foldl (fun h b => (h ^^^ b.toUInt64) * 0x100000001b3) 0xcbf29ce484222325

def shardErr : Shard.Err → String
  | .eof => "eof" | .version => "version" | .collision => "collision" | .internal => "internal"

/-- `off:len` -/
def parseSpan (s : String) : Option (Nat × Nat) :=
  match s.splitOn ":" with
  | [a, b] => match a.toNat?, b.toNat? with
    | some x, some y => some (x, y)
    | _, _ => none
  | _ => none

/-- records in insertion order, terminated by the end of the span -/
def parseFileRecs (b : Bytes) : Nat → Nat → List FileInfo → List FileInfo
  | 0, _, acc => acc.reverse
  | fuel+1, off, acc =>
    if off ≥ b.length then acc.reverse else
    match parseFileInfo b off with
    | .ok (some (f, off')) => parseFileRecs b fuel off' (f :: acc)
    | _ => acc.reverse

def parseCasRecs (b : Bytes) : Nat → Nat → List CasInfo → List CasInfo
  | 0, _, acc => acc.reverse
  | fuel+1, off, acc =>
    if off ≥ b.length then acc.reverse else
    match parseCasInfo b off with
    | .ok (some (c, off')) => parseCasRecs b fuel off' (c :: acc)
    | _ => acc.reverse

def buildMem (blob : Blob) (toks : List String) : Option MemShard := do
  let (fo, fl) ← (kv toks "files").bind parseSpan
  let (co, cl) ← (kv toks "cas").bind parseSpan
  let fb := sliceL blob fo fl
  let cb := sliceL blob co cl
  let files := parseFileRecs fb (fl / 48 + 1) 0 []
  let cas := parseCasRecs cb (cl / 48 + 1) 0 []
  let s := cas.foldl (fun acc c => acc.addCas c) MemShard.empty
  some (files.foldl (fun acc f => acc.addFile f) s)

def answerStr : Option DedupAnswer → String
  | none => "none"
  | some a => s!"n={a.n} cas={hashHex a.seg.casHash} flags={a.seg.casFlags} bytes={a.seg.bytes} s={a.seg.cstart} e={a.seg.cend}"

def footerStr (f : Footer) : String :=
  s!"v={f.version} fio={f.fileInfoOff} cio={f.casInfoOff} flo={f.fileLookupOff} fln={f.fileLookupNum} clo={f.casLookupOff} cln={f.casLookupNum} hlo={f.chunkLookupOff} hln={f.chunkLookupNum} key={hashHex f.hmacKey} sd={f.storedOnDisk} mat={f.materialized} st={f.stored} fo={f.footerOff}"

def handleShard (blob : Blob) (cmd : String) (toks : List String) : String :=
  let P := realPrims
  match cmd with
  | "shard.build" =>
    match buildMem blob toks with
    | none => "bad-op"
    | some s =>
      let ser := serializeStable s.mem
      s!"len={ser.bytes.length} fnv={fnvS ser.bytes} size={s.shardFileSize} nf={s.mem.files.length} nc={s.mem.cas.length} {footerStr ser.footer}"
  | "shard.memdedup" =>
    match buildMem blob toks, (kv toks "q").bind parseHashList with
    | some s, some q => answerStr (s.dedup q)
    | _, _ => "bad-op"
  | "shard.get" =>
    match (kv toks "at").bind parseSpan, (kv toks "h").bind parseHashList with
    | some (off, len), some hs =>
      let b := sliceL blob off len
      match loadInfo b with
      | .error e => s!"load-err:{shardErr e}"
      | .ok ft =>
        " ".intercalate (hs.map fun h =>
          match getFile b ft h with
          | .ok (some f) => s!"some:{fnvS f.bytes}"
          | .ok none => "none"
          | .error e => s!"err:{shardErr e}")
    | _, _ => "bad-op"
  | "shard.scan" =>
    match (kv toks "at").bind parseSpan with
    | some (off, len) =>
      let b := sliceL blob off len
      match loadInfo b with
      | .error e => s!"load-err:{shardErr e}"
      | .ok ft =>
        let files := match readAllFiles b (len / 48 + 1) ft.fileInfoOff [] with
          | .ok fs => s!"{fs.length}:{fnvS (fs.flatMap FileInfo.bytes)}"
          | .error e => s!"err:{shardErr e}"
        let cas := match readAllCas b (len / 48 + 1) ft.casInfoOff [] with
          | .ok cs => s!"{cs.length}:{fnvS (cs.flatMap CasInfo.bytes)}"
          | .error e => s!"err:{shardErr e}"
        let tbl := match readChunkLookup b ft.chunkLookupNum ft.chunkLookupOff [] with
          | .ok t => s!"{t.length}:{fnvS (chunkLookupBytes t)}:{keySorted t}"
          | .error e => s!"err:{shardErr e}"
        s!"files={files} cas={cas} chunks={tbl} {footerStr ft}"
    | none => "bad-op"
  | "shard.dedup" =>
    -- shard.dedup at=<off>:<len> q=<hex,…> cands=<ci:co;…>   (cands = what the table search returned)
    match (kv toks "at").bind parseSpan, (kv toks "q").bind parseHashList with
    | some (off, len), some q =>
      let b := sliceL blob off len
      match loadInfo b with
      | .error e => s!"load-err:{shardErr e}"
      | .ok ft =>
        let cs := ((kv toks "cands").getD "")
        let cands : List (Nat × Nat) := if cs.isEmpty || cs == "-" then [] else (cs.splitOn ";").filterMap parseSpan
        let legal := match q with
          | [] => true
          | q0 :: _ =>
            match readChunkLookup b ft.chunkLookupNum ft.chunkLookupOff [] with
            | .ok table =>
              let key := trunc (keyedHash P ft.hmacKey q0)
              let all : List (Nat × Nat) := (table.filter fun (e : Nat × Nat × Nat) => e.1 == key).map fun (e : Nat × Nat × Nat) => (e.2.1, e.2.2)
              cands.all (fun c => all.contains c) && (cands.length == min all.length 8)
            | .error _ => false
        match dedupQuery P b ft q cands with
        | .ok a => s!"legal={legal} {answerStr a}"
        | .error e => s!"legal={legal} err:{shardErr e}"
    | _, _ => "bad-op"
  | _ => "bad-op"

end Xet.Drv
