import XetModel.Chunker
import Driver.Util
namespace Xet.Drv
open Xet.Chunker

/-- per-call trace of `Chunker::next` driven like `next_block` drives it (fuel = bytes + 1). -/
def nextTrace (p : Params) (isFinal : Bool) : Nat → State → Bytes → List String → State × List String
  | 0, s, _, out => (s, out)
  | fuel+1, s, data, out =>
    if data.isEmpty then (s, out)
    else
      let r := next p s data isFinal
      let tok := match r.chunk with
        | some c => s!"s{c.length}:{r.consumed}"
        | none => s!"n:{r.consumed}"
      nextTrace p isFinal fuel r.st (data.drop r.consumed) (tok :: out)

def traceParts (p : Params) : State → List Bytes → List String → State × List String
  | s, [], out => (s, out)
  | s, part :: parts, out =>
    let (s', out') := nextTrace p false (part.length + 1) s part out
    traceParts p s' parts out'

def splitParts (data : Bytes) : List Nat → List Bytes
  | [] => []
  | n :: ns => data.take n :: splitParts (data.drop n) ns

/-- `chunker target=T mindiv=D maxmul=M off=O len=L parts=a,b,c` -/
def handleChunker (blob : Blob) (toks : List String) : String :=
  match kvNat toks "target", kvNat toks "mindiv", kvNat toks "maxmul", kvNat toks "off", kvNat toks "len" with
  | some t, some d, some m, some off, some len =>
    match mkParams t d m with
    | none => "reject"
    | some p =>
      let data := sliceL blob off len
      let parts := splitParts data (natList ((kv toks "parts").getD ""))
      let fed := feed p parts
      let spec := specSplitR p data
      let (sEnd, tr) := traceParts p State.init parts []
      let fin := match finish p sEnd with
        | some c => s!"s{c.length}"
        | none => "n"
      s!"min={p.minC} max={p.maxC} feed={joinNat (fed.map (·.length))} spec={joinNat (spec.map (·.length))} trace={",".intercalate tr.reverse} fin={fin}"
  | _, _, _, _, _ => "bad-op"

end Xet.Drv
