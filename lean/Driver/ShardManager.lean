import XetModel.ShardManager
import Driver.Shard
namespace Xet.Drv
open Xet.Shard

/-- canonical form of shard bytes: chunk lookup rows re-sorted completely -/
def canonicalShard (b : Bytes) : Bytes :=
  match loadInfo b with
  | .error _ => b
  | .ok ft =>
    match readChunkLookup b ft.chunkLookupNum ft.chunkLookupOff [] with
    | .error _ => b
    | .ok rows =>
      let sorted := (rows.toArray.qsort (fun a b => a.1 < b.1 || (a.1 == b.1 && (a.2.1 < b.2.1 || (a.2.1 == b.2.1 && a.2.2 < b.2.2))))).toList
      b.take ft.chunkLookupOff ++ chunkLookupBytes sorted ++ b.drop (ft.chunkLookupOff + 16 * rows.length)

structure MgrRun where
  m : Mgr
  out : List String
  err : Option String

/-- `mgr.run maxidx=<n> minsize=<n> ops=<op;op;…>` with ops
    `c:<off>:<len>` add_cas_block(record), `f:<off>:<len>` add_file_reconstruction_info(record),
    `F:<off>:<len>` a flush happened and wrote these bytes (`F:-` = flush call that wrote nothing),
    `R:<off>:<len>` register an external shard file, `q:<hex,hex,…>` dedup query, `g:<hex>` file lookup -/
def mgrStep (P : HashPrims) (blob : Blob) (maxIdx minSize : Nat) (st : MgrRun) (op : String) : MgrRun :=
  if st.err.isSome then st else
  match op.splitOn ":" with
  | ["c", o, l] =>
    match o.toNat?, l.toNat? with
    | some o, some l =>
      match parseCasInfo (sliceL blob o l) 0 with
      | .ok (some (c, _)) =>
        let m1 := { st.m with mem := st.m.mem.addCas c }
        { st with m := m1, out := st.out ++ [s!"c{if m1.mem.shardFileSize ≥ minSize then "!" else ""}"] }
      | _ => { st with err := some "bad-cas" }
    | _, _ => { st with err := some "bad-op" }
  | ["f", o, l] =>
    match o.toNat?, l.toNat? with
    | some o, some l =>
      match parseFileInfo (sliceL blob o l) 0 with
      | .ok (some (f, _)) =>
        let m1 := { st.m with mem := st.m.mem.addFile f }
        { st with m := m1, out := st.out ++ [s!"f{if m1.mem.shardFileSize ≥ minSize then "!" else ""}"] }
      | _ => { st with err := some "bad-file" }
    | _, _ => { st with err := some "bad-op" }
  | ["F", "-"] =>
    { st with out := st.out ++ [s!"F:{if st.m.mem.mem.files.isEmpty && st.m.mem.mem.cas.isEmpty then "empty" else "MODEL-NONEMPTY"}"] }
  | ["F", o, l] =>
    match o.toNat?, l.toNat? with
    | some o, some l =>
      let actual := sliceL blob o l
      let modelBytes := (serializeStable st.m.mem.mem).bytes
      let same := canonicalShard actual == modelBytes
      match ({ st.m with mem := MemShard.empty }).registerOne maxIdx (P.dataHash actual) actual with
      | .ok m1 => { st with m := m1, out := st.out ++ [s!"F:{if same then "same" else "DIFF"}"] }
      | .error e => { st with err := some s!"flush-register:{shardErr e}" }
    | _, _ => { st with err := some "bad-op" }
  | ["R", o, l] =>
    match o.toNat?, l.toNat? with
    | some o, some l =>
      let b := sliceL blob o l
      match st.m.registerOne maxIdx (P.dataHash b) b with
      | .ok m1 => { st with m := m1, out := st.out ++ ["R"] }
      | .error e => { st with err := some s!"register:{shardErr e}" }
    | _, _ => { st with err := some "bad-op" }
  | ["q", hs] =>
    match parseHashList hs with
    | some q =>
      match st.m.dedup P q with
      | .ok a => { st with out := st.out ++ [s!"q[{answerStr a}]"] }
      | .error e => { st with out := st.out ++ [s!"q[err:{shardErr e}]"] }
    | none => { st with err := some "bad-query" }
  | ["g", h] =>
    match parseHash h with
    | some hh =>
      match st.m.getFile hh with
      | .ok (some f) => { st with out := st.out ++ [s!"g[some:{fnvS f.bytes}]"] }
      | .ok none => { st with out := st.out ++ ["g[none]"] }
      | .error e => { st with out := st.out ++ [s!"g[err:{shardErr e}]"] }
    | none => { st with err := some "bad-hash" }
  | _ => { st with err := some "bad-op" }

def handleMgr (blob : Blob) (cmd : String) (toks : List String) : String :=
  let P := realPrims
  match cmd, kvNat toks "maxidx", kvNat toks "minsize" with
  | "mgr.run", some mi, some ms =>
    let ops := ((kv toks "ops").getD "").splitOn ";" |>.filter (· ≠ "")
    let r := ops.foldl (mgrStep P blob mi ms) ⟨Mgr.init, [], none⟩
    match r.err with
    | some e => s!"error {e} after {r.out.length} ops"
    | none => " ".intercalate r.out
  | _, _, _ => "bad-op"

end Xet.Drv
