import Driver.Util
import Driver.Chunker
import Driver.Hashes
import Driver.Bg4
import Driver.CrashFS
import Driver.ShardStream
import Driver.Pointer
import Driver.Shard
import Driver.InterpSearch
import Driver.Dedup
import Driver.Singleflight
import Driver.Session
import Driver.Reconstruct
import Driver.Xorb
import Driver.ShardOps
import Driver.Cache
import Driver.Uploads
import Driver.ShardManager
open Xet.Drv

def dispatch (blob : Blob) (line : String) : String :=
  let toks := (line.trimAscii.toString.splitOn " ").filter (· ≠ "")
  match toks with
  | [] => ""
  | cmd :: rest =>
    if cmd == "chunker" then handleChunker blob rest
    else if cmd.startsWith "hash" || cmd.startsWith "hex." then handleHash blob cmd rest
    else if cmd.startsWith "shardop." then handleShardOps blob cmd rest
    else if cmd.startsWith "shard." then handleShard blob cmd rest
    else if cmd.startsWith "sess." || cmd == "sha256" then handleSession blob cmd rest
    else if cmd.startsWith "xorb." then handleXorb blob cmd rest
    else if cmd.startsWith "mgr." then handleMgr blob cmd rest
    else if cmd.startsWith "up." then handleUploads blob cmd rest
    else if cmd.startsWith "cache." then handleCache blob cmd rest
    else if cmd.startsWith "recon." then handleRecon blob cmd rest
    else if cmd.startsWith "sf." then handleSf blob cmd rest
    else if cmd.startsWith "dedup." then handleDedup blob cmd rest
    else if cmd.startsWith "search." then handleSearch blob cmd rest
    else if cmd.startsWith "bg4." then handleBg4 blob cmd rest
    else if cmd.startsWith "crash." then handleCrash blob cmd rest
    else if cmd.startsWith "sstream." then handleShardStream blob cmd rest
    else if cmd.startsWith "ptr." then handlePtr blob cmd rest
    else "bad-op"

/-- usage: xetdriver <ops.txt> <blob.bin> <model.out> -/
def main (args : List String) : IO UInt32 := do
  match args with
  | [ops, blobPath, outPath] =>
    let blob ← IO.FS.readBinFile blobPath
    let lines ← IO.FS.lines ops
    let h ← IO.FS.Handle.mk outPath .write
    for line in lines do
      if line.startsWith "#" then continue
      h.putStrLn (dispatch blob line)
    h.flush
    return 0
  | _ =>
    IO.eprintln "usage: xetdriver <ops.txt> <blob.bin> <model.out>"
    return 2
