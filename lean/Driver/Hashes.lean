import XetModel.Merkle
import XetModel.HashText
import Driver.Prims
namespace Xet.Drv
open Xet.Merkle

def handleHash (blob : Blob) (cmd : String) (toks : List String) : String :=
  let P := realPrims
  match cmd, toks with
  | "hash.data", [off, len] =>
    match off.toNat?, len.toNat? with
    | some o, some l => hashHex (P.dataHash (sliceL blob o l))
    | _, _ => "bad-op"
  | "hash.internal", [off, len] =>
    match off.toNat?, len.toNat? with
    | some o, some l => hashHex (P.internalHash (sliceL blob o l))
    | _, _ => "bad-op"
  | "hash.cas", [cl] =>
    match parseChunkList cl with
    | some cs => s!"cas={hashHex (casNodeHash P cs)} val={hashHex (validatorRoot P cs [])}"
    | none => "bad-op"
  | "hash.cas", [] => s!"cas={hashHex (casNodeHash P [])} val={hashHex (validatorRoot P [] [])}"
  | "hash.file", [salt, cl] =>
    match bytesOfHex salt, parseChunkList cl with
    | some s, some cs => hashHex (fileNodeHash P cs s)
    | _, _ => "bad-op"
  | "hash.file", [salt] =>
    match bytesOfHex salt with
    | some s => hashHex (fileNodeHash P [] s)
    | _ => "bad-op"
  | "hash.range", [hl] =>
    match parseHashList hl with
    | some hs => hashHex (rangeHash P hs)
    | none => "bad-op"
  | "hash.range", [] => hashHex (rangeHash P [])
  | "hash.hmac", [h, k] =>
    match parseHash h, parseHash k with
    | some hh, some kk => hashHex (hmac P hh kk)
    | _, _ => "bad-op"
  | "hex.parse", [t] =>
    match parseHash t with
    | some h => s!"ok {hashHex h}"
    | none => "err"
  | "hex.parse", [] => "err"
  | "hash.b64", [t] =>
    match parseHash t with
    | some h => String.ofList ((Hash.base64 h).map fun b => Char.ofNat b.toNat)
    | none => "bad-op"
  | "hash.fromb64", [t] =>
    -- a character outside Latin-1 cannot be an alphabet character: map it to a byte that is none either
    match Hash.fromBase64 (t.toList.map fun c => if c.toNat < 256 then UInt8.ofNat c.toNat else 0) with
    | some h => s!"ok {hashHex h}"
    | none => "err"
  | "hash.fromb64", [] => "err"
  | "hashedwrite", [off, len, bufs, accepts] =>
    -- sequence of `write_all(buf_i)` on a writer accepting `accepts[j]` bytes at its j-th call
    match off.toNat?, len.toNat? with
    | some o, some l =>
      let data := sliceL blob o l
      let hw := HW.writeAll HW.init data (natList accepts)
      let _ := bufs
      s!"hash={hashHex (hw.hash P)} written={hw.written.length}"
    | _, _ => "bad-op"
  | "hashedwrite.retry", [off, len, events] =>
    -- a caller loop re-presenting the rest after each transient inner error (event 0); events = what the inner writer was asked
    match off.toNat?, len.toNat? with
    | some o, some l =>
      let hw := HW.writeRetry HW.init (sliceL blob o l) (natList events)
      s!"hash={hashHex (hw.hash P)} written={hw.written.length}"
    | _, _ => "bad-op"
  | _, _ => "bad-op"

end Xet.Drv
