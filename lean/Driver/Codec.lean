import XetModel.XorbFormat
import XetModel.Prim.Lz4
import Driver.Util
namespace Xet.Drv
open Xet.Xorb

def fnv1aB (bs : List UInt8) : UInt64 :=
  bs.foldl (fun h b => (h ^^^ b.toUInt64) * 0x100000001b3) 0xcbf29ce484222325

/-- the independent Lean LZ4 frame decoder -/
def leanLz4d (d : Bytes) : Dec :=
  match Prim.lz4FrameDecodeRL d with
  | .ok out => .ok out
  | .eof => .eof
  | .err => .err

/-- oracle table for the *encoder* (the exact bytes `lz4_flex` produced for a given input): each
    entry `inOff:inLen:outOff:outLen` is admitted only if the Lean decoder maps the output back to
    the input, so the oracle cannot lie about being a valid LZ4 encoding. -/
def oracleTable (blob : Blob) (s : String) : Option (List (UInt64 × Nat × Bytes)) :=
  if s.isEmpty || s == "-" then some [] else
  (s.splitOn ";").mapM fun t =>
    match (t.splitOn ":").map (·.toNat?) with
    | [some io, some il, some oo, some ol] =>
      let inp := sliceL blob io il
      let out := sliceL blob oo ol
      match leanLz4d out with
      | .ok back => if back == inp then some (fnv1aB inp, il, out) else none
      | _ => none
    | _ => none

def lookupEnc (tbl : List (UInt64 × Nat × Bytes)) (d : Bytes) : Option Bytes :=
  (tbl.find? fun e => e.1 == fnv1aB d && e.2.1 == d.length).map (·.2.2)

/-- encoder = oracle table (a miss yields the input itself, which then takes the fallback branch —
    reported separately through `codecMisses`), decoder = Lean LZ4. -/
def mkCodec (tbl : List (UInt64 × Nat × Bytes)) : Codec where
  lz4c d := (lookupEnc tbl d).getD d
  lz4d := leanLz4d

/-- number of encoder requests of the model that the oracle table could not answer -/
def codecMisses (tbl : List (UInt64 × Nat × Bytes)) (cs : List Bytes) (schemes : List Scheme) : Nat :=
  ((cs.zip schemes).filter fun p =>
    match p.2 with
    | .none => false
    | .lz4 => (lookupEnc tbl p.1).isNone
    | .bg4lz4 => (lookupEnc tbl (Bg4.split p.1)).isNone).length

end Xet.Drv
