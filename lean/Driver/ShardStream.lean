import XetModel.ShardStream
import Driver.Shard
namespace Xet.Drv
open Xet.Shard

/-- digest over what the view accessors return: header, `entry(i)`, `verification(i)` re-serialized -/
def fileViewAcc (v : FileView) : Option Bytes :=
  match v.entries, v.verifications with
  | .ok es, .ok vs => some (v.hdr.bytes ++ es.flatMap segBytes ++ vs.flatMap hash16)
  | _, _ => none

def casViewAcc (v : CasView) : Option Bytes :=
  match v.chunks with
  | .ok cs => some (v.hdr.bytes ++ cs.flatMap chunkBytes)
  | .error _ => none

def accDigest (fs : List FileView) (cs : List CasView) : String :=
  let a := fs.map fileViewAcc
  let b := cs.map casViewAcc
  if a.all Option.isSome && b.all Option.isSome then
    toString (fnvS ((a.filterMap id).flatten ++ (b.filterMap id).flatten))
  else "err"

/-- `files=<n>:<fnv of the concatenated record bytes> cas=<n>:<fnv>` (format of `shard.scan`) plus the accessor digest -/
def viewsStr (fs : List FileView) (cs : List CasView) : String :=
  s!"files={fs.length}:{fnvS (fs.flatMap FileView.bytes)} cas={cs.length}:{fnvS (cs.flatMap CasView.bytes)} acc={accDigest fs cs}"

def statusStr : Except Shard.Err Unit → String
  | .ok _ => "ok"
  | .error e => s!"err:{shardErr e}"

def streamStr (b : Bytes) (wf wc : Bool) : String :=
  let r := streamShard b wf wc
  s!"{statusStr r.status} {viewsStr r.files r.cas}"

def minStr (b : Bytes) (inclF inclC : Bool) : String :=
  match MinShard.fromReader b inclF inclC with
  | .error e => s!"err:{shardErr e}"
  | .ok s =>
    match s.files, s.casViews with
    | .ok fs, .ok cs =>
      let ser := s.serialize
      s!"ok {viewsStr fs cs} nf={s.numFiles} nc={s.numCas} cis={s.casInfoStart} ser={ser.length}:{fnvS ser}"
    | _, _ => "ok views-panic"

def handleShardStream (blob : Blob) (cmd : String) (toks : List String) : String :=
  match cmd with
  | "sstream.scan" =>
    -- sstream.scan at=<off>:<len>
    match (kv toks "at").bind parseSpan with
    | some (off, len) =>
      let b := sliceL blob off len
      s!"stream {streamStr b true true} | fonly {streamStr b true false} | conly {streamStr b false true} | none {streamStr b false false} | min11 {minStr b true true} | min10 {minStr b true false} | min01 {minStr b false true} | min00 {minStr b false false}"
    | none => "bad-op"
  | "sstream.trunc" =>
    -- sstream.trunc at=<off>:<len> cuts=<c1,c2,…>: the readers on the first `c` bytes, for each cut
    match (kv toks "at").bind parseSpan, kv toks "cuts" with
    | some (off, len), some cs =>
      let b := sliceL blob off len
      " ".intercalate ((natList cs).map fun c =>
        let p := b.take c
        let r := streamShard p true true
        let m := match MinShard.fromReader p true true with
          | .ok s => s!"ok:{s.numFiles}:{s.numCas}"
          | .error e => s!"err:{shardErr e}"
        let mf := match MinShard.fromReader p true false with
          | .ok s => s!"ok:{s.numFiles}:{s.numCas}"
          | .error e => s!"err:{shardErr e}"
        s!"{c}:{statusStr r.status}:{r.files.length}:{fnvS (r.files.flatMap FileView.bytes)}:{r.cas.length}:{fnvS (r.cas.flatMap CasView.bytes)}:{m}:{mf}")
    | _, _ => "bad-op"
  | _ => "bad-op"

end Xet.Drv
