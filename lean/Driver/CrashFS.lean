/-
Line protocol of the suite `crash` (C19), prefix `crash.`:

  crash.accepts op=<flush|writeout|consolidate|union|localput|cacheput|safefile> <params> prior=<listing> ev=<effects>
      -> `accepts` | `rejects <index>` | `rejects split` | `rejects name`
     Trace inclusion: the effect sequence observed under strace (paths already classified by the harness:
     `T<i>` temp, `S<hex>` shard, `X<hex>` xorb, `K<i>/I<s>-<e>-<len>-<crc>` cache item, `P<i>`/`K<i>` cache
     directories, `D` destination, `O…` other) must be the model's effect sequence of that operation
     (`XetModel/CrashFS.lean`: `shardWriteFx`, `consolidateRounds`/`roundsFx`, `shardFileOpFx`, `localPutFx`,
     `cachePutFx`, `safeFileFx`) for the split of the buffered writes that was observed, the temp names that
     were observed and (cache) the eviction choice that was observed.  `<index>` = first differing effect.
     Effects: `c:<p>` create, `t:<p>` truncate, `w:<p>:<n>` write n bytes, `r:<p>:<q>` rename, `u:<p>` unlink,
     `m:<p>` mkdir, `d:<p>` rmdir, `h:<p>` chmod.

  crash.state op=<…> [scan=1 cap=<n>] prior=<listing> ev=<effects executed before the crash>
      -> the model's directory state after these effects as `<path>:<length>,…` sorted (`-` if empty):
     `CrashFS.run` on the abstract file system, compared with the listing of the real directory after the kill.
-/
import XetModel.CrashFS
import Driver.Prims
import Driver.Shard

namespace Xet.Drv
open Xet.CrashFS

def strOfBytes (b : List UInt8) : String := String.ofList (b.map fun x => Char.ofNat x.toNat)
def bytesOfStr (s : String) : List UInt8 := s.toList.map fun c => UInt8.ofNat c.toNat

def sortStr (l : List String) : List String := (l.toArray.qsort (· < ·)).toList

/-- `<path>:<len>,…` -/
def parseListing (s : String) : List (String × Nat) :=
  if s == "-" || s.isEmpty then [] else
  (s.splitOn ",").filterMap fun t =>
    match t.splitOn ":" with
    | [p, l] => l.toNat?.map fun n => (p, n)
    | _ => none

def parseFx (t : String) : Option (Effect String) :=
  match t.splitOn ":" with
  | ["c", p] => some (.create p)
  | ["t", p] => some (.create p)
  | ["w", p, n] => n.toNat?.map fun k => .append p (List.replicate k 0)
  | ["r", p, q] => some (.rename p q)
  | ["u", p] => some (.unlink p)
  | ["m", p] => some (.mkdir p)
  | ["d", p] => some (.rmdir p)
  | ["h", p] => some (.chmod p)
  | _ => none

def evTokens (s : String) : List String := if s == "-" || s.isEmpty then [] else s.splitOn ","

def fxTok {P : Type} (pt : P → String) : Effect P → String
  | .create p => s!"c:{pt p}"
  | .append p b => s!"w:{pt p}:{b.length}"
  | .rename p q => s!"r:{pt p}:{pt q}"
  | .unlink p => s!"u:{pt p}"
  | .mkdir p => s!"m:{pt p}"
  | .rmdir p => s!"d:{pt p}"
  | .chmod p => s!"h:{pt p}"

def firstDiff : List String → List String → Nat → Option Nat
  | [], [], _ => none
  | a :: as, b :: bs, i => if a == b then firstDiff as bs (i + 1) else some i
  | _, _, i => some i

def verdict (model obs : List String) : String :=
  match firstDiff model obs 0 with
  | none => "accepts"
  | some i => s!"rejects {i}"

/-- temp tokens in the order they are created -/
def tempsOf (obs : List String) : List String :=
  obs.filterMap fun t => match t.splitOn ":" with
    | ["c", p] => some p
    | _ => none

/-- sizes of the writes to `p`, in order -/
def writesTo (obs : List String) (p : String) : List Nat :=
  obs.filterMap fun t => match t.splitOn ":" with
    | ["w", q, n] => if q == p then n.toNat? else none
    | _ => none

def splitBy : List Nat → Bytes → List Bytes
  | [], _ => []
  | n :: ns, b => b.take n :: splitBy ns (b.drop n)

/-- shard directory names → tokens -/
def shardTok (n : Name) : String :=
  match parseShardName n with
  | some h => "S" ++ hashHex h
  | none =>
    if n.head? == some 46 && n.drop (n.length - 9) == dotMdbTemp then strOfBytes ((n.drop 1).take (n.length - 10))
    else strOfBytes n

/-- token → shard directory name (`S<hex>` = `<hex>.mdb`, anything else is taken literally) -/
def shardNameOfTok (t : String) : Name :=
  if t.startsWith "S" then bytesOfStr (t.drop 1).toString ++ dotMdb else bytesOfStr t

def xorbTok (dir : Name) (n : Name) : String :=
  match parseXorbName n with
  | some h => "X" ++ hashHex h
  | none =>
    if n.head? == some 46 && n.drop (n.length - 4) == dotTmp then strOfBytes ((n.drop (2 + dir.length)).take (n.length - 6 - dir.length))
    else strOfBytes n

def fakeKey (i : Nat) : Cache.Key := [UInt8.ofNat i]

def cacheTok (p : Cache.Path) : String :=
  let idx := fun (pre : Name) => (List.range 64).find? fun i => Cache.prefixDirName (fakeKey i) == pre
  match p with
  | [pre] => match idx pre with
    | some i => s!"P{i}"
    | none => "O?"
  | [pre, _] => match idx pre with
    | some i => s!"K{i}"
    | none => "O?"
  | [pre, kd, name] =>
    let k := match idx pre with
      | some i => s!"K{i}"
      | none => "O?"
    match Cache.parseFileName name with
    | some it => s!"{k}/I{it.start.toNat}-{it.stop.toNat}-{it.len.toNat}-{it.crc.toNat}"
    | none => s!"{k}/{strOfBytes ((name.drop (2 + kd.length)).take (name.length - 6 - kd.length))}"
  | _ => "O?"

/-- `K<i>/I<s>-<e>-<len>-<crc>` -/
def parseItemTok (t : String) : Option (Nat × Cache.Item) :=
  match t.splitOn "/" with
  | [k, i] =>
    if k.startsWith "K" && i.startsWith "I" then
      match (k.drop 1).toString.toNat?, ((i.drop 1).toString.splitOn "-").map (·.toNat?) with
      | some ki, [some s, some e, some l, some c] => some (ki, ⟨UInt32.ofNat s, UInt32.ofNat e, UInt64.ofNat l, UInt32.ofNat c⟩)
      | _, _ => none
    else none
  | _ => none

def realCrc32 (b : Bytes) : UInt32 := Xet.Prim.crc32L b

def handleCrash (blob : Blob) (cmd : String) (toks : List String) : String :=
  let P := realPrims
  let obs := evTokens ((kv toks "ev").getD "-")
  let prior := parseListing ((kv toks "prior").getD "-")
  match cmd with
  | "crash.state" =>
    match obs.mapM parseFx with
    | none => "bad-op"
    | some es =>
      let fs0 : FS String := prior.map fun (p, n) => (p, List.replicate n 0)
      -- `scan=1 cap=<n>`: the child re-opens the cache before the operation: `try_parse_cache_file` removes every file
      -- of a key directory whose name is not an item name or whose length differs from the name's (unless > capacity)
      let fs0 := match kvNat toks "scan", kvNat toks "cap" with
        | some 1, some cap => cleanup (fun p c => p.startsWith "K" && decide (c.length ≤ cap) &&
            (match parseItemTok p with
             | some (_, it) => it.len.toNat != c.length
             | none => (p.splitOn "/").length == 2)) fs0
        | _, _ => fs0
      let s := run fs0 es
      let l := sortStr ((lengths s).map fun (p, n) => s!"{p}:{n}")
      if l.isEmpty then "-" else ",".intercalate l
  | "crash.accepts" =>
    let temps := tempsOf obs
    let tmp0 := temps.headD "T?"
    let newBytes := ((kv toks "new").bind parseSpan).map fun (o, l) => sliceL blob o l
    -- every file the operation creates must be of the temp class (`T<n>`, in the cache `K<i>/T<n>`)
    if !(temps.all fun t => ((t.splitOn "/").getLastD "").startsWith "T") then "rejects create" else
    match kv toks "op" with
    | some "flush" | some "writeout" =>
      match newBytes with
      | none => "bad-op"
      | some content =>
        let sizes := writesTo obs tmp0
        if sizes.sum ≠ content.length then "rejects split" else
        verdict ((shardWriteFx P (bytesOfStr tmp0) content (splitBy sizes content)).map (fxTok shardTok)) obs
    | some "consolidate" =>
      match kvNat toks "target" with
      | none => "bad-op"
      | some target =>
        let spans := (((kv toks "shards").getD "").splitOn ";").filterMap parseSpan
        let shards : List Shard.DirShard := spans.map fun (o, l) => let b := sliceL blob o l; ⟨P.dataHash b, b⟩
        match consolidateRounds P target (shards.length + 1) shards [] with
        | .error e => s!"err:{shardErr e}"
        | .ok rs =>
          let oracle : List (Name × List Bytes) := (rs.zip temps).map fun (r, t) => (bytesOfStr t, splitBy (writesTo obs t) r.merged.bytes)
          if rs.length ≠ temps.length then s!"rejects rounds" else
          if (rs.zip temps).any (fun (r, t) => (writesTo obs t).sum ≠ r.merged.bytes.length) then "rejects split" else
          verdict ((roundsFx (zipRounds rs oracle)).map (fxTok shardTok)) obs
    | some "union" =>
      match (kv toks "a").bind parseSpan, (kv toks "b").bind parseSpan, kv toks "out" with
      | some (ao, al), some (bo, bl), some out =>
        match Shard.setOpBytes .union (sliceL blob ao al) (sliceL blob bo bl) with
        | .error e => s!"err:{shardErr e}"
        | .ok r =>
          let content := r.bytes
          let outName := shardNameOfTok out
          -- the caller's name, if it is one the scan accepts, must be the content hash (hypothesis `hout` of the theorem)
          if shardFinal outName && parseShardName outName != some (P.dataHash content) then "rejects name" else
          let sizes := writesTo obs tmp0
          if sizes.sum ≠ content.length then "rejects split" else
          verdict ((shardFileOpFx (bytesOfStr tmp0) outName (splitBy sizes content)).map (fxTok shardTok)) obs
      | _, _, _ => "bad-op"
    | some "localput" =>
      match (kv toks "hash").bind parseHash, newBytes with
      | some h, some obj =>
        let sizes := writesTo obs tmp0
        if sizes.sum ≠ obj.length then "rejects split" else
        let dir := bytesOfStr "xorbs"
        verdict ((localPutFx h dir (bytesOfStr tmp0) (splitBy sizes obj)).map (fxTok (xorbTok dir))) obs
      | _, _ => "bad-op"
    | some "safefile" =>
      match newBytes, kv toks "mode" with
      | some content, some mode =>
        let sizes := writesTo obs tmp0
        if sizes.sum ≠ content.length then "rejects split" else
        -- `close`: one `set_permissions`; `replace_existing` restores the saved mode before it
        let chmods := if mode == "replace" then 2 else 1
        verdict ((safeFileFx tmp0 "D" (splitBy sizes content) chmods).map (fxTok id)) obs
      | _, _ => "bad-op"
    | some "cacheput" =>
      match kvNat toks "key", ((kv toks "range").getD "").splitOn ".", newBytes with
      | some ki, [rs, re], some content =>
        match rs.toNat?, re.toNat? with
        | some s, some e =>
          let it : Cache.Item := ⟨UInt32.ofNat s, UInt32.ofNat e, UInt64.ofNat content.length, realCrc32 content⟩
          let k := fakeKey ki
          let tmpTok := tmp0                                   -- `K<i>/T<n>`
          let rnd := bytesOfStr ((tmpTok.splitOn "/").getLastD "T?")
          let sizes := writesTo obs tmpTok
          if sizes.sum ≠ content.length then "rejects split" else
          let priorItems := prior.filterMap fun (p, _) => parseItemTok p
          let isSubsumed := fun (x : Nat × Cache.Item) => x.1 == ki && decide (it.start.toNat ≤ x.2.start.toNat) && decide (x.2.stop.toNat ≤ it.stop.toNat) && x.2 != it
          let subsumedSet := priorItems.filter isSubsumed
          -- unlinks in observed order: the first |subsumed| must be the subsumed items (any order: a `HashSet` is iterated)
          let unlinked := obs.filterMap fun t => match t.splitOn ":" with
            | ["u", p] => parseItemTok p
            | _ => none
          let subsObs := unlinked.take subsumedSet.length
          if !(subsObs.all (fun x => subsumedSet.contains x) && subsumedSet.all (fun x => subsObs.contains x)) then "rejects subsumed" else
          -- the rest are evictions (oracle): each an item that was there, not the new one; directories removed iff emptied
          let evObs := unlinked.drop subsumedSet.length
          let remaining0 := priorItems.filter fun x => !(subsumedSet.contains x)
          let legal := evObs.all fun x => remaining0.contains x && !(x.1 == ki && x.2 == it)
          if !legal then "rejects eviction" else
          let rec mk (rem : List (Nat × Cache.Item)) : List (Nat × Cache.Item) → List (Cache.Key × Cache.Item × Nat)
            | [] => []
            | x :: xs =>
              let rem' := rem.filter (· != x)
              -- the new item lives in key `ki`: that directory never becomes empty
              let keyEmpty := !(rem'.any fun y => y.1 == x.1) && x.1 != ki
              (fakeKey x.1, x.2, if keyEmpty then 2 else 0) :: mk rem' xs
          let evicted := mk remaining0 evObs
          let model := (cachePutFx k it rnd (splitBy sizes content) (subsObs.map (·.2)) evicted).map (fxTok cacheTok)
          -- `create_dir_all` only calls `mkdir` for directories that are missing: compare modulo `mkdir`, which must
          -- concern the key's own two directories and come first
          let isMk := fun (t : String) => t.startsWith "m:"
          let mkObs := obs.filter isMk
          if !(mkObs.all fun t => t == s!"m:P{ki}" || t == s!"m:K{ki}") || (obs.takeWhile isMk) != mkObs then "rejects mkdir" else
          verdict (model.filter (!isMk ·)) (obs.filter (!isMk ·))
        | _, _ => "bad-op"
      | _, _, _ => "bad-op"
    | _ => "bad-op"
  | _ => "bad-op"

end Xet.Drv
