import XetModel.Bg4
import Driver.Util
namespace Xet.Drv

/-- 64-bit FNV-1a (same as `crate::ctx::fnv` of the harness): xor the byte in, multiply by the prime,
wrapping `UInt64` arithmetic. -/
def fnv1a64 (bs : List UInt8) : UInt64 :=
  bs.foldl (fun h b => (h ^^^ b.toUInt64) * 0x100000001b3) 0xcbf29ce484222325

def bg4Answer (bs : List UInt8) : String :=
  s!"len={bs.length} fnv={(fnv1a64 bs).toNat}"

/-- `bg4.split <off> <len>` / `bg4.regroup <off> <len>` → `len=<n> fnv=<FNV-1a 64 of the result, decimal>` -/
def handleBg4 (blob : Blob) (cmd : String) (toks : List String) : String :=
  match cmd, toks with
  | "bg4.split", [off, len] =>
    match off.toNat?, len.toNat? with
    | some o, some l => bg4Answer (Xet.Bg4.split (sliceL blob o l))
    | _, _ => "bad-op"
  | "bg4.regroup", [off, len] =>
    match off.toNat?, len.toNat? with
    | some o, some l => bg4Answer (Xet.Bg4.regroup (sliceL blob o l))
    | _, _ => "bad-op"
  | _, _ => "bad-op"

end Xet.Drv
