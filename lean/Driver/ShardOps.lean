import XetModel.ShardOps
import Driver.Shard
namespace Xet.Drv
open Xet.Shard

def handleShardOps (blob : Blob) (cmd : String) (toks : List String) : String :=
  let P := realPrims
  match cmd with
  | "shardop.set" =>
    -- shardop.set op=union|diff a=<off>:<len> b=<off>:<len>
    match kv toks "op", (kv toks "a").bind parseSpan, (kv toks "b").bind parseSpan with
    | some op, some (ao, al), some (bo, bl) =>
      let o := if op == "union" then SetOp.union else SetOp.difference
      match setOpBytes o (sliceL blob ao al) (sliceL blob bo bl) with
      | .ok s => s!"len={s.bytes.length} fnv={fnvS s.bytes} {footerStr s.footer}"
      | .error e => s!"err:{shardErr e}"
    | _, _, _ => "bad-op"
  | "shardop.consolidate" =>
    -- shardop.consolidate target=<n> shards=<off:len;…>   (in modification-time order)
    match kvNat toks "target" with
    | some target =>
      let spans := (((kv toks "shards").getD "").splitOn ";").filterMap parseSpan
      let shards : List DirShard := spans.map fun (o, l) => let b := sliceL blob o l; ⟨P.dataHash b, b⟩
      match consolidate P target shards with
      | .error e => s!"err:{shardErr e}"
      | .ok c =>
        -- a newly written shard is identified by (length, digest of its bytes with the chunk table in canonical order):
        -- its file name hashes the bytes in the order the implementation's unstable sort happened to produce
        let isNew := fun (s : DirShard) => c.written.any (fun w => w.name == s.name) && !(shards.any fun o => o.name == s.name)
        let nm := fun (s : DirShard) => if isNew s then s!"new:{s.bytes.length}:{fnvS s.bytes}" else hashHex s.name
        s!"finished={",".intercalate (c.finished.map nm)} removed={",".intercalate (sortStrings' (c.removed.map hashHex))}"
    | none => "bad-op"
  | "shardop.export" =>
    -- shardop.export at=<off>:<len> key=<hex> now=<n> valid=<n> f=<0|1> c=<0|1> k=<0|1>
    match (kv toks "at").bind parseSpan, (kv toks "key").bind parseHash, kvNat toks "now", kvNat toks "valid", kvNat toks "f", kvNat toks "c", kvNat toks "k" with
    | some (o, l), some key, some now, some valid, some f, some c, some k =>
      match exportKeyed P (sliceL blob o l) key now valid (f == 1) (c == 1) (k == 1) with
      | .ok e => s!"len={e.bytes.length} fnv={fnvS e.bytes} cr={e.footer.creation} ex={e.footer.expiry} {footerStr e.footer}"
      | .error e => s!"err:{shardErr e}"
    | _, _, _, _, _, _, _ => "bad-op"
  | "shardop.expiry" =>
    match kvNat toks "now", kvNat toks "buf", kvNat toks "exp" with
    | some now, some buf, some exp => s!"loaded={isLoaded now exp} deleted={isDeleted now buf exp}"
    | _, _, _ => "bad-op"
  | _ => "bad-op"
where
  sortStrings' (l : List String) : List String := (l.toArray.qsort (· < ·)).toList

end Xet.Drv
