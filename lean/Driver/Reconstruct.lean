/-
Line-protocol handler for the `reconstruct` suite (C17).  Command prefix `recon.`.

  recon.run w=seq|par c=off|cold|warm off=<offset_into_first_range> range=none|<start>-<end>
            terms=<xorb>:<cstart>:<cend>:<unpacked_len>,…   fetch=<xorb>:<cstart>:<cend>,…
            xorbs=<blob_off>:<len>+<len>+…;…   [order=<perm of term indices>]

`xorbs` lists, per xorb id 0,1,…, where its chunk data lies in the blob and the chunk lengths.
`fetch` lists the fetch-info chunk ranges in the order of the response's `Vec` (per xorb).
`order` (parallel writer only) is the order in which the positioned writes are applied.
Answer: `ok rep=<returned u64> len=<bytes in the output> h=<data hash of the output>`, `reject`
(the call returned an error) or `panic`.
-/
import XetModel.Reconstruct
import Driver.Prims
namespace Xet.Drv
open Xet.Recon

def rcParseRange (s : String) : Option (Option CRange) :=
  if s == "none" then some none
  else match s.splitOn "-" with
    | [a, b] => do
      let x ← a.toNat?
      let y ← b.toNat?
      pure (some ⟨x, y⟩)
    | _ => none

def rcParseTerms (s : String) : Option (List Term) :=
  if s.isEmpty then some [] else
  (s.splitOn ",").mapM fun t =>
    match (t.splitOn ":").mapM String.toNat? with
    | some [x, a, b, l] => some ⟨x, ⟨a, b⟩, l⟩
    | _ => none

def rcInsertFetch (acc : List (Nat × List CRange)) (x : Nat) (r : CRange) : List (Nat × List CRange) :=
  match acc with
  | [] => [(x, [r])]
  | (y, rs) :: rest => if x == y then (y, rs ++ [r]) :: rest else (y, rs) :: rcInsertFetch rest x r

def rcParseFetch (s : String) : Option (List (Nat × List CRange)) :=
  if s.isEmpty then some [] else do
  let items ← (s.splitOn ",").mapM fun t =>
    match (t.splitOn ":").mapM String.toNat? with
    | some [x, a, b] => some (x, (⟨a, b⟩ : CRange))
    | _ => none
  pure (items.foldl (fun acc it => rcInsertFetch acc it.1 it.2) [])

def rcSplitChunks : List UInt8 → List Nat → List Bytes
  | _, [] => []
  | d, l :: ls => d.take l :: rcSplitChunks (d.drop l) ls

def rcParseXorbs (blob : Blob) (s : String) : Option (List (List Bytes)) :=
  if s.isEmpty then some [] else
  (s.splitOn ";").mapM fun x =>
    match x.splitOn ":" with
    | [off, lens] => do
      let o ← off.toNat?
      let ls ← (lens.splitOn "+").mapM String.toNat?
      pure (rcSplitChunks (sliceL blob o ls.sum) ls)
    | _ => none

/-- the writes in the order given by a list of indices (indices out of range are skipped) -/
def rcReorder (ws : List PWrite) (order : List Nat) : List PWrite :=
  order.filterMap fun i => ws[i]?

def rcAnswer (out : Bytes) (reported : Nat) : String :=
  s!"ok rep={reported} len={out.length} h={hashHex (realPrims.dataHash out)}"

/-- `Err(CasClientError)` → `reject`; a dev-profile panic (reported by the thread pool as a join error) → `panic` -/
def rcErr (e : Err) : String := if e = .panic then "panic" else "reject"

def handleRecon (blob : Blob) (cmd : String) (toks : List String) : String :=
  match cmd with
  | "recon.run" =>
    match kv toks "w", kv toks "c", kvNat toks "off", (kv toks "range").bind rcParseRange,
          (kv toks "terms").bind rcParseTerms, (kv toks "fetch").bind rcParseFetch,
          (kv toks "xorbs").bind (rcParseXorbs blob) with
    | some w, some c, some off, some range, some terms, some fetch, some xorbs =>
      let p : Plan := { xorbs := xorbs, terms := terms, fetch := fetch, offset := off }
      -- cache oracle: off = no cache; cold = every probe misses; warm = every probe hits with the
      -- bytes a faithful cache returns (C12): the requested chunk range of that xorb
      let cache : Option (Option Cache) :=
        if c == "off" then some none
        else if c == "cold" then some (some fun _ _ => none)
        else if c == "warm" then some (some fun x r => some (chunkSlice (chunksOf xorbs x) r).flatten)
        else none
      match cache with
      | none => "bad-op"
      | some cache =>
        if w == "seq" then
          match reconstructSeq p cache range with
          | .ok r => rcAnswer r.out r.reported
          | .error e => rcErr e
        else if w == "par" then
          match reconstructPar p cache range with
          | .ok pp =>
            let order := match kv toks "order" with
              | some o => natList o
              | none => List.range pp.writes.length
            if order.length != pp.writes.length || !(List.range pp.writes.length).all (order.contains ·) then "bad-op"
            else rcAnswer (applyWrites [] (rcReorder pp.writes order)) pp.reported
          | .error e => rcErr e
        else "bad-op"
    | _, _, _, _, _, _, _ => "bad-op"
  | _ => "bad-op"

end Xet.Drv
