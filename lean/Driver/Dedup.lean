import XetModel.Dedup
import XetModel.DedupFirstLoop
import Driver.Prims
namespace Xet.Drv
open Xet.Dedup
open Xet.Shard (Seg FileInfo)

def parseSegTok (t : String) : Option Seg :=
  match t.splitOn ":" with
  | [c, f, b, s, e] => do
    let ch ← parseHash c
    some ⟨ch, ← f.toNat?, ← b.toNat?, ← s.toNat?, ← e.toNat?⟩
  | _ => none

/-- `idx:n:cas:flags:bytes:s:e;…` into one slot per chunk -/
def parseAnswers (nchunks : Nat) (s : String) : Option Answers :=
  if s == "-" || s.isEmpty then some (List.replicate nchunks none) else do
    let entries ← (s.splitOn ";").mapM fun t =>
      match t.splitOn ":" with
      | idx :: n :: rest => do
        let seg ← parseSegTok (":".intercalate rest)
        some (← idx.toNat?, ← n.toNat?, seg)
      | _ => none
    some ((List.range nchunks).map fun i => (entries.find? fun e => e.1 == i).map fun e => (e.2.1, e.2.2))

def parseDChunks (s : String) : Option (List DChunk) :=
  if s == "-" || s.isEmpty then some [] else
  (s.splitOn ",").mapM fun t =>
    match t.splitOn ":" with
    | [h, l] => do some ⟨← parseHash h, List.replicate (← l.toNat?) 0⟩
    | _ => none

structure Call where
  chunks : List DChunk
  answers : Answers
  gc : Nat
  gb : Nat

def parseCall (s : String) : Option Call :=
  match s.splitOn "@" with
  | [c, a, gc, gb] => do
    let chunks ← parseDChunks c
    some ⟨chunks, ← parseAnswers chunks.length a, ← gc.toNat?, ← gb.toNat?⟩
  | _ => none

def segStr (s : Seg) : String := s!"{hashHex s.casHash}:{s.casFlags}:{s.bytes}:{s.cstart}:{s.cend}"
def segsStr (l : List Seg) : String := ",".intercalate (l.map segStr)

def metricsStr (m : Metrics) : String :=
  s!"{m.totalBytes},{m.dedupedBytes},{m.newBytes},{m.dedupedBytesGlobal},{m.preventedBytes},{m.totalChunks},{m.dedupedChunks},{m.newChunks},{m.dedupedChunksGlobal},{m.preventedChunks}"

def xorbStr (x : Xorb) : String := s!"{hashHex x.hash}:{x.chunks.length}:{dataSize x.chunks}"

def runFile (P : HashPrims) (L : Limits) (calls : List Call) : FD :=
  calls.foldl (fun fd c => processChunks P L Defrag.allowNext fd c.chunks c.answers c.gc c.gb) FD.init

def parseFile (s : String) : Option (Bytes × Hash × List Call) :=
  match s.splitOn "/" with
  | [salt, sha, calls] => do
    let sl ← bytesOfHex salt
    let sh ← parseHash sha
    let cs ← if calls.isEmpty || calls == "-" then some [] else (calls.splitOn "|").mapM parseCall
    some (sl, sh, cs)
  | _ => none

def fileInfoStr (f : FileInfo) : String :=
  s!"{hashHex f.hash}:{f.flags}:{f.numEntries}[{segsStr f.segs}][{",".intercalate (f.verif.map hashHex)}][{match f.metaExt with | some m => hashHex m | none => "-"}]"

/-- `pos:k` (answer of `k` chunks) or `pos:-` (miss), comma separated; `-` = nothing asked -/
def parsePassLog (s : String) : Option (List (Nat × Option Nat)) :=
  if s == "-" || s.isEmpty then some [] else
  (s.splitOn ",").mapM fun t =>
    match t.splitOn ":" with
    | [p, k] => do
      let p ← p.toNat?
      if k == "-" then some (p, none) else some (p, some (← k.toNat?))
    | _ => none

/-- the lookup interface of one pass, replayed from the log: the query's length identifies the position; a position the
    implementation never asked about gets the sentinel answer `n = 0`, at which the model stops -/
def passOracle (n : Nat) (log : List (Nat × Option Nat)) (hs : List Hash) : Option (Nat × Seg) :=
  match log.find? fun e => e.1 == n - hs.length with
  | some (_, some k) => some (k, ⟨Hash.zero, 0, 0, 0, k⟩)
  | some (_, none) => none
  | none => some (0, ⟨Hash.zero, 0, 0, 0, 0⟩)

/-- positions one pass asked about, read off the slots before and after it -/
def askedPositions (n : Nat) (before after : Answers) : Nat → Nat → List Nat
  | 0, _ => []
  | fuel+1, p =>
    if p ≥ n then [] else
    match (before[p]?).join with
    | some (k, _) => if k = 0 then [] else askedPositions n before after fuel (p + k)
    | none =>
      match (after[p]?).join with
      | some (k, _) => if k = 0 then [p] else p :: askedPositions n before after fuel (p + k)
      | none => p :: askedPositions n before after fuel (p + 1)

def slotsStr (a : Answers) : String :=
  ",".intercalate ((a.zipIdx.filterMap fun p => p.1.map fun x => s!"{p.2}:{x.1}"))

def handleDedup (_blob : Blob) (cmd : String) (toks : List String) : String :=
  let P := realPrims
  match cmd, kvNat toks "maxb", kvNat toks "maxc" with
  | "dedup.file", some mb, some mc =>
    match (kv toks "file").bind parseFile with
    | none => "bad-op"
    | some (salt, sha, calls) =>
      let L : Limits := ⟨mb, mc⟩
      let fd := runFile P L calls
      let fin := finalize P fd salt sha
      let af := fin.agg.finalize P
      s!"fh={hashHex fin.fileHash} segs={segsStr fd.fileInfo} refs={joinNat fd.internalRefs} m={metricsStr fd.metrics} cut={",".intercalate (fd.cut.map xorbStr)} nx={",".intercalate (fd.newXorbs.map hashHex)} rest={fd.newData.length}:{dataSize fd.newData} agg={xorbStr af.xorb} files={" ".intercalate (af.files.map fileInfoStr)}"
  | "dedup.multi", some mb, some mc =>
    -- greedy aggregation of several files' remaining data: merge while it fits, else finalize and start over
    match ((kv toks "files").getD "").splitOn "#" |>.mapM parseFile with
    | none => "bad-op"
    | some files =>
      let L : Limits := ⟨mb, mc⟩
      let aggs := files.map fun (salt, sha, calls) => (finalize P (runFile P L calls) salt sha).agg
      let step := fun (st : Agg × List String) (a : Agg) =>
        if dataSize st.1.chunks + dataSize a.chunks > L.maxXorbBytes ∨ st.1.chunks.length + a.chunks.length > L.maxXorbChunks then
          let f := st.1.finalize P
          (a, st.2 ++ [s!"{xorbStr f.xorb}<{" ".intercalate (f.files.map fileInfoStr)}>"])
        else (st.1.mergeIn a, st.2)
      let r := aggs.foldl step (Agg.empty, [])
      let f := r.1.finalize P
      " ; ".intercalate (r.2 ++ [s!"{xorbStr f.xorb}<{" ".intercalate (f.files.map fileInfoStr)}>"])
  | "dedup.firstpass", _, _ =>
    match kvNat toks "n", (kv toks "p0").bind parsePassLog with
    | some n, some l0 =>
      let chunks : List DChunk := List.replicate n ⟨Hash.zero, [0]⟩
      let s0 := firstPass (passOracle n l0) (n + 1) chunks (List.replicate n none)
      let a0 := askedPositions n (List.replicate n none) s0 (n + 1) 0
      match kv toks "p1" with
      | none => s!"slots={slotsStr s0} asked0={joinNat a0}"
      | some p1 =>
        match parsePassLog p1 with
        | none => "bad-op"
        | some l1 =>
          let s1 := firstPass (passOracle n l1) (n + 1) chunks s0
          s!"slots={slotsStr s1} asked0={joinNat a0} asked1={joinNat (askedPositions n s0 s1 (n + 1) 0)}"
    | _, _ => "bad-op"
  | _, _, _ => "bad-op"

end Xet.Drv
