/- Shared helpers of the line-protocol driver (core only). -/
namespace Xet.Drv

abbrev Blob := ByteArray

def sliceL (b : Blob) (off len : Nat) : List UInt8 :=
  (b.extract off (off + len)).toList

def natList (s : String) (sep : String := ",") : List Nat :=
  if s.isEmpty then [] else (s.splitOn sep).filterMap (·.toNat?)

def joinNat (xs : List Nat) (sep : String := ",") : String :=
  sep.intercalate (xs.map toString)

def hexDigit (n : Nat) : Char :=
  if n < 10 then Char.ofNat (48 + n) else Char.ofNat (87 + n)

def hexOfBytes (bs : List UInt8) : String :=
  String.ofList (bs.flatMap fun b => [hexDigit (b.toNat / 16), hexDigit (b.toNat % 16)])

def hexVal (c : Char) : Option Nat :=
  if '0' ≤ c ∧ c ≤ '9' then some (c.toNat - 48)
  else if 'a' ≤ c ∧ c ≤ 'f' then some (c.toNat - 87)
  else if 'A' ≤ c ∧ c ≤ 'F' then some (c.toNat - 55)
  else none

def bytesOfHex (s : String) : Option (List UInt8) :=
  let rec go : List Char → List UInt8 → Option (List UInt8)
    | [], acc => some acc.reverse
    | [_], _ => none
    | a :: b :: rest, acc =>
      match hexVal a, hexVal b with
      | some x, some y => go rest (UInt8.ofNat (x * 16 + y) :: acc)
      | _, _ => none
  go s.toList []

/-- `key=value` tokens -/
def kv (toks : List String) (key : String) : Option String :=
  toks.findSome? fun t =>
    match t.splitOn "=" with
    | [k, v] => if k == key then some v else none
    | _ => none

def kvNat (toks : List String) (key : String) : Option Nat := (kv toks key).bind (·.toNat?)

end Xet.Drv
