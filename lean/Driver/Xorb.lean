import XetModel.XorbFormat
import Driver.Prims
import Driver.Codec
namespace Xet.Drv
open Xet.Xorb

def fnv1a (bs : List UInt8) : UInt64 :=
  bs.foldl (fun h b => (h ^^^ b.toUInt64) * 0x100000001b3) 0xcbf29ce484222325

def fnvNats (xs : List Nat) : UInt64 :=
  fnv1a (xs.flatMap fun n => le32 n)

def xorbErrName : Err → String
  | .format => "format" | .eof => "eof" | .io => "io" | .invalidArgs => "invalid-args"
  | .invalidRange => "invalid-range" | .panic => "panic"

def maxChunk : Nat := Gen.merkledbMaximumChunkSize

def schemeOfNat : Nat → Option Scheme
  | 0 => some .none | 1 => some .lz4 | 2 => some .bg4lz4 | _ => none

def infoDigest (c : CasObject) : String :=
  s!"n={c.info.numChunks} il={c.infoLength} cas={hashHex c.info.cashash} hs={fnv1a (c.info.hashes.flatMap Hash.toBytes)} b={fnvNats c.info.boundaries} u={fnvNats c.info.unpacked} bv={c.info.boundariesVersion} ho={c.info.hashesOffFromEnd} bo={c.info.boundaryOffFromEnd}"

def bytesRes (r : Except Err Bytes) : String :=
  match r with
  | .ok b => s!"ok:{b.length}:{fnv1a b}"
  | .error e => s!"err:{xorbErrName e}"

def natRes (r : Except Err Nat) : String :=
  match r with
  | .ok n => s!"ok:{n}"
  | .error e => s!"err:{xorbErrName e}"

def chunksRes (r : Except Err ChunksRead) : String :=
  match r with
  | .ok c => s!"ok:{c.data.length}:{fnv1a c.data}:{c.consumed}:{fnvNats c.indices}"
  | .error e => s!"err:{xorbErrName e}"

def verdictStr : Verdict → String
  | .accept c gb => s!"accept gb={match gb with | some n => toString n | none => "-"} {infoDigest c}"
  | .reject => "reject"
  | .error e => s!"error:{xorbErrName e}"

def splitLens (data : Bytes) : List Nat → List Bytes
  | [] => []
  | n :: ns => data.take n :: splitLens (data.drop n) ns

/-- pairs `i-j;i-j;…` -/
def parseRanges (s : String) : List (Nat × Nat) :=
  if s.isEmpty then [] else
  (s.splitOn ";").filterMap fun t =>
    match t.splitOn "-" with
    | [a, b] => match a.toNat?, b.toNat? with
      | some x, some y => some (x, y)
      | _, _ => none
    | _ => none

def handleXorb (blob : Blob) (cmd : String) (toks : List String) : String :=
  let P := realPrims
  match cmd with
  | "xorb.ser" =>
    -- xorb.ser hash=<hex> off=<o> lens=<l,l,…> schemes=<s,s,…> codec=<inOff:inLen:outOff:outLen;…>
    match (kv toks "hash").bind parseHash, kvNat toks "off" with
    | some h, some off =>
      let lens := natList ((kv toks "lens").getD "")
      let data := sliceL blob off lens.sum
      let cs := splitLens data lens
      match (natList ((kv toks "schemes").getD "")).mapM schemeOfNat with
      | none => "bad-op"
      | some schemes =>
        match oracleTable blob ((kv toks "codec").getD "") with
        | none => "codec-oracle-bad"
        | some tbl =>
          let C := mkCodec tbl
          let hashes := cs.map P.dataHash
          let s := serialize C h cs hashes schemes
          s!"len={s.bytes.length} fnv={fnv1a s.bytes} miss={codecMisses tbl cs schemes} {infoDigest s.cas}"
    | _, _ => "bad-op"
  | "xorb.read" =>
    -- xorb.read off=<o> len=<l> ranges=<i-j;…>
    match kvNat toks "off", kvNat toks "len" with
    | some off, some len =>
      let obj := sliceL blob off len
      let C := mkCodec []
      match deserialize obj with
      | .error e => s!"deser=err:{xorbErrName e}"
      | .ok cas =>
        let ranges := parseRanges ((kv toks "ranges").getD "")
        let rs := ranges.map fun (i, j) =>
          let off := match getByteOffset cas i j with
            | .ok (a, b) => s!"{a}:{b}"
            | .error e => s!"err:{xorbErrName e}"
          s!"[{i}-{j} off={off} bytes={bytesRes (getBytesByChunkRange C maxChunk cas obj i j)} ulen={natRes (uncompressedRangeLength cas i j)} clen={natRes (uncompressedChunkLength cas i)}]"
        s!"deser=ok {infoDigest cas} all={bytesRes (getAllBytes C maxChunk cas obj)} {" ".intercalate rs}"
    | _, _ => "bad-op"
  | "xorb.decoders" =>
    -- xorb.decoders off=<o> len=<l>   (a chunk stream without footer)
    match kvNat toks "off", kvNat toks "len" with
    | some off, some len =>
      let ser := sliceL blob off len
      let C := mkCodec []
      s!"sync={chunksRes (deserializeChunks (deserializeChunkSync C maxChunk) ser)} async={chunksRes (deserializeChunks (deserializeChunkAsync C maxChunk) ser)}"
    | _, _ => "bad-op"
  | "xorb.validate" =>
    -- xorb.validate off=<o> len=<l> hash=<hex>
    match kvNat toks "off", kvNat toks "len", (kv toks "hash").bind parseHash with
    | some off, some len, some h =>
      let obj := sliceL blob off len
      let C := mkCodec []
      s!"seek={verdictStr (validate P C maxChunk obj h)} stream={verdictStr (validateStream P C maxChunk obj h)}"
    | _, _, _ => "bad-op"
  | "xorb.footer" =>
    match kvNat toks "off", kvNat toks "len" with
    | some off, some len =>
      match deserialize (sliceL blob off len) with
      | .ok cas => s!"ok {infoDigest cas}"
      | .error e => s!"err:{xorbErrName e}"
    | _, _ => "bad-op"
  | _ => "bad-op"

end Xet.Drv
