import XetModel.Singleflight
import Driver.Util
/-!
Driver handler for the singleflight model (C20).  Command prefix `sf.`.

* `sf.trace keys=<k0,k1,…> ev=<e0,e1,…>` → `accepts` | `rejects <index>`:
  replays the observed event log of a real `Group` through `Xet.Singleflight.step`; event `i` is rejected if
  the corresponding model action is not enabled, or if the value the implementation observed at that point
  (created/found, read/registered, returned outcome) differs from what the model step produces.
* `sf.monitors keys=… ev=…` → `calls=… runs=… maxruns=… done=… blocked=… mismatch=… alldone=…` (the model's own
  monitors evaluated on the end state of the trace) | `rejects <index>`.

Events (`<c>` = caller index = position in `keys`):
  `L<c>:c|f`  get_call_or_create by `c`, created / found
  `G<c>:r|w`  get_future by `c`: read the stored result / registered with the notifier
  `T<c>:o<v>|e<v>|p`  the task supplied by `c` ran (spawned by owner `c`) with outcome ok v / err v / panic
  `C<c>`      Call::complete from OwnerTask::poll for the call owned by `c`
  `P<c>`      Call::complete from OwnerTask's PinnedDrop (panic) for the call owned by `c`
  `W<c>`      `c` woken: notified.await done and get() read
  `R<c>`      remove_call by owner `c`
  `X<c>:o<v>|e<v>|p|nr|cm`  work returned to `c` (ok / err / panic notification / NoResult / CallMissing)
-/
namespace Xet.Drv
open Xet.Singleflight

def parseOutcome (s : String) : Option Outcome :=
  if s == "p" then some .panic
  else if s.startsWith "o" then (s.drop 1).toNat?.map Outcome.ok
  else if s.startsWith "e" then (s.drop 1).toNat?.map Outcome.err
  else none

def parseRet (s : String) : Option Ret :=
  if s == "nr" then some .noResult
  else if s == "cm" then some .callMissing
  else (parseOutcome s).map Ret.val

inductive SfEv where
  | lookup (c : Nat) (created : Bool)
  | getFuture (c : Nat) (read : Bool)
  | task (c : Nat) (o : Outcome)
  | complete (c : Nat)
  | panicComplete (c : Nat)
  | wake (c : Nat)
  | remove (c : Nat)
  | ret (c : Nat) (r : Ret)

def parseEv (tok : String) : Option SfEv :=
  match tok.toList with
  | [] => none
  | kind :: rest =>
    let body := String.ofList rest
    let parts := body.splitOn ":"
    match parts with
    | [cs] =>
      match cs.toNat? with
      | none => none
      | some c =>
        if kind == 'C' then some (.complete c)
        else if kind == 'P' then some (.panicComplete c)
        else if kind == 'W' then some (.wake c)
        else if kind == 'R' then some (.remove c)
        else none
    | [cs, obs] =>
      match cs.toNat? with
      | none => none
      | some c =>
        if kind == 'L' then
          (if obs == "c" then some (.lookup c true) else if obs == "f" then some (.lookup c false) else none)
        else if kind == 'G' then
          (if obs == "r" then some (.getFuture c true) else if obs == "w" then some (.getFuture c false) else none)
        else if kind == 'T' then (parseOutcome obs).map (SfEv.task c)
        else if kind == 'X' then (parseRet obs).map (SfEv.ret c)
        else none
    | _ => none

def parseEvs : List String → Option (List SfEv)
  | [] => some []
  | t :: ts =>
    match parseEv t, parseEvs ts with
    | some e, some es => some (e :: es)
    | _, _ => none

/-- the call owned by caller `c` (it must be past its lookup and have created the call) -/
def ownedCall (s : State) (c : Nat) : Option Nat :=
  match s.callers[c]? with
  | some r => if r.owner && r.pc != .idle then some r.cid else none
  | none => none

/-- one observed event: the model action plus the check of the observed value -/
def applyEv (s : State) : SfEv → Option State
  | .lookup c created =>
    match step s (.lookupOrCreate c) with
    | some s' =>
      match s'.callers[c]? with
      | some r => if r.owner == created then some s' else none
      | none => none
    | none => none
  | .getFuture c read =>
    match step s (.registerOrRead c) with
    | some s' =>
      match s'.callers[c]? with
      | some r => if (r.pc == .have) == read then some s' else none
      | none => none
    | none => none
  | .task c o => step s (.runTask c o)
  | .complete c =>
    match ownedCall s c with
    | some k => step s (.complete k)
    | none => none
  | .panicComplete c =>
    match ownedCall s c with
    | some k => step s (.ownerPanic k)
    | none => none
  | .wake c => step s (.wake c)
  | .remove c => step s (.remove c)
  | .ret c obs =>
    match step s (.ret c) with
    | some s' =>
      match s'.callers[c]? with
      | some r => if r.ret == some obs then some s' else none
      | none => none
    | none => none

structure SfReplay where
  st : State
  bad : Option Nat

def replayEvs (s : State) (i : Nat) : List SfEv → SfReplay
  | [] => { st := s, bad := none }
  | e :: es =>
    match applyEv s e with
    | none => { st := s, bad := some i }
    | some s' => replayEvs s' (i + 1) es

def sfMonitors (s : State) : String :=
  let allDone := s.callers.all (fun r => r.pc == .done)
  s!"calls={s.calls.length} runs={totalRuns s} maxruns={maxRuns s} done={doneCount s} blocked={blockedCount s} mismatch={mismatchCount s} alldone={allDone}"

def handleSf (_blob : Blob) (cmd : String) (toks : List String) : String :=
  match kv toks "keys", kv toks "ev" with
  | some ks, some evs =>
    let keys := natList ks
    if !ks.isEmpty && keys.length != (ks.splitOn ",").length then "bad-op" else
    match parseEvs (if evs.isEmpty then [] else evs.splitOn ",") with
    | none => "bad-op"
    | some es =>
      let r := replayEvs (init keys) 0 es
      if cmd == "sf.trace" then
        match r.bad with
        | none => "accepts"
        | some i => s!"rejects {i}"
      else if cmd == "sf.monitors" then
        match r.bad with
        | none => sfMonitors r.st
        | some i => s!"rejects {i}"
      else "bad-op"
  | _, _ => "bad-op"

end Xet.Drv
