import XetModel.Session
import Driver.Dedup
import Driver.Chunker
import Driver.Shard
namespace Xet.Drv
open Xet.Dedup Xet.Session

def parseOracle (s : String) : Option (List CallOracle) :=
  if s == "-" || s.isEmpty then some [] else
  (s.splitOn "|").mapM fun t =>
    match t.splitOn "@" with
    | [n, a, gc, gb] => do
      let k ← n.toNat?
      some ⟨← parseAnswers k a, ← gc.toNat?, ← gb.toNat?⟩
    | _ => none

def sortStrings (l : List String) : List String := (l.toArray.qsort (· < ·)).toList

def sortDedup (l : List String) : List String := (sortStrings l).eraseDups

def handleSession (blob : Blob) (cmd : String) (toks : List String) : String :=
  let P := realPrims
  match cmd with
  | "sess.run" =>
    match kvNat toks "target", kvNat toks "mindiv", kvNat toks "maxmul", kvNat toks "ingest", kvNat toks "maxb", kvNat toks "maxc",
          (kv toks "salt").bind bytesOfHex with
    | some t, some d, some m, some ingest, some mb, some mc, some salt =>
      match Chunker.mkParams t d m with
      | none => "reject"
      | some p =>
        let L : Limits := ⟨mb, mc⟩
        let specs := ((kv toks "files").getD "").splitOn "#"
        let parsed := specs.mapM fun f =>
          match f.splitOn "/" with
          | [span, parts, sha, oracle] => do
            let (off, len) ← parseSpan span
            let sh ← parseHash sha
            let orc ← parseOracle oracle
            some (sliceL blob off len, natList parts, sh, orc)
          | _ => none
        match parsed with
        | none => "bad-op"
        | some fs =>
          let cleaned := fs.map fun (data, parts, sha, orc) => cleanFile P L p ingest (splitParts data parts) orc salt sha
          let sess := runSession P L cleaned
          let fstr := cleaned.map fun c => s!"{hashHex c.fin.fileHash}:{c.size}:{metricsStr c.fin.metrics}:{c.calls}:{c.desync}"
          s!"files={" ".intercalate fstr} puts={",".intercalate (sortStrings (sess.puts.map xorbStr))} cas={",".intercalate (sortStrings (sess.casRegistered.map fun c => s!"{hashHex c.hash}:{c.chunks.length}"))} recs={" ".intercalate (sortDedup (sess.files.map fileInfoStr))} sm={metricsStr sess.metrics}"
    | _, _, _, _, _, _, _ => "bad-op"
  | "sha256" =>
    match toks with
    | [off, len] =>
      match off.toNat?, len.toNat? with
      | some o, some l => hexOfBytes (Prim.sha256L (sliceL blob o l))
      | _, _ => "bad-op"
    | _ => "bad-op"
  | _ => "bad-op"

end Xet.Drv
