/-
C03 — A file's pointer (hash, size) depends only on its bytes and the salt.

Model: `XetModel/Dedup.lean` (`finalize` = `FileDeduper::finalize`; the pointer file gets
`fileHash` and `metrics.totalBytes`, see `SingleFileCleaner::finish`), `XetModel/Chunker.lean`,
`XetModel/Merkle.lean`.  Invariant and helper lemmas: `XetProofs/Dedup.lean`.

Quantifiers: every hash-primitive record `P`, every `Limits`, every defrag procedure `allow`, every
partition of the chunk list into `process_chunks` calls, every oracle.  The *hash* needs no hypothesis
on the oracle at all; the *size* needs the answers to be legal (`HistoryLegal`) and
`LensFunctionalChunks` (see `XetProps/C14.lean`; its failure is a collision of the data hash).
Concurrency: a file's `FileDeduper` is owned by its cleaner and touched by nothing else; all influence
of other files, the session and the store on it goes through the oracle answers (and the defrag
state, itself a function of the answers), over which the theorems quantify.
-/
import XetProps.C14
import XetProps.C04

namespace Xet.Dedup

/-- **The file hash needs no assumption on the oracle**: for ANY answers (legal or not), limits,
    defrag procedure and call partition, the hash in the pointer (and in the file record) is
    `file_node_hash` of the `(hash, len)` list of the chunks fed, salted. -/
theorem C03_pointer_hash (P : HashPrims) (L : Limits) (allow : Defrag → Nat → Decision) (calls : List DCall)
    (salt : Bytes) (sha : Hash) :
    let fin := finalize P (runCalls P L allow FD.init calls) salt sha
    fin.fileHash = Merkle.fileNodeHash P (chunkLens (allChunks calls)) salt ∧
    fin.agg.pending.map (fun p => p.1.hash) = [fin.fileHash] := by
  intro fin
  have hch : (runCalls P L allow FD.init calls).chunkHashes = chunkLens (allChunks calls) := by
    rw [runCalls_chunkHashes]; simp [FD.init]
  simp only [fin, finalize, hch, List.map_cons, List.map_nil, and_self]

/-- **Pointer = function of the chunk list and the salt.**  For every legal history the pointer's
    hash is `file_node_hash(chunks, salt)` and its size is the total data length — neither mentions
    the call partition, the answers, the defrag decisions, the limits or anything else. -/
theorem C03_pointer_function (P : HashPrims) (L : Limits) (allow : Defrag → Nat → Decision) (calls : List DCall)
    (hlegal : HistoryLegal calls) (hlf : LensFunctionalChunks (allChunks calls)) (salt : Bytes) (sha : Hash) :
    let fin := finalize P (runCalls P L allow FD.init calls) salt sha
    fin.fileHash = Merkle.fileNodeHash P (chunkLens (allChunks calls)) salt ∧
    fin.metrics.totalBytes = dataSize (allChunks calls) := by
  intro fin
  exact ⟨(C03_pointer_hash P L allow calls salt sha).1, (C14_pointer_size P L allow calls hlegal hlf salt sha).1⟩

/-- two cleanings of the same chunk list with the same salt — under different limits, defrag
    procedures, call partitions, oracle answers (other files, other store contents), SHA values —
    produce the same pointer -/
theorem C03_independent (P : HashPrims) (L₁ L₂ : Limits) (allow₁ allow₂ : Defrag → Nat → Decision)
    (calls₁ calls₂ : List DCall) (hsame : allChunks calls₁ = allChunks calls₂)
    (hl₁ : HistoryLegal calls₁) (hl₂ : HistoryLegal calls₂) (hlf : LensFunctionalChunks (allChunks calls₁))
    (salt : Bytes) (sha₁ sha₂ : Hash) :
    let f₁ := finalize P (runCalls P L₁ allow₁ FD.init calls₁) salt sha₁
    let f₂ := finalize P (runCalls P L₂ allow₂ FD.init calls₂) salt sha₂
    f₁.fileHash = f₂.fileHash ∧ f₁.metrics.totalBytes = f₂.metrics.totalBytes := by
  intro f₁ f₂
  obtain ⟨a1, a2⟩ := C03_pointer_function P L₁ allow₁ calls₁ hl₁ hlf salt sha₁
  obtain ⟨b1, b2⟩ := C03_pointer_function P L₂ allow₂ calls₂ hl₂ (hsame ▸ hlf) salt sha₂
  exact ⟨by rw [a1, b1, hsame], by rw [a2, b2, hsame]⟩

/-- **Pointer = function of the bytes and the salt** (composition with C04).  Cleaning = feeding the
    bytes to the chunker in any pieces (`Chunker.feed p parts`), hashing each chunk
    (`toDChunks`), and handing the chunks to the deduper in any grouping with any legal answers.
    The pointer's hash is then `file_node_hash` over the reference chunking `specSplit p bytes` of
    the whole byte string, and — unless two different chunk contents collide under the data hash —
    its size is the number of bytes. -/
theorem C03_bytes_function (P : HashPrims) (p : Chunker.Params) (hmm : p.minC < p.maxC) (parts : List Bytes)
    (L : Limits) (allow : Defrag → Nat → Decision) (calls : List DCall)
    (hchunks : allChunks calls = toDChunks P (Chunker.feed p parts))
    (hlegal : HistoryLegal calls) (salt : Bytes) (sha : Hash) :
    let fin := finalize P (runCalls P L allow FD.init calls) salt sha
    fin.fileHash = Merkle.fileNodeHash P (chunkLens (toDChunks P (Chunker.specSplit p parts.flatten))) salt ∧
    (fin.metrics.totalBytes = parts.flatten.length ∨ ∃ b₁ b₂, b₁ ≠ b₂ ∧ P.dataHash b₁ = P.dataHash b₂) := by
  intro fin
  have hspec : allChunks calls = toDChunks P (Chunker.specSplit p parts.flatten) := by
    rw [hchunks, Chunker.C04_partition_independent p hmm parts]
  refine ⟨by rw [← hspec]; exact (C03_pointer_hash P L allow calls salt sha).1, ?_⟩
  rcases lensFunctional_or_collision P (Chunker.specSplit p parts.flatten) with hlf | hcol
  · left
    have := (C14_pointer_size P L allow calls hlegal (hspec ▸ hlf) salt sha).1
    rw [this, hspec, toDChunks_dataSize, Chunker.C04_concat_spec]
  · exact Or.inr hcol

/-- two cleanings of the same bytes — fed in different pieces, grouped into different calls, with
    different answers, limits and defrag procedures — give the same hash, and the same size unless
    the data hash collides -/
theorem C03_same_bytes_same_pointer (P : HashPrims) (p : Chunker.Params) (hmm : p.minC < p.maxC)
    (parts₁ parts₂ : List Bytes) (hbytes : parts₁.flatten = parts₂.flatten)
    (L₁ L₂ : Limits) (allow₁ allow₂ : Defrag → Nat → Decision) (calls₁ calls₂ : List DCall)
    (h₁ : allChunks calls₁ = toDChunks P (Chunker.feed p parts₁))
    (h₂ : allChunks calls₂ = toDChunks P (Chunker.feed p parts₂))
    (hl₁ : HistoryLegal calls₁) (hl₂ : HistoryLegal calls₂) (salt : Bytes) (sha₁ sha₂ : Hash) :
    let f₁ := finalize P (runCalls P L₁ allow₁ FD.init calls₁) salt sha₁
    let f₂ := finalize P (runCalls P L₂ allow₂ FD.init calls₂) salt sha₂
    f₁.fileHash = f₂.fileHash ∧
    (f₁.metrics.totalBytes = f₂.metrics.totalBytes ∨ ∃ b₁ b₂, b₁ ≠ b₂ ∧ P.dataHash b₁ = P.dataHash b₂) := by
  intro f₁ f₂
  obtain ⟨a1, a2⟩ := C03_bytes_function P p hmm parts₁ L₁ allow₁ calls₁ h₁ hl₁ salt sha₁
  obtain ⟨b1, b2⟩ := C03_bytes_function P p hmm parts₂ L₂ allow₂ calls₂ h₂ hl₂ salt sha₂
  refine ⟨by rw [a1, b1, hbytes], ?_⟩
  rcases a2 with a2 | a2
  · rcases b2 with b2 | b2
    · exact Or.inl (by rw [a2, b2, hbytes])
    · exact Or.inr b2
  · exact Or.inr a2

/-- **Different salts give different hashes** — collision-extraction form: if salting one hash with
    two different salts gives the same result, that is a collision of the keyed primitive on two
    distinct (key, message) pairs.  Injectivity is never assumed. -/
theorem C03_salt (P : HashPrims) (h : Hash) (s₁ s₂ : Bytes)
    (heq : Merkle.withSalt P h s₁ = Merkle.withSalt P h s₂) (hne : s₁ ≠ s₂) :
    ∃ k₁ m₁ k₂ m₂, (k₁, m₁) ≠ (k₂, m₂) ∧ P.keyed k₁ m₁ = P.keyed k₂ m₂ :=
  ⟨s₁, h.toBytes, s₂, h.toBytes, fun e => hne (Prod.mk.inj e).1, heq⟩

/-- the same for file hashes of a **non-empty** file -/
theorem C03_salt_file (P : HashPrims) (chunks : List (Hash × Nat)) (hne0 : chunks ≠ []) (s₁ s₂ : Bytes)
    (heq : Merkle.fileNodeHash P chunks s₁ = Merkle.fileNodeHash P chunks s₂) (hne : s₁ ≠ s₂) :
    ∃ k₁ m₁ k₂ m₂, (k₁, m₁) ≠ (k₂, m₂) ∧ P.keyed k₁ m₁ = P.keyed k₂ m₂ := by
  have : chunks.isEmpty = false := by cases chunks <;> simp_all
  simp only [Merkle.fileNodeHash, this] at heq
  exact C03_salt P _ s₁ s₂ heq hne

/-- **Excluded point of the last sentence of C03**: the empty file.  `file_node_hash` returns the
    zero hash for an empty chunk list *before* salting, so the empty file has the same hash under
    every salt. -/
theorem C03_salt_empty_file (P : HashPrims) (s₁ s₂ : Bytes) :
    Merkle.fileNodeHash P [] s₁ = Merkle.fileNodeHash P [] s₂ ∧ Merkle.fileNodeHash P [] s₁ = Hash.zero := by
  simp [Merkle.fileNodeHash]

/-! ### Non-vacuity: the history of `XetProps/C14.lean` and a second, different history over the same
    chunk list (other call partition, no stored answers, production defrag procedure, other limits)
    satisfy the hypotheses of `C03_independent`. -/

namespace Example

def exCalls₂ : List DCall :=
  [ ⟨[cA], [], 0, 0⟩, ⟨[cB, cA, cB, cC, cD, cE], [none, none, none, none, none, none], 0, 0⟩, ⟨[], [], 0, 0⟩, ⟨[cF], [none], 0, 0⟩ ]

example : allChunks exCalls = allChunks exCalls₂ := by decide
example : HistoryLegal exCalls₂ := by decide
/-- the second history really behaves differently (different metrics), yet the pointer agrees -/
example : (runCalls toyPrims ⟨50, 100⟩ Defrag.allowNext FD.init exCalls₂).metrics.dedupedChunks = 2 := by decide +kernel
example : (runCalls toyPrims ⟨50, 100⟩ Defrag.allowNext FD.init exCalls₂).metrics.totalBytes = exFD.metrics.totalBytes := by
  decide +kernel

end Example

end Xet.Dedup
