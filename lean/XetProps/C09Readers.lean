/-
C09 (readers) — "… and identically through the seekable, streaming and minimal readers."

Model: `XetModel/ShardStream.lean` — `streamShard` = `process_shard_stream` (with its section walkers
`process_shard_file_info_section` / `process_shard_cas_info_section`, the views `MDBFileInfoView` / `MDBCASInfoView`
handed to the callbacks), `MinShard` = `MDBMinimalShard` (`from_reader`, `num_files`, `file(i)`, `num_cas`, `cas(i)`,
`serialize`).  Both read a byte string front to back — header, file section to its bookend, CAS section to its bookend —
and never see the lookup tables or the footer.  Helpers: `XetProofs/ShardStream.lean`.  The seekable reader
(`MDBShardInfo`) and `Mem.WF`, `serialize`, `LegalChunkTable` are those of `XetProps/C09.lean`.

Everything below is for **every** well-formed content `m : Mem` (any number of records, any key distribution, all four
flag combinations, records without segments / chunks — these are all instances of `Mem.WF`) and every chunk table `t`
(the streaming readers never reach it, so no legality hypothesis is needed).

`ViewsReturn fv cv fs cs` says the views `fv`, `cv` return exactly the records `fs`, `cs`, same order, through every
accessor (owned re-decoding, raw bytes, header, `entry(i)`, `verification(i)`, `chunk(i)`).
-/
import XetProofs.ShardStream
import XetProofs.ShardExport

namespace Xet.Shard

/-! ## the three readers agree on a serialized shard -/

/-- **Streaming = minimal = seekable = the content.**  On `(serialize m t).bytes`:
    * `process_shard_stream` with both callbacks returns `Ok` and hands the callbacks views that return exactly `m.files`
      and `m.cas` (same records, same order);
    * `MDBMinimalShard::from_reader(.., true, true)` returns a shard with `num_files = |m.files|`, `num_cas = |m.cas|`
      whose `file(i)` / `cas(i)` succeed for every index and return exactly `m.files` / `m.cas` — provided the two
      sections (with their bookends) fit the shard's `u32` offsets, `≤ 2^32` bytes;
    * the seekable scans `read_all_file_info_sections` / `read_all_cas_blocks_full` return `m.files` / `m.cas`
      (`C09_scan`). -/
theorem C09_readers_agree (m : Mem) (t : List (Nat × Nat × Nat)) (w : m.WF)
    (fuelF fuelC : Nat) (hF : m.files.length < fuelF) (hC : m.cas.length < fuelC) :
    (streamShard (serialize m t).bytes true true).status = .ok () ∧
    ViewsReturn (streamShard (serialize m t).bytes true true).files (streamShard (serialize m t).bytes true true).cas m.files m.cas ∧
    (recSize * (m.fileRecs + 1 + m.casRecs + 1) ≤ 4294967296 →
      ∃ s fv cv, MinShard.fromReader (serialize m t).bytes true true = .ok s ∧
        s.numFiles = m.files.length ∧ s.numCas = m.cas.length ∧ s.files = .ok fv ∧ s.casViews = .ok cv ∧
        ViewsReturn fv cv m.files m.cas) ∧
    readAllFiles (serialize m t).bytes fuelF headerSize [] = .ok m.files ∧
    readAllCas (serialize m t).bytes fuelC (serialize m t).footer.casInfoOff [] = .ok m.cas := by
  have wf := w.2.2.1
  have wc := w.2.2.2.1
  rw [serialize_eq_image, streamShard_image _ _ _ wf wc, minFromReader_image _ _ _ wf wc, ← serialize_eq_image]
  refine ⟨rfl, viewsReturn_viewOf _ _ wf wc, ?_, readAllFiles_serialize m t w fuelF hF, readAllCas_serialize m t w fuelC hC⟩
  intro hb
  have hb' : (minOf m.files m.cas).data.length ≤ 4294967296 := by
    rw [minOf_data_length, fileSection_bytes_length 0 m.files wf, casSection_bytes_length 0 m.cas]
    simp only [Mem.fileRecs, Mem.casRecs, recSize] at hb ⊢
    omega
  obtain ⟨n1, n2, h1, h2, s1, s2⟩ := minOf_views m.files m.cas wf wc hb'
  exact ⟨_, _, _, rfl, n1, n2, h1, h2, viewsReturn_of_shows s1 s2 wf wc⟩

/-- **Exact results, all four flag combinations** (no size hypothesis).  With / without a file callback, with / without
    a CAS callback, the streaming reader delivers one view per stored record of the requested sections — header fields
    of the record, the record's bytes, offset 0 — and nothing for the others; the minimal reader with the same
    `include_files` / `include_cas` options returns the minimal shard of the requested sections (`minOf`: record bytes
    verbatim, both bookends always, one offset per record, `cas_info_start` behind the file bookend). -/
theorem C09_readers_exact (m : Mem) (t : List (Nat × Nat × Nat)) (w : m.WF) (wantF wantC : Bool) :
    streamShard (serialize m t).bytes wantF wantC =
      ⟨if wantF then m.files.map viewOfFile else [], if wantC then m.cas.map viewOfCas else [], .ok ()⟩ ∧
    MinShard.fromReader (serialize m t).bytes wantF wantC =
      .ok (minOf (if wantF then m.files else []) (if wantC then m.cas else [])) := by
  rw [serialize_eq_image]
  exact ⟨streamShard_image _ _ _ w.2.2.1 w.2.2.2.1 _ _, minFromReader_image _ _ _ w.2.2.1 w.2.2.2.1 _ _⟩

/-- the views of `C09_readers_exact` return the records (every accessor) -/
theorem C09_stream_views_return (fs : List FileInfo) (cs : List CasInfo) (wf : ∀ f ∈ fs, f.WF) (wc : ∀ c ∈ cs, c.WF) :
    ViewsReturn (fs.map viewOfFile) (cs.map viewOfCas) fs cs :=
  viewsReturn_viewOf fs cs wf wc

/-- **Accessors of the minimal shard**, for any well-formed records `fs`, `cs` (in particular for the four option
    combinations of `C09_readers_exact`): if the stored sections fit `u32` offsets, `num_files` / `num_cas` count the
    records and `file(i)` / `cas(i)` succeed for every index (the two `expect("Programming error …")` do not fire) and
    return the records. -/
theorem C09_minimal_accessors (fs : List FileInfo) (cs : List CasInfo) (wf : ∀ f ∈ fs, f.WF) (wc : ∀ c ∈ cs, c.WF)
    (hb : (minOf fs cs).data.length ≤ 4294967296) :
    (minOf fs cs).numFiles = fs.length ∧ (minOf fs cs).numCas = cs.length ∧
    ∃ fv cv, (minOf fs cs).files = .ok fv ∧ (minOf fs cs).casViews = .ok cv ∧ ViewsReturn fv cv fs cs := by
  obtain ⟨n1, n2, h1, h2, s1, s2⟩ := minOf_views fs cs wf wc hb
  exact ⟨n1, n2, _, _, h1, h2, viewsReturn_of_shows s1 s2 wf wc⟩

/-- size of what the minimal shard stores: the two sections and their bookends -/
theorem C09_minimal_size (m : Mem) (w : m.WF) :
    (minOf m.files m.cas).data.length = recSize * (m.fileRecs + 1 + m.casRecs + 1) := by
  rw [minOf_data_length, fileSection_bytes_length 0 m.files w.2.2.1, casSection_bytes_length 0 m.cas]
  simp only [Mem.fileRecs, Mem.casRecs, recSize]
  omega

/-- **Serialization back.**  `MDBMinimalShard::serialize` of the minimal shard read from `serialize m t` writes the
    default header, the two sections and a table-less footer; the seekable reader loads that footer, its byte totals
    are those of the content, and its scans return `m.files` and `m.cas` (what the unit test `verify_serialization`
    checks on samples). -/
theorem C09_minimal_reserialize (m : Mem) (t : List (Nat × Nat × Nat)) (w : m.WF)
    (hb : recSize * (m.fileRecs + 1 + m.casRecs + 1) ≤ 4294967296)
    (fuelF fuelC : Nat) (hF : m.files.length < fuelF) (hC : m.cas.length < fuelC) :
    ∃ s, MinShard.fromReader (serialize m t).bytes true true = .ok s ∧
      s.serialize = shardImage m.files m.cas s.footer.bytes ∧
      loadInfo s.serialize = .ok s.footer ∧
      readAllFiles s.serialize fuelF s.footer.fileInfoOff [] = .ok m.files ∧
      readAllCas s.serialize fuelC s.footer.casInfoOff [] = .ok m.cas ∧
      s.footer.materialized = m.materialized ∧ s.footer.storedOnDisk = m.storedOnDisk ∧ s.footer.stored = m.stored ∧
      s.footer.fileLookupNum = 0 ∧ s.footer.casLookupNum = 0 ∧ s.footer.chunkLookupNum = 0 := by
  have hb' : (minOf m.files m.cas).data.length ≤ 4294967296 := by rw [C09_minimal_size m w]; exact hb
  obtain ⟨h1, h2, h3, h4, h5, h6⟩ := minOf_serialize_seekable m w hb' fuelF fuelC hF hC
  exact ⟨_, (C09_readers_exact m t w true true).2, minOf_serialize_image _ _, h1, h2, h3, h4, h5, h6, rfl, rfl, rfl⟩

/-- the same with a section excluded: the re-serialized shard holds the other section only (content with the excluded
    map cleared, as in the unit test) -/
theorem C09_minimal_reserialize_flags (m : Mem) (t : List (Nat × Nat × Nat)) (w : m.WF)
    (hb : recSize * (m.fileRecs + 1 + m.casRecs + 1) ≤ 4294967296) (fuel : Nat) (hF : m.files.length < fuel) (hC : m.cas.length < fuel) :
    (∃ s, MinShard.fromReader (serialize m t).bytes true false = .ok s ∧
      readAllFiles s.serialize fuel s.footer.fileInfoOff [] = .ok m.files ∧ readAllCas s.serialize fuel s.footer.casInfoOff [] = .ok []) ∧
    (∃ s, MinShard.fromReader (serialize m t).bytes false true = .ok s ∧
      readAllFiles s.serialize fuel s.footer.fileInfoOff [] = .ok [] ∧ readAllCas s.serialize fuel s.footer.casInfoOff [] = .ok m.cas) := by
  have hsz := C09_minimal_size m w
  have hlen := minOf_data_length m.files m.cas
  constructor
  · have hb' : (minOf m.files []).data.length ≤ 4294967296 := by
      have := minOf_data_length m.files []
      simp only [casSection, List.length_nil] at this
      omega
    obtain ⟨_, h2, h3, _⟩ := minOf_serialize_seekable ⟨m.files, []⟩ w.dropCas hb' fuel fuel hF (Nat.zero_lt_of_lt hC)
    exact ⟨_, (C09_readers_exact m t w true false).2, h2, h3⟩
  · have hb' : (minOf [] m.cas).data.length ≤ 4294967296 := by
      have := minOf_data_length [] m.cas
      simp only [fileSection, List.length_nil] at this
      omega
    obtain ⟨_, h2, h3, _⟩ := minOf_serialize_seekable ⟨[], m.cas⟩ w.dropFiles hb' fuel fuel (Nat.zero_lt_of_lt hF) hC
    exact ⟨_, (C09_readers_exact m t w false true).2, h2, h3⟩

/-! ## what lies behind the CAS bookend is never read; keyed exports -/

/-- **Any trailer.**  For well-formed records `fs`, `cs` and **any** bytes `tr` behind the CAS bookend (lookup tables
    and footer of any kind, garbage, or nothing), both readers return the same results as on `serialize`. -/
theorem C09_readers_any_trailer (fs : List FileInfo) (cs : List CasInfo) (tr : Bytes) (wf : ∀ f ∈ fs, f.WF) (wc : ∀ c ∈ cs, c.WF)
    (wantF wantC : Bool) :
    streamShard (shardImage fs cs tr) wantF wantC =
      ⟨if wantF then fs.map viewOfFile else [], if wantC then cs.map viewOfCas else [], .ok ()⟩ ∧
    MinShard.fromReader (shardImage fs cs tr) wantF wantC = .ok (minOf (if wantF then fs else []) (if wantC then cs else [])) :=
  ⟨streamShard_image fs cs tr wf wc _ _, minFromReader_image fs cs tr wf wc _ _⟩

/-- **Keyed exports.**  On the output of `export_as_keyed_shard` (all eight flag combinations, any key, `C18_export`)
    the streaming and minimal readers return the files iff file info was included, and the xorb records with every chunk
    hash in its keyed form — the same records the seekable scans return on it (`C18_export_parsed`). -/
theorem C09_readers_keyed_export (P : HashPrims) (m : Mem) (t : List (Nat × Nat × Nat)) (w : m.WF) (key : Hash)
    (now validFor : Nat) (f c k : Bool) (wantF wantC : Bool) :
    ∃ e, exportKeyed P (serialize m t).bytes key now validFor f c k = .ok e ∧
      streamShard e.bytes wantF wantC =
        ⟨if wantF then (if f then m.files else []).map viewOfFile else [],
         if wantC then (keyedCas P key m.cas).map viewOfCas else [], .ok ()⟩ ∧
      MinShard.fromReader e.bytes wantF wantC =
        .ok (minOf (if wantF then (if f then m.files else []) else []) (if wantC then keyedCas P key m.cas else [])) ∧
      ViewsReturn ((if f then m.files else []).map viewOfFile) ((keyedCas P key m.cas).map viewOfCas)
        (if f then m.files else []) (keyedCas P key m.cas) := by
  have wE := exportMem_WF P key m f w
  have wf : ∀ x ∈ (if f then m.files else []), x.WF := wE.2.2.1
  have wc : ∀ x ∈ keyedCas P key m.cas, x.WF := wE.2.2.2.1
  refine ⟨_, exportKeyed_serialize P m t w key now validFor f c k, ?_⟩
  have e : (exportSpec P m key now validFor f c k).bytes = shardImage (if f then m.files else []) (keyedCas P key m.cas)
      (lookupBytes (if f then (fileSection 0 m.files).lookup else []) ++
        (lookupBytes (if c then (casSection 0 m.cas).lookup else []) ++
          (chunkLookupBytes (if k then sortByKey (casSection 0 (keyedCas P key m.cas)).chunkLookup else []) ++
            (exportSpec P m key now validFor f c k).footer.bytes))) := by
    cases f <;> simp [exportSpec, exportParts, Parts.body, exportFilesOf, fileSection, shardImage, List.append_assoc]
  rw [e]
  exact ⟨streamShard_image _ _ _ wf wc _ _, minFromReader_image _ _ _ wf wc _ _, viewsReturn_viewOf _ _ wf wc⟩

/-! ## totality and error kinds on arbitrary input -/

/-- **The streaming reader is total with three outcomes.**  On **any** byte string and any callback combination,
    `process_shard_stream` (with callbacks that do not fail) returns `Ok`, `UnexpectedEof`, or — only for a wrong
    32-byte tag — `ShardVersionError`.  The model's loop bound (`len / 48 + 1` iterations) is never the reason for
    stopping (the `internal` outcome is excluded). -/
theorem C09_stream_total (b : Bytes) (wantF wantC : Bool) :
    (streamShard b wantF wantC).status = .ok () ∨ (streamShard b wantF wantC).status = .error .eof ∨
    (streamShard b wantF wantC).status = .error .version :=
  streamShard_status b wantF wantC

/-- **The minimal reader is total with three outcomes** on any byte string and any option combination. -/
theorem C09_minimal_total (b : Bytes) (inclF inclC : Bool) :
    (∃ s, MinShard.fromReader b inclF inclC = .ok s) ∨ MinShard.fromReader b inclF inclC = .error .eof ∨
    MinShard.fromReader b inclF inclC = .error .version :=
  minFromReader_status b inclF inclC

/-- **Every section loop terminates by itself** on any input: one iteration fails with `UnexpectedEof`, meets a bookend,
    or delivers a view and leaves at least 48 bytes fewer; so `len / 48 + 1` iterations are never exhausted, for any
    callback that does not fail. -/
theorem C09_walk_fuel_adequate {σ : Type} (s : σ) (r : Bytes)
    (cbF : σ → FileView → Except Err σ) (hF : ∀ s v, ∃ s', cbF s v = .ok s')
    (cbC : σ → CasView → Except Err σ) (hC : ∀ s v, ∃ s', cbC s v = .ok s') :
    ((walkFiles cbF s r).status = .error .eof ∨ ∃ rest, (walkFiles cbF s r).status = .ok rest ∧ rest.length + recSize ≤ r.length) ∧
    ((walkCas cbC s r).status = .error .eof ∨ ∃ rest, (walkCas cbC s r).status = .ok rest ∧ rest.length + recSize ≤ r.length) :=
  ⟨walk_status nextFile_ok cbF hF _ s r (walkFuel_ok r), walk_status nextCas_ok cbC hC _ s r (walkFuel_ok r)⟩

/-- a wrong magic number is the version error (before anything is delivered); the version and footer-size words of
    the header are not checked by these readers -/
theorem C09_stream_wrong_tag (b : Bytes) (h1 : 32 ≤ b.length) (h2 : b.take 32 ≠ headerTag) (wantF wantC : Bool) :
    streamShard b wantF wantC = ⟨[], [], .error .version⟩ := by
  simp only [streamShard, streamHeader, readExact, if_pos h1, ne_eq, h2, not_false_eq_true, if_true]

/-! ## truncated shards -/

/-- **Truncated stream: error and a clean prefix.**  Cut `(serialize m t).bytes` — or any image of well-formed records —
    after `k` bytes, anywhere before the end of the CAS bookend: `process_shard_stream` fails with `UnexpectedEof`, and
    what its callbacks were handed before failing are the views of exactly the records that are complete within the
    first `k` bytes (`takeWhole`), in order: all complete file records, then — only once the file bookend is complete —
    all complete xorb records.  Never a partial or altered record. -/
theorem C09_truncated_stream (fs : List FileInfo) (cs : List CasInfo) (tr : Bytes) (wf : ∀ f ∈ fs, f.WF) (wc : ∀ c ∈ cs, c.WF)
    (k : Nat) (hk : k < sectionsEnd fs cs) :
    streamShard ((shardImage fs cs tr).take k) true true =
      ⟨(takeWhole (·.bytes.length) (k - 48) fs).map viewOfFile,
       (takeWhole (·.bytes.length) (k - 48 - (fileSection 0 fs).bytes.length - 48) cs).map viewOfCas, .error .eof⟩ :=
  streamShard_cut fs cs tr wf wc k hk

/-- the delivered records are a prefix of the stored ones, and nothing of the CAS section is delivered before the file
    section is complete -/
theorem C09_truncated_prefix (fs : List FileInfo) (cs : List CasInfo) (k : Nat) :
    takeWhole (fun f : FileInfo => f.bytes.length) (k - 48) fs <+: fs ∧
    takeWhole (fun c : CasInfo => c.bytes.length) (k - 48 - (fileSection 0 fs).bytes.length - 48) cs <+: cs ∧
    (k < 48 + (fileSection 0 fs).bytes.length + 48 →
      takeWhole (fun c : CasInfo => c.bytes.length) (k - 48 - (fileSection 0 fs).bytes.length - 48) cs = []) := by
  refine ⟨takeWhole_prefix _ _ _, takeWhole_prefix _ _ _, ?_⟩
  intro h
  have z : k - 48 - (fileSection 0 fs).bytes.length - 48 = 0 := by omega
  rw [z]
  exact takeWhole_zero _ cs (cas_size_pos cs)

/-- **Truncated minimal reader.**  With `include_cas = true` every cut before the end of the CAS bookend is rejected
    with `UnexpectedEof` (no partially filled shard is returned).  With `include_cas = false` exactly the cuts before
    the end of the *file* bookend are rejected; from there on the result is the complete file-only shard. -/
theorem C09_truncated_minimal (fs : List FileInfo) (cs : List CasInfo) (tr : Bytes) (wf : ∀ f ∈ fs, f.WF) (wc : ∀ c ∈ cs, c.WF)
    (inclF : Bool) (k : Nat) :
    (k < sectionsEnd fs cs → MinShard.fromReader ((shardImage fs cs tr).take k) inclF true = .error .eof) ∧
    MinShard.fromReader ((shardImage fs cs tr).take k) inclF false =
      (if k < 48 + (fileSection 0 fs).bytes.length + 48 then .error .eof else .ok (minOf (if inclF then fs else []) [])) :=
  ⟨minFromReader_cut fs cs tr wf wc inclF k, minFromReader_files_only_cut fs cs tr wf inclF k⟩

/-- **A cut behind the sections changes nothing**: from the end of the CAS bookend on (`sectionsEnd`, i.e. also with the
    lookup tables and the footer missing or cut), both readers return the complete result. -/
theorem C09_cut_after_sections (fs : List FileInfo) (cs : List CasInfo) (tr : Bytes) (wf : ∀ f ∈ fs, f.WF) (wc : ∀ c ∈ cs, c.WF)
    (k : Nat) (hk : sectionsEnd fs cs ≤ k) (wantF wantC : Bool) :
    streamShard ((shardImage fs cs tr).take k) wantF wantC = streamShard (shardImage fs cs tr) wantF wantC ∧
    MinShard.fromReader ((shardImage fs cs tr).take k) wantF wantC = MinShard.fromReader (shardImage fs cs tr) wantF wantC := by
  rw [shardImage_take_ge fs cs tr k hk]
  simp only [streamShard_image _ _ _ wf wc, minFromReader_image _ _ _ wf wc, and_self]

/-- where the sections of `serialize m t` end: at the file lookup table -/
theorem C09_sections_end (m : Mem) (t : List (Nat × Nat × Nat)) : sectionsEnd m.files m.cas = (serialize m t).footer.fileLookupOff := by
  simp only [sectionsEnd, serialize, headerSize, recSize]

/-! ## streaming = minimal on arbitrary input; bookkeeping of the minimal shard -/

/-- **Streaming and minimal readers agree on every input**, well-formed or not.  For **every** byte string `b`:
    `MDBMinimalShard::from_reader(b, true, true)` fails exactly when `process_shard_stream` (both callbacks) fails, with
    the same error; and when both succeed, the minimal shard stores exactly the bytes of the views the streaming reader
    delivered — file views in order, bookend, xorb views in order, bookend — with one offset per view. -/
theorem C09_readers_agree_any_input (b : Bytes) :
    match MinShard.fromReader b true true with
    | .error e => (streamShard b true true).status = .error e
    | .ok s => (streamShard b true true).status = .ok () ∧
        s.data = (streamShard b true true).files.flatMap FileView.bytes ++ bookend
                  ++ (streamShard b true true).cas.flatMap CasView.bytes ++ bookend ∧
        s.numFiles = (streamShard b true true).files.length ∧ s.numCas = (streamShard b true true).cas.length :=
  minimal_agrees_stream b

/-- **No "Programming error" panic, on any input.**  For **every** byte string `b` and option combination: whenever
    `MDBMinimalShard::from_reader` returns a shard `s` whose stored data fit the `u32` offsets (at most 4 GiB), every
    `s.file(i)`, `i < num_files`, and every `s.cas(i)`, `i < num_cas`, succeeds (`MDBFileInfoView::new` /
    `MDBCASInfoView::new` find a complete record at each recorded offset) — the two `expect`s never fire.
    (Beyond 4 GiB the `len as u32` casts wrap and the recorded offsets are wrong; such inputs are outside this theorem.) -/
theorem C09_minimal_accessors_total (b : Bytes) (inclF inclC : Bool) (s : MinShard)
    (h : MinShard.fromReader b inclF inclC = .ok s) (hb : s.data.length ≤ 4294967296) :
    (∃ fv, s.files = .ok fv ∧ fv.length = s.numFiles) ∧ (∃ cv, s.casViews = .ok cv ∧ cv.length = s.numCas) := by
  obtain ⟨⟨fv, h1⟩, ⟨cv, h2⟩⟩ := minFromReader_accessors_total b inclF inclC s h hb
  exact ⟨⟨fv, h1, by simpa using entriesFrom_length _ _ _ _ _ h1⟩, ⟨cv, h2, by simpa using entriesFrom_length _ _ _ _ _ h2⟩⟩

/-! ## non-vacuity -/

section Examples

attribute [local instance] decEqExcept

private def seg (h : Hash) (n a b : Nat) : Seg := ⟨h, 0, n, a, b⟩
private def hX : Hash := ⟨11, 1, 2, 3⟩
/-- all four flag combinations, one record without segments, one xorb without chunks, shared truncated prefix 5 -/
private def f00 : FileInfo := ⟨⟨5, 1, 0, 0⟩, 0, 2, 0, [seg hX 100 0 2, seg hX 50 2 3], [], none⟩
private def fV0 : FileInfo := ⟨⟨5, 2, 0, 0⟩, flagVerification, 1, 0, [seg hX 7 0 1], [⟨1, 1, 1, 1⟩], none⟩
private def f0M : FileInfo := ⟨⟨6, 0, 0, 0⟩, flagMetadataExt, 0, 0, [], [], some ⟨2, 2, 2, 2⟩⟩
private def fVM : FileInfo := ⟨⟨18446744073709551615, 0, 0, 0⟩, flagVerification + flagMetadataExt, 1, 0, [seg hX 9 1 2],
  [⟨3, 3, 3, 3⟩], some ⟨4, 4, 4, 4⟩⟩
private def cA : CasInfo := ⟨hX, 0, 3, 160, 120, [⟨⟨7, 1, 0, 0⟩, 100, 0, 0⟩, ⟨⟨7, 2, 0, 0⟩, 50, 100, 0⟩, ⟨⟨0, 0, 0, 1⟩, 10, 150, 0⟩]⟩
private def cE : CasInfo := ⟨⟨12, 0, 0, 0⟩, 0, 0, 0, 0, []⟩
private def exMem : Mem := ⟨[f00, fV0, f0M, fVM], [cA, cE]⟩
private def exEmpty : Mem := ⟨[], []⟩

example : exMem.WF := by decide +kernel
example : exEmpty.WF := by decide +kernel
example : recSize * (exMem.fileRecs + 1 + exMem.casRecs + 1) ≤ 4294967296 := by decide +kernel

/-- the theorems instantiated: all four flag combinations and empty records at once -/
example : (streamShard (serializeStable exMem).bytes true true).status = .ok () ∧
    ViewsReturn (streamShard (serializeStable exMem).bytes true true).files (streamShard (serializeStable exMem).bytes true true).cas
      [f00, fV0, f0M, fVM] [cA, cE] := by
  have := C09_readers_agree exMem (sortByKey (casSection 0 exMem.cas).chunkLookup) (by decide +kernel) 5 3 (by decide) (by decide)
  exact ⟨this.1, this.2.1⟩

/-- the empty shard: nothing delivered, `Ok` -/
example : streamShard (serializeStable exEmpty).bytes true true = ⟨[], [], .ok ()⟩ :=
  (C09_readers_exact exEmpty (sortByKey (casSection 0 exEmpty.cas).chunkLookup) (by decide +kernel) true true).1

/-- direct evaluation of the model on the example (independent of the theorems) -/
example : (streamShard (serializeStable exMem).bytes true true).files.map FileView.toInfo
    = [.ok (some f00), .ok (some fV0), .ok (some f0M), .ok (some fVM)] := by decide +kernel
example : (streamShard (serializeStable exMem).bytes true true).files.map FileView.verifications
    = [.ok [], .ok [⟨1, 1, 1, 1⟩], .ok [], .ok [⟨3, 3, 3, 3⟩]] := by decide +kernel
example : (MinShard.fromReader (serializeStable exMem).bytes true true).map (fun s => (s.numFiles, s.numCas, s.fileOffsets, s.casOffsets, s.casInfoStart))
    = .ok (4, 2, [0, 144, 288, 384], [624, 816], 624) := by decide +kernel
example : (MinShard.fromReader (serializeStable exMem).bytes false true).map (fun s => (s.numFiles, s.numCas, s.casOffsets, s.casInfoStart))
    = .ok (0, 2, [48, 240], 48) := by decide +kernel

/-- truncated in the middle of the third file record (byte 350): two complete files delivered, then `UnexpectedEof` -/
example : (streamShard ((serializeStable exMem).bytes.take 350) true true).status = .error .eof ∧
    (streamShard ((serializeStable exMem).bytes.take 350) true true).files.map FileView.toInfo = [.ok (some f00), .ok (some fV0)] ∧
    (streamShard ((serializeStable exMem).bytes.take 350) true true).cas.length = 0 := by decide +kernel
example : sectionsEnd exMem.files exMem.cas = 960 := by decide +kernel
/-- cut inside the last xorb record: all files, the first xorb, `UnexpectedEof`; the minimal reader rejects -/
example : (streamShard ((serializeStable exMem).bytes.take 900) true true).status = .error .eof ∧
    (streamShard ((serializeStable exMem).bytes.take 900) true true).files.length = 4 ∧
    (streamShard ((serializeStable exMem).bytes.take 900) true true).cas.map CasView.toInfo = [.ok (some cA)] ∧
    MinShard.fromReader ((serializeStable exMem).bytes.take 900) true true = .error .eof ∧
    (MinShard.fromReader ((serializeStable exMem).bytes.take 900) true false).map MinShard.numFiles = .ok 4 := by decide +kernel
/-- wrong magic number -/
example : (streamShard (0 :: (serializeStable exMem).bytes.drop 1) true true).status = .error .version := by decide +kernel

end Examples

end Xet.Shard
