/-
C10 — Shard union, difference and consolidation neither lose nor invent records.

  "The union of two shards contains exactly the file and xorb records of either input (the richer variant when both
   carry the same file), the difference exactly those of the second not in the first, and every record stays
   retrievable with correct lookup tables and totals.  Consolidating a session directory preserves the set of
   retrievable records, returns only shard files that exist and whose names equal their content hash, and deletes
   only shards whose records are present in a returned shard."

Model: `XetModel/ShardOps.lean` (`setOp` / `setOpBytes` = `set_operation` of `mdb_shard/src/set_operations.rs`,
`mergeFileLists` / `mergeCasLists` = its two ordered merges with the action table, `mergeFiles` = the `Merge` action,
`consolidate` / `groupEnd` / `unionChain` = `consolidate_shards_in_directory` of `session_directory.rs`) and
`XetModel/ShardFormat.lean` (`MemShard.union` / `difference` = `MDBInMemoryShard::{union, difference}`).
Helpers: `XetProofs/ShardOps.lean`; the format theorems reused are C09 (`XetProps/C09.lean`) and C05.

Levels.  (1) the merges on parsed record lists, strictly increasing in the `DataHash` order (as the sections of a
shard are, C09); (2) `setOp` writes byte for byte `serialize_from` (`serializeStable`) of the merged content, which is
`Mem.WF` — hence every C09 / C05 theorem applies to the output; (3) `setOpBytes` = the readers on two serialized
well-formed shards followed by `setOp`; (4) the relation to the in-memory operations; (5) consolidation.

Hypotheses that are not part of `Mem.WF`, and why they are there:
* `SameFileSameSegments` (`FileDataSequenceHeader::verify_same_file`, a debug assertion only): two records of the same
  file hash have the same entry count and segments.  Needed **only** for a pair that takes the `Merge` branch (equal
  hash, incomparable flag words) — `MergeEntriesAgree` is the exact condition — because the rebuilt header says
  `fh0.num_entries` while the verification entries copied from the second record are `fh1.num_entries` many; the
  counter-example below shows the output is not parseable without it.
* record counts of the two inputs together `< 2^32`: record indices in the lookup tables are `u32` (the code does not
  check; `Mem.WF` of each input alone does not bound the merged shard).
-/
import XetProofs.ShardOps
import XetProps.C09
import XetProps.C05

namespace Xet.Shard

/-! ## (1) the two ordered merges on parsed record lists -/

/-- **How two flag words are compared** (`compare_flag_superset`): `flagsInclude a b` says every one of the 32 bits set
    in `b` is set in `a`; the four outcomes are exclusive and exhaustive. -/
theorem C10_flag_compare (a b : Nat) :
    (flagsInclude a b = true ↔ ∀ i, i < 32 → hasBit b (2 ^ i) = true → hasBit a (2 ^ i) = true) ∧
    (compareFlagSuperset a b = .equal ↔ a = b) ∧
    (compareFlagSuperset a b = .superA ↔ a ≠ b ∧ flagsInclude a b = true) ∧
    (compareFlagSuperset a b = .superB ↔ a ≠ b ∧ flagsInclude a b = false ∧ flagsInclude b a = true) ∧
    (compareFlagSuperset a b = .neither ↔ a ≠ b ∧ flagsInclude a b = false ∧ flagsInclude b a = false) :=
  ⟨flagsInclude_iff a b, compareFlagSuperset_spec a b⟩

/-- **The richer variant.**  For a file present in both inputs `set_operation` writes `unionPick a b`:
    the first input's record if the flag words are equal or the first includes the second; the second input's record if
    it strictly includes the first; and otherwise (incomparable) the rebuilt record `mergeFiles a b` — first input's
    hash, entry count and segments, flags = exactly the two known bits that either side has, verification entries from
    the first input if it has them else from the second, likewise the metadata extension, `_unused = 0`.
    In every case the verification / metadata bits of the result are the OR of the inputs' bits. -/
theorem C10_richer_variant (a b : FileInfo) :
    (compareFlagSuperset a.flags b.flags = .equal ∨ compareFlagSuperset a.flags b.flags = .superA → unionPick a b = a) ∧
    (compareFlagSuperset a.flags b.flags = .superB → unionPick a b = b) ∧
    (compareFlagSuperset a.flags b.flags = .neither → unionPick a b = mergeFiles a b) ∧
    (unionPick a b).hasVerif = (a.hasVerif || b.hasVerif) ∧ (unionPick a b).hasMeta = (a.hasMeta || b.hasMeta) ∧
    (mergeFiles a b).hash = a.hash ∧ (mergeFiles a b).numEntries = a.numEntries ∧ (mergeFiles a b).segs = a.segs ∧
    (mergeFiles a b).unused = 0 ∧
    (mergeFiles a b).flags = (if (a.hasVerif || b.hasVerif) = true then flagVerification else 0)
      + (if (a.hasMeta || b.hasMeta) = true then flagMetadataExt else 0) ∧
    (mergeFiles a b).verif = (if a.hasVerif = true then a.verif else if b.hasVerif = true then b.verif else []) ∧
    (mergeFiles a b).metaExt = (if a.hasMeta = true then a.metaExt else if b.hasMeta = true then b.metaExt else none) := by
  refine ⟨fun h => ?_, fun h => ?_, fun h => ?_, (unionPick_bits a b).1, (unionPick_bits a b).2, rfl, rfl, rfl, rfl, rfl, rfl,
    rfl⟩
  · unfold unionPick; rcases h with h | h <;> rw [h]
  · unfold unionPick; rw [h]
  · unfold unionPick; rw [h]

/-- **File section, union.**  For all strictly increasing `fa`, `fb` and every fuel `≥ |fa| + |fb| + 1` (the fuel `setOp`
    uses): the output is strictly increasing; for **every** hash `h` what the output holds for `h` is `unionFind` of what
    the inputs hold — only in the first ⇒ its record, only in the second ⇒ its record, in both ⇒ `unionPick`
    (`C10_richer_variant`), in neither ⇒ nothing; so the key set is the union; and every output record is an input
    record or the `Merge` of two input records with equal hash and incomparable flags (nothing invented). -/
theorem C10_merge_files_union (fa fb : List FileInfo) (fuel : Nat)
    (ha : fa.Pairwise (fun a b => hashLt a.hash b.hash = true)) (hb : fb.Pairwise (fun a b => hashLt a.hash b.hash = true))
    (hf : fa.length + fb.length + 1 ≤ fuel) :
    (mergeFileLists .union fuel fa fb).Pairwise (fun a b => hashLt a.hash b.hash = true) ∧
    (∀ h, findFile h (mergeFileLists .union fuel fa fb) = unionFind (findFile h fa) (findFile h fb)) ∧
    (∀ h, (findFile h (mergeFileLists .union fuel fa fb)).isSome = ((findFile h fa).isSome || (findFile h fb).isSome)) ∧
    (∀ x ∈ mergeFileLists .union fuel fa fb, x ∈ fa ∨ x ∈ fb ∨ ∃ a ∈ fa, ∃ b ∈ fb, a.hash = b.hash ∧
        compareFlagSuperset a.flags b.flags = .neither ∧ x = mergeFiles a b) := by
  have hF := findFile_union fuel fa fb ha hb (by omega)
  refine ⟨mergeFileLists_union_sorted fuel fa fb ha hb, hF, fun h => ?_, mem_mergeFileLists _ _ _ _⟩
  rw [hF h]
  cases findFile h fa <;> cases findFile h fb <;> rfl

/-- `unionFind`, spelled out -/
theorem C10_unionFind (a b : FileInfo) :
    unionFind (some a) none = some a ∧ unionFind none (some b) = some b ∧ unionFind none none = none ∧
    unionFind (some a) (some b) = some (unionPick a b) := ⟨rfl, rfl, rfl, rfl⟩

/-- **File section, difference.**  The output is exactly the records of the second input whose hash is not in the
    first, in order (any fuel `≥ |fa| + |fb| + 1`). -/
theorem C10_merge_files_difference (fa fb : List FileInfo) (fuel : Nat)
    (ha : fa.Pairwise (fun a b => hashLt a.hash b.hash = true)) (hb : fb.Pairwise (fun a b => hashLt a.hash b.hash = true))
    (hf : fa.length + fb.length + 1 ≤ fuel) :
    mergeFileLists .difference fuel fa fb = fb.filter (fun f => (findFile f.hash fa).isNone) :=
  mergeFileLists_difference fuel fa fb ha hb (by omega)

/-- **Xorb section, union.**  Strictly increasing output; for every hash the block of the first input if it has one,
    else the block of the second; every output block is an input block. -/
theorem C10_merge_cas_union (ca cb : List CasInfo) (fuel : Nat)
    (ha : ca.Pairwise (fun a b => hashLt a.hash b.hash = true)) (hb : cb.Pairwise (fun a b => hashLt a.hash b.hash = true))
    (hf : ca.length + cb.length + 1 ≤ fuel) :
    (mergeCasLists .union fuel ca cb).Pairwise (fun a b => hashLt a.hash b.hash = true) ∧
    (∀ h, findCas h (mergeCasLists .union fuel ca cb) =
      match findCas h ca with
      | some a => some a
      | none => findCas h cb) ∧
    (∀ x ∈ mergeCasLists .union fuel ca cb, x ∈ ca ∨ x ∈ cb) :=
  ⟨mergeCasLists_union_sorted fuel ca cb ha hb, fun h => findCas_union fuel ca cb ha hb (by omega) h,
   mem_mergeCasLists _ _ _ _⟩

/-- **Xorb section, difference.** -/
theorem C10_merge_cas_difference (ca cb : List CasInfo) (fuel : Nat)
    (ha : ca.Pairwise (fun a b => hashLt a.hash b.hash = true)) (hb : cb.Pairwise (fun a b => hashLt a.hash b.hash = true))
    (hf : ca.length + cb.length + 1 ≤ fuel) :
    mergeCasLists .difference fuel ca cb = cb.filter (fun c => (findCas c.hash ca).isNone) :=
  mergeCasLists_difference fuel ca cb ha hb (by omega)

/-! ## (2) the output of `set_operation` is a well-formed serialized shard -/

/-- **`set_operation` writes `serialize_from` of the merged content, and that content is well-formed.**
    For both operations, all well-formed `ma`, `mb` (`Mem.WF`: each record well-formed, strictly increasing, no bookend
    hash), under `SameFileSameSegments` and the `u32` record-count bound: the merged content `mergedMem` is `Mem.WF`;
    the bytes and footer `setOp` produces are exactly `serializeStable` of it (same layout, `fileRecCount` /
    `numEntries` coincide with `numRecs` / `chunks.length`); and its chunk table is legal.  Hence **all** C09 / C05
    theorems apply to the output (scan, every lookup, tables sorted, totals, size, dedup truthfulness). -/
theorem C10_setop_wf (op : SetOp) (ma mb : Mem) (wa : ma.WF) (wb : mb.WF) (hs : SameFileSameSegments ma.files mb.files)
    (hsz : ma.fileRecs + mb.fileRecs < 4294967296) (hsc : ma.casRecs + mb.casRecs < 4294967296) :
    (mergedMem op ma.files mb.files ma.cas mb.cas).WF ∧
    setOp op ma.files mb.files ma.cas mb.cas = serializeStable (mergedMem op ma.files mb.files ma.cas mb.cas) ∧
    LegalChunkTable (mergedMem op ma.files mb.files ma.cas mb.cas)
      (sortByKey (casSection 0 (mergedMem op ma.files mb.files ma.cas mb.cas).cas).chunkLookup) :=
  ⟨mergedMem_wf op ma mb wa wb hs.agree hsz hsc, setOp_serializeStable op ma mb wa wb hs.agree, serializeStable_legal _⟩

/-- the same with the exact condition: equal entry counts are needed only for pairs that take the `Merge` branch -/
theorem C10_setop_wf_minimal (op : SetOp) (ma mb : Mem) (wa : ma.WF) (wb : mb.WF) (hs : MergeEntriesAgree ma.files mb.files)
    (hsz : ma.fileRecs + mb.fileRecs < 4294967296) (hsc : ma.casRecs + mb.casRecs < 4294967296) :
    (mergedMem op ma.files mb.files ma.cas mb.cas).WF ∧
    setOp op ma.files mb.files ma.cas mb.cas = serializeStable (mergedMem op ma.files mb.files ma.cas mb.cas) :=
  ⟨mergedMem_wf op ma mb wa wb hs hsz hsc, setOp_serializeStable op ma mb wa wb hs⟩

theorem C10_same_file_implies_agree {fa fb : List FileInfo} (h : SameFileSameSegments fa fb) : MergeEntriesAgree fa fb :=
  h.agree

/-- **Scanning the output returns the merged lists** (C09 on the output): `load_from_reader` returns the footer
    written, `read_all_file_info_sections` the merged file list, `read_all_cas_blocks_full` the merged xorb list. -/
theorem C10_setop_scan (op : SetOp) (ma mb : Mem) (wa : ma.WF) (wb : mb.WF) (hs : SameFileSameSegments ma.files mb.files)
    (hsz : ma.fileRecs + mb.fileRecs < 4294967296) (hsc : ma.casRecs + mb.casRecs < 4294967296)
    (fuelF fuelC : Nat) (hF : (mergedMem op ma.files mb.files ma.cas mb.cas).files.length < fuelF)
    (hC : (mergedMem op ma.files mb.files ma.cas mb.cas).cas.length < fuelC) :
    loadInfo (setOp op ma.files mb.files ma.cas mb.cas).bytes = .ok (setOp op ma.files mb.files ma.cas mb.cas).footer ∧
    readAllFiles (setOp op ma.files mb.files ma.cas mb.cas).bytes fuelF headerSize []
      = .ok (mergedMem op ma.files mb.files ma.cas mb.cas).files ∧
    readAllCas (setOp op ma.files mb.files ma.cas mb.cas).bytes fuelC (setOp op ma.files mb.files ma.cas mb.cas).footer.casInfoOff []
      = .ok (mergedMem op ma.files mb.files ma.cas mb.cas).cas := by
  obtain ⟨w, e, l⟩ := C10_setop_wf op ma mb wa wb hs hsz hsc
  rw [e]
  obtain ⟨h1, h2, h3, _, _⟩ := C09_scan _ _ w l fuelF fuelC hF hC
  exact ⟨h1, h2, h3⟩

/-- **Every file lookup on a union** (`get_file_reconstruction_info` on the output of `set_operation`), for **every**
    hash: with fewer than 8 output files sharing its truncated prefix the answer is `unionFind` of the inputs' records —
    the record of the only input that has it, `unionPick` when both have it, not-found when neither has. -/
theorem C10_union_lookup (ma mb : Mem) (wa : ma.WF) (wb : mb.WF) (hs : SameFileSameSegments ma.files mb.files)
    (hsz : ma.fileRecs + mb.fileRecs < 4294967296) (hsc : ma.casRecs + mb.casRecs < 4294967296) (h : Hash) :
    getFile (setOp .union ma.files mb.files ma.cas mb.cas).bytes (setOp .union ma.files mb.files ma.cas mb.cas).footer h =
      if prefixCount h (mergedMem .union ma.files mb.files ma.cas mb.cas).files < maxCollisions
      then .ok (unionFind (findFile h ma.files) (findFile h mb.files)) else .error .collision := by
  obtain ⟨w, e, _⟩ := C10_setop_wf .union ma mb wa wb hs hsz hsc
  rw [e, serializeStable, C09_file_lookup _ _ w h]
  have := findFile_union (ma.files.length + mb.files.length + 1) ma.files mb.files wa.1 wb.1 (by omega) h
  simp only [mergedMem] at this ⊢
  rw [this]

/-- **The difference needs no extra hypothesis**: its content is a sub-list of the second input, so it is well-formed
    whenever the inputs are, and `set_operation` writes `serialize_from` of it. -/
theorem C10_setop_difference_wf (ma mb : Mem) (wa : ma.WF) (wb : mb.WF) :
    (mergedMem .difference ma.files mb.files ma.cas mb.cas).WF ∧
    mergedMem .difference ma.files mb.files ma.cas mb.cas =
      ⟨mb.files.filter (fun f => (findFile f.hash ma.files).isNone), mb.cas.filter (fun c => (findCas c.hash ma.cas).isNone)⟩ ∧
    setOp .difference ma.files mb.files ma.cas mb.cas = serializeStable (mergedMem .difference ma.files mb.files ma.cas mb.cas) :=
  ⟨mergedMem_difference_wf ma mb wa wb, mergedMem_difference ma mb wa wb, setOp_difference_serializeStable ma mb wa wb⟩

/-- **Every file lookup on a difference**, for every hash: the second input's record iff the first input has none. -/
theorem C10_difference_lookup (ma mb : Mem) (wa : ma.WF) (wb : mb.WF) (h : Hash) :
    getFile (setOp .difference ma.files mb.files ma.cas mb.cas).bytes (setOp .difference ma.files mb.files ma.cas mb.cas).footer h =
      if prefixCount h (mergedMem .difference ma.files mb.files ma.cas mb.cas).files < maxCollisions
      then .ok (if (findFile h ma.files).isNone = true then findFile h mb.files else none) else .error .collision := by
  obtain ⟨w, e1, e2⟩ := C10_setop_difference_wf ma mb wa wb
  rw [e2, serializeStable, C09_file_lookup _ _ w h]
  have : findFile h (mergedMem .difference ma.files mb.files ma.cas mb.cas).files =
      if (findFile h ma.files).isNone = true then findFile h mb.files else none := by
    rw [e1]; exact findFile_filter_key h mb.files (fun k => (findFile k ma.files).isNone)
  rw [this]

/-- **Totals and size of the output.**  The footer totals are the sums over the merged records (bytes on disk and in
    xorbs over the merged xorb list, materialized bytes over the segments of the merged file list), each fits a `u64`,
    the lookup-table counts are the record counts, and the output length is the in-memory size formula of the merged
    content. -/
theorem C10_totals (op : SetOp) (ma mb : Mem) (wa : ma.WF) (wb : mb.WF) (hs : SameFileSameSegments ma.files mb.files)
    (hsz : ma.fileRecs + mb.fileRecs < 4294967296) (hsc : ma.casRecs + mb.casRecs < 4294967296)
    (m : Mem) (out : Serialized) (hm : m = mergedMem op ma.files mb.files ma.cas mb.cas)
    (ho : out = setOp op ma.files mb.files ma.cas mb.cas) :
    out.footer.storedOnDisk = sumMap (·.bytesOnDisk) m.cas ∧ out.footer.stored = sumMap (·.bytesInCas) m.cas ∧
    out.footer.materialized = sumMap (fun f => sumMap (·.bytes) f.segs) m.files ∧
    out.footer.storedOnDisk < 18446744073709551616 ∧ out.footer.stored < 18446744073709551616 ∧
    out.footer.materialized < 18446744073709551616 ∧
    out.footer.fileLookupNum = m.files.length ∧ out.footer.casLookupNum = m.cas.length ∧
    out.footer.chunkLookupNum = m.numChunks ∧ out.bytes.length = m.shardFileSize := by
  obtain ⟨w, e, l⟩ := C10_setop_wf op ma mb wa wb hs hsz hsc
  rw [e, ← hm] at ho
  rw [← hm] at w l
  subst ho
  have hl := legal_table_length _ _ l
  have hfit := C09_totals_fit _ w
  have hsize := C09_size _ _ hl
  obtain ⟨t1, t2, t3⟩ := C09_totals m (sortByKey (casSection 0 m.cas).chunkLookup)
  exact ⟨t1, t3, t2, hfit.1, hfit.2.2, hfit.2.1, fileSection_lookup_length 0 _, casSection_lookup_length 0 _, hl, hsize⟩

/-- **Lookup tables of the output** (C09 on the output): sorted by key, every row of the file / xorb table points at
    the record whose truncated hash is its key, and every merged record has its row. -/
theorem C10_tables (op : SetOp) (ma mb : Mem) (wa : ma.WF) (wb : mb.WF) (hs : SameFileSameSegments ma.files mb.files)
    (hsz : ma.fileRecs + mb.fileRecs < 4294967296) (hsc : ma.casRecs + mb.casRecs < 4294967296)
    (m : Mem) (out : Serialized) (hm : m = mergedMem op ma.files mb.files ma.cas mb.cas)
    (ho : out = setOp op ma.files mb.files ma.cas mb.cas) :
    (fileSection 0 m.files).lookup.Pairwise (fun a b => a.1 ≤ b.1) ∧ (casSection 0 m.cas).lookup.Pairwise (fun a b => a.1 ≤ b.1) ∧
    (sortByKey (casSection 0 m.cas).chunkLookup).Pairwise (fun a b => a.1 ≤ b.1) ∧
    readLookup out.bytes out.footer.fileLookupNum out.footer.fileLookupOff [] = .ok (fileSection 0 m.files).lookup ∧
    readLookup out.bytes out.footer.casLookupNum out.footer.casLookupOff [] = .ok (casSection 0 m.cas).lookup ∧
    (∀ f ∈ m.files, ∃ e ∈ (fileSection 0 m.files).lookup, e.1 = trunc f.hash ∧ ∃ off',
        parseFileInfo out.bytes (out.footer.fileInfoOff + recSize * e.2) = .ok (some (f, off'))) ∧
    (∀ X ∈ m.cas, ∃ e ∈ (casSection 0 m.cas).lookup, e.1 = trunc X.hash ∧ ∃ off',
        parseCasInfo out.bytes (out.footer.casInfoOff + recSize * e.2) = .ok (some (X, off'))) := by
  obtain ⟨w, e, l⟩ := C10_setop_wf op ma mb wa wb hs hsz hsc
  rw [e, ← hm] at ho
  rw [← hm] at w l
  subst ho
  obtain ⟨s1, s2, s3⟩ := C09_lookup_sorted _ _ w l
  obtain ⟨t1, t2⟩ := C09_scan_tables m (sortByKey (casSection 0 m.cas).chunkLookup) w
  exact ⟨s1, s2, s3, t1, t2, (C09_file_table m _ w).2, (C09_cas_table m _ w).2⟩

/-- **Dedup answers on the output are truthful** (C05 on the output): an answer of `chunk_hash_dedup_query` on the
    output of `set_operation`, for candidates drawn from its chunk table, names a merged block and is `Truthful` for it. -/
theorem C10_setop_dedup_truthful (P : HashPrims) (op : SetOp) (ma mb : Mem) (wa : ma.WF) (wb : mb.WF)
    (hs : SameFileSameSegments ma.files mb.files)
    (hsz : ma.fileRecs + mb.fileRecs < 4294967296) (hsc : ma.casRecs + mb.casRecs < 4294967296)
    (q : List Hash) (cands : List (Nat × Nat))
    (hc : ∀ cc ∈ cands, ∃ k, (k, cc.1, cc.2) ∈ sortByKey (casSection 0 (mergedMem op ma.files mb.files ma.cas mb.cas).cas).chunkLookup)
    (a : DedupAnswer)
    (h : dedupQuery P (setOp op ma.files mb.files ma.cas mb.cas).bytes (setOp op ma.files mb.files ma.cas mb.cas).footer q cands
      = .ok (some a)) :
    ∃ X ∈ (mergedMem op ma.files mb.files ma.cas mb.cas).cas, Truthful id X.chunks X.hash q a := by
  obtain ⟨w, e, l⟩ := C10_setop_wf op ma mb wa wb hs hsz hsc
  rw [e] at h
  exact C05_disk_wf P _ _ w l q cands hc a h

/-! ## (3) `set_operation` on serialized shards -/

/-- **`set_operation` on two shard files.**  For well-formed contents and any legal chunk tables of the inputs, the
    readers of `set_operation` (`load_from_reader`, the two section scans, with the fuel the model gives them) recover
    exactly the inputs' record lists, so the result is `setOp` of them. -/
theorem C10_setop_bytes (op : SetOp) (ma mb : Mem) (ta tb : List (Nat × Nat × Nat)) (wa : ma.WF) (wb : mb.WF)
    (hta : LegalChunkTable ma ta) (htb : LegalChunkTable mb tb) :
    setOpBytes op (serialize ma ta).bytes (serialize mb tb).bytes = .ok (setOp op ma.files mb.files ma.cas mb.cas) :=
  setOpBytes_serialize op ma mb ta tb wa wb hta htb

/-- closure: the union / difference of two serialized well-formed shards is again a serialized well-formed shard -/
theorem C10_setop_bytes_closed (op : SetOp) (ma mb : Mem) (ta tb : List (Nat × Nat × Nat)) (wa : ma.WF) (wb : mb.WF)
    (hta : LegalChunkTable ma ta) (htb : LegalChunkTable mb tb) (hs : SameFileSameSegments ma.files mb.files)
    (hsz : ma.fileRecs + mb.fileRecs < 4294967296) (hsc : ma.casRecs + mb.casRecs < 4294967296) :
    ∃ m t, m.WF ∧ LegalChunkTable m t ∧ m = mergedMem op ma.files mb.files ma.cas mb.cas ∧
      setOpBytes op (serialize ma ta).bytes (serialize mb tb).bytes = .ok (serialize m t) := by
  obtain ⟨w, e, l⟩ := C10_setop_wf op ma mb wa wb hs hsz hsc
  exact ⟨_, _, w, l, rfl, by rw [C10_setop_bytes op ma mb ta tb wa wb hta htb, e]; rfl⟩

/-! ## (4) relation to `MDBInMemoryShard::{union, difference}` -/

/-- **Difference: the same records.**  `set_operation(Difference)` and `MDBInMemoryShard::difference` keep exactly the
    same file and xorb lists. -/
theorem C10_refines_memory_difference (a b : MemShard) (wa : a.mem.WF) (wb : b.mem.WF) :
    mergedMem .difference a.mem.files b.mem.files a.mem.cas b.mem.cas = (a.difference b).mem :=
  mergedMem_difference a.mem b.mem wa wb

/-- **Union: same keys, same bits, same record when the flags are comparable in favour of the first operand.**
    For strictly increasing operands and every hash `h`:
    * on-disk union holds `unionFind (a[h]) (b[h])`, in-memory union holds `memUnionFind (a[h]) (b[h])` — both hold a
      record exactly when one of the operands does (same key set);
    * when both operands hold `h` (records `x`, `y`): the in-memory record is `merge_from`: `x` with the verification /
      metadata entries of `y` added where `x` lacks them — always `x`'s segments and `x`'s other flag bits; the on-disk
      record is `unionPick x y`.  Both have hash `x.hash` and the same verification / metadata bits (the OR); they are
      **equal** (`= x`) when `x`'s flag word equals or includes `y`'s.  When `y`'s strictly includes `x`'s the disk
      keeps `y` (its segments, its `_unused`, its other flag bits), memory keeps `x` extended; when incomparable the disk
      record has only the two known flag bits and `_unused = 0`, memory keeps `x`'s other bits;
    * xorbs: on equal hashes the disk keeps the **first** operand's block, memory the **second**'s (`insert` replaces). -/
theorem C10_refines_memory_union (a b : MemShard) (wa : a.mem.WF) (wb : b.mem.WF) (h : Hash) :
    findFile h (mergedMem .union a.mem.files b.mem.files a.mem.cas b.mem.cas).files
      = unionFind (findFile h a.mem.files) (findFile h b.mem.files) ∧
    findFile h (a.union b).mem.files = memUnionFind (findFile h a.mem.files) (findFile h b.mem.files) ∧
    ((findFile h (mergedMem .union a.mem.files b.mem.files a.mem.cas b.mem.cas).files).isSome
      = (findFile h (a.union b).mem.files).isSome) ∧
    findCas h (mergedMem .union a.mem.files b.mem.files a.mem.cas b.mem.cas).cas
      = unionFindCas (findCas h a.mem.cas) (findCas h b.mem.cas) ∧
    findCas h (a.union b).mem.cas = memUnionFindCas (findCas h a.mem.cas) (findCas h b.mem.cas) ∧
    ((findCas h (mergedMem .union a.mem.files b.mem.files a.mem.cas b.mem.cas).cas).isSome
      = (findCas h (a.union b).mem.cas).isSome) := by
  have h1 := findFile_union (a.mem.files.length + b.mem.files.length + 1) a.mem.files b.mem.files wa.1 wb.1 (by omega) h
  have h2 : findFile h (a.union b).mem.files = memUnionFind (findFile h a.mem.files) (findFile h b.mem.files) := by
    rw [MemShard.union_files]; exact findFile_foldl_memUnion h b.mem.files a.mem.files wb.1
  have h3 := findCas_union (a.mem.cas.length + b.mem.cas.length + 1) a.mem.cas b.mem.cas wa.2.1 wb.2.1 (by omega) h
  have h4 : findCas h (a.union b).mem.cas = memUnionFindCas (findCas h a.mem.cas) (findCas h b.mem.cas) := by
    rw [MemShard.union_cas]; exact findCas_foldl_insert h b.mem.cas a.mem.cas wb.2.1
  refine ⟨h1, h2, ?_, h3, h4, ?_⟩
  · show (findFile h (mergeFileLists _ _ _ _)).isSome = _
    rw [h1, h2]; cases findFile h a.mem.files <;> cases findFile h b.mem.files <;> rfl
  · show (findCas h (mergeCasLists _ _ _ _)).isSome = _
    rw [h3, h4]; cases findCas h a.mem.cas <;> cases findCas h b.mem.cas <;> rfl

/-- the two records kept for a file present in both operands, compared field by field -/
theorem C10_union_record_relation (x y : FileInfo) (hh : x.hash = y.hash) :
    (mergeFile x y).hash = (unionPick x y).hash ∧
    (mergeFile x y).hasVerif = (unionPick x y).hasVerif ∧ (mergeFile x y).hasMeta = (unionPick x y).hasMeta ∧
    (mergeFile x y).segs = x.segs ∧ (mergeFile x y).numEntries = x.numEntries ∧
    (compareFlagSuperset x.flags y.flags = .superA ∨ compareFlagSuperset x.flags y.flags = .equal →
      mergeFile x y = x ∧ unionPick x y = x) :=
  ⟨by rw [mergeFile_hash, unionPick_hash x y hh], by rw [(mergeFile_bits x y).1, (unionPick_bits x y).1],
   by rw [(mergeFile_bits x y).2, (unionPick_bits x y).2], (mergeFile_segs x y).1, (mergeFile_segs x y).2,
   mergeFile_eq_of_include⟩

/-- **Union: equal record lists** when (i) for every file in both operands the first operand's flag word equals or
    includes the second's, and (ii) blocks with equal xorb hash are equal (content addressing). -/
theorem C10_refines_memory_union_eq (a b : MemShard) (wa : a.mem.WF) (wb : b.mem.WF)
    (hflags : ∀ x ∈ a.mem.files, ∀ y ∈ b.mem.files, x.hash = y.hash →
      compareFlagSuperset x.flags y.flags = .superA ∨ compareFlagSuperset x.flags y.flags = .equal)
    (hcas : ∀ x ∈ a.mem.cas, ∀ y ∈ b.mem.cas, x.hash = y.hash → x = y) :
    mergedMem .union a.mem.files b.mem.files a.mem.cas b.mem.cas = (a.union b).mem := by
  have hf : (mergedMem .union a.mem.files b.mem.files a.mem.cas b.mem.cas).files = (a.union b).mem.files := by
    apply files_ext (mergeFileLists_union_sorted _ _ _ wa.1 wb.1)
      (by rw [MemShard.union_files]; exact foldl_memUnion_sorted _ _ wa.1)
    intro h
    obtain ⟨h1, h2, _⟩ := C10_refines_memory_union a b wa wb h
    refine h1.trans (Eq.trans ?_ h2.symm)
    cases hx : findFile h a.mem.files with
    | none => cases findFile h b.mem.files <;> rfl
    | some x =>
      cases hy : findFile h b.mem.files with
      | none => rfl
      | some y =>
        obtain ⟨mx, ex⟩ := findFile_some hx
        obtain ⟨my, ey⟩ := findFile_some hy
        obtain ⟨e1, e2⟩ := mergeFile_eq_of_include (hflags x mx y my (ex.trans ey.symm))
        show some (unionPick x y) = some (mergeFile x y)
        rw [e1, e2]
  have hc : (mergedMem .union a.mem.files b.mem.files a.mem.cas b.mem.cas).cas = (a.union b).mem.cas := by
    apply cas_ext (mergeCasLists_union_sorted _ _ _ wa.2.1 wb.2.1)
      (by rw [MemShard.union_cas]; exact foldl_insertCas_sorted _ _ wa.2.1)
    intro h
    obtain ⟨_, _, _, h3, h4, _⟩ := C10_refines_memory_union a b wa wb h
    refine h3.trans (Eq.trans ?_ h4.symm)
    cases hx : findCas h a.mem.cas with
    | none => cases findCas h b.mem.cas <;> rfl
    | some x =>
      cases hy : findCas h b.mem.cas with
      | none => rfl
      | some y =>
        obtain ⟨mx, ex⟩ := findCas_some hx
        obtain ⟨my, ey⟩ := findCas_some hy
        show some x = some y
        rw [hcas x mx y my (ex.trans ey.symm)]
  calc mergedMem .union a.mem.files b.mem.files a.mem.cas b.mem.cas
      = ⟨(mergedMem .union a.mem.files b.mem.files a.mem.cas b.mem.cas).files,
          (mergedMem .union a.mem.files b.mem.files a.mem.cas b.mem.cas).cas⟩ := rfl
    _ = ⟨(a.union b).mem.files, (a.union b).mem.cas⟩ := by rw [hf, hc]
    _ = (a.union b).mem := rfl

/-! ## (5) consolidation of a session directory -/

/-- **Grouping.**  `groupEnd target cur sizes 0` = number of followers merged with a head shard of `cur` bytes: the
    **maximal** prefix of the followers such that each running total (head included) stays strictly below the target;
    it may be 0 — the head itself always forms its group, whatever its size. -/
theorem C10_group_end (target cur : Nat) (sizes : List Nat) (idx : Nat) :
    groupEnd target cur sizes idx = idx + groupEnd target cur sizes 0 ∧
    groupEnd target cur sizes 0 ≤ sizes.length ∧
    (∀ j, j < groupEnd target cur sizes 0 → cur + (sizes.take (j + 1)).sum < target) ∧
    (groupEnd target cur sizes 0 < sizes.length → target ≤ cur + (sizes.take (groupEnd target cur sizes 0 + 1)).sum) :=
  ⟨groupEnd_idx target cur sizes idx, groupEnd_spec target cur sizes⟩

/-- **One group** (`unionChain`: the in-memory loop `cur := shard_set_union(cur, next)`).  For a head and followers
    that are valid shard files (`Holds`: bytes = `serialize` of a well-formed content with a legal chunk table), pairwise
    `SameFileSameSegments`, record counts together `< 2^32`: the chain succeeds, its result is a valid shard file whose
    content `M` is the left fold of `unionMem`; `M` holds a record covering every file record of every member (`Covers`:
    same hash, entry count and segments, and at least its verification / metadata bits) and a block for every xorb
    hash of every member; and `M` holds nothing else (`FileSrc`: segments / verification / metadata of each record come
    from member records of the same file; every block is a member's block). -/
theorem C10_union_chain (head : DirShard × Mem) (group : List (DirShard × Mem))
    (hd : ∀ p ∈ head :: group, Holds p.1 p.2) (hc : DirCompat ((head :: group).map (·.2)))
    (hsz : sumMap (fun p => p.2.fileRecs) (head :: group) < 4294967296)
    (hsc : sumMap (fun p => p.2.casRecs) (head :: group) < 4294967296) :
    ∃ t', unionChain head.1.bytes (group.map (·.1)) = .ok (serialize (chainMem head.2 (group.map (·.2))) t').bytes ∧
      (chainMem head.2 (group.map (·.2))).WF ∧ LegalChunkTable (chainMem head.2 (group.map (·.2))) t' ∧
      (∀ p ∈ head :: group, RecordsContained p.2 (chainMem head.2 (group.map (·.2)))) ∧
      (∀ x ∈ (chainMem head.2 (group.map (·.2))).files, FileSrc ((head :: group).map (·.2)) x) ∧
      (∀ x ∈ (chainMem head.2 (group.map (·.2))).cas, ∃ m ∈ (head :: group).map (·.2), x ∈ m.cas) := by
  obtain ⟨wh, th, hth, hb⟩ := hd head List.mem_cons_self
  simp only [sumMap_cons] at hsz hsc
  obtain ⟨t', l1, l2, l3, l4, l5⟩ := unionChain_spec _ hc group head.2 th (ChainInv.of_mem List.mem_cons_self wh) hth
    (fun q hq => ⟨List.mem_cons_of_mem _ (List.mem_map.mpr ⟨q, hq, rfl⟩), hd q (List.mem_cons_of_mem _ hq)⟩) hsz hsc
  refine ⟨t', by rw [hb]; exact l2, l3.wf, l1, fun p hp => ?_, l3.src, l3.cas⟩
  rcases List.mem_cons.mp hp with rfl | hp
  · exact l4
  · exact l5 p hp

/-- **Consolidation, round by round.**  For every directory of valid shard files (in the modification-time order the
    code sorted them into), pairwise `SameFileSameSegments`, record counts together `< 2^32`, every target size and every
    content-hash function: `consolidate_shards_in_directory` succeeds, and its run decomposes into rounds `steps`
    (`CStep`: the consecutive directory entries consumed, the shard returned with its content, the names deleted,
    whether the returned shard was written) such that
    * the rounds consume the directory in order, each entry exactly once; the returned list, the deletion list and the
      list of written files are the concatenations over the rounds;
    * every returned shard is a valid shard file; a round that writes nothing returns its single input untouched and
      deletes nothing; a written shard merges ≥ 2 inputs and **its name is the hash of its content**;
    * a round deletes only names of its own inputs, and the returned shard of the round **holds the records of every
      input of the round** (`RecordsContained`) and nothing that does not come from them (`FileSrc`);
    * the `finished_shard_hashes` guard (`GuardOK`): no round deletes a name that equals the name of a shard returned in
      that round or an earlier one (duplicates, empty shards, a merge that reproduces one of its inputs). -/
theorem C10_consolidate_records (P : HashPrims) (target : Nat) (dir : List (DirShard × Mem))
    (hd : ∀ p ∈ dir, Holds p.1 p.2) (hc : DirCompat (dir.map (·.2)))
    (hsz : sumMap (fun p => p.2.fileRecs) dir < 4294967296) (hsc : sumMap (fun p => p.2.casRecs) dir < 4294967296) :
    ∃ c steps, consolidate P target (dir.map (·.1)) = .ok c ∧
      dir = steps.flatMap (·.inputs) ∧
      c.finished = steps.map (·.shard) ∧ c.removed = steps.flatMap (·.removed) ∧
      c.written = (steps.filter (·.written)).map (·.shard) ∧
      (∀ st ∈ steps, Holds st.shard st.mem) ∧
      (∀ st ∈ steps, st.written = false → st.inputs = [(st.shard, st.mem)] ∧ st.removed = []) ∧
      (∀ st ∈ steps, st.written = true → st.shard.name = P.dataHash st.shard.bytes ∧ 2 ≤ st.inputs.length) ∧
      (∀ st ∈ steps, ∀ r ∈ st.removed, ∃ p ∈ st.inputs, p.1.name = r) ∧
      (∀ st ∈ steps, ∀ p ∈ st.inputs, RecordsContained p.2 st.mem) ∧
      (∀ st ∈ steps, (∀ x ∈ st.mem.files, FileSrc (st.inputs.map (·.2)) x) ∧
        (∀ x ∈ st.mem.cas, ∃ m ∈ st.inputs.map (·.2), x ∈ m.cas)) ∧
      GuardOK [] steps := by
  obtain ⟨c, steps, hrun, sp⟩ := consolidate_spec P target dir hd hc hsz hsc
  exact ⟨c, steps, hrun, sp.parts, by simpa using sp.finished, by simpa using sp.removed, by simpa using sp.written,
    sp.holds, sp.kept, sp.named, sp.removedIn, sp.covered, sp.src, sp.guard⟩

/-- **Consolidation, the directory afterwards.**  With distinct file names in the directory, for the result `c`:
    * **keys preserved**: a file hash / xorb hash is held by some directory entry iff it is held by some returned shard;
    * **nothing lost**: every directory entry's records are contained in a returned shard; and every entry either is
      not on the deletion list (it stays on disk) or its records are contained in a *written* returned shard —
      so the records of (entries not deleted) ∪ (written shards) cover the input directory;
    * **returned shards exist**: each returned shard is either a directory entry that is never deleted, or a written
      shard named by its content hash, and (`GuardOK`) not deleted in its own or any later round;
    * **deletions are safe**: every deleted name is the name of an entry whose records are contained in the shard
      written (and returned) by the same round. -/
theorem C10_consolidate_directory (P : HashPrims) (target : Nat) (dir : List (DirShard × Mem))
    (hd : ∀ p ∈ dir, Holds p.1 p.2) (hc : DirCompat (dir.map (·.2)))
    (hsz : sumMap (fun p => p.2.fileRecs) dir < 4294967296) (hsc : sumMap (fun p => p.2.casRecs) dir < 4294967296)
    (hn : (dir.map (·.1.name)).Nodup) :
    ∃ c steps, consolidate P target (dir.map (·.1)) = .ok c ∧ c.finished = steps.map (·.shard) ∧
      (∀ h, ((∃ p ∈ dir, (findFile h p.2.files).isSome = true) ↔ (∃ st ∈ steps, (findFile h st.mem.files).isSome = true)) ∧
            ((∃ p ∈ dir, (findCas h p.2.cas).isSome = true) ↔ (∃ st ∈ steps, (findCas h st.mem.cas).isSome = true))) ∧
      (∀ p ∈ dir, ∃ st ∈ steps, st.shard ∈ c.finished ∧ RecordsContained p.2 st.mem) ∧
      (∀ p ∈ dir, p.1.name ∉ c.removed ∨
        ∃ st ∈ steps, st.written = true ∧ st.shard ∈ c.written ∧ st.shard ∈ c.finished ∧ RecordsContained p.2 st.mem) ∧
      (∀ st ∈ steps, (st.written = false ∧ (st.shard, st.mem) ∈ dir ∧ st.shard.name ∉ c.removed) ∨
        (st.written = true ∧ st.shard ∈ c.written ∧ st.shard.name = P.dataHash st.shard.bytes)) ∧
      (∀ r ∈ c.removed, ∃ p ∈ dir, p.1.name = r ∧
        ∃ st ∈ steps, st.written = true ∧ st.shard ∈ c.finished ∧ p ∈ st.inputs ∧ RecordsContained p.2 st.mem) ∧
      GuardOK [] steps := by
  obtain ⟨c, steps, hrun, sp⟩ := consolidate_spec P target dir hd hc hsz hsc
  obtain ⟨k1, k2⟩ := sp.removed_merged hn
  have hfin : c.finished = steps.map (·.shard) := by simpa using sp.finished
  have hrem : c.removed = steps.flatMap (·.removed) := by simpa using sp.removed
  have hwr : c.written = (steps.filter (·.written)).map (·.shard) := by simpa using sp.written
  have inFin : ∀ st ∈ steps, st.shard ∈ c.finished := fun st hst => by rw [hfin]; exact List.mem_map.mpr ⟨st, hst, rfl⟩
  have inWr : ∀ st ∈ steps, st.written = true → st.shard ∈ c.written := fun st hst hw => by
    rw [hwr]; exact List.mem_map.mpr ⟨st, List.mem_filter.mpr ⟨hst, hw⟩, rfl⟩
  refine ⟨c, steps, hrun, hfin, sp.keys, fun p hp => ?_, fun p hp => ?_, fun st hst => ?_, fun r hr => ?_, sp.guard⟩
  · obtain ⟨st, hst, _, hcov⟩ := sp.input_covered p hp
    exact ⟨st, hst, inFin st hst, hcov⟩
  · by_cases hr : p.1.name ∈ c.removed
    · rw [hrem] at hr
      obtain ⟨st', hst', hr'⟩ := List.mem_flatMap.mp hr
      obtain ⟨hw, _, hcov⟩ := k2 p hp st' hst' hr'
      exact Or.inr ⟨st', hst', hw, inWr st' hst' hw, inFin st' hst', hcov⟩
    · exact Or.inl hr
  · cases hw : st.written with
    | false =>
      refine Or.inl ⟨rfl, ?_, ?_⟩
      · rw [sp.parts]
        exact List.mem_flatMap.mpr ⟨st, hst, by rw [(sp.kept st hst hw).1]; exact List.mem_cons_self⟩
      · rw [hrem]
        intro hr
        obtain ⟨st', hst', hr'⟩ := List.mem_flatMap.mp hr
        exact k1 st hst hw st' hst' hr'
    | true => exact Or.inr ⟨rfl, inWr st hst hw, (sp.named st hst hw).1⟩
  · rw [hrem] at hr
    obtain ⟨st', hst', hr'⟩ := List.mem_flatMap.mp hr
    obtain ⟨p, hp, hpn⟩ := sp.removedIn st' hst' r hr'
    have hpd : p ∈ dir := by rw [sp.parts]; exact List.mem_flatMap.mpr ⟨st', hst', hp⟩
    obtain ⟨hw, hin, hcov⟩ := k2 p hpd st' hst' (hpn ▸ hr')
    exact ⟨p, hpd, hpn, st', hst', hw, inFin st' hst', hin, hcov⟩

/-! ## non-vacuity -/

section Examples

attribute [local instance] decEqExcept

private def sg (h : Hash) (n a b : Nat) : Seg := ⟨h, 0, n, a, b⟩
private def hX : Hash := ⟨4, 0, 0, 0⟩
/-- first shard: a plain file, a file with verification only, a file with verification + metadata -/
private def fA1 : FileInfo := ⟨⟨1, 0, 0, 0⟩, 0, 1, 0, [sg hX 10 0 1], [], none⟩
private def fSV : FileInfo := ⟨⟨5, 0, 0, 0⟩, flagVerification, 2, 0, [sg hX 10 0 1, sg hX 20 1 2], [⟨1, 1, 1, 1⟩, ⟨2, 2, 2, 2⟩], none⟩
private def fUa : FileInfo := ⟨⟨7, 0, 0, 0⟩, flagVerification + flagMetadataExt, 1, 0, [sg hX 30 0 2], [⟨3, 3, 3, 3⟩], some ⟨4, 4, 4, 4⟩⟩
/-- second shard: the same two files with metadata only / verification only, and a file of its own -/
private def fSM : FileInfo := ⟨⟨5, 0, 0, 0⟩, flagMetadataExt, 2, 0, [sg hX 10 0 1, sg hX 20 1 2], [], some ⟨9, 9, 9, 9⟩⟩
private def fUb : FileInfo := ⟨⟨7, 0, 0, 0⟩, flagVerification, 1, 0, [sg hX 30 0 2], [⟨3, 3, 3, 3⟩], none⟩
private def fB9 : FileInfo := ⟨⟨9, 0, 0, 0⟩, 0, 0, 0, [], [], none⟩
private def cX : CasInfo := ⟨hX, 0, 2, 30, 25, [⟨⟨7, 1, 0, 0⟩, 10, 0, 0⟩, ⟨⟨7, 2, 0, 0⟩, 20, 10, 0⟩]⟩
private def cA : CasInfo := ⟨⟨2, 0, 0, 0⟩, 0, 1, 5, 5, [⟨⟨8, 1, 0, 0⟩, 5, 0, 0⟩]⟩
private def cB : CasInfo := ⟨⟨6, 0, 0, 0⟩, 0, 0, 0, 0, []⟩
private def exA : Mem := ⟨[fA1, fSV, fUa], [cA, cX]⟩
private def exB : Mem := ⟨[fSM, fUb, fB9], [cX, cB]⟩

instance (fa fb : List FileInfo) : Decidable (SameFileSameSegments fa fb) := by
  unfold SameFileSameSegments; infer_instance
deriving instance DecidableEq for Superset

example : exA.WF ∧ exB.WF ∧ SameFileSameSegments exA.files exB.files := by decide +kernel
/-- the three rows of the flag rule are all exercised: incomparable (`Merge`), first includes second, … -/
example : compareFlagSuperset fSV.flags fSM.flags = .neither ∧ compareFlagSuperset fUa.flags fUb.flags = .superA ∧
    compareFlagSuperset fUb.flags fUa.flags = .superB ∧ compareFlagSuperset fSV.flags fSV.flags = .equal := by decide +kernel
/-- the union: own files kept, `Merge` record with both bits for the shared file, richer variant for the other -/
example : (mergedMem .union exA.files exB.files exA.cas exB.cas).files = [fA1, mergeFiles fSV fSM, fUa, fB9] ∧
    (mergedMem .union exB.files exA.files exB.cas exA.cas).files = [fA1, mergeFiles fSM fSV, fUa, fB9] ∧
    (mergedMem .union exA.files exB.files exA.cas exB.cas).cas = [cA, cX, cB] := by decide +kernel
example : mergeFiles fSV fSM = ⟨⟨5, 0, 0, 0⟩, flagVerification + flagMetadataExt, 2, 0, fSV.segs, fSV.verif, fSM.metaExt⟩ := by
  decide +kernel
/-- the difference: records of the second input not in the first -/
example : (mergedMem .difference exA.files exB.files exA.cas exB.cas).files = [fB9] ∧
    (mergedMem .difference exA.files exB.files exA.cas exB.cas).cas = [cB] := by decide +kernel
/-- the merged record is retrievable from the bytes `set_operation` wrote, a hash in neither input is not found -/
example : getFile (setOp .union exA.files exB.files exA.cas exB.cas).bytes (setOp .union exA.files exB.files exA.cas exB.cas).footer
    ⟨5, 0, 0, 0⟩ = .ok (some (mergeFiles fSV fSM)) := by decide +kernel
example : getFile (setOp .union exA.files exB.files exA.cas exB.cas).bytes (setOp .union exA.files exB.files exA.cas exB.cas).footer
    ⟨5, 1, 0, 0⟩ = .ok none := by decide +kernel
/-- `set_operation` on the two shard files: readers + merge, same bytes as on the parsed level -/
example : (setOpBytes .union (serializeStable exA).bytes (serializeStable exB).bytes).map (·.bytes)
    = .ok (setOp .union exA.files exB.files exA.cas exB.cas).bytes := by decide +kernel

/-- **`verify_same_file` is needed**: the same file with metadata only / one segment in the first shard and verification
    only / two segments in the second takes the `Merge` branch; the rebuilt record claims one entry but carries two
    verification entries — not a well-formed record, and the output does not scan back. -/
private def gM : FileInfo := ⟨⟨5, 0, 0, 0⟩, flagMetadataExt, 1, 0, [sg hX 10 0 1], [], some ⟨9, 9, 9, 9⟩⟩
example : gM.WF ∧ fSV.WF ∧ gM.hash = fSV.hash ∧ compareFlagSuperset gM.flags fSV.flags = .neither ∧
    ¬ (mergeFiles gM fSV).WF := by decide +kernel
example : readAllFiles (setOp .union [gM] [fSV] [] []).bytes 10 headerSize [] ≠ .ok [mergeFiles gM fSV] := by decide +kernel

/-- in memory the second operand's richer record is *not* taken over: `merge_from` extends the first operand's record,
    `set_operation` copies the second's — equal here only because all other fields agree -/
example : unionPick fUb fUa = fUa ∧ mergeFile fUb fUa = fUa ∧
    mergeFile { fUb with unused := 3 } fUa ≠ unionPick { fUb with unused := 3 } fUa := by decide +kernel

/-- consolidation: content hash = (length, byte sum); three shard files; the first two fit under the target together,
    the third does not: one merged shard is written and named by its hash, the two inputs are deleted, the third
    is returned untouched -/
private def exP : HashPrims :=
  ⟨fun b => ⟨UInt64.ofNat b.length, UInt64.ofNat (b.foldl (fun a x => a + x.toNat) 0), 0, 0⟩,
   fun _ => Hash.zero, fun _ => Hash.zero, fun _ _ => Hash.zero⟩
private def exC : Mem := ⟨[fB9], [cB]⟩
private def exE : Mem := ⟨[], []⟩
private def shardOf (m : Mem) : DirShard := ⟨exP.dataHash (serializeStable m).bytes, (serializeStable m).bytes⟩

example : (serializeStable exA).bytes.length = 1220 ∧ (serializeStable exB).bytes.length = 1012 ∧
    (serializeStable exC).bytes.length = 464 := by decide +kernel
example : (consolidate exP 2500 [shardOf exA, shardOf exB, shardOf exC]).map
      (fun c => (c.finished.map (·.name), c.removed, c.written.map (·.name)))
    = .ok ([exP.dataHash (setOp .union exA.files exB.files exA.cas exB.cas).bytes, (shardOf exC).name],
           [(shardOf exA).name, (shardOf exB).name],
           [exP.dataHash (setOp .union exA.files exB.files exA.cas exB.cas).bytes]) := by decide +kernel
/-- the guard: merging a shard with an empty shard reproduces the first shard's bytes, hence its name; the file with
    that name is the returned shard and is **not** deleted — only the empty shard is -/
example : (consolidate exP 2500 [shardOf exA, shardOf exE]).map (fun c => (c.finished.map (·.name), c.removed))
    = .ok ([(shardOf exA).name], [(shardOf exE).name]) := by decide +kernel
/-- grouping: sizes 300, 200, 600 after a head of 400 with target 1000: two followers join (400+300+200 < 1000) -/
example : groupEnd 1000 400 [300, 200, 600] 0 = 2 ∧ groupEnd 1000 400 [600, 1] 0 = 0 ∧ groupEnd 1000 2000 [] 0 = 0 := by
  decide

end Examples

end Xet.Shard
