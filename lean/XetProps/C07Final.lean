/-
C07 — final statements with the BG4 hypothesis discharged by `Xet.Bg4.regroup_split`, plus the BG4
theorems themselves (every byte list, hence every length residue mod 4).
-/
import XetProps.C07
import XetProofs.Bg4

namespace Xet.Xorb

/-- chunk round trip (sync and async decoders, every scheme incl. the fallback), BG4 discharged -/
theorem C07_chunk_roundtrip_final (C : Codec) (hC : C.RoundTrip) (maxChunk : Nat) (hmax : maxChunk * 2 < 2 ^ 24)
    (sch : Scheme) (d rest : Bytes) (hd : d.length ≤ maxChunk) :
    deserializeChunkSync C maxChunk (serializeChunk C sch d ++ rest) = .ok ⟨d, (serializeChunk C sch d).length, rest⟩ ∧
    deserializeChunkAsync C maxChunk (serializeChunk C sch d ++ rest) = .ok ⟨d, (serializeChunk C sch d).length, rest⟩ :=
  C07_chunk_roundtrip C hC Bg4.regroup_split maxChunk hmax sch d rest hd

/-- the three chunk-stream decoders agree and return the chunks and the prefix-sum offsets -/
theorem C07_decoders_agree_final (C : Codec) (hC : C.RoundTrip) (maxChunk : Nat) (hmax : maxChunk * 2 < 2 ^ 24)
    (cs : List Bytes) (schemes : List Scheme) (hlen : schemes.length = cs.length) (hcs : ∀ c ∈ cs, c.length ≤ maxChunk) :
    let ser := ((cs.zip schemes).map fun p => serializeChunk C p.2 p.1).flatten
    deserializeChunks (deserializeChunkSync C maxChunk) ser = .ok ⟨cs.flatten, ser.length, 0 :: runningSums 0 (cs.map (·.length))⟩ ∧
    deserializeChunks (deserializeChunkAsync C maxChunk) ser = deserializeChunks (deserializeChunkSync C maxChunk) ser :=
  C07_decoders_agree C hC Bg4.regroup_split maxChunk hmax cs schemes hlen hcs

/-- whole-object round trip for the production `MAXIMUM_CHUNK_SIZE`, BG4 discharged -/
theorem C07_object_roundtrip_final (C : Codec) (hC : C.RoundTrip)
    (h : Hash) (cs : List Bytes) (hashes : List Hash) (schemes : List Scheme)
    (hne : 1 ≤ cs.length) (hhl : hashes.length = cs.length) (hsl : schemes.length = cs.length)
    (hcs : ∀ c ∈ cs, c.length ≤ Gen.merkledbMaximumChunkSize) (hh : h ≠ Hash.zero)
    (hsize : (serialize C h cs hashes schemes).bytes.length < 2 ^ 32)
    (hunp : (cs.map (·.length)).sum < 2 ^ 32) :
    let s := serialize C h cs hashes schemes
    deserialize s.bytes = .ok s.cas ∧
    getAllBytes C Gen.merkledbMaximumChunkSize s.cas s.bytes = .ok cs.flatten ∧
    (∀ i j, i < j → j ≤ cs.length →
      getBytesByChunkRange C Gen.merkledbMaximumChunkSize s.cas s.bytes i j = .ok ((cs.drop i).take (j - i)).flatten) := by
  intro s
  have r := C07_object_roundtrip C hC Bg4.regroup_split Gen.merkledbMaximumChunkSize C07_max_chunk_fits h cs hashes schemes
    hne hhl hsl hcs hh hsize hunp
  exact ⟨r.1, r.2.2.2.2.2.2.1, r.2.2.2.2.2.2.2.1⟩

end Xet.Xorb

namespace Xet.Bg4

/-- BG4: for every byte list regroup undoes split, split keeps the length and only permutes bytes. -/
theorem C07_bg4 (d : Bytes) : regroup (split d) = d ∧ (split d).length = d.length ∧ (split d).Perm d :=
  ⟨regroup_split d, split_length d, split_perm d⟩

theorem C07_bg4_sizes (d : Bytes) : (group d 0).length = size0 d.length ∧ (group d 1).length = size1 d.length ∧
    (group d 2).length = size2 d.length ∧ (group d 3).length = d.length / 4 := group_length d

theorem C07_bg4_inverse (g : Bytes) : split (regroup g) = g := split_regroup g

example : split [0,1,2,3,4,5,6,7,8,9,10] = [0,4,8,1,5,9,2,6,10,3,7] := by decide
example : regroup [0,4,8,1,5,9,2,6,10,3,7] = [0,1,2,3,4,5,6,7,8,9,10] := by decide

end Xet.Bg4
