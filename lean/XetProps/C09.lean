/-
C09 — Shard files answer every lookup exactly as the data they were built from.

  "A serialized shard returns, for every file hash and xorb it contains, exactly the stored record, returns
   not-found for everything else, and lists all its file and xorb records when scanned; its size and byte
   totals equal the in-memory accounting.  This holds at any table size and key distribution, with up to seven
   entries sharing a truncated prefix, with or without verification and metadata entries, and identically
   through the seekable, streaming and minimal readers."

Model: `XetModel/ShardFormat.lean` (`serialize` = `MDBShardInfo::serialize_from`, the seekable readers
`loadInfo`, `readAllFiles`, `readAllCas`, `readLookup`, `readChunkLookup`, `getFile`, and `MemShard` =
`MDBInMemoryShard`), helpers in `XetProofs/ShardFormat.lean`.

Every theorem is for **every** well-formed content `m : Mem` (`Mem.WF`, decidable: both maps strictly increasing
in the `DataHash` order as a `BTreeMap` iterates them, every field within its on-disk width, `num_entries` =
number of segments / chunks, verification entries one per segment exactly when the flag is set, metadata
extension exactly when its flag is set, no hash equal to the bookend marker, fewer than 2^32 records per
section) — any number of records, any key distribution — and for every chunk table the unstable sort may
produce (`LegalChunkTable`: any key-sorted permutation of the section-order rows).

The table search itself (`search_on_sorted_u64s`) is `XetProps/C09Search.lean`; `getFile` uses its
specification `searchSpec`, and `C09_lookup_sorted` supplies the sortedness hypothesis that file needs.
The streaming and minimal readers are XetModel/ShardStream.lean / XetProps/C09Readers.lean; (formerly:) no model functions in `XetModel/ShardFormat.lean`; their agreement with
the seekable reader is decided by the correspondence suite only and is not a theorem here.
-/
import XetProofs.ShardFormat

namespace Xet.Shard

/-! ## scans -/

/-- **Scans return the content.**  On `serialize m t`: `load_from_reader` returns the footer that was written;
    `read_all_file_info_sections` returns exactly `m.files` (order, verification entries, metadata extension,
    all fields); `read_all_cas_blocks_full` returns exactly `m.cas`; the chunk table read back is `t`, a
    permutation of the section-order rows.  Any fuel above the number of records suffices (the Rust loops run
    until the bookend). -/
theorem C09_scan (m : Mem) (t : List (Nat × Nat × Nat)) (w : m.WF) (ht : LegalChunkTable m t)
    (fuelF fuelC : Nat) (hF : m.files.length < fuelF) (hC : m.cas.length < fuelC) :
    loadInfo (serialize m t).bytes = .ok (serialize m t).footer ∧
    readAllFiles (serialize m t).bytes fuelF headerSize [] = .ok m.files ∧
    readAllCas (serialize m t).bytes fuelC (serialize m t).footer.casInfoOff [] = .ok m.cas ∧
    readChunkLookup (serialize m t).bytes (serialize m t).footer.chunkLookupNum (serialize m t).footer.chunkLookupOff []
      = .ok t ∧
    t.Perm (casSection 0 m.cas).chunkLookup := by
  have hlen : t.length < 4294967296 := by
    rw [legal_table_length m t ht]
    have := m.numChunks_le; have := w.2.2.2.2.2; omega
  exact ⟨loadInfo_serialize m t w hlen, readAllFiles_serialize m t w fuelF hF, readAllCas_serialize m t w fuelC hC,
    readChunkLookup_serialize m t (legal_table_bounds m t w ht), ht.1⟩

/-- the footer's section offsets are where the scans start (`file_info_offset` = end of the header) -/
theorem C09_scan_offsets (m : Mem) (t : List (Nat × Nat × Nat)) :
    (serialize m t).footer.fileInfoOff = headerSize ∧
    (serialize m t).bytes.length = (serialize m t).footer.footerOff + footerSize :=
  ⟨rfl, serialize_length m t⟩

/-- the file and CAS lookup tables read back are the section-order `(truncated hash, record index)` rows -/
theorem C09_scan_tables (m : Mem) (t : List (Nat × Nat × Nat)) (w : m.WF) :
    readLookup (serialize m t).bytes (serialize m t).footer.fileLookupNum (serialize m t).footer.fileLookupOff []
      = .ok (fileSection 0 m.files).lookup ∧
    readLookup (serialize m t).bytes (serialize m t).footer.casLookupNum (serialize m t).footer.casLookupOff []
      = .ok (casSection 0 m.cas).lookup :=
  ⟨readFileLookup_serialize m t w, readCasLookup_serialize m t w⟩

/-- the writer's own table (`sortByKey`, one admissible outcome of `sort_unstable_by_key`) is legal,
    so every theorem here applies to `serializeStable m`. -/
theorem C09_stable_table_legal (m : Mem) : LegalChunkTable m (sortByKey (casSection 0 m.cas).chunkLookup) :=
  serializeStable_legal m

/-! ## totals and size -/

/-- **Byte totals.**  The footer totals are the in-memory sums, and under `Mem.WF` each fits a `u64`
    (no wrap-around in the `u64` accumulations). -/
theorem C09_totals (m : Mem) (t : List (Nat × Nat × Nat)) :
    (serialize m t).footer.storedOnDisk = m.storedOnDisk ∧
    (serialize m t).footer.materialized = m.materialized ∧
    (serialize m t).footer.stored = m.stored :=
  ⟨rfl, rfl, rfl⟩

theorem C09_totals_fit (m : Mem) (w : m.WF) :
    m.storedOnDisk < 18446744073709551616 ∧ m.materialized < 18446744073709551616 ∧ m.stored < 18446744073709551616 :=
  ⟨w.storedOnDisk_lt, w.materialized_lt, w.stored_lt⟩

/-- **Size.**  The serialized length is the in-memory size formula whenever the chunk table has one row per chunk
    record (every legal table has). No well-formedness needed. -/
theorem C09_size (m : Mem) (t : List (Nat × Nat × Nat)) (ht : t.length = m.numChunks) :
    (serialize m t).bytes.length = m.shardFileSize :=
  serialize_length_eq m t ht

/-- **Accounting invariant** of `MDBInMemoryShard`: `current_shard_file_size = recalculate_shard_size()` and both maps
    stay strictly ordered, under `add_cas_block` and `add_file_reconstruction_info` with arbitrary arguments —
    including re-adding a key (the replaced entry's contribution is subtracted) and duplicate chunk hashes. -/
theorem C09_accounting_invariant (s : MemShard) (h : s.Inv) (c : CasInfo) (f : FileInfo) :
    (s.addCas c).Inv ∧ (s.addFile f).Inv ∧ MemShard.empty.Inv :=
  ⟨MemShard.addCas_inv s c h, MemShard.addFile_inv s f h, MemShard.empty_inv⟩

/-- **`shard_file_size()` is the size of the file that will be written**, for every shard built from the empty
    one by `add_cas_block` (any blocks) and `add_file_reconstruction_info` (file records as this client writes
    them), in any order and with replacements. -/
theorem C09_size_built (s : MemShard) (hs : s.Built) (t : List (Nat × Nat × Nat)) (ht : LegalChunkTable s.mem t) :
    s.shardFileSize = (serialize s.mem t).bytes.length := by
  rw [hs.shardFileSize_eq, C09_size s.mem t (legal_table_length s.mem t ht)]

/-! ## lookups -/

/-- **File lookup, every hash.**  For every well-formed `m`, every chunk table `t` and **every** hash `h`:
    if fewer than 8 stored files share the truncated prefix of `h`, `get_file_reconstruction_info` returns
    `findFile h m.files` — the stored record when `h` is stored, not-found otherwise (including hashes whose
    prefix collides with up to seven stored files); with 8 or more it returns the collision error. -/
theorem C09_file_lookup (m : Mem) (t : List (Nat × Nat × Nat)) (w : m.WF) (h : Hash) :
    getFile (serialize m t).bytes (serialize m t).footer h =
      if prefixCount h m.files < maxCollisions then .ok (findFile h m.files) else .error .collision :=
  getFile_serialize m t w h

/-- present ⇒ exactly the stored record (with verification / metadata entries as flagged) -/
theorem C09_file_lookup_present (m : Mem) (t : List (Nat × Nat × Nat)) (w : m.WF) (f : FileInfo) (hf : f ∈ m.files)
    (hp : prefixCount f.hash m.files < maxCollisions) :
    getFile (serialize m t).bytes (serialize m t).footer f.hash = .ok (some f) := by
  rw [C09_file_lookup m t w, if_pos hp, findFile_mem w.1 hf]

/-- absent ⇒ not-found, also when the truncated prefix collides with stored files -/
theorem C09_file_lookup_absent (m : Mem) (t : List (Nat × Nat × Nat)) (w : m.WF) (h : Hash)
    (hf : ∀ f ∈ m.files, f.hash ≠ h) (hp : prefixCount h m.files < maxCollisions) :
    getFile (serialize m t).bytes (serialize m t).footer h = .ok none := by
  rw [C09_file_lookup m t w, if_pos hp, findFile_none.mpr hf]

/-- whatever is returned is a stored record with the queried hash -/
theorem C09_file_lookup_sound (m : Mem) (t : List (Nat × Nat × Nat)) (w : m.WF) (h : Hash) (f : FileInfo)
    (hg : getFile (serialize m t).bytes (serialize m t).footer h = .ok (some f)) : f ∈ m.files ∧ f.hash = h := by
  rw [C09_file_lookup m t w] at hg
  split at hg
  · simp only [Except.ok.injEq] at hg; exact findFile_some hg
  · cases hg

/-- **File lookup is independent of the order in which the table search delivers its matches.**
    `search_on_sorted_u64s` returns the matching rows in an order that depends on its probe sequence
    (`C09_search`: a *permutation* of the matching rows when fewer than 8 match); for **every** permutation
    `cands` of the matching record indices, the full-hash comparison loop of `get_file_reconstruction_info`
    returns `findFile h m.files` (stored record / not-found), because stored hashes are pairwise distinct. -/
theorem C09_file_lookup_any_order (m : Mem) (t : List (Nat × Nat × Nat)) (w : m.WF) (h : Hash) (cands : List Nat)
    (hp : cands.Perm (((fileSection 0 m.files).lookup.filter (fun e => e.1 == trunc h)).map (·.2))) :
    fileFromCandidates (serialize m t).bytes (serialize m t).footer h cands = .ok (findFile h m.files) :=
  fileFromCandidates_serialize_perm m t w h cands hp

/-- every row of the file table is `(truncate(f.hash), record index)` of a stored file, `MDBFileInfo::deserialize`
    at `file_info_offset + 48·idx` returns exactly `f`, and every stored file has such a row. -/
theorem C09_file_table (m : Mem) (t : List (Nat × Nat × Nat)) (w : m.WF) :
    (∀ e ∈ (fileSection 0 m.files).lookup, ∃ f ∈ m.files, e.1 = trunc f.hash ∧ ∃ off',
        parseFileInfo (serialize m t).bytes ((serialize m t).footer.fileInfoOff + recSize * e.2) = .ok (some (f, off'))) ∧
    (∀ f ∈ m.files, ∃ e ∈ (fileSection 0 m.files).lookup, e.1 = trunc f.hash ∧ ∃ off',
        parseFileInfo (serialize m t).bytes ((serialize m t).footer.fileInfoOff + recSize * e.2) = .ok (some (f, off'))) := by
  have hAt : At (serialize m t).bytes ((serialize m t).footer.fileInfoOff + recSize * 0) (fileSection 0 m.files).bytes := by
    simpa [serialize] using (serialize_layout m t).files.left
  obtain ⟨h1, h2⟩ := fileSection_lookup_entry _ m.files 0 w.2.2.1 hAt
  constructor
  · intro e he
    obtain ⟨X, hX, g1, g2⟩ := h1 e he
    exact ⟨X, hX, g1, _, parseFileInfo_of_At g2 (w.2.2.1 X hX)⟩
  · intro X hX
    obtain ⟨e, he, g1, g2⟩ := h2 X hX
    exact ⟨e, he, g1, _, parseFileInfo_of_At g2 (w.2.2.1 X hX)⟩

/-- **CAS lookup table.**  Every row `(key, idx)` of the CAS table is `(truncate(X.hash), record index)` of a stored
    block `X`, `MDBCASInfo::deserialize` at `cas_info_offset + 48·idx` returns exactly `X`, and every stored block
    has such a row. -/
theorem C09_cas_table (m : Mem) (t : List (Nat × Nat × Nat)) (w : m.WF) :
    (∀ e ∈ (casSection 0 m.cas).lookup, ∃ X ∈ m.cas, e.1 = trunc X.hash ∧ ∃ off',
        parseCasInfo (serialize m t).bytes ((serialize m t).footer.casInfoOff + recSize * e.2) = .ok (some (X, off'))) ∧
    (∀ X ∈ m.cas, ∃ e ∈ (casSection 0 m.cas).lookup, e.1 = trunc X.hash ∧ ∃ off',
        parseCasInfo (serialize m t).bytes ((serialize m t).footer.casInfoOff + recSize * e.2) = .ok (some (X, off'))) := by
  have hAt : At (serialize m t).bytes ((serialize m t).footer.casInfoOff + recSize * 0) (casSection 0 m.cas).bytes := by
    simpa using (serialize_layout m t).cas.left
  obtain ⟨h1, h2⟩ := casSection_lookup_entry _ m.cas 0 hAt
  constructor
  · intro e he
    obtain ⟨X, hX, g1, g2⟩ := h1 e he
    exact ⟨X, hX, g1, _, parseCasInfo_of_At g2 (w.2.2.2.1 X hX)⟩
  · intro X hX
    obtain ⟨e, he, g1, g2⟩ := h2 X hX
    exact ⟨e, he, g1, _, parseCasInfo_of_At g2 (w.2.2.2.1 X hX)⟩

/-- **The lookup tables are sorted by key** (what the interpolation search requires): the file and CAS tables because
    the maps are iterated in `DataHash` order and the truncated hash is its most significant word; the chunk table
    because it is sorted explicitly.  `sortByKey` returns a key-sorted permutation of its input. -/
theorem C09_lookup_sorted (m : Mem) (t : List (Nat × Nat × Nat)) (w : m.WF) (ht : LegalChunkTable m t) :
    (fileSection 0 m.files).lookup.Pairwise (fun a b => a.1 ≤ b.1) ∧
    (casSection 0 m.cas).lookup.Pairwise (fun a b => a.1 ≤ b.1) ∧
    t.Pairwise (fun a b => a.1 ≤ b.1) :=
  ⟨fileSection_lookup_sorted 0 m.files w.1, casSection_lookup_sorted 0 m.cas w.2.1, (keySorted_iff t).mp ht.2⟩

theorem C09_sortByKey (l : List (Nat × Nat × Nat)) : keySorted (sortByKey l) = true ∧ (sortByKey l).Perm l :=
  ⟨sortByKey_sorted l, sortByKey_perm l⟩

/-- the hash order used by the maps is a strict total order (so "strictly increasing" means distinct keys) -/
theorem C09_hash_order (a b c : Hash) :
    hashLt a a = false ∧ (hashLt a b = true → hashLt b c = true → hashLt a c = true) ∧
    (hashLt a b = true ∨ a = b ∨ hashLt b a = true) :=
  ⟨hashLt_irrefl a, hashLt_trans, hashLt_trichotomy a b⟩

/-- shards built by the in-memory operations from well-formed records keep both maps strictly increasing,
    i.e. satisfy the ordering part of `Mem.WF` -/
theorem C09_built_sorted (s : MemShard) (hs : s.Built) :
    s.mem.files.Pairwise (fun a b => hashLt a.hash b.hash = true) ∧
    s.mem.cas.Pairwise (fun a b => hashLt a.hash b.hash = true) ∧ ∀ f ∈ s.mem.files, f.WF :=
  ⟨hs.inv.1.files, hs.inv.1.cas, hs.inv.2⟩

/-! ## record-level round trips (any surrounding bytes) -/

/-- `MDBFileInfo::deserialize ∘ serialize = id` at any offset of any byte string containing the record, for all four
    flag combinations and empty segment lists; the reader stops exactly at the record's end. -/
theorem C09_file_record_roundtrip (pre post : Bytes) (f : FileInfo) (w : f.WF) :
    parseFileInfo (pre ++ f.bytes ++ post) pre.length = .ok (some (f, pre.length + f.bytes.length)) :=
  parseFileInfo_of_At (At.mk pre f.bytes post) w

theorem C09_cas_record_roundtrip (pre post : Bytes) (c : CasInfo) (w : c.WF) :
    parseCasInfo (pre ++ c.bytes ++ post) pre.length = .ok (some (c, pre.length + c.bytes.length)) :=
  parseCasInfo_of_At (At.mk pre c.bytes post) w

theorem C09_bookend (pre post : Bytes) :
    parseFileInfo (pre ++ bookend ++ post) pre.length = .ok none ∧
    parseCasInfo (pre ++ bookend ++ post) pre.length = .ok none :=
  ⟨parseFileInfo_bookend (At.mk pre bookend post), parseCasInfo_bookend (At.mk pre bookend post)⟩

theorem C09_footer_roundtrip (pre post : Bytes) (ft : Footer) (w : ft.Fits) :
    parseFooter (pre ++ ft.bytes ++ post) pre.length = .ok ft :=
  parseFooter_of_At (At.mk pre ft.bytes post) w

/-! ## non-vacuity -/

section Examples

attribute [local instance] decEqExcept

private def seg (h : Hash) (n a b : Nat) : Seg := ⟨h, 0, n, a, b⟩
private def hX : Hash := ⟨11, 1, 2, 3⟩
/-- all four flag combinations; the first two and the last share the truncated prefix 5 -/
private def f00 : FileInfo := ⟨⟨5, 1, 0, 0⟩, 0, 2, 0, [seg hX 100 0 2, seg hX 50 2 3], [], none⟩
private def fV0 : FileInfo := ⟨⟨5, 2, 0, 0⟩, flagVerification, 1, 0, [seg hX 7 0 1], [⟨1, 1, 1, 1⟩], none⟩
private def f0M : FileInfo := ⟨⟨6, 0, 0, 0⟩, flagMetadataExt, 0, 0, [], [], some ⟨2, 2, 2, 2⟩⟩
private def fVM : FileInfo := ⟨⟨18446744073709551615, 0, 0, 0⟩, flagVerification + flagMetadataExt, 1, 0, [seg hX 9 1 2],
  [⟨3, 3, 3, 3⟩], some ⟨4, 4, 4, 4⟩⟩
private def cA : CasInfo := ⟨hX, 0, 3, 160, 120, [⟨⟨7, 1, 0, 0⟩, 100, 0, 0⟩, ⟨⟨7, 2, 0, 0⟩, 50, 100, 0⟩, ⟨⟨0, 0, 0, 1⟩, 10, 150, 0⟩]⟩
private def cB : CasInfo := ⟨⟨11, 1, 2, 4⟩, 0, 1, 5, 5, [⟨⟨7, 1, 0, 0⟩, 5, 0, 0⟩]⟩
private def cE : CasInfo := ⟨⟨12, 0, 0, 0⟩, 0, 0, 0, 0, []⟩
private def exMem : Mem := ⟨[f00, fV0, f0M, fVM], [cA, cB, cE]⟩

example : exMem.WF := by decide +kernel
example : LegalChunkTable exMem (sortByKey (casSection 0 exMem.cas).chunkLookup) := C09_stable_table_legal exMem
example : (serializeStable exMem).bytes.length = 1404 ∧ exMem.shardFileSize = 1404 := by decide +kernel
/-- the content is reachable through the in-memory operations, with a replacement on the way -/
example : (((((((MemShard.empty.addFile fVM).addCas cB).addFile f00).addCas cE).addFile fV0).addCas { cA with flags := 1 }).addCas cA
    |>.addFile f0M).mem.files = exMem.files := by decide +kernel
/-- prefix collision: `⟨5,3,0,0⟩` shares its truncated prefix with two stored files and is absent -/
example : prefixCount ⟨5, 3, 0, 0⟩ exMem.files = 2 ∧ findFile ⟨5, 3, 0, 0⟩ exMem.files = none := by decide +kernel
example : getFile (serializeStable exMem).bytes (serializeStable exMem).footer fV0.hash = .ok (some fV0) := by decide +kernel
example : getFile (serializeStable exMem).bytes (serializeStable exMem).footer ⟨5, 3, 0, 0⟩ = .ok none := by decide +kernel

/-- eight files sharing one truncated prefix: well-formed, and the lookup of any hash with that prefix is the
    collision error (second branch of `C09_file_lookup`) -/
private def ex8 : Mem := ⟨(List.range 8).map fun i => ⟨⟨9, UInt64.ofNat i, 0, 0⟩, 0, 0, 0, [], [], none⟩, []⟩
example : ex8.WF ∧ prefixCount ⟨9, 100, 0, 0⟩ ex8.files = 8 := by decide +kernel
example : getFile (serializeStable ex8).bytes (serializeStable ex8).footer ⟨9, 3, 0, 0⟩ = .error .collision := by
  decide +kernel

end Examples

end Xet.Shard
