/-
C06, last clause — "the hex and base64 text forms round-trip": the base64 form (`DataHash::base64` / `from_base64`,
`URL_SAFE_NO_PAD`).  The hex form is in `XetProps/C06.lean` (`C06_hex_roundtrip`, `C06_hex_injective`).

Model: `XetModel/HashText.lean` over the alphabet and strict padded decoder of `XetModel/Cache.lean`.
Tie to the code: operations `hash.b64` (encode) and `hash.fromb64` (decode of valid, truncated, padded, non-canonical and
foreign-alphabet texts) of suite `hashes`, answered by this model and compared with `DataHash::base64` / `from_base64`.
-/
import XetProofs.HashText

namespace Xet.Hash
open Xet.Cache (b64Pad)

/-- **Round trip**: parsing the base64 text of a hash gives the hash back, for every hash. -/
theorem C06_base64_roundtrip (h : Hash) : fromBase64 h.base64 = some h := by
  unfold fromBase64 base64
  rw [b64DecodeNoPad_encode]
  simp only
  rw [if_pos (Xet.Shard.toBytes_length h)]
  have := Xet.Shard.ofBytes_toBytes h []
  simpa using this

/-- the text has exactly 43 characters, none of them the padding character -/
theorem C06_base64_shape (h : Hash) : h.base64.length = 43 ∧ ∀ x ∈ h.base64, x ≠ b64Pad := by
  refine ⟨?_, b64EncodeNoPad_no_pad _⟩
  unfold base64
  rw [b64EncodeNoPad_len, Xet.Shard.toBytes_length]

/-- distinct hashes never print alike -/
theorem C06_base64_injective (a b : Hash) (h : a.base64 = b.base64) : a = b := by
  have ha := C06_base64_roundtrip a
  rw [h, C06_base64_roundtrip b] at ha
  exact (Option.some.inj ha).symm

/-- the unpadded codec round-trips for byte strings of every length (not only 32) -/
theorem C06_base64_bytes_roundtrip (bs : Bytes) : b64DecodeNoPad (b64EncodeNoPad bs) = some bs :=
  b64DecodeNoPad_encode bs

/-- **The text form is canonical**: whatever the unpadded decoder accepts is exactly the encoding of the bytes it returns — no
    second spelling (other alphabet, padding, non-zero trailing bits, extra characters) of the same bytes is accepted. -/
theorem C06_base64_canonical (s : List UInt8) (bs : Bytes) (h : b64DecodeNoPad s = some bs) : s = b64EncodeNoPad bs :=
  b64EncodeNoPad_decode h

/-- hence two texts that parse to a hash were decoded from the same 32 bytes only if they are the same text -/
theorem C06_base64_unique_text (s₁ s₂ : List UInt8) (bs : Bytes)
    (h₁ : b64DecodeNoPad s₁ = some bs) (h₂ : b64DecodeNoPad s₂ = some bs) : s₁ = s₂ :=
  (b64EncodeNoPad_decode h₁).trans (b64EncodeNoPad_decode h₂).symm

/-- **Canonical at the level of hashes**: a text that parses to `h` is `h.base64` — the parser accepts exactly one text per
    hash (with `C06_base64_roundtrip`: `fromBase64 s = some h ↔ s = h.base64`). -/
theorem C06_base64_parse_iff (s : List UInt8) (h : Hash) : fromBase64 s = some h ↔ s = h.base64 := by
  constructor
  · intro hp
    unfold fromBase64 at hp
    split at hp
    · rename_i b hb
      split at hp
      · rename_i hl
        injection hp with hp
        subst hp
        unfold base64
        rw [toBytes_ofBytes b hl]
        exact b64EncodeNoPad_decode hb
      · simp at hp
    · simp at hp
  · intro hs
    subst hs
    exact C06_base64_roundtrip h

/-- a text with a padding character anywhere is rejected (the padded form of the same hash included) -/
theorem C06_base64_rejects_padding (s : List UInt8) (h : b64Pad ∈ s) : fromBase64 s = none := by
  unfold fromBase64 b64DecodeNoPad
  simp [h]

/-- a text that decodes, but not to 32 bytes, is rejected: 42 characters of a valid text -/
example : fromBase64 ((base64 ⟨1, 2, 3, 4⟩).take 42) = none := by decide
example : fromBase64 (base64 ⟨1, 2, 3, 4⟩) = some ⟨1, 2, 3, 4⟩ := by decide
/-- non-canonical trailing bits are rejected: the last character of a 43-character text carries 4 payload bits -/
example : fromBase64 ((base64 ⟨1, 2, 3, 4⟩).take 42 ++ [66]) = none := by decide

end Xet.Hash
