/-
C11 (second sentence) — "re-uploading content that was first uploaded as new data transfers no new chunk bytes",
the client-side half: a session in which every chunk position the deduper consults is answered by a lookup, with runs the
fragmentation estimator does not reject, stores nothing.

Model: `XetModel/Dedup.lean` (`processLoop` = second loop of `FileDeduper::process_chunks`, `Sess.fileDone`, `Sess.finish`),
histories of `XetProofs/DedupResolveWorld.lean` (any number of files, interleaved calls, any partition into calls).

`coveredFrom minN` follows the loop: at every position the loop reaches, the `deduped_blocks` slot the first loop filled holds
an answer of at least `max 1 minN` chunks (slots inside an accepted run are skipped by the loop and may hold anything).
That the lookups do produce such answers for content recorded by an earlier session is the manager half
(`C11_lookup_complete`, `C11_flush_finds`) together with `C11_recorded`; that a found run may nevertheless be stored again is
exactly fragmentation prevention (`C11_defrag_short_run_rejected`, the recorded finding), which is why the theorem carries the
hypothesis on the decision procedure, and why the instance for the real estimator (`C11_repeat_free_real_estimator`) asks
for runs of at least `MIN_N_CHUNKS_PER_RANGE` chunks.
-/
import XetProps.C11
import XetModel.DedupFirstLoop

namespace Xet.Dedup

/-- what "nothing new was stored" means for one deduper -/
structure NoNew (fd fd' : FD) : Prop where
  newData : fd'.newData = fd.newData
  cut : fd'.cut = fd.cut
  newBytes : fd'.metrics.newBytes = fd.metrics.newBytes
  newChunks : fd'.metrics.newChunks = fd.metrics.newChunks
  preventedBytes : fd'.metrics.preventedBytes = fd.metrics.preventedBytes

theorem NoNew.rfl' (fd : FD) : NoNew fd fd := ⟨rfl, rfl, rfl, rfl, rfl⟩

theorem NoNew.trans {a b c : FD} (h1 : NoNew a b) (h2 : NoNew b c) : NoNew a c :=
  ⟨h2.newData.trans h1.newData, h2.cut.trans h1.cut, h2.newBytes.trans h1.newBytes, h2.newChunks.trans h1.newChunks,
   h2.preventedBytes.trans h1.preventedBytes⟩

theorem addEntry_noNew (fd : FD) (s : Shard.Seg) (n : Nat) : NoNew fd (addEntry fd s n) := by
  unfold addEntry
  split <;> exact ⟨rfl, rfl, rfl, rfl, rfl⟩

theorem addEntry_noNew' (fd fd1 : FD) (s : Shard.Seg) (n : Nat) (h : NoNew fd fd1) : NoNew fd (addEntry fd1 s n) :=
  h.trans (addEntry_noNew fd1 s n)

/-- the loop stores nothing when every consulted slot is answered and no consulted run is rejected -/
theorem processLoop_covered (P : HashPrims) (L : Limits) (allow : Defrag → Nat → Decision) (minN : Nat)
    (hallow : ∀ (d : Defrag) (n : Nat), minN ≤ n → (allow d n).allow = true)
    (fuel : Nat) (fd : FD) (chunks : List DChunk) (answers : Answers)
    (hc : coveredFrom minN fuel chunks answers = true) :
    NoNew fd (processLoop P L allow fuel fd chunks answers) := by
  induction fuel generalizing fd chunks answers with
  | zero => simp only [processLoop]; exact NoNew.rfl' fd
  | succ fuel ih =>
    cases chunks with
    | nil => simp only [processLoop]; exact NoNew.rfl' fd
    | cons c rest =>
      simp only [coveredFrom] at hc
      cases hst : (answers.head?).join with
      | none => simp [hst] at hc
      | some a =>
        obtain ⟨n, s⟩ := a
        simp only [hst, Bool.and_eq_true, decide_eq_true_eq] at hc
        obtain ⟨⟨_, hmin⟩, hrest⟩ := hc
        simp only [processLoop, hst]
        split
        · refine NoNew.trans ?_ (ih _ _ _ hrest)
          exact addEntry_noNew' _ _ s n ⟨rfl, rfl, rfl, rfl, rfl⟩
        · simp only [hallow fd.defrag n hmin, if_true]
          refine NoNew.trans ?_ (ih _ _ _ hrest)
          exact addEntry_noNew' _ _ s n ⟨rfl, rfl, rfl, rfl, rfl⟩

/-- one `process_chunks` call whose consulted slots are all answered -/
def CoveredCall (minN : Nat) (k : Call) : Prop := coveredFrom minN (k.chunks.length + 1) k.chunks k.answers = true

theorem processChunks_covered (P : HashPrims) (L : Limits) (allow : Defrag → Nat → Decision) (minN : Nat)
    (hallow : ∀ (d : Defrag) (n : Nat), minN ≤ n → (allow d n).allow = true) (fd : FD) (k : Call)
    (hk : CoveredCall minN k) : NoNew fd (processChunks P L allow fd k.chunks k.answers k.gc k.gb) := by
  have h := processLoop_covered P L allow minN hallow (k.chunks.length + 1)
    { fd with metrics := { fd.metrics with dedupedChunksGlobal := fd.metrics.dedupedChunksGlobal + k.gc,
                                           dedupedBytesGlobal := fd.metrics.dedupedBytesGlobal + k.gb } } k.chunks k.answers hk
  exact ⟨h.newData, h.cut, h.newBytes, h.newChunks, h.preventedBytes⟩

/-- a history all of whose calls are covered -/
def CoveredHistory (minN : Nat) (evs : List Ev) : Prop :=
  ∀ e ∈ evs, match e with
    | .call _ k => CoveredCall minN k
    | .done _ _ _ => True

/-- a deduper that has stored nothing so far -/
structure FDClean (fd : FD) : Prop where
  newData : fd.newData = []
  cut : fd.cut = []
  newBytes : fd.metrics.newBytes = 0
  newChunks : fd.metrics.newChunks = 0

/-- a session that has stored nothing so far -/
structure WorldClean (w : World) : Prop where
  files : ∀ f ∈ w.files, FDClean f.fd
  cur : w.sess.cur.chunks = []
  puts : w.sess.puts = []
  newBytes : w.sess.metrics.newBytes = 0
  newChunks : w.sess.metrics.newChunks = 0

theorem fdClean_init : FDClean FD.init := ⟨rfl, rfl, rfl, rfl⟩

theorem worldClean_init : WorldClean World.init :=
  ⟨by intro f hf; simp [World.init] at hf, rfl, rfl, rfl, rfl⟩

theorem worldClean_get {w : World} (h : WorldClean w) (id : Nat) : FDClean (w.get id).fd := by
  unfold World.get
  cases hf : w.files.find? (fun f => f.id == id) with
  | none => exact fdClean_init
  | some f => exact h.files f (List.mem_of_find?_eq_some hf)

theorem worldClean_step (P : HashPrims) (L : Limits) (allow : Defrag → Nat → Decision) (minN : Nat)
    (hallow : ∀ (d : Defrag) (n : Nat), minN ≤ n → (allow d n).allow = true) (w : World) (e : Ev)
    (hw : WorldClean w) (he : match e with | .call _ k => CoveredCall minN k | .done _ _ _ => True) :
    WorldClean (step P L allow w e) := by
  cases e with
  | call id k =>
    have hg := worldClean_get hw id
    have hn := processChunks_covered P L allow minN hallow (w.get id).fd k he
    have hcut : (processChunks P L allow (w.get id).fd k.chunks k.answers k.gc k.gb).cut = [] := by rw [hn.cut, hg.cut]
    have hsess : (step P L allow w (.call id k)).sess = w.sess := by
      simp only [step, hcut, List.drop_nil, registerAll, List.foldl_nil]
    refine ⟨?_, by rw [hsess]; exact hw.cur, by rw [hsess]; exact hw.puts, by rw [hsess]; exact hw.newBytes,
      by rw [hsess]; exact hw.newChunks⟩
    intro f hf
    simp only [step, List.mem_cons] at hf
    rcases hf with rfl | hf
    · exact ⟨by rw [hn.newData, hg.newData], hcut, by rw [hn.newBytes, hg.newBytes], by rw [hn.newChunks, hg.newChunks]⟩
    · exact hw.files f ((List.mem_filter.mp hf).1)
  | done id salt sha =>
    have hg := worldClean_get hw id
    have hfd : (step P L allow w (.done id salt sha)).sess =
        { w.sess with cur := w.sess.cur.mergeIn (finalize P (w.get id).fd salt sha).agg,
                      metrics := w.sess.metrics.add (w.get id).fd.metrics } := by
      simp [step, Sess.fileDone, finalize, hg.newData, hw.cur, dataSize]
    refine ⟨?_, ?_, ?_, ?_, ?_⟩
    · intro f hf
      simp only [step] at hf
      exact hw.files f ((List.mem_filter.mp hf).1)
    · rw [hfd]; simp [Agg.mergeIn, finalize, hw.cur, hg.newData]
    · rw [hfd]; exact hw.puts
    · rw [hfd]; simp [Metrics.add, hw.newBytes, hg.newBytes]
    · rw [hfd]; simp [Metrics.add, hw.newChunks, hg.newChunks]

theorem worldClean_run (P : HashPrims) (L : Limits) (allow : Defrag → Nat → Decision) (minN : Nat)
    (hallow : ∀ (d : Defrag) (n : Nat), minN ≤ n → (allow d n).allow = true) (w : World) (evs : List Ev)
    (hw : WorldClean w) (he : CoveredHistory minN evs) : WorldClean (run P L allow w evs) := by
  induction evs generalizing w with
  | nil => exact hw
  | cons e es ih =>
    simp only [run]
    exact ih _ (worldClean_step P L allow minN hallow w e hw (he e (by simp))) (fun e' he' => he e' (by simp [he']))

/-- **C11_repeat_free.**  For every hash-primitive record, limits, number of files, interleaving and partition into
    `process_chunks` calls: if every slot the deduper consults was answered by a lookup with a run of at least `max 1 minN`
    chunks, and the defrag decision procedure accepts every run of at least `minN` chunks, then the finalized session handed
    no xorb to the store and reports `new_bytes = 0`, `new_chunks = 0`. -/
theorem C11_repeat_free (P : HashPrims) (L : Limits) (allow : Defrag → Nat → Decision) (minN : Nat)
    (hallow : ∀ (d : Defrag) (n : Nat), minN ≤ n → (allow d n).allow = true) (evs : List Ev)
    (he : CoveredHistory minN evs) :
    (finished P L allow World.init evs).sess.puts = [] ∧
    (finished P L allow World.init evs).sess.metrics.newBytes = 0 ∧
    (finished P L allow World.init evs).sess.metrics.newChunks = 0 := by
  have hw := worldClean_run P L allow minN hallow World.init evs worldClean_init he
  simp only [finished, Sess.finish, Sess.processAgg, Agg.finalize, mkXorb, hw.cur, dataSize, List.map_nil, List.sum_nil,
    if_true]
  exact ⟨hw.puts, hw.newBytes, hw.newChunks⟩

/-- the instance for the estimator the code uses (`DefragPrevention::allow_dedup_on_next_range`): runs of at least
    `MIN_N_CHUNKS_PER_RANGE` = 8 chunks are never stored again, however fragmented the file was before. -/
theorem C11_repeat_free_real_estimator (P : HashPrims) (L : Limits) (evs : List Ev)
    (he : CoveredHistory Gen.minChunksPerRange evs) :
    (finished P L Defrag.allowNext World.init evs).sess.puts = [] ∧
    (finished P L Defrag.allowNext World.init evs).sess.metrics.newBytes = 0 ∧
    (finished P L Defrag.allowNext World.init evs).sess.metrics.newChunks = 0 :=
  C11_repeat_free P L Defrag.allowNext Gen.minChunksPerRange (fun d n h => C11_defrag_long_run_accepted d n h) evs he

/-- the instance for a procedure that never rejects (fragmentation prevention switched off): any answered runs -/
theorem C11_repeat_free_no_defrag (P : HashPrims) (L : Limits) (allow : Defrag → Nat → Decision)
    (hallow : ∀ (d : Defrag) (n : Nat), (allow d n).allow = true) (evs : List Ev) (he : CoveredHistory 0 evs) :
    (finished P L allow World.init evs).sess.puts = [] ∧
    (finished P L allow World.init evs).sess.metrics.newBytes = 0 :=
  let h := C11_repeat_free P L allow 0 (fun d n _ => hallow d n) evs he
  ⟨h.1, h.2.1⟩

/-- the covered hypothesis cannot be dropped to "every chunk is known to the store": one unanswered slot is stored again
    (here a single chunk with no answer becomes new data) -/
theorem C11_repeat_needs_answers :
    ∃ (P : HashPrims) (c : DChunk),
      (finished P ⟨1000, 10⟩ Defrag.allowNext World.init [.call 0 ⟨[c], [none], 0, 0⟩, .done 0 [] Hash.zero]).sess.metrics.newBytes = 3 :=
  ⟨⟨fun _ => Hash.zero, fun _ => Hash.zero, fun _ => Hash.zero, fun _ _ => Hash.zero⟩, ⟨Hash.zero, [1, 2, 3]⟩, by decide⟩

/-! ### the first loop of `process_chunks`: where the answers come from

`firstPass q` is one pass of the first loop over the `deduped_blocks` slots of a call: a slot that already holds an answer is
skipped together with the run it covers, otherwise the lookup interface is asked about the remaining hashes of the call
(`chunk_hash_dedup_query(&chunk_hashes[i..])`) and its answer is stored at the slot.  (`n = 0` answers do not occur —
truthful answers name at least the first chunk, C05 — and would keep the Rust loop from advancing; the model stops there.)
The operation `dedup.firstpass` of suite `deduper` compares the positions this function queries, and the slots it leaves,
with those of the real `FileDeduper` driven by a scripted interface. -/

theorem firstPass_query (q : List Hash → Option (Nat × Shard.Seg)) (fuel : Nat) (c : DChunk) (rest : List DChunk)
    (tl : Answers) (n : Nat) (s : Shard.Seg) (hq : q ((c :: rest).map (·.hash)) = some (n, s)) (hn : n ≠ 0) :
    firstPass q (fuel + 1) (c :: rest) (none :: tl) =
      some (n, s) :: tl.take (n - 1) ++ firstPass q fuel ((c :: rest).drop n) ((none :: tl).drop n) := by
  have hq' : q (c.hash :: rest.map (·.hash)) = some (n, s) := by simpa using hq
  simp [firstPass, hq', hn]

theorem coveredFrom_some (minN fuel : Nat) (c : DChunk) (rest : List DChunk) (n : Nat) (s : Shard.Seg) (tl : Answers) :
    coveredFrom minN (fuel + 1) (c :: rest) (some (n, s) :: tl) =
      (decide (1 ≤ n) && decide (minN ≤ n) && coveredFrom minN fuel ((c :: rest).drop n) ((some (n, s) :: tl).drop n)) := by
  simp [coveredFrom]

/-- If the lookup interface answers every query whose first hash is known (`K`) with a run of at least `max 1 minN` chunks
    that fits the query, then one pass over fresh slots of a call all of whose chunks are known leaves every slot the second
    loop consults answered. -/
theorem firstPass_covered (q : List Hash → Option (Nat × Shard.Seg)) (K : Hash → Prop) (minN : Nat)
    (hq : ∀ (h : Hash) (rest : List Hash), K h →
      ∃ n s, q (h :: rest) = some (n, s) ∧ 1 ≤ n ∧ minN ≤ n ∧ n ≤ rest.length + 1)
    (fuel : Nat) (chunks : List DChunk) (hk : ∀ c ∈ chunks, K c.hash) :
    coveredFrom minN fuel chunks (firstPass q fuel chunks (List.replicate chunks.length none)) = true := by
  induction fuel generalizing chunks with
  | zero => simp [coveredFrom]
  | succ fuel ih =>
    cases chunks with
    | nil => simp [coveredFrom]
    | cons c rest =>
      obtain ⟨n, s, hqs, h1, hmin, hle⟩ := hq c.hash (rest.map (·.hash)) (hk c (by simp))
      have hn0 : n ≠ 0 := by omega
      have hslots : (List.replicate (c :: rest).length (none : Option (Nat × Shard.Seg))) =
          none :: List.replicate rest.length none := by simp [List.replicate_succ]
      have hdrop : (none :: List.replicate rest.length (none : Option (Nat × Shard.Seg))).drop n =
          List.replicate ((c :: rest).drop n).length none := by
        obtain ⟨m, rfl⟩ : ∃ m, n = m + 1 := ⟨n - 1, by omega⟩
        simp [List.drop_replicate]
      have hrec := ih ((c :: rest).drop n) (fun x hx => hk x (List.mem_of_mem_drop hx))
      rw [hslots, firstPass_query q fuel c rest _ n s (by simpa using hqs) hn0, hdrop, List.cons_append, coveredFrom_some]
      simp only [decide_eq_true h1, decide_eq_true hmin, Bool.true_and]
      have hlen : ((List.replicate rest.length (none : Option (Nat × Shard.Seg))).take (n - 1)).length = n - 1 := by
        simp only [List.length_take, List.length_replicate, List.length_map] at hle ⊢; omega
      have : (some (n, s) :: ((List.replicate rest.length none).take (n - 1) ++
          firstPass q fuel ((c :: rest).drop n) (List.replicate ((c :: rest).drop n).length none))).drop n =
          firstPass q fuel ((c :: rest).drop n) (List.replicate ((c :: rest).drop n).length none) := by
        obtain ⟨m, rfl⟩ : ∃ m, n = m + 1 := ⟨n - 1, by omega⟩
        simp only [List.drop_succ_cons, Nat.add_sub_cancel] at hlen ⊢
        rw [List.drop_append_of_le_length (by omega), List.drop_of_length_le (by omega), List.nil_append]
      rw [this]
      exact hrec

/-- a pass over slots that are already covered changes nothing (the second pass of the first loop, run after a global-dedup
    shard arrived, re-asks only about slots that are still empty — and none of the consulted ones is) -/
theorem firstPass_id_of_covered (q : List Hash → Option (Nat × Shard.Seg)) (minN : Nat) (fuel : Nat)
    (chunks : List DChunk) (slots : Answers) (hc : coveredFrom minN fuel chunks slots = true) :
    firstPass q fuel chunks slots = slots := by
  induction fuel generalizing chunks slots with
  | zero => simp [firstPass]
  | succ fuel ih =>
    cases chunks with
    | nil => simp [firstPass]
    | cons c rest =>
      simp only [coveredFrom] at hc
      cases hst : (slots.head?).join with
      | none => simp [hst] at hc
      | some a =>
        obtain ⟨n, s⟩ := a
        simp only [hst, Bool.and_eq_true, decide_eq_true_eq] at hc
        obtain ⟨⟨h1, _⟩, hrest⟩ := hc
        have hn0 : n ≠ 0 := by omega
        simp only [firstPass, hst, hn0, if_false]
        rw [ih _ _ hrest, List.take_append_drop]

/-- two passes: covered after the first ⇒ covered (and unchanged) after the second, whatever the second lookup says -/
theorem firstPass_two_covered (q₁ q₂ : List Hash → Option (Nat × Shard.Seg)) (K : Hash → Prop) (minN : Nat)
    (hq : ∀ (h : Hash) (rest : List Hash), K h →
      ∃ n s, q₁ (h :: rest) = some (n, s) ∧ 1 ≤ n ∧ minN ≤ n ∧ n ≤ rest.length + 1)
    (fuel : Nat) (chunks : List DChunk) (hk : ∀ c ∈ chunks, K c.hash) :
    coveredFrom minN fuel chunks
      (firstPass q₂ fuel chunks (firstPass q₁ fuel chunks (List.replicate chunks.length none))) = true := by
  have h1 := firstPass_covered q₁ K minN hq fuel chunks hk
  rw [firstPass_id_of_covered q₂ minN fuel chunks _ h1]
  exact h1

/-- a history whose calls get their answers from one pass of the first loop over fresh slots -/
def LookupHistory (q : List Hash → Option (Nat × Shard.Seg)) (K : Hash → Prop) (evs : List Ev) : Prop :=
  ∀ e ∈ evs, match e with
    | .call _ k => k.answers = firstPass q (k.chunks.length + 1) k.chunks (List.replicate k.chunks.length none) ∧
        ∀ c ∈ k.chunks, K c.hash
    | .done _ _ _ => True

/-- **C11_repeat_free_lookup** — the composition at the interface the manager theorems speak about: if the session's lookup
    interface answers every query that starts with a known chunk (run of at least `max 1 minN` chunks, inside the query), every
    chunk fed to the session is known, and the defrag procedure accepts runs of at least `minN` chunks, then the finalized
    session hands no xorb to the store and reports `new_bytes = 0`. -/
theorem C11_repeat_free_lookup (P : HashPrims) (L : Limits) (allow : Defrag → Nat → Decision) (minN : Nat)
    (hallow : ∀ (d : Defrag) (n : Nat), minN ≤ n → (allow d n).allow = true)
    (q : List Hash → Option (Nat × Shard.Seg)) (K : Hash → Prop)
    (hq : ∀ (h : Hash) (rest : List Hash), K h →
      ∃ n s, q (h :: rest) = some (n, s) ∧ 1 ≤ n ∧ minN ≤ n ∧ n ≤ rest.length + 1)
    (evs : List Ev) (he : LookupHistory q K evs) :
    (finished P L allow World.init evs).sess.puts = [] ∧
    (finished P L allow World.init evs).sess.metrics.newBytes = 0 ∧
    (finished P L allow World.init evs).sess.metrics.newChunks = 0 := by
  apply C11_repeat_free P L allow minN hallow evs
  intro e hmem
  have h := he e hmem
  cases e with
  | call id k =>
    simp only at h ⊢
    unfold CoveredCall
    rw [h.1]
    exact firstPass_covered q K minN hq _ _ h.2
  | done _ _ _ => trivial

/-- a history whose calls get their answers from one pass, or from two passes (the second with another lookup function: new
    shards arrived through global dedup in between), of the first loop over fresh slots -/
def LookupHistory2 (q₁ q₂ : List Hash → Option (Nat × Shard.Seg)) (K : Hash → Prop) (evs : List Ev) : Prop :=
  ∀ e ∈ evs, match e with
    | .call _ k =>
      (k.answers = firstPass q₁ (k.chunks.length + 1) k.chunks (List.replicate k.chunks.length none) ∨
       k.answers = firstPass q₂ (k.chunks.length + 1) k.chunks
          (firstPass q₁ (k.chunks.length + 1) k.chunks (List.replicate k.chunks.length none))) ∧
        ∀ c ∈ k.chunks, K c.hash
    | .done _ _ _ => True

/-- `C11_repeat_free_lookup` for calls with one or two passes of the first loop -/
theorem C11_repeat_free_lookup_two_pass (P : HashPrims) (L : Limits) (allow : Defrag → Nat → Decision) (minN : Nat)
    (hallow : ∀ (d : Defrag) (n : Nat), minN ≤ n → (allow d n).allow = true)
    (q₁ q₂ : List Hash → Option (Nat × Shard.Seg)) (K : Hash → Prop)
    (hq : ∀ (h : Hash) (rest : List Hash), K h →
      ∃ n s, q₁ (h :: rest) = some (n, s) ∧ 1 ≤ n ∧ minN ≤ n ∧ n ≤ rest.length + 1)
    (evs : List Ev) (he : LookupHistory2 q₁ q₂ K evs) :
    (finished P L allow World.init evs).sess.puts = [] ∧
    (finished P L allow World.init evs).sess.metrics.newBytes = 0 ∧
    (finished P L allow World.init evs).sess.metrics.newChunks = 0 := by
  apply C11_repeat_free P L allow minN hallow evs
  intro e hmem
  have h := he e hmem
  cases e with
  | call id k =>
    simp only at h ⊢
    unfold CoveredCall
    rcases h.1 with h1 | h2
    · rw [h1]; exact firstPass_covered q₁ K minN hq _ _ h.2
    · rw [h2]; exact firstPass_two_covered q₁ q₂ K minN hq _ _ h.2
  | done _ _ _ => trivial

/-! ### non-vacuity: a covered history exists, and the session it describes is not empty -/

private def exC : DChunk := ⟨Hash.zero, [1, 2, 3]⟩
private def exHist : List Ev :=
  [.call 0 ⟨List.replicate 8 exC, some (8, ⟨⟨1, 2, 3, 4⟩, 0, 24, 0, 8⟩) :: List.replicate 7 none, 0, 0⟩,
   .call 1 ⟨List.replicate 9 exC, some (9, ⟨⟨1, 2, 3, 4⟩, 0, 27, 0, 9⟩) :: List.replicate 8 none, 0, 0⟩,
   .done 0 [] Hash.zero, .done 1 [] Hash.zero]

example : CoveredHistory Gen.minChunksPerRange exHist := by
  intro e he
  simp only [exHist, List.mem_cons, List.not_mem_nil, or_false] at he
  rcases he with rfl | rfl | rfl | rfl <;> first | trivial | (simp only [CoveredCall]; decide)

example : (finished ⟨fun _ => Hash.zero, fun _ => Hash.zero, fun _ => Hash.zero, fun _ _ => Hash.zero⟩ ⟨1000, 10⟩
    Defrag.allowNext World.init exHist).sess.metrics.totalBytes = 51 := by decide

/-- the hypothesis of `C11_repeat_free_lookup` on the lookup interface is satisfiable: an interface that answers every query
    in full (as a store holding the whole content in one xorb does) meets it for every `minN ≤ 1` -/
example : ∀ (h : Hash) (rest : List Hash), True →
    ∃ n s, (fun hs : List Hash => some (hs.length, (⟨⟨1, 2, 3, 4⟩, 0, 0, 0, hs.length⟩ : Shard.Seg))) (h :: rest) = some (n, s) ∧
      1 ≤ n ∧ 1 ≤ n ∧ n ≤ rest.length + 1 :=
  fun h rest _ => ⟨rest.length + 1, _, rfl, by omega, by omega, by omega⟩

/-- and `firstPass` with that interface over a three-chunk call leaves the answer at slot 0 -/
example : firstPass (fun hs => some (hs.length, ⟨⟨1, 2, 3, 4⟩, 0, 0, 0, hs.length⟩)) 4 (List.replicate 3 exC) (List.replicate 3 none)
    = [some (3, ⟨⟨1, 2, 3, 4⟩, 0, 0, 0, 3⟩), none, none] := by decide

end Xet.Dedup
