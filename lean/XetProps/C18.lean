/-
C18 — Keyed shards protect chunk hashes, keep dedup working, and expire.

  "Re-exporting a shard under an HMAC key replaces every chunk hash in the chunk lists and the chunk lookup table
   by its keyed form (xorb and file hashes are kept), yet dedup lookups with unkeyed hashes through the shard
   manager return the same answers as the original, with or without the optional lookup tables, and file records
   are kept or dropped as requested.  A shard past its expiry is not loaded, and is deleted only after the
   additional grace period."

Model: `XetModel/ShardFormat.lean` (`exportKeyed` = `export_as_keyed_shard_impl`, `keyedHash` = `keyed_chunk_hash`,
`isLoaded` / `isDeleted` = the filters of `MDBShardFile::load_all` / `clean_expired_shards`, and the readers and
dedup queries of C09 / C05).  Helpers: `XetProofs/ShardExport.lean` (closed form `exportSpec`, `keyedCas`,
`Parts.layout`, `CasShard`, `directSpec`).

* `C18_expiry…`   for **all** `now`, `expiry`, `buffer` (the saturation theorems assume the values fit a `u64`,
                  i.e. `≤ u64Max`): when a shard is loaded, when it is deleted, and the exact relation of the two.
* `C18_export…`   for **every** well-formed content `m` (`Mem.WF`), every chunk table `t` of the source file (not
                  even legality is needed: the export never reads the source's tables), every key, every clock
                  value `now`, every validity `validFor` and all eight flag combinations `f c k`: the export
                  succeeds and its output is the closed form `exportSpec`; parsed back (for `now < 2^64`, so that
                  the creation time fits the footer) it yields the kept or dropped files, the keyed blocks, and
                  exactly the requested tables.  `C18_no_raw_hash`: every chunk hash in the output is a keyed
                  form of a source chunk hash (no assumption on the abstract hash primitives).
* `C18_dedup…`    shard level (`chunk_hash_dedup_query` on the exported file with its chunk table, unkeyed query
                  hashes, candidates by the table-search specification): same result as on the source shard,
                  under `NoTruncCollision`, `NoDuplicateChunk`, `KeyedInjOn`; without them both answers are
                  truthful (`C18_dedup_truthful`).  The shard-manager layer (several shards, keyed collections,
                  rebuilding a dropped chunk table by scanning) is **not** part of this file.
-/
import XetProofs.ShardExport

namespace Xet.Shard

/-! ## expiry -/

/-- **Loaded / deleted, for all inputs.**  `load_all` keeps a shard iff `now ≤ expiry`; `clean_expired_shards`
    deletes it iff `expiry.saturating_add(buffer) ≤ now`. -/
theorem C18_expiry (now buf e : Nat) :
    (isLoaded now e = true ↔ now ≤ e) ∧ (isDeleted now buf e = true ↔ satAdd64 e buf ≤ now) := by
  simp [isLoaded, isDeleted]

/-- **A shard past its expiry is not loaded**: not loaded exactly when `expiry < now`. -/
theorem C18_expiry_not_loaded (now e : Nat) : isLoaded now e = false ↔ e < now := by
  simp [isLoaded]

/-- **Deleted, without the saturating add** — for every `now` that fits a `u64`: the shard is deleted iff the grace
    period is over (`expiry + buffer ≤ now`), or the sum overflows a `u64` and the clock is at `u64::MAX`. -/
theorem C18_expiry_deleted_iff (now buf e : Nat) (hn : now ≤ u64Max) :
    isDeleted now buf e = true ↔ (e + buf ≤ now ∨ (u64Max < e + buf ∧ now = u64Max)) := by
  rcases satAdd64_cases e buf with ⟨h1, h2⟩ | ⟨h1, h2⟩ <;>
    simp only [isDeleted, h2, u64Max, decide_eq_true_eq] at * <;> omega

/-- **Deleted only after the grace period**: a deleted shard has `min (expiry + buffer) u64::MAX ≤ now`; in
    particular `expiry ≤ now`, and `expiry + buffer ≤ now` whenever that sum fits a `u64`. -/
theorem C18_expiry_grace (now buf e : Nat) (he : e ≤ u64Max) (h : isDeleted now buf e = true) :
    min (e + buf) u64Max ≤ now ∧ e ≤ now ∧ (e + buf ≤ u64Max → e + buf ≤ now) := by
  show satAdd64 e buf ≤ now ∧ _
  rcases satAdd64_cases e buf with ⟨h1, h2⟩ | ⟨h1, h2⟩ <;>
    simp only [isDeleted, h2, u64Max, decide_eq_true_eq] at * <;> omega

/-- conversely, once the grace period is over the shard is deleted (all inputs) -/
theorem C18_expiry_deleted_of_grace (now buf e : Nat) (h : e + buf ≤ now) : isDeleted now buf e = true := by
  rcases satAdd64_cases e buf with ⟨h1, h2⟩ | ⟨h1, h2⟩ <;>
    simp only [isDeleted, h2, u64Max, decide_eq_true_eq] at * <;> omega

/-- **Exact relation between "deleted" and "loaded"** for all `u64` values: a shard is both deleted and still
    loaded exactly when the clock equals the expiry and either there is no grace period (`buffer = 0`) or the
    expiry is `u64::MAX` (the saturating add then returns the expiry itself, whatever the buffer).  So DESIGN's
    "`deleted → ¬ loaded`" holds exactly outside these two boundary cases. -/
theorem C18_expiry_deleted_and_loaded_iff (now buf e : Nat) (he : e ≤ u64Max) :
    (isDeleted now buf e = true ∧ isLoaded now e = true) ↔ (now = e ∧ (buf = 0 ∨ e = u64Max)) := by
  rcases satAdd64_cases e buf with ⟨h1, h2⟩ | ⟨h1, h2⟩ <;>
    simp only [isDeleted, isLoaded, h2, u64Max, decide_eq_true_eq] at * <;> omega

/-- with a positive grace period and an expiry below `u64::MAX`, a deleted shard is never a loaded one -/
theorem C18_expiry_deleted_not_loaded (now buf e : Nat) (hb : 0 < buf) (he : e < u64Max)
    (h : isDeleted now buf e = true) : isLoaded now e = false := by
  rcases satAdd64_cases e buf with ⟨h1, h2⟩ | ⟨h1, h2⟩ <;>
    simp only [isDeleted, isLoaded, h2, u64Max, decide_eq_true_eq, decide_eq_false_iff_not] at * <;> omega

/-- a shard that never expires (`expiry = u64::MAX`, what unkeyed local shards carry) is always loaded, and is
    deleted only when the clock itself is at `u64::MAX` -/
theorem C18_expiry_never (now buf : Nat) (hn : now ≤ u64Max) :
    isLoaded now u64Max = true ∧ (isDeleted now buf u64Max = true ↔ now = u64Max) := by
  refine ⟨by simp [isLoaded, hn], ?_⟩
  rw [C18_expiry_deleted_iff now buf u64Max hn]
  simp only [u64Max] at *
  omega

/-! ## the export -/

/-- **The export computes the closed form.**  For every well-formed content `m`, every chunk table `t` the source
    file may carry, every key, clock value, validity and all eight flag combinations, `export_as_keyed_shard_impl`
    on `serialize m t` succeeds and returns `exportSpec` — in particular the fuel `len / 48 + 1` of both section
    walks suffices, and the result does not depend on `t`. -/
theorem C18_export (P : HashPrims) (m : Mem) (t : List (Nat × Nat × Nat)) (w : m.WF) (key : Hash)
    (now validFor : Nat) (f c k : Bool) :
    exportKeyed P (serialize m t).bytes key now validFor f c k = .ok (exportSpec P m key now validFor f c k) :=
  exportKeyed_serialize P m t w key now validFor f c k

/-- **The closed form, spelled out** (same layout as `serialize`): header; the file section of `m.files` if `f`,
    empty otherwise; bookend; the CAS section of `m.cas` with every chunk hash replaced by its keyed form; bookend;
    the file table iff `f`; the CAS table (unchanged: xorb hashes are kept) iff `c`; the chunk table over the
    keyed hashes, sorted, iff `k`; the footer. -/
theorem C18_export_bytes (P : HashPrims) (m : Mem) (key : Hash) (now validFor : Nat) (f c k : Bool) :
    (exportSpec P m key now validFor f c k).bytes =
      headerBytes ++ (fileSection 0 (if f then m.files else [])).bytes ++ bookend
        ++ (casSection 0 (keyedCas P key m.cas)).bytes ++ bookend
        ++ lookupBytes (if f then (fileSection 0 m.files).lookup else [])
        ++ lookupBytes (if c then (casSection 0 m.cas).lookup else [])
        ++ chunkLookupBytes (if k then sortByKey (casSection 0 (keyedCas P key m.cas)).chunkLookup else [])
        ++ (exportSpec P m key now validFor f c k).footer.bytes := by
  cases f <;> simp [exportSpec, exportParts, Parts.body, exportFilesOf, fileSection]

/-- **The footer of the export**: the key, creation = `now`, expiry = `now + validFor` saturated at `u64::MAX`;
    the stored-bytes totals of the source, materialized bytes of the source iff the files are kept; table counts
    are the numbers of files / blocks / chunks when the table is written and 0 when it is dropped; the file
    section starts right after the header and the footer ends the file. -/
theorem C18_export_footer (P : HashPrims) (m : Mem) (key : Hash) (now validFor : Nat) (f c k : Bool) :
    let e := exportSpec P m key now validFor f c k
    e.footer.version = footerVersion ∧ e.footer.hmacKey = key ∧ e.footer.creation = now ∧
    e.footer.expiry = min (now + validFor) u64Max ∧
    e.footer.storedOnDisk = m.storedOnDisk ∧ e.footer.stored = m.stored ∧
    e.footer.materialized = (if f then m.materialized else 0) ∧
    e.footer.fileLookupNum = (if f then m.files.length else 0) ∧
    e.footer.casLookupNum = (if c then m.cas.length else 0) ∧
    e.footer.chunkLookupNum = (if k then m.numChunks else 0) ∧
    e.footer.fileInfoOff = headerSize ∧ e.bytes.length = e.footer.footerOff + footerSize := by
  refine ⟨rfl, rfl, rfl, rfl, rfl, rfl, rfl, ?_, ?_, ?_, rfl, exportSpec_length P m key now validFor f c k⟩
  · cases f <;> simp [exportSpec, exportFooter, exportParts, exportFilesOf, fileSection, fileSection_lookup_length]
  · cases c <;> simp [exportSpec, exportFooter, exportParts, casSection_lookup_length]
  · cases k
    · simp [exportSpec, exportFooter, exportParts]
    · simp only [exportSpec, exportFooter, exportParts, if_true, (sortByKey_perm _).length_eq,
        casSection_chunkLookup_length, Mem.numChunks]
      exact sumMap_keyedCas P key _ (by intro c; simp) _

/-- **The export parsed back.**  With `now < 2^64`: `load_from_reader` returns the footer above;
    `read_all_file_info_sections` returns `m.files` if `f` and nothing otherwise; `read_all_cas_blocks_full`
    returns the keyed blocks; the file table, CAS table and chunk table read back are the written ones, empty when
    dropped (any fuel above the number of records). -/
theorem C18_export_parsed (P : HashPrims) (m : Mem) (key : Hash) (now validFor : Nat) (f c k : Bool) (w : m.WF)
    (hnow : now < 18446744073709551616) (fuelF fuelC : Nat) (hF : m.files.length < fuelF) (hC : m.cas.length < fuelC) :
    let e := exportSpec P m key now validFor f c k
    loadInfo e.bytes = .ok e.footer ∧
    readAllFiles e.bytes fuelF e.footer.fileInfoOff [] = .ok (if f then m.files else []) ∧
    readAllCas e.bytes fuelC e.footer.casInfoOff [] = .ok (keyedCas P key m.cas) ∧
    readLookup e.bytes e.footer.fileLookupNum e.footer.fileLookupOff [] = .ok (if f then (fileSection 0 m.files).lookup else []) ∧
    readLookup e.bytes e.footer.casLookupNum e.footer.casLookupOff [] = .ok (if c then (casSection 0 m.cas).lookup else []) ∧
    readChunkLookup e.bytes e.footer.chunkLookupNum e.footer.chunkLookupOff []
      = .ok (if k then sortByKey (casSection 0 (keyedCas P key m.cas)).chunkLookup else []) := by
  have hF' : (exportFilesOf m f).length < fuelF := Nat.lt_of_le_of_lt (exportFilesOf_length m f) hF
  have e1 : exportFilesOf m f = if f then m.files else [] := rfl
  have e2 : (fileSection 0 (exportFilesOf m f)).lookup = if f then (fileSection 0 m.files).lookup else [] := by
    cases f <;> simp [exportFilesOf, fileSection]
  refine ⟨loadInfo_exportSpec P m key now validFor f c k w hnow, ?_, readAllCas_exportSpec P m key now validFor f c k w fuelC hC,
    ?_, readCasLookup_exportSpec P m key now validFor f c k w, readChunkLookup_exportSpec P m key now validFor f c k w⟩
  · rw [← e1]; exact readAllFiles_exportSpec P m key now validFor f c k w fuelF hF'
  · rw [← e2]; exact readFileLookup_exportSpec P m key now validFor f c k w

/-- **What keying changes in a block, and what it keeps**: the xorb hash, flags, entry count and byte totals are
    kept; the chunk list has the same length, each chunk keeps its length and byte range, and its hash becomes the
    keyed form of the original one. -/
theorem C18_keyed_block (P : HashPrims) (key : Hash) (X : CasInfo) :
    (keyCas P key X).hash = X.hash ∧ (keyCas P key X).flags = X.flags ∧ (keyCas P key X).numEntries = X.numEntries ∧
    (keyCas P key X).bytesInCas = X.bytesInCas ∧ (keyCas P key X).bytesOnDisk = X.bytesOnDisk ∧
    (keyCas P key X).chunks.length = X.chunks.length ∧
    (keyCas P key X).chunks.map (·.hash) = X.chunks.map (fun ch => keyedHash P key ch.hash) ∧
    (keyCas P key X).chunks.map (·.bytes) = X.chunks.map (·.bytes) ∧
    (keyCas P key X).chunks.map (·.rangeStart) = X.chunks.map (·.rangeStart) := by
  refine ⟨rfl, rfl, rfl, rfl, rfl, by simp, ?_, ?_, ?_⟩ <;> simp [keyCas, Function.comp_def]

/-- **The exported content is a well-formed shard content again** (`keyedCas` is `map keyCas`, files kept or dropped):
    still strictly increasing in the xorb / file hash order (those hashes are unchanged), every record within its
    field widths — and the chunk table the export writes is a legal table for it.  Hence every C09 / C05 theorem
    about serialized well-formed shards applies to the section and table contents of the export. -/
theorem C18_export_content_wf (P : HashPrims) (key : Hash) (m : Mem) (f : Bool) (w : m.WF) :
    (exportMem P key m f).WF ∧
    (exportMem P key m f).files = (if f then m.files else []) ∧
    (exportMem P key m f).cas = m.cas.map (keyCas P key) ∧
    LegalChunkTable (exportMem P key m f) (sortByKey (casSection 0 (keyedCas P key m.cas)).chunkLookup) :=
  ⟨exportMem_WF P key m f w, rfl, rfl, serializeStable_legal (exportMem P key m f)⟩

/-- **No raw chunk hash survives** (collision-extraction form, no assumption on the hash primitives): every chunk
    hash in the CAS section of the export — i.e. in the blocks `read_all_cas_blocks_full` returns
    (`C18_export_parsed`) — is `keyedHash P key h` for a chunk hash `h` of the source at the same position, and every
    key of the export's chunk table is the truncation of such a keyed hash.  So a raw chunk hash `h₀` of the source
    can appear in the export only if `h₀ = keyedHash P key h` for some source chunk hash `h`. -/
theorem C18_no_raw_hash (P : HashPrims) (key : Hash) (m : Mem) (f c k : Bool) :
    (∀ X' ∈ keyedCas P key m.cas, ∀ ch' ∈ X'.chunks, ∃ X ∈ m.cas, ∃ ch ∈ X.chunks, ch'.hash = keyedHash P key ch.hash) ∧
    (∀ e ∈ (exportParts P m key f c k).chl, ∃ X ∈ m.cas, ∃ ch ∈ X.chunks, e.1 = trunc (keyedHash P key ch.hash)) ∧
    (∀ h₀, (∃ X' ∈ keyedCas P key m.cas, ∃ ch' ∈ X'.chunks, ch'.hash = h₀) →
        ∃ X ∈ m.cas, ∃ ch ∈ X.chunks, h₀ = keyedHash P key ch.hash) := by
  have h1 : ∀ X' ∈ keyedCas P key m.cas, ∀ ch' ∈ X'.chunks, ∃ X ∈ m.cas, ∃ ch ∈ X.chunks, ch'.hash = keyedHash P key ch.hash := by
    intro X' hX' ch' hch'
    obtain ⟨X, hX, _, g⟩ := keyedCas_chunk_hash P key m.cas X' hX'
    obtain ⟨ch, hch, e⟩ := g ch' hch'
    exact ⟨X, hX, ch, hch, e⟩
  refine ⟨h1, ?_, ?_⟩
  · intro e he
    cases k
    · simp [exportParts] at he
    · simp only [exportParts, if_true] at he
      exact casSection_keyed_chunkLookup_keys P key 0 m.cas e ((sortByKey_perm _).mem_iff.mp he)
  · rintro h₀ ⟨X', hX', ch', hch', rfl⟩
    exact h1 X' hX' ch' hch'

/-- **Zero key**: with `key = 0` (`HMACKey::default()`) the chunk hashes are left as they are — the CAS section and the
    chunk table of the export are those of the source content. -/
theorem C18_export_zero_key (P : HashPrims) (m : Mem) :
    keyedHash P Hash.zero = id ∧ keyedCas P Hash.zero m.cas = m.cas ∧
    ∀ now validFor f c k, (exportParts P m Hash.zero f c k).cas = m.cas ∧
      (exportSpec P m Hash.zero now validFor f c k).footer.hmacKey = Hash.zero :=
  ⟨keyedHash_zero P, keyedCas_zero P m.cas, fun _ _ _ _ _ => ⟨keyedCas_zero P m.cas, rfl⟩⟩

/-! ## dedup on the exported shard -/

/-- **Dedup answers are preserved (shard level).**  Let the export carry its chunk table (`k = true`; `f`, `c`
    arbitrary).  For a query `q0 :: qs` of **unkeyed** hashes, `chunk_hash_dedup_query` on the export — candidates from
    the export's own table for the truncated *keyed* `q0`, comparisons against *keyed* query hashes — returns exactly
    what it returns on the source shard `serialize m t` (any legal table `t`, candidates from that table for the
    truncated raw `q0`): the same `Some (n, fse)` or the same not-found.  Hypotheses:
    * `NoTruncCollision P key m q0` — no chunk of the shard other than `q0` itself shares `q0`'s truncated 64-bit
      prefix, in raw form and in keyed form (otherwise the two tables may return different, differently capped,
      candidate lists);
    * `NoDuplicateChunk m q0` — `q0` is recorded at one chunk position at most (otherwise the two sort orders may
      pick different positions);
    * `KeyedInjOn P key m qs` — the keyed form does not identify a chunk hash of the shard with a different later
      query hash (a counterexample is an HMAC collision; it would lengthen the matched run on the export). -/
theorem C18_dedup_preserved_shard (P : HashPrims) (m : Mem) (t : List (Nat × Nat × Nat)) (w : m.WF)
    (ht : LegalChunkTable m t) (key : Hash) (now validFor : Nat) (f c : Bool) (q0 : Hash) (qs : List Hash)
    (hc : NoTruncCollision P key m q0) (hu : NoDuplicateChunk m q0) (hi : KeyedInjOn P key m qs) :
    ∃ cands cands',
      dedupCandidates P (serialize m t).bytes (serialize m t).footer q0 = .ok cands ∧
      dedupCandidates P (exportSpec P m key now validFor f c true).bytes (exportSpec P m key now validFor f c true).footer q0
        = .ok cands' ∧
      dedupQuery P (exportSpec P m key now validFor f c true).bytes (exportSpec P m key now validFor f c true).footer
          (q0 :: qs) cands' =
        dedupQuery P (serialize m t).bytes (serialize m t).footer (q0 :: qs) cands := by
  obtain ⟨cands, h1, _, rfl⟩ := dedupCandidates_serialize P m t w ht q0
  exact ⟨_, _, h1, dedupCandidates_exportSpec P m key now validFor f c true w q0,
    dedup_preserved P m t w ht key now validFor f c q0 qs hc hu hi⟩

/-- with the chunk table dropped (`k = false`) the shard-level query has no table to search and answers
    not-found for every query; the shard manager then rebuilds the table by scanning (not modelled here) -/
theorem C18_dedup_no_chunk_table (P : HashPrims) (m : Mem) (key : Hash) (now validFor : Nat) (f c : Bool)
    (q : List Hash) (cands : List (Nat × Nat)) :
    dedupQuery P (exportSpec P m key now validFor f c false).bytes (exportSpec P m key now validFor f c false).footer q cands
      = .ok none :=
  dedupQuery_exportSpec_no_table P m key now validFor f c q cands

/-- **Without the three hypotheses both answers are still truthful** (C05): on the export, for every query and
    every candidate list drawn from rows of its chunk table (colliding prefixes, duplicates, any order), an answer
    names a block `X` of the source by its (unchanged) xorb hash and the keyed chunk hashes of `X` at `[start, start+n)`
    are the keyed first `n` query hashes, with the right byte count; on the source shard this is `C05_disk_wf`. -/
theorem C18_dedup_truthful (P : HashPrims) (m : Mem) (key : Hash) (now validFor : Nat) (f c k : Bool) (w : m.WF)
    (q : List Hash) (cands : List (Nat × Nat))
    (hc : ∀ cc ∈ cands, ∃ kk, (kk, cc.1, cc.2) ∈ (casSection 0 (keyedCas P key m.cas)).chunkLookup) (a : DedupAnswer)
    (h : dedupQuery P (exportSpec P m key now validFor f c k).bytes (exportSpec P m key now validFor f c k).footer q cands
      = .ok (some a)) :
    ∃ X ∈ m.cas, Truthful (keyedHash P key) (keyCas P key X).chunks X.hash q a :=
  dedupQuery_exportSpec_truthful P m key now validFor f c k w q cands hc a h

/-- a truthful keyed answer pins the *raw* stored hashes whenever the keyed form separates them from the query:
    under `KeyedInjOn` for the whole query, the source block's raw chunk hashes at the answered range are the first
    `n` query hashes — i.e. the answer is also truthful for the source shard (`Truthful id`). -/
theorem C18_dedup_truthful_raw (P : HashPrims) (m : Mem) (key : Hash) (X : CasInfo) (hX : X ∈ m.cas) (q : List Hash)
    (a : DedupAnswer) (hi : KeyedInjOn P key m q) (t : Truthful (keyedHash P key) (keyCas P key X).chunks X.hash q a) :
    Truthful id X.chunks X.hash q a := by
  obtain ⟨t1, t2, t3, t4, t5, t6, t7⟩ := t
  have hlen : (keyCas P key X).chunks.length = X.chunks.length := by simp
  refine ⟨t1, t2, t3, t4, by rw [← hlen]; exact t5, ?_, ?_⟩
  · apply map_hash_eq_of_index _ _ _ _ (by simp only [List.length_take, List.length_drop]; omega) t2
    intro j hj
    obtain ⟨c', qh, g1, g2, g3⟩ :=
      Truthful.hash_at (k := keyedHash P key) (chunks := (keyCas P key X).chunks) (casHash := X.hash) (q := q) (a := a)
        ⟨t1, t2, t3, t4, t5, t6, t7⟩ j hj
    simp only [keyCas_chunks, List.getElem?_map] at g1
    cases hc : X.chunks[a.seg.cstart + j]? with
    | none => rw [hc] at g1; cases g1
    | some c0 =>
      rw [hc] at g1
      simp only [Option.map_some, Option.some.injEq] at g1
      subst g1
      refine ⟨c0, qh, by simp [hj, List.getElem?_drop, hc], g2, ?_⟩
      exact hi X hX c0 (List.mem_of_getElem? hc) qh (List.mem_of_getElem? g2) g3
  · rw [t7]
    simp only [keyCas_chunks, sumMap, ← List.map_drop, ← List.map_take, List.map_map]
    rfl

/-! ## non-vacuity -/

section Examples

attribute [local instance] decEqExcept

/-- boundary cases of the expiry filters (`M = u64::MAX`) -/
example : isLoaded 100 100 = true ∧ isLoaded 101 100 = false := by decide
example : isDeleted 100 0 100 = true ∧ isLoaded 100 100 = true := by decide                       -- now = e, buffer 0: both
example : isDeleted 159 60 100 = false ∧ isDeleted 160 60 100 = true ∧ isLoaded 160 100 = false := by decide  -- e+buf-1, e+buf
example : isDeleted u64Max 7 u64Max = true ∧ isLoaded u64Max u64Max = true := by decide           -- e = M: both at now = M
example : isDeleted (u64Max - 1) 7 u64Max = false := by decide                                    -- never-expiring shard
example : satAdd64 (u64Max - 1) 5 = u64Max ∧ isDeleted (u64Max - 1) 5 (u64Max - 1) = false ∧
    isDeleted u64Max 5 (u64Max - 1) = true := by decide                                           -- saturation

private def seg (h : Hash) (n a b : Nat) : Seg := ⟨h, 0, n, a, b⟩
private def hX : Hash := ⟨11, 1, 2, 3⟩
private def f00 : FileInfo := ⟨⟨5, 1, 0, 0⟩, 0, 2, 0, [seg hX 100 0 2, seg hX 50 2 3], [], none⟩
/-- verification + metadata entries and segment flags that look like header flags: all skipped when `f = false` -/
private def fVM : FileInfo := ⟨⟨6, 0, 0, 0⟩, flagVerification + flagMetadataExt, 1, 0,
  [⟨hX, flagVerification + flagMetadataExt, 9, 1, 2⟩], [⟨3, 3, 3, 3⟩], some ⟨4, 4, 4, 4⟩⟩
private def cA : CasInfo := ⟨hX, 0, 3, 160, 120, [⟨⟨7, 1, 0, 0⟩, 100, 0, 0⟩, ⟨⟨8, 2, 0, 0⟩, 50, 100, 0⟩, ⟨⟨9, 0, 0, 1⟩, 10, 150, 0⟩]⟩
private def cB : CasInfo := ⟨⟨12, 1, 2, 4⟩, 0, 1, 5, 5, [⟨⟨10, 1, 0, 0⟩, 5, 0, 0⟩]⟩
private def exMem : Mem := ⟨[f00, fVM], [cA, cB]⟩
/-- a concrete "HMAC": adds the first key word to the first hash word, so keyed ≠ raw for `exKey` -/
private def exP : HashPrims := ⟨fun _ => Hash.zero, fun _ => Hash.zero, fun _ => Hash.zero,
  fun kb mb => ⟨(Hash.ofBytes mb).w0 + (Hash.ofBytes kb).w0, (Hash.ofBytes mb).w1, (Hash.ofBytes mb).w2, (Hash.ofBytes mb).w3⟩⟩
private def exKey : Hash := ⟨1000, 2, 3, 4⟩
private def exSrc : Serialized := serializeStable exMem

example : exMem.WF := by decide +kernel
example : keyedHash exP exKey ⟨7, 1, 0, 0⟩ = ⟨1007, 1, 0, 0⟩ := by decide +kernel

/-- the real export function on the concrete shard, all tables kept: output bytes = the closed form, and the CAS
    section read back holds the keyed chunk hashes, xorb hashes unchanged -/
example : (exportKeyed exP exSrc.bytes exKey 1000 3600 true true true).map (·.bytes)
    = .ok (exportSpec exP exMem exKey 1000 3600 true true true).bytes := by decide +kernel
example : readAllCas (exportSpec exP exMem exKey 1000 3600 true true true).bytes 3
      (exportSpec exP exMem exKey 1000 3600 true true true).footer.casInfoOff [] =
    .ok [⟨hX, 0, 3, 160, 120, [⟨⟨1007, 1, 0, 0⟩, 100, 0, 0⟩, ⟨⟨1008, 2, 0, 0⟩, 50, 100, 0⟩, ⟨⟨1009, 0, 0, 1⟩, 10, 150, 0⟩]⟩,
         ⟨⟨12, 1, 2, 4⟩, 0, 1, 5, 5, [⟨⟨1010, 1, 0, 0⟩, 5, 0, 0⟩]⟩] := by decide +kernel
/-- each flag off in turn: (file rows, CAS rows, chunk rows, materialized bytes, expiry, total length) of the real export -/
example : (exportKeyed exP exSrc.bytes exKey 1000 3600 true true true).map
    (fun e => (e.footer.fileLookupNum, e.footer.casLookupNum, e.footer.chunkLookupNum, e.footer.materialized, e.footer.expiry, e.bytes.length))
    = .ok (2, 2, 4, 159, 4600, 1080) := by decide +kernel
example : (exportKeyed exP exSrc.bytes exKey 1000 3600 false true true).map
    (fun e => (e.footer.fileLookupNum, e.footer.casLookupNum, e.footer.chunkLookupNum, e.footer.materialized, e.footer.expiry, e.bytes.length))
    = .ok (0, 2, 4, 0, 4600, 720) := by decide +kernel
example : (exportKeyed exP exSrc.bytes exKey 1000 3600 true false true).map
    (fun e => (e.footer.fileLookupNum, e.footer.casLookupNum, e.footer.chunkLookupNum, e.footer.materialized, e.footer.expiry, e.bytes.length))
    = .ok (2, 0, 4, 159, 4600, 1056) := by decide +kernel
example : (exportKeyed exP exSrc.bytes exKey 1000 3600 true true false).map
    (fun e => (e.footer.fileLookupNum, e.footer.casLookupNum, e.footer.chunkLookupNum, e.footer.materialized, e.footer.expiry, e.bytes.length))
    = .ok (2, 2, 0, 159, 4600, 1016) := by decide +kernel
/-- files dropped: the scan of the export's file section finds nothing, the validity saturates -/
example : readAllFiles (exportSpec exP exMem exKey 1000 3600 false true true).bytes 3 headerSize [] = .ok [] := by decide +kernel
example : (exportSpec exP exMem exKey 1000 u64Max false true true).footer.expiry = u64Max := by decide +kernel

/-- a dedup query with unkeyed hashes: hypotheses of `C18_dedup_preserved_shard` hold, and source and export give
    the same answer — two chunks of `cA` from position 1, then the query diverges -/
private def exQ : List Hash := [⟨8, 2, 0, 0⟩, ⟨9, 0, 0, 1⟩, ⟨99, 0, 0, 0⟩]
example : NoTruncCollision exP exKey exMem ⟨8, 2, 0, 0⟩ := ⟨by decide +kernel, by decide +kernel⟩
example : NoDuplicateChunk exMem ⟨8, 2, 0, 0⟩ := by decide +kernel
example : KeyedInjOn exP exKey exMem exQ.tail := by decide +kernel
example : dedupCandidates exP exSrc.bytes exSrc.footer ⟨8, 2, 0, 0⟩ = .ok [(0, 1)] ∧
    dedupCandidates exP (exportSpec exP exMem exKey 1000 3600 false false true).bytes
      (exportSpec exP exMem exKey 1000 3600 false false true).footer ⟨8, 2, 0, 0⟩ = .ok [(0, 1)] := by decide +kernel
example : dedupQuery exP exSrc.bytes exSrc.footer exQ [(0, 1)] = .ok (some ⟨2, ⟨hX, 0, 60, 1, 3⟩⟩) ∧
    dedupQuery exP (exportSpec exP exMem exKey 1000 3600 false false true).bytes
      (exportSpec exP exMem exKey 1000 3600 false false true).footer exQ [(0, 1)] = .ok (some ⟨2, ⟨hX, 0, 60, 1, 3⟩⟩) := by
  decide +kernel
/-- a first hash that is not stored (and collides with nothing): not-found on both -/
example : NoTruncCollision exP exKey exMem ⟨77, 0, 0, 0⟩ ∧ NoDuplicateChunk exMem ⟨77, 0, 0, 0⟩ :=
  ⟨⟨by decide +kernel, by decide +kernel⟩, by decide +kernel⟩
example : dedupCandidates exP exSrc.bytes exSrc.footer ⟨77, 0, 0, 0⟩ = .ok [] ∧
    dedupCandidates exP (exportSpec exP exMem exKey 1000 3600 true true true).bytes
      (exportSpec exP exMem exKey 1000 3600 true true true).footer ⟨77, 0, 0, 0⟩ = .ok [] ∧
    dedupQuery exP exSrc.bytes exSrc.footer [⟨77, 0, 0, 0⟩] [] = .ok none := by decide +kernel
/-- a raw chunk hash used as a query against the export's table *without* keying would miss: the table key is 1008 -/
example : (exportParts exP exMem exKey false false true).chl = [(1007, 0, 0), (1008, 0, 1), (1009, 0, 2), (1010, 4, 0)] := by
  decide +kernel

end Examples

end Xet.Shard
