/-
C17 — File reconstruction writes exactly the requested bytes at the right offsets.

Model: `XetModel/Reconstruct.lean` (code-shaped: `reconstruct_file_to_writer`,
`reconstruct_file_to_writer_parallel`, `TermWriteTask::write_term`, `get_one_term`, `download_range`
of `cas_client/src/remote_client.rs`).  Helper lemmas: `XetProofs/Reconstruct.lean`.

Quantifier of every theorem: all plans (any number of terms, any xorbs incl. repeated ones, any fetch
ranges containing their terms, any chunk sizes ≥ 1, no size bounds), all byte ranges
`offset + (end - start) ≤ |concatenated terms|` (or no range with offset 0), all cache behaviours that
return on a hit the bytes that were put (`CacheFaithful`, C12's conclusion), every order of completion of
the parallel writer's tasks.  The tie to the Rust code is the correspondence suite `reconstruct`.
-/
import XetProofs.Reconstruct

namespace Xet.Recon

/-- **Sequential writer.**  For every well-formed plan and range, `reconstruct_file_to_writer` succeeds,
    its output is `((terms' data concatenated).drop offset).take len`, and the length it reports is the
    requested length and the number of bytes it wrote. -/
theorem C17_sequential (p : Plan) (range : Option CRange) (cache : Option Cache)
    (hwf : WFPlan p range) (hc : ∀ c, cache = some c → CacheFaithful p c) :
    ∃ r, reconstructSeq p cache range = .ok r ∧
      r.out = expected p range ∧ r.reported = r.out.length ∧ r.reported = reqLen p range := by
  obtain ⟨hterms, hoff, hrange⟩ := hwf
  obtain ⟨st, h1, h2⟩ := seqLoop_spec p.offset (p.terms.map p.termBytes) 0 ⟨[], reqLen p range⟩
    (headOK_wf p hterms hoff)
  refine ⟨⟨st.out, reqLen p range⟩, ?_, ?_, ?_, rfl⟩
  · unfold reconstructSeq seqWrite
    rw [totalLen_wf p range hterms hrange, results_wf p cache hterms hc]
    simp only [h1]
  · simp only [h2, List.nil_append, startOf, if_true]
    rfl
  · simp only [h2, List.nil_append, startOf, if_true, List.length_take, List.length_drop]
    unfold RangeOK at hrange
    unfold reqLen
    cases range with
    | none => simp only at hrange ⊢; rw [hrange]; simp [Plan.allBytes]
    | some r => simp only at hrange ⊢; have := hrange.2; simp only [Plan.allBytes] at this; omega

/-- **Parallel writer.**  For every well-formed plan and range, `reconstruct_file_to_writer_parallel`
    issues positioned writes such that, for EVERY order in which the tasks complete, the file ends up
    equal to the requested slice; the returned `total_written` is the requested length = bytes written. -/
theorem C17_parallel (p : Plan) (range : Option CRange) (cache : Option Cache)
    (hwf : WFPlan p range) (hc : ∀ c, cache = some c → CacheFaithful p c) :
    ∃ pp, reconstructPar p cache range = .ok pp ∧
      (∀ order : List PWrite, order.Perm pp.writes → applyWrites [] order = expected p range) ∧
      pp.reported = (expected p range).length ∧ pp.reported = reqLen p range := by
  obtain ⟨hterms, hoff, hrange⟩ := hwf
  obtain ⟨ss, ws, h1, h2, h3, h4, h5⟩ := par_spec p.offset (p.terms.map p.termBytes) 0 0 (reqLen p range)
    (headOK_wf p hterms hoff)
  have hcat : catData ws = expected p range := by
    rw [h4]; simp only [startOf, if_true]; rfl
  have hlen : (expected p range).length = reqLen p range := by
    simp only [expected, List.length_take, List.length_drop]
    unfold RangeOK at hrange
    unfold reqLen
    cases range with
    | none => simp only at hrange ⊢; rw [hrange]; simp
    | some r => simp only at hrange ⊢; have := hrange.2; omega
  refine ⟨⟨ws, (ss.map fun s => s.stop - s.start).sum⟩, ?_, ?_, ?_, ?_⟩
  · unfold reconstructPar parWrite
    rw [totalLen_wf p range hterms hrange, results_wf p cache hterms hc, lens_wf p hterms]
    simp only [h1, h2]
  · intro order hp
    rw [← hcat]
    exact consec_any_order ws order h3 hp
  · simp only [h5, hcat]
  · simp only [h5, hcat, hlen]

/-- **The parallel writer's writes are pairwise disjoint and tile `[0, len)`**: no two tasks ever touch
    the same byte of the output (so the order of completion cannot matter even for a real file), and
    every byte below `len` is written by some task. -/
theorem C17_parallel_tiling (p : Plan) (range : Option CRange) (cache : Option Cache)
    (hwf : WFPlan p range) (hc : ∀ c, cache = some c → CacheFaithful p c) :
    ∃ pp, reconstructPar p cache range = .ok pp ∧ pp.writes.Pairwise Disjoint ∧
      (∀ w ∈ pp.writes, w.off + w.data.length ≤ reqLen p range) ∧
      (∀ i, i < reqLen p range → ∃ w ∈ pp.writes, w.off ≤ i ∧ i < w.off + w.data.length) := by
  obtain ⟨hterms, hoff, hrange⟩ := hwf
  obtain ⟨ss, ws, h1, h2, h3, h4, h5⟩ := par_spec p.offset (p.terms.map p.termBytes) 0 0 (reqLen p range)
    (headOK_wf p hterms hoff)
  have hcat : catData ws = expected p range := by
    rw [h4]; simp only [startOf, if_true]; rfl
  have hlen : (catData ws).length = reqLen p range := by
    rw [hcat]
    simp only [expected, List.length_take, List.length_drop]
    unfold RangeOK at hrange
    unfold reqLen
    cases range with
    | none => simp only at hrange ⊢; rw [hrange]; simp
    | some r => simp only at hrange ⊢; have := hrange.2; omega
  refine ⟨⟨ws, (ss.map fun s => s.stop - s.start).sum⟩, ?_, consec_pairwise ws 0 h3, ?_, ?_⟩
  · unfold reconstructPar parWrite
    rw [totalLen_wf p range hterms hrange, results_wf p cache hterms hc, lens_wf p hterms]
    simp only [h1, h2]
  · intro w hw
    have := (consec_ok ws 0 [] rfl h3 w hw).1
    simpa [hlen] using this
  · intro i hi
    exact consec_cover ws 0 h3 i (Nat.zero_le _) (by omega)

/-- **Sequential = parallel**, for every completion order, every cache behaviour on either side
    (cold, warm, off — possibly different for the two calls). -/
theorem C17_seq_eq_par (p : Plan) (range : Option CRange) (c1 c2 : Option Cache)
    (hwf : WFPlan p range) (h1 : ∀ c, c1 = some c → CacheFaithful p c) (h2 : ∀ c, c2 = some c → CacheFaithful p c) :
    ∃ r pp, reconstructSeq p c1 range = .ok r ∧ reconstructPar p c2 range = .ok pp ∧
      (∀ order : List PWrite, order.Perm pp.writes → applyWrites [] order = r.out) ∧
      pp.reported = r.reported := by
  obtain ⟨r, hr, ho, _, hrep⟩ := C17_sequential p range c1 hwf h1
  obtain ⟨pp, hp, hall, _, hprep⟩ := C17_parallel p range c2 hwf h2
  exact ⟨r, pp, hr, hp, fun o ho' => by rw [ho]; exact hall o ho', by rw [hrep, hprep]⟩

/-- **Warm = cold = no cache**: with a cache whose hits return what was put (C12), both writers produce
    the same results as without a cache. -/
theorem C17_warm_eq_cold (p : Plan) (range : Option CRange) (c : Cache)
    (hwf : WFPlan p range) (hc : CacheFaithful p c) :
    reconstructSeq p (some c) range = reconstructSeq p none range ∧
    reconstructPar p (some c) range = reconstructPar p none range := by
  have e : p.results (some c) = p.results none := by
    rw [results_wf p (some c) hwf.1 (fun c' h => by cases h; exact hc),
      results_wf p none hwf.1 (fun c' h => by cases h)]
  exact ⟨by unfold reconstructSeq; rw [e], by unfold reconstructPar; rw [e]⟩

/-- **Trimming.**  `get_one_term`'s slicing of a fetched range `fr` (chunks `cs`, their concatenation and
    chunk byte indices as `download_range` returns them) down to a term range `tr ⊆ fr` returns exactly
    the term's chunks' bytes `cs[tr.start−fr.start … tr.end−fr.start).flatten`; no index is out of range
    and no `debug_assert!` fires.  For all chunk lists with non-empty chunks, all `fr`, all non-empty `tr`. -/
theorem C17_trim (cs : List Bytes) (fr tr : CRange)
    (h1 : fr.start ≤ tr.start) (h2 : tr.start < tr.stop) (h3 : tr.stop ≤ fr.stop)
    (hlen : cs.length = fr.stop - fr.start) (hne : ∀ c ∈ cs, c ≠ []) :
    trim ⟨cs.flatten, byteIndices cs 0⟩ fr tr
      = .ok ((cs.drop (tr.start - fr.start)).take (tr.stop - tr.start)).flatten := by
  rw [trim_spec cs fr tr h1 h2 h3 hlen hne]
  simp only [chunkSlice]
  congr 3
  omega

/-- `get_one_term` on a well-formed term returns the term's bytes (its chunk range of its xorb) and
    passes the `unpacked_length` check, with any faithful cache or none. -/
theorem C17_get_one_term (p : Plan) (cache : Option Cache) (t : Term) (ht : t ∈ p.terms) (h : WFTerm p t)
    (hc : ∀ c, cache = some c → CacheFaithful p c) :
    getOneTerm p cache t = .ok ((chunksOf p.xorbs t.xorb).drop t.range.start |>.take (t.range.stop - t.range.start)).flatten :=
  getOneTerm_wf p cache t ht h hc

/-- **Why the single-flight key of a blob fetch must name the FETCH range.**  `get_one_term` shares one download between callers
    with equal keys and then trims what it received with the indices of *its own* fetch range.  By `C17_trim` that is right when
    the data was fetched for that very range.  It is wrong as soon as two fetch ranges containing the same wanted term share a key
    (the key built from the URL alone — finding R14 — or from the wanted range — seeded change C17-7): for the xorb `[1][2][3][4]`,
    term `[1,3)`, the data fetched for `[0,3)` trimmed as if it were the data of `[1,4)` passes every check (no error, the right
    length) and yields the bytes of chunks 0..1 instead of 1..2. -/
theorem C17_fetch_sharing_needs_fetch_range_key :
    let xorb : List Bytes := [[1], [2], [3], [4]]
    let tr : CRange := ⟨1, 3⟩
    let own : CRange := ⟨1, 4⟩          -- this caller's fetch range
    let other : CRange := ⟨0, 3⟩        -- the fetch range of the flight it joined
    let got : Fetched := ⟨(chunkSlice xorb other).flatten, byteIndices (chunkSlice xorb other) 0⟩
    trim got own tr = .ok [1, 2] ∧ (chunkSlice xorb tr).flatten = [2, 3] ∧
    trim ⟨(chunkSlice xorb own).flatten, byteIndices (chunkSlice xorb own) 0⟩ own tr = .ok [2, 3] := by
  decide +kernel

/-- **Scope edge (recorded, excluded by `RangeOK`).**  Without a byte range and with a non-zero first-term
    offset the sequential writer returns `total_len` = sum of all `unpacked_length`s although it wrote
    `offset` bytes fewer, while the parallel writer returns the bytes written.  The server never sends such
    a plan (no range ⇒ offset 0), which is why `RangeOK` demands `offset = 0` there. -/
theorem C17_seq_reported_edge :
    let p : Plan := ⟨[[[1, 2], [3]]], [⟨0, ⟨0, 2⟩, 3⟩], [(0, [⟨0, 2⟩])], 1⟩
    reconstructSeq p none none = .ok ⟨[2, 3], 3⟩ ∧
    (reconstructPar p none none).map (·.reported) = .ok 2 := by
  decide +kernel

/-! ### Non-vacuity: concrete well-formed plans with ≥ 3 terms, a repeated xorb, fetch ranges larger than
the terms, differing term sizes, a range starting and ending mid-term. -/

/-- two xorbs; 4 terms (xorb 0 used three times, once with the very same range); fetch ranges
    `[0,4)` and `[2,5)` of xorb 0 are larger than the terms -/
def exPlan : Plan :=
  { xorbs := [[[1, 2, 3], [4], [5, 6], [7, 8, 9, 10], [11]], [[21, 22], [23, 24, 25]]]
    terms := [⟨0, ⟨1, 3⟩, 3⟩, ⟨1, ⟨0, 2⟩, 5⟩, ⟨0, ⟨3, 5⟩, 5⟩, ⟨0, ⟨1, 3⟩, 3⟩]
    fetch := [(0, [⟨0, 4⟩, ⟨2, 5⟩]), (1, [⟨0, 2⟩])]
    offset := 2 }

example : WFPlan exPlan (some ⟨100, 111⟩) := by decide +kernel
example : exPlan.allBytes = [4, 5, 6, 21, 22, 23, 24, 25, 7, 8, 9, 10, 11, 4, 5, 6] := by decide +kernel
/-- mid-term start (offset 2 of the 3-byte first term) and mid-term end (1 byte into the last term) -/
example : reconstructSeq exPlan none (some ⟨100, 111⟩)
    = .ok ⟨[6, 21, 22, 23, 24, 25, 7, 8, 9, 10, 11], 11⟩ := by decide +kernel
example : (reconstructPar exPlan none (some ⟨100, 112⟩)).map (·.writes)
    = .ok [⟨0, [6]⟩, ⟨1, [21, 22, 23, 24, 25]⟩, ⟨6, [7, 8, 9, 10, 11]⟩, ⟨11, [4]⟩] := by decide +kernel
/-- an out-of-order completion (last task first: the gap is zero-filled, then overwritten) -/
example : applyWrites [] [⟨11, [4]⟩, ⟨1, [21, 22, 23, 24, 25]⟩, ⟨0, [6]⟩, ⟨6, [7, 8, 9, 10, 11]⟩]
    = [6, 21, 22, 23, 24, 25, 7, 8, 9, 10, 11, 4] := by decide +kernel
/-- single byte; whole file without a range (offset 0) -/
example : WFPlan { exPlan with offset := 1 } (some ⟨7, 8⟩) ∧
    reconstructSeq { exPlan with offset := 1 } none (some ⟨7, 8⟩) = .ok ⟨[5], 1⟩ := by decide +kernel
example : WFPlan { exPlan with offset := 0 } none ∧
    (reconstructSeq { exPlan with offset := 0 } none none).map (·.reported) = .ok 16 := by decide +kernel
/-- a faithful warm cache (hits for every term of xorb 0) exists -/
example : CacheFaithful exPlan (fun x r => if x = 0 then some (chunkSlice (chunksOf exPlan.xorbs 0) r).flatten else none) := by
  intro t ht d h
  simp only [exPlan, List.mem_cons, List.not_mem_nil, or_false] at ht
  rcases ht with rfl | rfl | rfl | rfl <;> simp_all [Plan.termBytes]
/-- trimming: fetched `[0,4)`, term `[1,3)` -/
example : trim ⟨[1, 2, 3, 4, 5, 6, 7, 8, 9, 10], byteIndices [[1, 2, 3], [4], [5, 6], [7, 8, 9, 10]] 0⟩ ⟨0, 4⟩ ⟨1, 3⟩
    = .ok [4, 5, 6] := by decide +kernel
/-- ill-formed plans are rejected as the code rejects them: offset beyond the first term panics
    (slice index), a fetch range not containing the term is `InvalidArguments` -/
example : reconstructSeq { exPlan with offset := 4 } none (some ⟨0, 3⟩) = .error .panic := by decide +kernel
example : reconstructSeq { exPlan with fetch := [(0, [⟨2, 5⟩]), (1, [⟨0, 2⟩])] } none (some ⟨0, 3⟩)
    = .error .invalidArguments := by decide +kernel

end Xet.Recon
