/-
C20 — Singleflight runs one task per key and every caller gets its outcome.

Model: `XetModel/Singleflight.lean` — interleaving semantics of the lock regions of
`utils/src/singleflight.rs` (`lookupOrCreate`, `registerOrRead`, `runTask`, `complete`, `ownerPanic`,
`wake`, `remove`, `ret`).  Quantifier of every theorem: every list `keys` (one entry per invocation of
`Group::work`, so any number of callers and keys), every sequence of actions enabled from the initial state
(so every interleaving / arrival time relative to task completion, single- or multi-threaded), every oracle
outcome `ok v | err e | panic` of every task.

All theorems are consequences of one inductive invariant (`XetProofs/Singleflight.lean`, `Inv`,
`inv_reachable`) and of a variant that every action decreases (`XetProofs/SingleflightProgress.lean`).

RESTS ON (modelled, not verified): the atomicity of the actions, i.e. the documented semantics of tokio
`Mutex` (map), `parking_lot::RwLock` (result), tokio `Notify` (`Notified` futures created before
`notify_waiters` are woken even if not yet polled), and the tokio task harness (a panicking task's future is
dropped before its `JoinHandle` resolves); and "an enabled action is eventually executed" (the runtime keeps
polling woken tasks) for the reading of `C20_progress` as "no caller waits forever".  Cancellation of the
owning caller (dropping its future) is outside C20's quantifier and not modelled (DESIGN.md F13).
-/
import XetProofs.SingleflightProgress

namespace Xet.Singleflight

/-! ### one task per flight -/

/-- **At most one task run per CallId.**  In every reachable state the number of `runTask` actions that were
    executed for a call is ≤ 1; it is exactly 1 as soon as the task has run (in particular whenever a
    result is stored), and 0 exactly while the task is still idle. -/
theorem C20_one_task (keys : List Nat) (s : State) (h : Reachable keys s) (k : Nat) (cl : Call)
    (hk : s.calls[k]? = some cl) :
    cl.taskRuns ≤ 1 ∧ (cl.res ≠ none → cl.taskRuns = 1) ∧ (cl.task = .idle ↔ cl.taskRuns = 0) := by
  have hi := inv_reachable keys s h
  obtain ⟨r, hr⟩ := exists_getElem?_of_lt _ _ (hi.ownerLt k cl hk)
  have := (hi.call k cl r hk hr).1
  unfold TaskOk at this
  split at this <;> simp_all

/-- the ghost counter is faithful at the point that matters: a `runTask` is enabled only for a call whose
    task never ran (`taskRuns = 0`, task `idle`) and makes it `taskRuns = 1`, task `ran o`; with
    `C20_one_task` no second `runTask` for the same CallId can ever be enabled. -/
theorem C20_runTask_first (keys : List Nat) (s s' : State) (h : Reachable keys s) (c : Nat) (o : Outcome)
    (r : CallerSt) (hr : s.callers[c]? = some r) (hs : step s (.runTask c o) = some s') :
    ∃ cl cl', s.calls[r.cid]? = some cl ∧ cl.taskRuns = 0 ∧ cl.task = .idle ∧ cl.owner = c ∧
      s'.calls[r.cid]? = some cl' ∧ cl'.taskRuns = 1 ∧ cl'.task = .ran o := by
  have hi := inv_reachable keys s h
  simp only [step, stepRunTask, hr] at hs
  split at hs
  · simp at hs
  · rename_i hg
    split at hs
    · simp at hs
    · rename_i cl hcl
      simp at hs; subst hs
      have hC := hi.caller c r cl hr (by grind) hcl
      have hown : cl.owner = c := hC.2.1.mp (by grind)
      have hO := hi.call r.cid cl r hcl (by rw [hown]; exact hr)
      have hidle : cl.task = .idle := hO.2.2.2.2.1.1.mpr (by grind)
      have hT := hO.1
      simp only [TaskOk, hidle] at hT
      have hlt := lt_of_getElem?_eq_some _ _ _ hcl
      refine ⟨cl, { cl with task := .ran o, taskRuns := cl.taskRuns + 1 }, hcl, hT.2.1, hidle, hown, ?_, ?_, rfl⟩
      · simp [hlt]
      · simp [hT.2.1]

/-! ### every caller gets its flight's outcome -/

/-- **A returned caller got exactly its flight's stored outcome**, which is the outcome `o` of the flight's
    single task run (`task = finished o`, `taskRuns = 1`): a value, an error, or the panic notification —
    never one of the code's "BUG" values `NoResult` / `CallMissing`.  The call it obtained is one for its
    own key. -/
theorem C20_outcome (keys : List Nat) (s : State) (h : Reachable keys s) (c : Nat) (r : CallerSt)
    (hr : s.callers[c]? = some r) (hd : r.pc = .done) :
    ∃ cl o, s.calls[r.cid]? = some cl ∧ cl.key = r.key ∧ cl.task = .finished o ∧ cl.res = some o ∧
      cl.taskRuns = 1 ∧ r.ret = some (.val o) := by
  have hi := inv_reachable keys s h
  obtain ⟨cl, hcl⟩ := exists_getElem?_of_lt _ _ (hi.callerLt c r hr (by simp [hd]))
  obtain ⟨ro, hro⟩ := exists_getElem?_of_lt _ _ (hi.ownerLt _ cl hcl)
  have hC := hi.caller c r cl hr (by simp [hd]) hcl
  have hT := (hi.call _ cl ro hcl hro).1
  obtain ⟨hres, hret⟩ := hC.2.2.2.2.2 hd
  unfold TaskOk at hT
  split at hT
  · exact absurd hT.1 hres
  · exact absurd hT.1 hres
  · rename_i o ht
    refine ⟨cl, o, hcl, hC.1, ht, hT.1, hT.2.1, ?_⟩
    simp [hret, readRes, hT.1]

/-- the task whose outcome a returned caller received was supplied by a caller of the *same key* (the
    flight's owner), so calls with different keys never influence each other's result -/
theorem C20_outcome_same_key (keys : List Nat) (s : State) (h : Reachable keys s) (c : Nat) (r : CallerSt)
    (hr : s.callers[c]? = some r) (hd : r.pc = .done) :
    ∃ cl ro, s.calls[r.cid]? = some cl ∧ s.callers[cl.owner]? = some ro ∧ ro.owner = true ∧
      ro.cid = r.cid ∧ ro.key = r.key ∧ ro.spawned = true := by
  have hi := inv_reachable keys s h
  obtain ⟨cl, hcl⟩ := exists_getElem?_of_lt _ _ (hi.callerLt c r hr (by simp [hd]))
  obtain ⟨ro, hro⟩ := exists_getElem?_of_lt _ _ (hi.ownerLt _ cl hcl)
  have hC := hi.caller c r cl hr (by simp [hd]) hcl
  obtain ⟨hT, hne, hcid, hown, hO, _⟩ := hi.call _ cl ro hcl hro
  have hC2 := hi.caller cl.owner ro cl hro hne (hcid ▸ hcl)
  refine ⟨cl, ro, hcl, hro, hown, hcid, ?_, ?_⟩
  · rw [← hC2.1, hC.1]
  · have hres := (hC.2.2.2.2.2 hd).1
    cases hs : ro.spawned with
    | true => rfl
    | false =>
      have hidle := hO.1.mpr hs
      simp only [TaskOk, hidle] at hT
      exact absurd hT.1 hres

/-- **Different keys never share a CallId**: two callers (past their lookup) holding the same CallId asked
    for the same key. -/
theorem C20_keys_separate (keys : List Nat) (s : State) (h : Reachable keys s) (c₁ c₂ : Nat)
    (r₁ r₂ : CallerSt) (h₁ : s.callers[c₁]? = some r₁) (h₂ : s.callers[c₂]? = some r₂)
    (p₁ : r₁.pc ≠ .idle) (p₂ : r₂.pc ≠ .idle) (hc : r₁.cid = r₂.cid) : r₁.key = r₂.key := by
  have hi := inv_reachable keys s h
  obtain ⟨cl, hcl⟩ := exists_getElem?_of_lt _ _ (hi.callerLt c₁ r₁ h₁ p₁)
  have a := (hi.caller c₁ r₁ cl h₁ p₁ hcl).1
  have b := (hi.caller c₂ r₂ cl h₂ p₂ (hc ▸ hcl)).1
  rw [← a, ← b]

/-- all returned callers of one flight returned the same thing -/
theorem C20_flight_agrees (keys : List Nat) (s : State) (h : Reachable keys s) (c₁ c₂ : Nat)
    (r₁ r₂ : CallerSt) (h₁ : s.callers[c₁]? = some r₁) (h₂ : s.callers[c₂]? = some r₂)
    (d₁ : r₁.pc = .done) (d₂ : r₂.pc = .done) (hc : r₁.cid = r₂.cid) : r₁.ret = r₂.ret := by
  obtain ⟨cl₁, o₁, a₁, _, _, b₁, _, e₁⟩ := C20_outcome keys s h c₁ r₁ h₁ d₁
  obtain ⟨cl₂, o₂, a₂, _, _, b₂, _, e₂⟩ := C20_outcome keys s h c₂ r₂ h₂ d₂
  rw [hc, a₂] at a₁
  simp at a₁; subst a₁
  rw [b₂] at b₁
  simp at b₁; subst b₁
  rw [e₁, e₂]

/-- exactly one caller of a flight is its owner (the one whose supplied task is run) -/
theorem C20_unique_owner (keys : List Nat) (s : State) (h : Reachable keys s) (c₁ c₂ : Nat)
    (r₁ r₂ : CallerSt) (h₁ : s.callers[c₁]? = some r₁) (h₂ : s.callers[c₂]? = some r₂)
    (p₁ : r₁.pc ≠ .idle) (p₂ : r₂.pc ≠ .idle) (hc : r₁.cid = r₂.cid)
    (o₁ : r₁.owner = true) (o₂ : r₂.owner = true) : c₁ = c₂ := by
  have hi := inv_reachable keys s h
  obtain ⟨cl, hcl⟩ := exists_getElem?_of_lt _ _ (hi.callerLt c₁ r₁ h₁ p₁)
  have a := (hi.caller c₁ r₁ cl h₁ p₁ hcl).2.1.mp o₁
  have b := (hi.caller c₂ r₂ cl h₂ p₂ (hc ▸ hcl)).2.1.mp o₂
  rw [← a, ← b]

/-! ### no lost wake-up -/

/-- **A completed call has no blocked waiter**: a caller that registered with the notifier and was not
    notified implies that no result is stored. -/
theorem C20_no_lost_wakeup (keys : List Nat) (s : State) (h : Reachable keys s) (k : Nat) (cl : Call)
    (hk : s.calls[k]? = some cl) (c : Nat) (hreg : c ∈ cl.registered) (hnot : c ∉ cl.notified) :
    cl.res = none := by
  have hi := inv_reachable keys s h
  obtain ⟨r, hr⟩ := exists_getElem?_of_lt _ _ (hi.ownerLt k cl hk)
  have := (hi.call k cl r hk hr).1
  unfold TaskOk at this
  split at this
  · exact this.1
  · exact this.1
  · exact absurd (this.2.2 c hreg) hnot

/-- in caller terms: a caller suspended in `notified.await` on a call whose result is stored can be woken
    (`wake` is enabled), and the value it then reads is the stored one -/
theorem C20_waiter_wakes (keys : List Nat) (s : State) (h : Reachable keys s) (c : Nat) (r : CallerSt)
    (cl : Call) (hr : s.callers[c]? = some r) (hw : r.pc = .waiting) (hcl : s.calls[r.cid]? = some cl)
    (o : Outcome) (hres : cl.res = some o) :
    ∃ s' r', step s (.wake c) = some s' ∧ s'.callers[c]? = some r' ∧ r'.pc = .have ∧ r'.got = .val o := by
  have hi := inv_reachable keys s h
  have hC := hi.caller c r cl hr (by simp [hw]) hcl
  have hreg := hC.2.2.1 hw
  have hn : c ∈ cl.notified := by
    apply Classical.byContradiction
    intro hn
    have := C20_no_lost_wakeup keys s h _ cl hcl c hreg hn
    simp [hres] at this
  have hlt := lt_of_getElem?_eq_some _ _ _ hr
  refine ⟨{ s with callers := s.callers.set c { r with pc := .have, got := readRes cl } },
    { r with pc := .have, got := readRes cl }, ?_, ?_, ?_, ?_⟩
  · simp [step, stepWake, hr, hw, hcl, hn]
  · simp [hlt]
  · rfl
  · simp [readRes, hres]

/-! ### a new flight after the owner's remove -/

/-- **A `lookupOrCreate` never joins a flight whose owner has passed `remove_call`.**  The caller either
    creates a fresh CallId (`= nextId`, different from every CallId handed out so far) or joins a call whose
    owner has not removed it yet; and if every earlier flight of the key has been removed by its owner
    (in particular after those owners returned) it does create a fresh one. -/
theorem C20_new_flight (keys : List Nat) (s s' : State) (h : Reachable keys s) (c : Nat) (r : CallerSt)
    (hr : s.callers[c]? = some r) (hs : step s (.lookupOrCreate c) = some s') :
    ∃ r', s'.callers[c]? = some r' ∧ r'.pc = .looked ∧ r'.key = r.key ∧
      (r'.owner = true → r'.cid = s.nextId ∧
        (∀ (c₂ : Nat) (r₂ : CallerSt), s.callers[c₂]? = some r₂ → r₂.pc ≠ .idle → r₂.cid ≠ r'.cid) ∧
        ∃ cl', s'.calls[r'.cid]? = some cl' ∧ cl'.task = .idle ∧ cl'.res = none ∧ cl'.taskRuns = 0) ∧
      (r'.owner = false → ∃ cl ro, s.calls[r'.cid]? = some cl ∧ cl.key = r.key ∧
        s.callers[cl.owner]? = some ro ∧ ro.pc ≠ .removed ∧ ro.pc ≠ .done) ∧
      ((∀ (k : Nat) (cl : Call) (ro : CallerSt), s.calls[k]? = some cl → cl.key = r.key →
          s.callers[cl.owner]? = some ro → ro.pc = .removed ∨ ro.pc = .done) → r'.owner = true) := by
  have hi := inv_reachable keys s h
  have hlt := lt_of_getElem?_eq_some _ _ _ hr
  simp only [step, stepLookup, hr] at hs
  split at hs
  · simp at hs
  · split at hs
    · rename_i k hk
      simp at hs; subst hs
      refine ⟨{ r with pc := .looked, cid := k, owner := false }, by simp [hlt], rfl, rfl, by simp, ?_, ?_⟩
      · intro _
        obtain ⟨cl, hcl⟩ := exists_getElem?_of_lt _ _ (hi.mapLt _ _ hk)
        obtain ⟨ro, hro⟩ := exists_getElem?_of_lt _ _ (hi.ownerLt _ cl hcl)
        have hkey := hi.mapKey _ _ cl hk hcl
        have := (hi.call k cl ro hcl hro).2.2.2.2.2
        rw [hkey] at this
        exact ⟨cl, ro, hcl, hkey, hro, this.mp hk⟩
      · intro hall
        exfalso
        obtain ⟨cl, hcl⟩ := exists_getElem?_of_lt _ _ (hi.mapLt _ _ hk)
        obtain ⟨ro, hro⟩ := exists_getElem?_of_lt _ _ (hi.ownerLt _ cl hcl)
        have hkey := hi.mapKey _ _ cl hk hcl
        have := (hi.call k cl ro hcl hro).2.2.2.2.2
        rw [hkey] at this
        have := this.mp hk
        rcases hall k cl ro hcl hkey hro with h | h <;> simp_all
    · simp at hs; subst hs
      refine ⟨{ r with pc := .looked, cid := s.calls.length, owner := true }, by simp [hlt], rfl, rfl, ?_,
        by simp, fun _ => rfl⟩
      intro _
      refine ⟨rfl, ?_, ?_⟩
      · intro c₂ r₂ h₂ p₂
        have := hi.callerLt c₂ r₂ h₂ p₂
        simp only
        omega
      · exact ⟨Call.new r.key c, by simp, rfl, rfl, rfl⟩

/-! ### no caller waits forever -/

/-- **Per-caller deadlock freedom.**  In every reachable state, for every caller that has not returned, a
    specific action is enabled that advances it: its own next step, or — if it is a waiter that has not been
    notified — the next step of the owner / owner task of the call it waits on (`nextAction`; whatever outcome
    `o` the task would produce). -/
theorem C20_no_deadlock (keys : List Nat) (s : State) (h : Reachable keys s) (c : Nat) (r : CallerSt)
    (hr : s.callers[c]? = some r) (hpc : r.pc ≠ .done) (o : Outcome) :
    ∃ a, nextAction o s c = some a ∧ (step s a).isSome = true :=
  nextAction_enabled o s c r (inv_reachable keys s h) hr hpc

/-- **Every run is finite**: each action strictly decreases the variant `measure`, so a run continuing a
    reachable state `s` has at most `measure s` actions. -/
theorem C20_runs_bounded (keys : List Nat) (s s' : State) (h : Reachable keys s) (acts : List Action)
    (hrun : run s acts = some s') : acts.length + measure s' ≤ measure s :=
  run_length_le acts s s' (inv_reachable keys s h) hrun

/-- states reachable from a reachable state are reachable -/
theorem Reachable.extend (keys : List Nat) (s s' : State) (h : Reachable keys s) (acts : List Action)
    (hrun : run s acts = some s') : Reachable keys s' := by
  obtain ⟨as, has⟩ := h
  exact ⟨as ++ acts, run_append as acts _ s s' has hrun⟩

/-- **No caller waits forever.**  From every reachable state `s` (i) every continuation has at most
    `measure s` actions, (ii) a continuation that cannot be extended (no action enabled) has every caller
    returned, and (iii) such a continuation exists.  Hence every maximal execution is finite and ends with
    every invocation of `work` returned; no fairness assumption is needed beyond "the runtime does not stop
    while an action is enabled". -/
theorem C20_progress (keys : List Nat) (s : State) (h : Reachable keys s) :
    (∀ (acts : List Action) (s' : State), run s acts = some s' → acts.length ≤ measure s) ∧
    (∀ (acts : List Action) (s' : State), run s acts = some s' → (∀ a, step s' a = none) → AllDone s') ∧
    (∃ (acts : List Action) (s' : State), run s acts = some s' ∧ AllDone s') := by
  refine ⟨?_, ?_, ?_⟩
  · intro acts s' hrun
    have := C20_runs_bounded keys s s' h acts hrun
    omega
  · intro acts s' hrun hstuck
    exact stuck_allDone s' (inv_reachable keys s' (Reachable.extend keys s s' h acts hrun)) hstuck
  · exact exists_run_allDone (.ok 0) (measure s) s (inv_reachable keys s h) (Nat.le_refl _)

/-! ### non-vacuity: concrete runs of the model -/

/-- three callers, keys 5,5,7: caller 0 owns the flight of key 5, caller 1 joins it before completion and is
    woken, caller 2 has its own flight whose task panics; then a fourth-style late call is shown below. -/
def demoRun : List Action :=
  [.lookupOrCreate 0, .lookupOrCreate 1, .lookupOrCreate 2, .registerOrRead 1, .registerOrRead 0,
   .registerOrRead 2, .runTask 0 (.ok 41), .runTask 2 .panic, .ownerPanic 1, .complete 0, .wake 1, .ret 1,
   .wake 0, .wake 2, .remove 0, .remove 2, .ret 0, .ret 2]

example : (run (init [5, 5, 7]) demoRun).map (fun s => s.callers.map (·.ret)) =
    some [some (.val (.ok 41)), some (.val (.ok 41)), some (.val .panic)] := by decide

example : (run (init [5, 5, 7]) demoRun).map (fun s => (s.calls.map (·.taskRuns), s.map, s.callers.map (·.cid))) =
    some ([1, 1], [], [0, 0, 1]) := by decide

/-- a late caller of the same key after the owner's `remove` starts a new flight (CallId 1), a caller that
    arrives between completion and removal reads the stored result of flight 0 -/
def demoLate : List Action :=
  [.lookupOrCreate 0, .registerOrRead 0, .runTask 0 (.err 3), .complete 0, .lookupOrCreate 1, .wake 0,
   .remove 0, .lookupOrCreate 2, .registerOrRead 1, .ret 1, .ret 0, .registerOrRead 2, .runTask 2 (.ok 9),
   .complete 1, .wake 2, .remove 2, .ret 2]

example : (run (init [4, 4, 4]) demoLate).map (fun s => (s.callers.map (·.ret), s.callers.map (·.cid))) =
    some ([some (.val (.err 3)), some (.val (.err 3)), some (.val (.ok 9))], [0, 0, 1]) := by decide

/-- actions that the code's lock regions forbid are not enabled: a wake before the completion, a second
    task run, a remove before the completion -/
example : (run (init [5, 5]) [.lookupOrCreate 0, .lookupOrCreate 1, .registerOrRead 1, .wake 1]).isSome = false := by
  decide
example : (run (init [5]) [.lookupOrCreate 0, .registerOrRead 0, .runTask 0 (.ok 1), .runTask 0 (.ok 2)]).isSome
    = false := by decide
example : (run (init [5]) [.lookupOrCreate 0, .registerOrRead 0, .runTask 0 (.ok 1), .remove 0]).isSome = false := by
  decide

end Xet.Singleflight
