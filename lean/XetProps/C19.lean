/-
C19 — Interrupted writes never leave a partial file under a final name.

  "If the process stops at any point while a shard is flushed or consolidated, a xorb is written to the local
   store, or an item is inserted into the chunk cache, then on restart every file visible under a final name is
   complete and consistent with its name (content hash or length and checksum), and every record that was
   retrievable before the interrupted operation is still retrievable.  Leftover temporary files are ignored or
   cleaned up."

MODEL (`XetModel/CrashFS.lean`): a directory tree is an association list path ↦ content; every operation is the
sequence of file-system effects the Rust code performs (`create tmp`, one `append tmp` per `write` system call,
`rename tmp final`, `unlink`, `mkdir`/`rmdir`/`chmod`); a crash leaves the state after some prefix of that
sequence: `crashStates es fs`.  The split of the buffered writes into pieces, the uuid / random suffix of the
temp name, the eviction choice and the prior state are universally quantified.

CRASH MODEL ASSUMED (it is the property's own): a completed system call persists; `rename` is atomic and replaces
the target; no torn page cache; nothing else modifies the directory during the operation.  `fsync`, directory-entry
durability after power loss and concurrent writers are outside this model (label: partial).

WHAT IS PROVED, per operation, for EVERY crash state (every prefix, every split):
 (a) every file under a final name is consistent with its name (the component's invariant is preserved);
 (b) every final-named file of the start state is still there with the same content — or, for consolidation /
     a subsuming cache put, a final-named file is there that holds all its records;
 (c) the temp names are not matched by the restart scans (shard regex, `default.{hash}` lookup and
     `get_all_entries`, cache item name decoding), resp. removed by the cache scan.
"name = content hash identifies the content" appears only in collision-extraction form: the alternative
conclusion is an explicit pair of distinct byte strings with the same data hash.
-/
import XetProofs.CrashFS
import XetProofs.CacheCodec
import XetProps.C06
import XetModel.Generated.Consts

namespace Xet.CrashFS

theorem hexRT : HexRT := fun h => Merkle.C06_hex_roundtrip h

/-- an explicit collision of the data hash -/
def DataHashCollision (P : HashPrims) : Prop := ∃ a b : Bytes, a ≠ b ∧ P.dataHash a = P.dataHash b

/-! ## crash states -/

/-- the crash states are exactly the states after the prefixes of the effect sequence -/
theorem C19_crash_states {P : Type} [DecidableEq P] (es : List (Effect P)) (fs s : FS P) :
    s ∈ crashStates es fs ↔ ∃ k, k ≤ es.length ∧ s = run fs (es.take k) := by
  simp only [crashStates, List.mem_map, List.mem_range]
  constructor
  · rintro ⟨k, hk, rfl⟩; exact ⟨k, by omega, rfl⟩
  · rintro ⟨k, hk, rfl⟩; exact ⟨k, by omega, rfl⟩

theorem forall_crashStates {P : Type} [DecidableEq P] {es : List (Effect P)} {fs : FS P} {Q : FS P → Prop}
    (h : ∀ k, Q (run fs (es.take k))) : ∀ s ∈ crashStates es fs, Q s := by
  intro s hs
  obtain ⟨k, _, rfl⟩ := (C19_crash_states es fs s).mp hs
  exact h k

/-- the start state and the completed operation are among the crash states -/
theorem C19_crash_states_ends {P : Type} [DecidableEq P] (es : List (Effect P)) (fs : FS P) :
    fs ∈ crashStates es fs ∧ run fs es ∈ crashStates es fs :=
  ⟨(C19_crash_states es fs fs).mpr ⟨0, by omega, by simp⟩,
   (C19_crash_states es fs _).mpr ⟨es.length, Nat.le_refl _, by simp⟩⟩

/-! ## (c) leftovers are invisible to every restart scan -/

/-- **Temp names are never final names.**  For every uuid text / random suffix / parent directory name:
    `.{uuid}.mdb_temp` does not match the shard regex; `SafeFileCreator`'s `.{dir}.{rnd}.tmp` is neither a name
    `LocalClient::exists`/`get` look up (`default.{hash}`) nor one `get_all_entries` lists, and in a cache key
    directory it does not decode as an item name (so the start-up scan removes it, see `C19_reopen_inv_cache`). -/
theorem C19_leftovers_invisible (u d r a b : Name) (dir : Option Name) :
    parseShardName (tempShardName u) = none ∧ shardFinal (tempShardName u) = false ∧
    parseXorbName (safeTempName dir r) = none ∧ parseEntryName (safeTempName dir r) = none ∧
    Cache.parseFileName (safeTempName (some d) r) = none ∧ cacheFinal [a, b, safeTempName (some d) r] = false :=
  ⟨parseShardName_temp u, shardFinal_temp u, parseXorbName_safeTemp dir r, parseEntryName_safeTemp dir r,
   parseFileName_safeTemp _ r, cacheFinal_safeTemp a b _ r⟩

/-- the final names are final names: `{hash}.mdb` parses back to the hash, `default.{hash}` to the hash,
    an item file name to the item -/
theorem C19_final_names (h : Hash) (it : Cache.Item) (hr : it.start.toNat < it.stop.toNat) :
    parseShardName (shardName h) = some h ∧ parseXorbName (xorbName h) = some h ∧
    Cache.parseFileName (Cache.fileName it) = some it :=
  ⟨parseShardName_shardName h (hexRT h), parseXorbName_xorbName h (hexRT h), Cache.parseFileName_fileName it hr⟩

/-! ## shard flush, `write_out_from_reader`, `shard_file_op` -/

/-- **Name = content hash identifies the content** (collision-extraction form): two contents consistent with the
    same shard file name are equal, or they are a collision of the data hash. -/
theorem C19_name_identifies_content (P : HashPrims) (n : Name) (c c' : Bytes) (h : shardOk P n c) (h' : shardOk P n c') :
    c = c' ∨ (c ≠ c' ∧ P.dataHash c = P.dataHash c') := by
  by_cases e : c = c'
  · exact Or.inl e
  · refine Or.inr ⟨e, ?_⟩
    unfold shardOk at h h'
    rw [h] at h'
    exact Option.some.inj h'

/-- what one interrupted shard write guarantees in a crash state `s` reached from `fs` -/
structure ShardWriteSafe (P : HashPrims) (V : Bytes → Prop) (fs s : FS Name) (uuid : Name) (content : Bytes) : Prop where
  /-- (a) every file the scan accepts is named by the hash of its content and valid -/
  inv : ShardInv P V s
  /-- (a) no partial file: whatever is visible was visible before, or is the complete new shard under its name -/
  nothing_partial : ∀ n c, get s n = some c → shardFinal n = true →
    get fs n = some c ∨ (n = shardName (P.dataHash content) ∧ c = content)
  /-- (b) every shard file visible before is still there with the same bytes — or a collision of the data hash
      between its bytes and the new shard's bytes is exhibited -/
  kept : ∀ n c, get fs n = some c → shardFinal n = true →
    get s n = some c ∨ (c ≠ content ∧ P.dataHash c = P.dataHash content)
  /-- (c) the temp file is not visible to the scan -/
  temp_invisible : shardFinal (tempShardName uuid) = false

theorem shardWrite_full (P : HashPrims) (V : Bytes → Prop) (fs : FS Name) (uuid : Name) (content : Bytes)
    (pieces : List Bytes) (hp : pieces.flatten = content) (hinv : ShardInv P V fs) (hv : V content) (k : Nat) :
    ShardWriteSafe P V fs (run fs ((shardWriteFx P uuid content pieces).take k)) uuid content := by
  obtain ⟨i1, i2, i3⟩ := shardWrite_safe P V hexRT fs uuid content pieces hp hinv hv k
  generalize run fs ((shardWriteFx P uuid content pieces).take k) = s at i1 i2 i3 ⊢
  generalize hname : shardName (P.dataHash content) = name at i2 i3 ⊢
  have hparse : parseShardName name = some (P.dataHash content) := by
    rw [← hname]; exact parseShardName_shardName _ (hexRT _)
  refine ⟨i1, fun n c hs hf => ?_, fun n c h0 hf => ?_, shardFinal_temp uuid⟩
  · by_cases hn : n = name
    · subst hn
      rcases i3 with e | e
      · exact Or.inl (by rw [← e]; exact hs)
      · rw [e] at hs; exact Or.inr ⟨hname.symm, (Option.some.inj hs).symm⟩
    · exact Or.inl (by rw [← i2 n hf hn]; exact hs)
  · by_cases hn : n = name
    · subst hn
      rcases i3 with e | e
      · exact Or.inl (by rw [e]; exact h0)
      · by_cases hc : c = content
        · exact Or.inl (by rw [e, hc])
        · refine Or.inr ⟨hc, ?_⟩
          have := (hinv _ _ h0 hf).1
          unfold shardOk at this
          rw [hparse] at this
          exact (Option.some.inj this).symm
    · exact Or.inl (by rw [i2 n hf hn]; exact h0)

/-- **C19 for a shard flush** (`MDBInMemoryShard::write_to_directory`).  For every prior directory state satisfying
    the invariant (whatever else it contains: leftovers of earlier crashes, other files), every well-formed in-memory
    content `m` (serialized with any legal chunk table `t`), every uuid and every split of the `BufWriter` output
    into `write` calls: every crash state satisfies `ShardWriteSafe`. -/
theorem C19_prefix_safe_flush (P : HashPrims) (fs : FS Name) (m : Shard.Mem) (t : List (Nat × Nat × Nat)) (w : m.WF)
    (ht : Shard.LegalChunkTable m t) (uuid : Name) (pieces : List Bytes) (hp : pieces.flatten = (Shard.serialize m t).bytes)
    (hinv : ShardInv P ValidShard fs) :
    ∀ s ∈ crashStates (shardWriteFx P uuid (Shard.serialize m t).bytes pieces) fs,
      ShardWriteSafe P ValidShard fs s uuid (Shard.serialize m t).bytes :=
  forall_crashStates fun k => shardWrite_full P ValidShard fs uuid _ pieces hp hinv ⟨m, w, t, ht, rfl⟩ k

/-- **C19 for `MDBShardFile::write_out_from_reader`** (shard upload into the local store, keyed export, the merged
    shard of a consolidation).  `V` is any validity notion the reader's bytes satisfy (`fun _ => True` if nothing is
    known about them: then the invariant is just "name = hash of content"); every split of `io::copy`. -/
theorem C19_prefix_safe_write_out (P : HashPrims) (V : Bytes → Prop) (fs : FS Name) (content : Bytes) (hv : V content)
    (uuid : Name) (pieces : List Bytes) (hp : pieces.flatten = content) (hinv : ShardInv P V fs) :
    ∀ s ∈ crashStates (shardWriteFx P uuid content pieces) fs, ShardWriteSafe P V fs s uuid content :=
  forall_crashStates fun k => shardWrite_full P V fs uuid content pieces hp hinv hv k

/-- **C19 for `shard_file_op`** (`shard_file_union` / `shard_file_difference`): the output name `out` is the
    caller's.  If it is a name the scan accepts, it has to be the hash of the result (`hout`), otherwise the call
    itself would break the invariant even without a crash.  In every crash state: invariant; every other final-named
    file untouched; `out` holds what it held before or the complete result — never a part of it. -/
theorem C19_prefix_safe_union (P : HashPrims) (V : Bytes → Prop) (fs : FS Name) (uuid out : Name) (content : Bytes)
    (pieces : List Bytes) (hp : pieces.flatten = content) (hinv : ShardInv P V fs) (hne : tempShardName uuid ≠ out)
    (hout : shardFinal out = true → shardOk P out content ∧ V content) :
    ∀ s ∈ crashStates (shardFileOpFx uuid out pieces) fs,
      ShardInv P V s ∧ (∀ n, shardFinal n = true → n ≠ out → get s n = get fs n) ∧
      (get s out = get fs out ∨ get s out = some content) ∧ shardFinal (tempShardName uuid) = false :=
  forall_crashStates fun k => by
    obtain ⟨i1, i2, i3⟩ := shardFileOp_safe P V fs uuid out content pieces hp hinv hne hout k
    exact ⟨i1, i2, i3, shardFinal_temp uuid⟩

/-- **Any history of flushes, crashes and restarts.**  Starting from a directory satisfying the invariant, after any
    sequence of shard writes each of which may have been interrupted at any point (`k`), the invariant holds — so the
    hypothesis "prior state satisfies the invariant" of the theorems above is met after any prior history. -/
theorem C19_any_history_shard (P : HashPrims) (V : Bytes → Prop)
    (events : List (Name × Bytes × List Bytes × Nat)) (hev : ∀ e ∈ events, e.2.2.1.flatten = e.2.1 ∧ V e.2.1)
    (fs : FS Name) (hinv : ShardInv P V fs) :
    ShardInv P V (events.foldl (fun s e => run s ((shardWriteFx P e.1 e.2.1 e.2.2.1).take e.2.2.2)) fs) := by
  induction events generalizing fs with
  | nil => exact hinv
  | cons e es ih =>
    simp only [List.foldl_cons]
    apply ih (fun x hx => hev x (List.mem_cons_of_mem _ hx))
    exact (shardWrite_safe P V hexRT fs e.1 e.2.1 e.2.2.1 (hev e List.mem_cons_self).1 hinv (hev e List.mem_cons_self).2 e.2.2.2).1

/-! ## consolidation -/

/-- **C19 for `consolidate_shards_in_directory`.**  `dir`: the valid shard files of the session directory in the
    order the code sorted them (distinct names, each the serialization of a well-formed content, pairwise
    `verify_same_file`-compatible, record counts < 2^32 — the hypotheses of C10); `fs`: any state in which these files
    are in place and the invariant holds (leftovers and other files allowed); `oracle`: uuid and `io::copy` split of
    every round.  The rounds the code performs are `rs`, and — unless two distinct byte strings with the same data
    hash exist (explicit collision) — in EVERY crash state of the whole effect sequence
    (`create tmp; append…; rename tmp {hash}.mdb; unlink input; unlink input; …` round after round):
      (a) the invariant holds;
      (b) for every shard file visible before there is a visible shard file holding all its records
          (`ShardCovers`: the file record with at least its verification / metadata parts, a block for every xorb hash);
          the merged shard is in place before the first input is unlinked, and the shard just written is never
          unlinked (the `finished_shard_hashes` guard). -/
theorem C19_prefix_safe_consolidate (P : HashPrims) (target : Nat) (dir : List (Shard.DirShard × Shard.Mem))
    (hd : ∀ p ∈ dir, Shard.Holds p.1 p.2) (hc : Shard.DirCompat (dir.map (·.2)))
    (hsz : Shard.sumMap (fun p => p.2.fileRecs) dir < 4294967296) (hsc : Shard.sumMap (fun p => p.2.casRecs) dir < 4294967296)
    (hn : (dir.map (·.1.name)).Nodup) (fs : FS Name) (hfs : DirState P fs dir) (oracle : List (Name × List Bytes)) :
    DataHashCollision P ∨
    ∃ rs, consolidateRounds P target (dir.length + 1) (dir.map (·.1)) [] = .ok rs ∧
      (OracleOK rs oracle →
        ∀ s ∈ crashStates (roundsFx (zipRounds rs oracle)) fs,
          ShardInv P ValidShard s ∧ Cov SFinal SCov fs s) := by
  by_cases hcol : DataHashCollision P
  · exact Or.inl hcol
  · right
    have hnc : NoCollision P := by
      intro a b hab
      exact Classical.byContradiction fun hne => hcol ⟨a, b, hne, hab⟩
    obtain ⟨rs, hrun, hsafe⟩ := consolidateRounds_safe P hexRT hnc target (dir.map (·.2)) hc (dir.length + 1) dir []
      (fun p hp => ⟨List.mem_map.mpr ⟨p, hp, rfl⟩, hd p hp⟩) (by omega) hsz hsc hn
    refine ⟨rs, hrun, fun ho => forall_crashStates fun k => ?_⟩
    exact rounds_safe SFinal (SOk P) SCov (fun c => ShardCovers.refl c.2) (fun a b c => ShardCovers.trans a.2 b.2 c.2)
      _ fs hfs.inv (hsafe fs hfs oracle ho) k

/-- the effect sequence `consolidateFx` is the one of these rounds -/
theorem C19_consolidateFx (P : HashPrims) (target : Nat) (shards : List Shard.DirShard) (oracle : List (Name × List Bytes))
    (rs : List ConsRound) (h : consolidateRounds P target (shards.length + 1) shards [] = .ok rs) :
    consolidateFx P target shards oracle = .ok (roundsFx (zipRounds rs oracle)) := by
  simp [consolidateFx, h]

/-- **The rounds are those of C10's `consolidate`**: the shards written and the names deleted by the model of C10
    (`Shard.consolidate`, compared with the implementation by `shardop.consolidate`) are, in order, the merged shards
    and deletion lists of the rounds whose effects are analysed here. -/
theorem C19_rounds_agree_with_C10 (P : HashPrims) (target : Nat) (shards : List Shard.DirShard) (c : Shard.Consolidated)
    (h : Shard.consolidate P target shards = .ok c) :
    ∃ rs, consolidateRounds P target (shards.length + 1) shards [] = .ok rs ∧
      c.written = rs.map (·.merged) ∧ c.removed = rs.flatMap (·.removed) := by
  obtain ⟨rs, r1, r2, r3⟩ := consolidateRounds_agrees P target (shards.length + 1) shards [] ⟨[], [], []⟩ c h
  exact ⟨rs, r1, by simpa using r2, by simpa using r3⟩

/-- what `ShardCovers` gives to a reader: the records of the covered file are records of the covering file -/
theorem C19_covers_records (c' c : Bytes) (h : ShardCovers c' c) (m : Shard.Mem) (hm : HoldsB c m) :
    ∃ m', HoldsB c' m' ∧ (∀ f ∈ m.files, ∃ x ∈ m'.files, Shard.Covers x f) ∧ (∀ b ∈ m.cas, ∃ b' ∈ m'.cas, b'.hash = b.hash) := by
  obtain ⟨m', h1, h2⟩ := h m hm
  exact ⟨m', h1, h2.1, h2.2⟩

/-! ## `SafeFileCreator`, `LocalClient::put`, `DiskCache::put` -/

/-- **C19 for `SafeFileCreator`** under any naming discipline (`Final`, `Ok`): the temp name `t` is not a final name
    and differs from the destination, the complete content is consistent with the destination name.  Every crash state
    (incl. between the `rename` and the permission calls): invariant; all other final-named files untouched; the
    destination holds its old content or the complete new content.  (`create` is modelled as creating an empty file:
    `SafeFileCreator` opens without `O_TRUNC`, which is the same on a name that does not exist — the temp name carries
    10 random alphanumerics.) -/
theorem C19_prefix_safe_safe_file {Q : Type} [DecidableEq Q] (Final : Q → Prop) (Ok : Q → Bytes → Prop) (fs : FS Q)
    (t f : Q) (pieces : List Bytes) (chmods : Nat) (hinv : Inv Final Ok fs) (ht : ¬ Final t) (htf : t ≠ f)
    (hok : Final f → Ok f pieces.flatten) :
    ∀ s ∈ crashStates (safeFileFx t f pieces chmods) fs,
      Inv Final Ok s ∧ (∀ q, Final q → q ≠ f → get s q = get fs q) ∧ (get s f = get fs f ∨ get s f = some pieces.flatten) :=
  forall_crashStates fun k => safeFile_safe Final Ok fs t f pieces chmods hinv ht htf hok k

/-- **C19 for `LocalClient::put`.**  `Vx h c`: the object bytes `c` validate for the hash `h` (for the model's validator
    `Xorb.validate` this is what C08 proves of `serialize`d objects).  Every prior store state with the invariant, every
    random suffix, every split of the writes: in every crash state every `default.{hash}` file validates for its hash,
    every other xorb file is untouched, the new one is absent / as before or complete. -/
theorem C19_prefix_safe_local_put (Vx : Hash → Bytes → Prop) (fs : FS Name) (h : Hash) (dir rnd : Name) (obj : Bytes)
    (pieces : List Bytes) (hp : pieces.flatten = obj) (hinv : XorbInv Vx fs) (hv : Vx h obj) :
    ∀ s ∈ crashStates (localPutFx h dir rnd pieces) fs,
      XorbInv Vx s ∧ (∀ n, xorbFinal n = true → n ≠ xorbName h → get s n = get fs n) ∧
      (get s (xorbName h) = get fs (xorbName h) ∨ get s (xorbName h) = some obj) ∧
      xorbFinal (safeTempName (some dir) rnd) = false :=
  forall_crashStates fun k => by
    obtain ⟨i1, i2, i3⟩ := localPut_safe Vx hexRT fs h dir rnd obj pieces hp hinv hv k
    exact ⟨i1, i2, i3, xorbFinal_safeTemp _ _⟩

/-- the round of a cache put satisfies the conditions of `round_safe`: from the code's own facts (the item name
    encodes length and checksum of the bytes written; `item != cache_item` guards the deletion of subsumed items)
    and the two coverage facts `hover`, `hsub` about the caller's data -/
theorem cacheRound_ok (crc : Bytes → UInt32) (covers : Cache.Path × Bytes → Cache.Path × Bytes → Prop)
    (fs : FS Cache.Path) (k : Cache.Key) (it : Cache.Item) (rnd : Name) (pieces : List Bytes) (subsumed : List Cache.Item)
    (hr : it.start.toNat < it.stop.toNat) (hlen : pieces.flatten.length = it.len.toNat) (hcrc : crc pieces.flatten = it.crc)
    (hguard : ∀ sub ∈ subsumed, sub ≠ it)
    (hover : ∀ c, get fs (Cache.itemPath k it) = some c → covers (Cache.itemPath k it, pieces.flatten) (Cache.itemPath k it, c))
    (hsub : ∀ sub ∈ subsumed, ∀ c, get fs (Cache.itemPath k sub) = some c →
      covers (Cache.itemPath k it, pieces.flatten) (Cache.itemPath k sub, c)) :
    RoundOK (fun p => cacheFinal p = true) (cacheOk crc) covers fs (cacheRound k it rnd pieces subsumed) := by
  refine ⟨?_, ?_, ?_, hover, ?_, ?_⟩
  · simp [cacheRound, Cache.keyPath, cacheFinal_safeTemp]
  · simp [cacheRound, Cache.itemPath, cacheFinal, Cache.parseFileName_fileName it hr]
  · intro it' hit'
    simp only [cacheRound, Cache.itemPath, List.getLast?_cons_cons, List.getLast?_singleton, Option.getD_some] at hit'
    rw [Cache.parseFileName_fileName it hr] at hit'
    cases hit'
    exact ⟨hlen, hcrc⟩
  · intro p hp e
    obtain ⟨sub, hs, rfl⟩ := List.mem_map.mp hp
    exact hguard sub hs (Cache.itemPath_inj e).2
  · intro p hp c hc _
    obtain ⟨sub, hs, rfl⟩ := List.mem_map.mp hp
    exact hsub sub hs c hc

/-- **C19 for `DiskCache::put`** (after the "already cached?" check).  Prior cache directory with the invariant
    (every file whose name decodes as an item has the length and CRC-32 of its name), the item `it` whose name encodes
    length and checksum of the bytes written (`hlen`, `hcrc`), any random suffix, any split of the writes, any list of
    subsumed items (none equal to the new item: the code's guard) and ANY eviction choice (`evicted`, not the new item:
    the new item enters the in-memory state after the eviction loop).  In every crash state — also between the two
    `mkdir`s, during the writes, between `rename` and `chmod`, between any two `unlink` / `rmdir`:
      (a) the invariant holds;
      (b) every item file of the prior state that is not on the eviction list is still there unchanged, or the new item
          file is there and `covers` it.  `covers` is any relation for which the new item covers the subsumed items'
          files and a file already present under its own name (`hover`, `hsub`): these two facts are about the caller's
          data (items of one key are ranges of one content-addressed xorb), not about the crash; with
          `covers := fun _ _ => True` they are void and (a) plus "unchanged or the new item is in place" remain. -/
theorem C19_prefix_safe_cache_put (crc : Bytes → UInt32) (covers : Cache.Path × Bytes → Cache.Path × Bytes → Prop)
    (fs : FS Cache.Path) (k : Cache.Key) (it : Cache.Item) (rnd : Name) (pieces : List Bytes)
    (subsumed : List Cache.Item) (evicted : List (Cache.Key × Cache.Item × Nat)) (hinv : CacheInv crc fs)
    (hr : it.start.toNat < it.stop.toNat) (hlen : pieces.flatten.length = it.len.toNat) (hcrc : crc pieces.flatten = it.crc)
    (hguard : ∀ sub ∈ subsumed, sub ≠ it)
    (hover : ∀ c, get fs (Cache.itemPath k it) = some c → covers (Cache.itemPath k it, pieces.flatten) (Cache.itemPath k it, c))
    (hsub : ∀ sub ∈ subsumed, ∀ c, get fs (Cache.itemPath k sub) = some c →
      covers (Cache.itemPath k it, pieces.flatten) (Cache.itemPath k sub, c))
    (hev : ∀ e ∈ evicted, Cache.itemPath e.1 e.2.1 ≠ Cache.itemPath k it) :
    ∀ s ∈ crashStates (cachePutFx k it rnd pieces subsumed evicted) fs,
      CacheInv crc s ∧
      (∀ p c, get fs p = some c → cacheFinal p = true → p ∉ evicted.map (fun e => Cache.itemPath e.1 e.2.1) →
        get s p = some c ∨ ∃ c', get s (Cache.itemPath k it) = some c' ∧ covers (Cache.itemPath k it, c') (p, c)) ∧
      cacheFinal (Cache.keyPath k ++ [safeTempName (some (Cache.keyDirName k)) rnd]) = false :=
  forall_crashStates fun j => by
    obtain ⟨i1, i2⟩ := cachePut_safe crc covers fs k it rnd pieces subsumed evicted hinv
      (cacheRound_ok crc covers fs k it rnd pieces subsumed hr hlen hcrc hguard hover hsub) hev j
    exact ⟨i1, i2, by simp [Cache.keyPath, cacheFinal_safeTemp]⟩

/-- the item `put_impl` builds does encode the length of the bytes it writes (no `u64` wrap below 2^64) and their
    CRC-32: `hlen` and `hcrc` above hold for `it = mkItem crc r offs data`, content `headerBytes offs ++ data` -/
theorem C19_cache_item_name (crc : Bytes → UInt32) (r : Cache.Range) (offs : List Nat) (data : Bytes)
    (h64 : (Cache.headerBytes offs).length + data.length < 2 ^ 64) :
    (Cache.headerBytes offs ++ data).length = (Cache.mkItem crc r offs data).len.toNat ∧
    crc (Cache.headerBytes offs ++ data) = (Cache.mkItem crc r offs data).crc := by
  refine ⟨?_, rfl⟩
  simp only [Cache.mkItem, List.length_append]
  rw [UInt64.toNat_ofNat_of_lt' (by simpa using h64)]

/-! ## restart -/

/-- **Restart of a shard directory / of the local store** deletes nothing (`scan_impl`, `exists`): the state is the
    crash state, so the invariant established by the theorems above is the invariant after restart; what the scan
    lists (`visible`) are final names only, never a temp file. -/
theorem C19_reopen_inv_shard (P : HashPrims) (V : Bytes → Prop) (s : FS Name) (h : ShardInv P V s) :
    ShardInv P V s ∧ (∀ e ∈ visible shardFinal s, shardFinal e.1 = true) ∧
    (∀ u c, (tempShardName u, c) ∉ visible shardFinal s) ∧ (∀ d r c, (safeTempName d r, c) ∉ visible xorbFinal s) := by
  refine ⟨h, fun e he => (List.mem_filter.mp he).2, fun u c hm => ?_, fun d r c hm => ?_⟩
  · have := (List.mem_filter.mp hm).2
    simp [shardFinal_temp] at this
  · have := (List.mem_filter.mp hm).2
    simp [xorbFinal_safeTemp] at this

/-- **Restart of the chunk cache** (`initialize_state` / `try_parse_cache_file`): the scan deletes every file of a
    key directory whose name does not decode as an item or whose length differs from the length in its name (unless
    it is larger than the capacity: then it is left alone and not tracked).  After it: the invariant still holds; every
    remaining file of capacity size or less in a key directory has a decodable name and exactly the length of its name
    — in particular no temp file of `SafeFileCreator` of that size remains (cleaned up), and a wrong-length file under an
    item name would have been removed even if the invariant had not held. -/
theorem C19_reopen_inv_cache (crc : Bytes → UInt32) (cap : Nat) (s : FS Cache.Path) (h : CacheInv crc s) :
    CacheInv crc (cleanup (cacheScanRemoves cap) s) ∧
    (∀ a b name c, get (cleanup (cacheScanRemoves cap) s) [a, b, name] = some c → c.length ≤ cap →
      ∃ it, Cache.parseFileName name = some it ∧ c.length = it.len.toNat) ∧
    (∀ a b d r c, get (cleanup (cacheScanRemoves cap) s) [a, b, safeTempName (some d) r] = some c → cap < c.length) := by
  have key : ∀ a b name c, get (cleanup (cacheScanRemoves cap) s) [a, b, name] = some c → c.length ≤ cap →
      ∃ it, Cache.parseFileName name = some it ∧ c.length = it.len.toNat := by
    intro a b name c hg hc
    rw [get_cleanup] at hg
    cases hs : get s [a, b, name] with
    | none => simp [hs] at hg
    | some c0 =>
      rw [hs] at hg
      by_cases hrm : cacheScanRemoves cap [a, b, name] c0 = true
      · simp [hrm] at hg
      · simp [hrm] at hg
        subst hg
        simp only [cacheScanRemoves, Cache.parseCacheFile, beq_iff_eq] at hrm
        have hc' : ¬ c0.length > cap := by omega
        simp only [hc', if_false] at hrm
        cases hp : Cache.parseFileName name with
        | none => simp [hp] at hrm
        | some it =>
          simp only [hp] at hrm
          by_cases hl : c0.length ≠ it.len.toNat
          · simp [hl] at hrm
          · exact ⟨it, rfl, by simpa using hl⟩
  refine ⟨inv_cleanup _ h, key, fun a b d r c hg => ?_⟩
  refine Classical.byContradiction fun hle => ?_
  obtain ⟨it, hit, _⟩ := key a b _ c hg (by omega)
  rw [parseFileName_safeTemp] at hit
  cases hit

/-! ## non-vacuity -/

section Examples

/-- content hash = (length, byte sum) -/
private def exP : HashPrims :=
  ⟨fun b => ⟨UInt64.ofNat b.length, UInt64.ofNat (b.foldl (fun a x => a + x.toNat) 0), 0, 0⟩,
   fun _ => Hash.zero, fun _ => Hash.zero, fun _ _ => Hash.zero⟩

private def exUuid : Name := [97, 98, 99]
private def exOld : Bytes := [9, 9]
/-- prior state: one complete shard file, one leftover temp file of an earlier crash, one unrelated file -/
private def exFs : FS Name := [(shardName (exP.dataHash exOld), exOld), (tempShardName [122], [1]), ([104, 105], [7])]

/-- the prior state satisfies the invariant (with the trivial validity notion) -/
example : ShardInv exP (fun _ => True) exFs := by
  intro p c hp hf
  simp only [exFs, get] at hp
  split at hp
  · cases hp; rename_i h; subst h; exact ⟨shardOk_shardName exP hexRT exOld, trivial⟩
  · split at hp
    · rename_i h; subst h; simp [shardFinal_temp] at hf
    · split at hp
      · rename_i h; subst h
        have : shardFinal [104, 105] = false := by decide
        rw [this] at hf; cases hf
      · cases hp

/-- a flush of the content [1,2,3] written as two pieces has 5 crash states: nothing, empty temp, temp with the first
    piece, temp complete, renamed — the old shard file is in all of them, the new name only in the last -/
example : (crashStates (shardWriteFx exP exUuid [1, 2, 3] [[1], [2, 3]]) exFs).map
      (fun s => (get s (tempShardName exUuid), get s (shardName (exP.dataHash [1, 2, 3])), get s (shardName (exP.dataHash exOld))))
    = [(none, none, some exOld), (some [], none, some exOld), (some [1], none, some exOld), (some [1, 2, 3], none, some exOld),
       (none, some [1, 2, 3], some exOld)] := by decide +kernel

/-- names: a shard name, a temp name, a xorb name -/
example : shardFinal (shardName (exP.dataHash exOld)) = true ∧ shardFinal (tempShardName exUuid) = false ∧
    xorbFinal (xorbName (exP.dataHash exOld)) = true ∧ xorbFinal (safeTempName (some [120]) [65, 66]) = false ∧
    parseEntryName (xorbName (exP.dataHash exOld)) = some (exP.dataHash exOld) ∧ parseEntryName (safeTempName (some [120]) [65, 66]) = none := by
  decide +kernel

open Shard in
private def cB : CasInfo := ⟨⟨6, 0, 0, 0⟩, 0, 0, 0, 0, []⟩
open Shard in
private def fB9 : FileInfo := ⟨⟨9, 0, 0, 0⟩, 0, 0, 0, [], [], none⟩
open Shard in
private def exA : Mem := ⟨[fB9], [cB]⟩
open Shard in
private def exE : Mem := ⟨[], []⟩
open Shard in
private def shardOf (m : Mem) : DirShard := ⟨exP.dataHash (serializeStable m).bytes, (serializeStable m).bytes⟩

attribute [local instance] Shard.decEqExcept in
/-- the guard in the effect sequence: consolidating a shard with an empty shard writes a merged shard with the first
    shard's own name (the `rename` lands on it) and unlinks only the empty shard; the hypotheses of
    `C19_prefix_safe_consolidate` hold for this directory -/
example : exA.WF ∧ exE.WF ∧ ((consolidateRounds exP 2500 3 [shardOf exA, shardOf exE] []).map
      fun rs => rs.map fun r => (r.merged.name, r.removed)) = .ok [((shardOf exA).name, [(shardOf exE).name])] ∧
    [(shardOf exA).name, (shardOf exE).name].Nodup := by decide +kernel

/-- a cache put of an item [2,5) subsuming [3,4), with one eviction that empties a key directory: the effect sequence
    has 11 effects, and its content-changing part is one round plus the evicted unlink -/
example : (cachePutFx [1] ⟨2, 5, 3, 77⟩ [65] [[1], [2, 3]] [⟨3, 4, 1, 5⟩] [([2], ⟨0, 1, 9, 9⟩, 2)]).length = 11 ∧
    (strip (cachePutFx [1] ⟨2, 5, 3, 77⟩ [65] [[1], [2, 3]] [⟨3, 4, 1, 5⟩] [([2], ⟨0, 1, 9, 9⟩, 2)])).length = 6 := by
  decide +kernel

end Examples

end Xet.CrashFS

/-! ### The freshness assumption is tied to the source

The write theorems above take the temp name as a parameter that does not exist yet in the directory (`SafeFileCreator`
opens its temp path without truncation, so a longer leftover under the same name would leak its tail into the published
file).  The constant extractor checks on every run that `SafeFileCreator::temp_file_path` still draws
`Gen.tempNameRandomChars` random alphanumeric characters and that every `.…mdb_temp` name is a fresh v4 uuid; the bound
below is what "does not exist yet" rests on. -/
theorem Xet.CrashFS.C19_temp_name_entropy : 2 ^ 59 ≤ 62 ^ Xet.Gen.tempNameRandomChars ∧ 2 ≤ Xet.Gen.mdbTempUuidSites := by
  decide

