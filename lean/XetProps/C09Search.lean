/-
C09 (search part) — "Shard files answer every lookup exactly as the data they were built from … at any
table size and key distribution, with up to seven entries sharing a truncated prefix": the lookup
primitive `search_on_sorted_u64s` (mdb_shard/src/interpolation_search.rs).

Model: `XetModel/InterpSearch.lean` (`search`, statement by statement; dev-profile `u64` arithmetic and
table reads are *checked*, so `search … = .ok r` says: no underflow, no overflow, no read outside the
table, both loops terminate).  The float expression of `compute_probe_location` is an arbitrary
function `φ`; every theorem below is for **every** `φ`, every table size, every key distribution, every
capacity, every window `W ≥ 1` and back-step `D ≥ 1`.  Lemmas: `XetProofs/InterpSearch.lean`
(loop invariant of DESIGN.md Appendix A.1).
-/
import XetProofs.InterpSearch
import XetModel.Generated.Consts

namespace Xet.InterpSearch

/-! ### side conditions on the constants of the Rust source (regenerated on every check run) -/

/-- The proof needs `1 ≤ EXPECTED_MAX_NUM_DUPLICATES` and `1 ≤ READ_WINDOW_SIZE` (the design expected
    `1 ≤ D ≤ W`; `D ≤ W` turned out not to be needed, it is recorded here all the same). -/
theorem C09_search_constants_ok :
    1 ≤ Gen.expectedMaxNumDuplicates ∧ 1 ≤ Gen.readWindowSize ∧
    Gen.expectedMaxNumDuplicates ≤ Gen.readWindowSize := by decide

/-- the parameters of the production code for a call with `result.len() = cap`. -/
def prodParams (cap readStart pairSize : Nat) : Params :=
  ⟨Gen.readWindowSize, Gen.expectedMaxNumDuplicates, cap, readStart, pairSize⟩

/-- For the production constants the side conditions reduce to: positions, byte offsets and the key
    are `u64` values (`num_entries + READ_WINDOW_SIZE + 1`, `read_start + num_entries * pair_size` and
    `key` do not exceed `u64::MAX`). -/
theorem C09_search_bounds_production (cap readStart pairSize : Nat) (t : Table) (key : Nat)
    (hN : t.n + Gen.readWindowSize + 1 ≤ u64Max) (hB : readStart + t.n * pairSize ≤ u64Max)
    (hK : key ≤ u64Max) : Bounds (prodParams cap readStart pairSize) t key :=
  ⟨C09_search_constants_ok.1, C09_search_constants_ok.2.1, hN, hB, hK⟩

/-! ### the checked primitives mean what they say -/

/-- `csub` succeeds exactly when the `u64` subtraction does not underflow, `cadd`/`cmul` exactly when
    the result fits `u64`, a table read exactly when the entry offset is inside the table (position
    `off + 1 ∈ [1, n]`) — so an `.ok` result of `search` certifies all of these for every operation it
    performed. -/
theorem C09_search_checked_ops (t : Table) (a b off : Nat) :
    ((∃ r, csub a b = .ok r) ↔ b ≤ a) ∧ ((∃ r, cadd a b = .ok r) ↔ a + b ≤ u64Max) ∧
    ((∃ r, cmul a b = .ok r) ↔ a * b ≤ u64Max) ∧
    ((∃ r, readKey t off = .ok r) ↔ off < t.n) ∧ ((∃ r, readVal t off = .ok r) ↔ off < t.n) := by
  refine ⟨?_, ?_, ?_, ?_, ?_⟩
  · unfold csub; split <;> simp_all
  · unfold cadd; split <;> simp_all
  · unfold cmul; split <;> simp_all
  · unfold readKey; split <;> simp_all
  · unfold readVal; split <;> simp_all

/-! ### the property -/

/-- **Safety and termination.**  For every sorted table, every probe function `φ` (so: whatever the
    floating-point unit computes), every key and capacity, under the side conditions `Bounds`
    (`1 ≤ D`, `1 ≤ W`, sizes fit `u64`): the search returns normally.  By construction of the model
    this says that none of its `u64` subtractions underflows (in particular `probe_index - 1`,
    `probe_index - (lo + 1)`, `probe_index -= jump_amount`, `candidate_probe_index - probe_index`,
    `hi - 1`, `key - lo_key`, `hi_key - lo_key`, `hi - lo`), no addition or multiplication overflows,
    every entry it reads is one of the `n` table entries (positions `[1, n]`), and both loops
    terminate (the fuel `n + 2` / `n + 1` is never exhausted). -/
theorem C09_search_safe (φ : Probe) (p : Params) (t : Table) (key : Nat)
    (hs : Sorted t) (hb : Bounds p t key) : ∃ r, search φ p t key = .ok r := by
  obtain ⟨r, _, h, _⟩ := search_spec φ p t key hs hb
  exact ⟨r, h⟩

/-- **Strongest form.**  The returned slice is the first `cap` elements of an arrangement of *all*
    values stored under the key (each stored value recorded exactly once). -/
theorem C09_search_arrangement (φ : Probe) (p : Params) (t : Table) (key : Nat)
    (hs : Sorted t) (hb : Bounds p t key) :
    ∃ r full, search φ p t key = .ok r ∧ List.Perm full (valuesAt t key) ∧ r.out = full.take p.cap :=
  search_spec φ p t key hs hb

/-- **Lookup correctness** (`keys` sorted non-decreasing; for every `φ`, `key`, capacity).
    Let `stored = valuesAt t key` be the values at all positions holding `key`.
    * fewer than `cap` of them: the result is a permutation of `stored` — all of them, nothing else
      (absent key: the empty result);
    * `cap` or more: the result has exactly `cap` entries and is, as a multiset, contained in `stored`
      (every returned value is stored under the key, none is returned more often than it is stored). -/
theorem C09_search (φ : Probe) (p : Params) (t : Table) (key : Nat)
    (hs : Sorted t) (hb : Bounds p t key) :
    ∃ r, search φ p t key = .ok r ∧
      ((valuesAt t key).length < p.cap → r.out.Perm (valuesAt t key)) ∧
      (p.cap ≤ (valuesAt t key).length →
        r.out.length = p.cap ∧ ∀ v, r.out.count v ≤ (valuesAt t key).count v) := by
  obtain ⟨r, full, h, hperm, hout⟩ := search_spec φ p t key hs hb
  refine ⟨r, h, ?_, ?_⟩
  · intro hlt
    rw [hout, List.take_of_length_le (by rw [hperm.length_eq]; omega)]
    exact hperm
  · intro hge
    constructor
    · rw [hout, List.length_take, hperm.length_eq]; omega
    · intro v
      rw [hout, ← hperm.count_eq v]
      exact (List.take_sublist _ _).count_le v

/-- membership form of the second case, and of the first: every returned value is stored under the key. -/
theorem C09_search_sound (φ : Probe) (p : Params) (t : Table) (key : Nat)
    (hs : Sorted t) (hb : Bounds p t key) :
    ∃ r, search φ p t key = .ok r ∧ ∀ v ∈ r.out, v ∈ valuesAt t key := by
  obtain ⟨r, full, h, hperm, hout⟩ := search_spec φ p t key hs hb
  refine ⟨r, h, ?_⟩
  intro v hv
  rw [hout] at hv
  exact hperm.mem_iff.mp (List.mem_of_mem_take hv)

/-! ### the same for a table given as a list of `(key, value)` pairs -/

theorem valsIn_ofList_cons (x : Nat × Nat) (xs : List (Nat × Nat)) (key : Nat) : ∀ (cnt a : Nat),
    valsIn (Table.ofList (x :: xs)) key (a + 1) cnt = valsIn (Table.ofList xs) key a cnt := by
  intro cnt
  induction cnt with
  | zero => intro a; simp [valsIn]
  | succ c ih =>
    intro a
    simp only [valsIn]
    rw [ih (a + 1)]
    simp [Table.ofList]

theorem valuesAt_ofList (l : List (Nat × Nat)) (key : Nat) :
    valuesAt (Table.ofList l) key = (l.filter (fun e => e.1 = key)).map (·.2) := by
  induction l with
  | nil => simp [valuesAt, valsIn, Table.ofList]
  | cons x xs ih =>
    unfold valuesAt at ih ⊢
    have hn : (Table.ofList (x :: xs)).n = (Table.ofList xs).n + 1 := by simp [Table.ofList]
    rw [hn]
    simp only [valsIn]
    rw [valsIn_ofList_cons, ih]
    by_cases h : x.1 = key <;> simp [Table.ofList, h]

theorem sorted_ofList (l : List (Nat × Nat)) (h : l.Pairwise (fun a b => a.1 ≤ b.1)) :
    Sorted (Table.ofList l) := by
  intro a b hab hb
  have hb' : b < l.length := hb
  rcases Nat.lt_or_eq_of_le hab with hlt | heq
  · have := (List.pairwise_iff_getElem.mp h) a b (by omega) hb' hlt
    simpa [Table.ofList, List.getD, List.getElem?_eq_getElem hb',
      List.getElem?_eq_getElem (show a < l.length by omega)] using this
  · subst heq; exact Nat.le_refl _

/-- **Lookup correctness, list form.**  `tbl` is the sequence of `(key, value)` records in file order,
    keys non-decreasing; `stored` are the values of the records whose key is `key`. -/
theorem C09_search_list (φ : Probe) (p : Params) (tbl : List (Nat × Nat)) (key : Nat)
    (hs : tbl.Pairwise (fun a b => a.1 ≤ b.1)) (hb : Bounds p (Table.ofList tbl) key) :
    ∃ r, search φ p (Table.ofList tbl) key = .ok r ∧
      (((tbl.filter (fun e => e.1 = key)).map (·.2)).length < p.cap →
        r.out.Perm ((tbl.filter (fun e => e.1 = key)).map (·.2))) ∧
      (p.cap ≤ ((tbl.filter (fun e => e.1 = key)).map (·.2)).length →
        r.out.length = p.cap ∧
        ∀ v, r.out.count v ≤ ((tbl.filter (fun e => e.1 = key)).map (·.2)).count v) := by
  have := C09_search φ p (Table.ofList tbl) key (sorted_ofList tbl hs) hb
  rwa [valuesAt_ofList] at this

/-- **The production instance** (`W`, `D` = the constants regenerated from the Rust source): for every
    sorted table whose size fits `u64` with room for the window, every key, every capacity and whatever
    the float unit returns, the lookup is safe and returns all values of the key when there are fewer
    than `cap` — in particular `get_file_info_index_by_hash` (capacity 8) sees *all* of up to seven
    entries sharing a truncated hash, and sees exactly 8 (⇒ its collision error) when there are more. -/
theorem C09_search_production (φ : Probe) (cap readStart pairSize : Nat) (t : Table) (key : Nat)
    (hs : Sorted t) (hN : t.n + Gen.readWindowSize + 1 ≤ u64Max)
    (hB : readStart + t.n * pairSize ≤ u64Max) (hK : key ≤ u64Max) :
    ∃ r, search φ (prodParams cap readStart pairSize) t key = .ok r ∧
      ((valuesAt t key).length < cap → r.out.Perm (valuesAt t key)) ∧
      (cap ≤ (valuesAt t key).length →
        r.out.length = cap ∧ ∀ v, r.out.count v ≤ (valuesAt t key).count v) :=
  C09_search φ (prodParams cap readStart pairSize) t key hs
    (C09_search_bounds_production cap readStart pairSize t key hN hB hK)

/-! ### Non-vacuity -/

/-- 12 entries, key 3 stored three times, absent keys 2 and 4 adjacent to it, duplicates 9,9 too. -/
def exList : List (Nat × Nat) :=
  [(1, 100), (3, 101), (3, 102), (3, 103), (7, 104), (9, 105), (9, 106), (12, 107), (15, 108),
   (20, 109), (21, 110), (30, 111)]
def exTable : Table := Table.ofList exList
/-- a small window so that the 12-entry table goes through the probing loop: `W = 2`, `D = 1`. -/
def exParams (cap : Nat) : Params := ⟨2, 1, cap, 0, 12⟩

example : exList.Pairwise (fun a b => a.1 ≤ b.1) := by decide
example : Sorted exTable := sorted_ofList exList (by decide)
example : Bounds (exParams 8) exTable 3 := ⟨by decide, by decide, by decide, by decide, by decide⟩
/-- the hypotheses of `C09_search` hold for this table and the conclusion is about a non-empty answer. -/
example : valuesAt exTable 3 = [101, 102, 103] := by decide
-- the model evaluated by the kernel, with the code's own probe function: all three values (in the
-- order batch-then-scan), an absent neighbour on each side, capacity smaller than the multiplicity
example : (search interpProbe (exParams 8) exTable 3).toOption.map (·.out) = some [102, 103, 101] := by decide
example : (search interpProbe (exParams 8) exTable 2).toOption.map (·.out) = some [] := by decide
example : (search interpProbe (exParams 8) exTable 4).toOption.map (·.out) = some [] := by decide
example : (search interpProbe (exParams 2) exTable 3).toOption.map (·.out) = some [102, 103] := by decide
-- a different (adversarial) probe function gives another arrangement of the same values
example : (search (fun _ _ _ _ _ => 1000) (exParams 8) exTable 3).toOption.map (·.out) = some [103, 102, 101] := by
  decide
example : (search (fun _ _ _ _ _ => 1000) (exParams 8) exTable 3).toOption.map (·.seeks) =
    some [11, 9, 7, 5, 3, 2, 1, 0] := by decide

def errOf {α : Type} : Except Err α → Option Err
  | .ok _ => none
  | .error e => some e

/-- the side conditions are needed: with `D = 0` the `Equal` arm does not make progress (for a probe
    function that lands on the key while the window is still open the Rust loop would spin forever,
    recording the same value again and again; the model runs out of fuel), with `W = 0` and an empty table `probe_index - 1`
    underflows. -/
example : errOf (search (fun _ _ _ _ _ => 1000) ⟨2, 0, 8, 0, 12⟩ exTable 3) = some .fuel := by decide
example : errOf (search interpProbe ⟨0, 1, 8, 0, 12⟩ (Table.ofList []) 3) = some .underflow := by decide

/-- 600 entries, every key stored three times (`key off = 7 * (off / 3)`): large enough for the
    production window (256) to go through the probing loop. -/
def exBig : Table := ⟨600, fun o => o / 3 * 7, fun o => 1000 + o⟩

theorem exBig_sorted : Sorted exBig := by
  intro a b hab _
  exact Nat.mul_le_mul_right 7 (Nat.div_le_div_right hab)

example : Bounds (prodParams 8 48 12) exBig 595 :=
  C09_search_bounds_production 8 48 12 exBig 595 (by decide) (by decide) (by decide)
-- production constants, the code's probe function: `Greater`, then `Equal` with a batch of two, then
-- the final scan picks up the third; seeks at entry offsets 0, 256, then the scan from offset 1
example : (search interpProbe (prodParams 8 48 12) exBig 595).toOption =
    some ⟨[1256, 1257, 1255], [0, 256, 1]⟩ := by decide +kernel
-- `Greater`, `Greater`, `Less`, scan; absent neighbours of a present key
example : (search interpProbe (prodParams 8 48 12) exBig 700).toOption =
    some ⟨[1300, 1301, 1302], [0, 256, 512, 257]⟩ := by decide +kernel
example : (search interpProbe (prodParams 8 48 12) exBig 699).toOption.map (·.out) = some [] := by decide +kernel
example : (search interpProbe (prodParams 8 48 12) exBig 701).toOption.map (·.out) = some [] := by decide +kernel
example : (search interpProbe (prodParams 2 48 12) exBig 700).toOption.map (·.out) = some [1300, 1301] := by
  decide +kernel

end Xet.InterpSearch
