/-
C05 — Deduplication answers are truthful.

  "Whenever a dedup lookup reports that the first n query hashes are stored in xorb X at chunks [a, a+n),
   then X's recorded chunk hashes at those positions are the queried hashes (directly, or under the shard's
   HMAC key) and the reported byte count is the sum of those chunks' lengths.  This holds for the in-memory
   index, for on-disk shards, … and when truncated 64-bit hash prefixes collide."

Model: `XetModel/ShardFormat.lean` (`memDedup`, `MemShard.dedup`, `dedupDirect`, `dedupQuery`,
`dedupCandidates`), helpers in `XetProofs/ShardFormat.lean`.

* `C05_mem…`     the in-memory index (`MDBInMemoryShard::chunk_hash_dedup_query`), for every shard reachable
                 from the empty one by `add_cas_block` / `add_file_reconstruction_info` / `union` / `difference`.
* `C05_direct`, `C05_disk`, `C05_first_n`
                 the on-disk readers (`chunk_hash_dedup_query_direct`, `chunk_hash_dedup_query`) on an
                 **arbitrary byte string**, any footer, any HMAC key (zero = unkeyed), any candidate list —
                 so truncated-prefix collisions and arbitrary chunk-table contents are covered by construction:
                 the answer is justified by the bytes actually read, never by the table.
* `C05_disk_wf`  on `serialize m t` for well-formed `m` and any legal chunk table the answer names a block
                 `X ∈ m.cas` and is `Truthful` for it.
`Truthful k chunks casHash q a` (defined in `XetProofs/ShardFormat.lean`) is DESIGN's
`1 ≤ n ≤ |q| ∧ X.hash = fse.cas_hash ∧ fse.end = fse.start + n ≤ |X.chunks| ∧
 ∀ i < n, X.chunks[start+i].hash = k q[i] ∧ fse.bytes = Σ_{i<n} X.chunks[start+i].len`.
The shard-manager layers (`C05_manager`, `C05_local`) are not part of this file.
-/
import XetProofs.ShardFormat

namespace Xet.Shard

/-! ## in-memory index -/

/-- **The in-memory matching loop is truthful** — for *every* block `c`, start position and query (no
    invariant needed): whenever the loop reports `n ≠ 0`, the answer is `Truthful` for `c` (positions
    `[start, start+n)` of `c.chunks` carry exactly `q[0..n)`, `n ≤ |q|`, the range lies inside the block,
    bytes = sum of those chunks' lengths, `cas_hash = c.hash`) and starts at `start`. -/
theorem C05_mem_loop (c : CasInfo) (start : Nat) (q : List Hash) (h : (memDedup c start q).n ≠ 0) :
    Truthful id c.chunks c.hash q (memDedup c start q) ∧ (memDedup c start q).seg.cstart = start :=
  memDedup_truthful c start q h

/-- the degenerate answer `(0, default entry)` arises exactly when the chunk at `start` does not carry `q[0]`
    (or does not exist) — i.e. only if the lookup map pointed at a wrong position. -/
theorem C05_mem_zero_iff (c : CasInfo) (start : Nat) (q : List Hash) :
    (memDedup c start q).n = 0 ↔ ¬ ∃ ch, c.chunks[start]? = some ch ∧ q[0]? = some ch.hash :=
  memDedup_zero_iff c start q

/-- **Invariant of `chunk_hash_lookup`.**  In every shard reachable from the empty one by `add_cas_block`,
    `add_file_reconstruction_info`, `union`, `difference` (any arguments, including re-added and replaced
    blocks and duplicate chunk hashes), every map entry `h ↦ (c, i)` satisfies `c.chunks[i].hash = h`. -/
theorem C05_lookup_invariant (s : MemShard) (hs : s.Reachable) :
    ∀ e ∈ s.lookup, ∃ ch, e.2.1.chunks[e.2.2]? = some ch ∧ ch.hash = e.1 :=
  hs.lookupOK

/-- **C05 for the in-memory index.**  For every reachable shard and every query, an answer `(n, fse)` of
    `chunk_hash_dedup_query` has `n ≥ 1` and is `Truthful` for the block `X` the lookup map holds for `q[0]`,
    at the recorded position. -/
theorem C05_mem (s : MemShard) (hs : s.Reachable) (q : List Hash) (a : DedupAnswer) (h : s.dedup q = some a) :
    ∃ q0 X start, (q0, X, start) ∈ s.lookup ∧ q.head? = some q0 ∧ a.seg.cstart = start ∧
      Truthful id X.chunks X.hash q a := by
  obtain ⟨e, he, h1, h2, h3⟩ := s.dedup_truthful hs.lookupOK q a h
  exact ⟨e.1, e.2.1, e.2.2, he, h1, h2, h3⟩

/-- index form of truthfulness (what `Truthful.hashes` says position by position). -/
theorem C05_truthful_index {k : Hash → Hash} {chunks : List Chunk} {casHash : Hash} {q : List Hash} {a : DedupAnswer}
    (t : Truthful k chunks casHash q a) (i : Nat) (hi : i < a.n) :
    ∃ c qh, chunks[a.seg.cstart + i]? = some c ∧ q[i]? = some qh ∧ c.hash = k qh :=
  t.hash_at i hi

/-! ## on-disk readers, arbitrary bytes -/

/-- **C05 for `chunk_hash_dedup_query_direct`** — for *every* byte string `b`, footer `ft` (any HMAC key), query,
    and location hint `(casIdx, chunkOff)`: if the call answers `Some (n, fse)` then (`DirectTruthful`)
    `1 ≤ n ≤ |q|`, `fse.start = chunkOff`, `fse.end = chunkOff + n`; the 48 bytes at
    `cas_info_offset + 48·casIdx` parse as a block header `hd` with `fse.cas_hash = hd.hash`,
    `fse.cas_flags = hd.flags`, and `chunkOff + n ≤ hd.numEntries` provided `chunkOff < hd.numEntries`
    (the loop's end test is the equality `chunkOff + i = num_entries`, so a hint at or past the block end is not
    stopped by it); and the `n` records at positions `chunkOff … chunkOff+n-1` after that header parse as chunk
    records whose hashes are `keyed(q[0]), …, keyed(q[n-1])` in this order and whose lengths sum to `fse.bytes`. -/
theorem C05_direct (P : HashPrims) (b : Bytes) (ft : Footer) (q : List Hash) (casIdx chunkOff : Nat) (a : DedupAnswer)
    (h : dedupDirect P b ft q casIdx chunkOff = .ok (some a)) : DirectTruthful P b ft q casIdx chunkOff a :=
  dedupDirect_truthful P b ft q casIdx chunkOff a h

/-- **C05 for `chunk_hash_dedup_query`** — for every byte string, footer, query and **every** candidate list the
    chunk-table search may have returned (right or wrong rows, colliding prefixes, any order, any length):
    an answer is the answer of the direct query at one of the candidates, hence justified by the bytes read there. -/
theorem C05_disk (P : HashPrims) (b : Bytes) (ft : Footer) (q : List Hash) (cands : List (Nat × Nat)) (a : DedupAnswer)
    (h : dedupQuery P b ft q cands = .ok (some a)) :
    ∃ cc ∈ cands, DirectTruthful P b ft q cc.1 cc.2 a := by
  obtain ⟨cc, hcc, hd⟩ := dedupQuery_some P b ft q cands a h
  exact ⟨cc, hcc, dedupDirect_truthful P b ft q cc.1 cc.2 a hd⟩

/-- **The answer refers to the first `n` query hashes** (a prefix, never a later window): for every `i < n` the
    record read at position `start + i` of the answering block carries `keyed(q[i])`. -/
theorem C05_first_n (P : HashPrims) (b : Bytes) (ft : Footer) (q : List Hash) (cands : List (Nat × Nat)) (a : DedupAnswer)
    (h : dedupQuery P b ft q cands = .ok (some a)) :
    a.n ≤ q.length ∧ ∃ cc ∈ cands, a.seg.cstart = cc.2 ∧ ∀ i < a.n, ∃ c qh,
      parseChunk b (ft.casInfoOff + recSize * cc.1 + recSize * (1 + a.seg.cstart + i)) = .ok c ∧
      q[i]? = some qh ∧ c.hash = keyedHash P ft.hmacKey qh := by
  obtain ⟨cc, hcc, d⟩ := C05_disk P b ft q cands a h
  refine ⟨d.n_le, cc, hcc, d.cstart, ?_⟩
  intro i hi
  obtain ⟨cs, c1, c2, c3, _⟩ := d.chunks
  obtain ⟨c, g1, g2⟩ := c2 i hi
  have hq : i < q.length := by have := d.n_le; omega
  have h3 := congrArg (fun l => l[i]?) c3
  simp only [List.getElem?_map, List.getElem?_take, hi, if_true, g1, Option.map_some,
    List.getElem?_eq_getElem hq] at h3
  refine ⟨c, q[i], ?_, by simp [hq], by simpa using h3⟩
  rw [d.cstart]; exact g2

/-! ## on-disk readers, serialized well-formed shards -/

/-- **C05 on serialized shards.**  For every well-formed content `m`, every legal chunk table `t` (any key-sorted
    permutation the unstable sort may produce) and every candidate list drawn from rows of `t` (in particular
    all rows sharing the truncated prefix of `q[0]`, whether or not their full hash equals it): an answer of
    `chunk_hash_dedup_query` on `serialize m t` names a block `X ∈ m.cas` and is `Truthful` for it (unkeyed). -/
theorem C05_disk_wf (P : HashPrims) (m : Mem) (t : List (Nat × Nat × Nat)) (w : m.WF) (ht : LegalChunkTable m t)
    (q : List Hash) (cands : List (Nat × Nat)) (hc : ∀ cc ∈ cands, ∃ k, (k, cc.1, cc.2) ∈ t) (a : DedupAnswer)
    (h : dedupQuery P (serialize m t).bytes (serialize m t).footer q cands = .ok (some a)) :
    ∃ X ∈ m.cas, Truthful id X.chunks X.hash q a :=
  dedupQuery_serialize_truthful P m t w ht q cands hc a h

/-- the candidates the table search (by its specification `searchSpec`) yields on a serialized shard are rows of
    the table with the truncated key of `q[0]`; so `C05_disk_wf` applies to the real query path. -/
theorem C05_disk_wf_candidates (P : HashPrims) (m : Mem) (t : List (Nat × Nat × Nat)) (w : m.WF)
    (ht : LegalChunkTable m t) (q0 : Hash) (qs : List Hash) (a : DedupAnswer) :
    ∃ cands, dedupCandidates P (serialize m t).bytes (serialize m t).footer q0 = .ok cands ∧
      (dedupQuery P (serialize m t).bytes (serialize m t).footer (q0 :: qs) cands = .ok (some a) →
        ∃ X ∈ m.cas, Truthful id X.chunks X.hash (q0 :: qs) a) := by
  obtain ⟨cands, h1, h2, _⟩ := dedupCandidates_serialize P m t w ht q0
  exact ⟨cands, h1, fun h => C05_disk_wf P m t w ht _ cands (fun cc hcc => ⟨_, h2 cc hcc⟩) a h⟩

/-! ## non-vacuity -/

section Examples

attribute [local instance] decEqExcept

private def hA (n : Nat) : Hash := ⟨7, UInt64.ofNat n, 0, 0⟩      -- all share the truncated prefix 7
private def exChunks : List Chunk := [⟨hA 1, 10, 0, 0⟩, ⟨hA 2, 20, 10, 0⟩, ⟨hA 3, 30, 30, 0⟩]
private def exCas : CasInfo := ⟨⟨9, 9, 9, 9⟩, 0, 3, 60, 50, exChunks⟩
private def exCas2 : CasInfo := ⟨⟨3, 1, 1, 1⟩, 0, 2, 25, 20, [⟨hA 2, 20, 0, 0⟩, ⟨hA 9, 5, 20, 0⟩]⟩
private def exShard : MemShard := (MemShard.empty.addCas exCas).addCas exCas2
private def exMem : Mem := exShard.mem
private def exP : HashPrims := ⟨fun _ => Hash.zero, fun _ => Hash.zero, fun _ => Hash.zero, fun _ _ => Hash.zero⟩

/-- reachable, and a query matching two chunks in the middle of a block, then diverging -/
example : exShard.Reachable := .addCas _ (.addCas _ .empty)
example : exShard.dedup [hA 1, hA 2, hA 7] = some ⟨2, ⟨exCas.hash, 0, 30, 0, 2⟩⟩ := by decide +kernel
/-- duplicate chunk hash `hA 2`: the map's last writer (`exCas2`, position 0) answers -/
example : exShard.dedup [hA 2, hA 3] = some ⟨1, ⟨exCas2.hash, 0, 20, 0, 1⟩⟩ := by decide +kernel

example : exMem.WF := by decide +kernel
/-- on the serialized shard: all five chunk rows share the truncated key 7; the search returns them all, four are
    rejected by the full-hash comparison and the fifth answers (the run then stops at the block end) -/
example : dedupCandidates exP (serializeStable exMem).bytes (serializeStable exMem).footer (hA 3)
    = .ok [(0, 0), (0, 1), (3, 0), (3, 1), (3, 2)] := by decide +kernel
example : dedupQuery exP (serializeStable exMem).bytes (serializeStable exMem).footer [hA 3, hA 4]
    [(0, 0), (0, 1), (3, 0), (3, 1), (3, 2)] = .ok (some ⟨1, ⟨exCas.hash, 0, 30, 2, 3⟩⟩) := by decide +kernel
/-- a hint at the block end (`chunkOff = numEntries = 2` of the first block) is not stopped by the loop's equality
    test: the next block's header is read as a chunk record, and a query that happens to start with that block's
    *xorb* hash is answered with chunks `[2, 4)` of a two-chunk block.  This is why `C05_direct` states the
    in-block bound only for `chunkOff < numEntries`; rows of a legal chunk table always satisfy it (`C05_disk_wf`). -/
example : dedupDirect exP (serializeStable exMem).bytes (serializeStable exMem).footer [exCas.hash, hA 1, hA 5] 0 2
    = .ok (some ⟨2, ⟨exCas2.hash, 0, 13, 2, 4⟩⟩) := by decide +kernel

end Examples

end Xet.Shard
