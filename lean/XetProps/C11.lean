/-
C11 (first sentence) — Every chunk that a finalized session stored in a new xorb is recorded in that
session's shards.

Model: `XetModel/Dedup.lean` (`Sess.registerXorb` = `UploadSessionDataManager::register_new_xorb`,
`Sess.processAgg` = `process_aggregated_data_as_xorb` after the `fix:` commit for F1, `Sess.fileDone`,
`Sess.finish`); histories: `XetProofs/DedupResolveWorld.lean`.  No hypothesis at all: the theorems hold
for every history (legal or not), every limits, every hash primitives, every defrag decision procedure.
That a chunk recorded in a registered shard is then *found* by a later session is `C11_lookup_complete`
(shard lookup, C09/C11 of the shard slice), not this file.
-/
import XetProofs.DedupResolveWorld

namespace Xet.Dedup

open Xet.Shard (Seg FileInfo CasInfo Chunk)

theorem res_casEntries_hashes (pos : Nat) (cs : List DChunk) :
    (casEntries pos cs).map (·.hash) = cs.map (·.hash) := by
  induction cs generalizing pos with
  | nil => rfl
  | cons c rest ih => simp [casEntries, ih]

/-- **C11_recorded (statement).**  After every history of a session followed by `finalize`, every xorb
    handed to `put` — cut in the middle of a file (`register_new_xorb`) or from the session aggregate
    (`process_aggregated_data_as_xorb`, `finalize_impl`) — has its CAS info among the `add_cas_block`
    calls of the session. -/
def C11_recorded_statement : Prop :=
  ∀ (P : HashPrims) (L : Limits) (allow : Defrag → Nat → Decision) (evs : List Ev),
    ∀ x ∈ (finished P L allow World.init evs).sess.puts,
      x.casInfo ∈ (finished P L allow World.init evs).sess.casRegistered

theorem C11_recorded : C11_recorded_statement :=
  fun P L allow evs => res_recorded_finished P L allow evs

/-- the same at every moment of the session, not only after `finalize` -/
theorem C11_recorded_always (P : HashPrims) (L : Limits) (allow : Defrag → Nat → Decision) (evs : List Ev) :
    ∀ x ∈ (run P L allow World.init evs).sess.puts, x.casInfo ∈ (run P L allow World.init evs).sess.casRegistered :=
  res_recorded_run P L allow evs World.init (by intro x hx; simp [World.init, Sess.init] at hx)

/-- chunk-level reading: every chunk of every uploaded xorb appears, under the xorb's name and with
    its hash, in a CAS info block registered in the session's shard. -/
theorem C11_chunks_recorded (P : HashPrims) (L : Limits) (allow : Defrag → Nat → Decision) (evs : List Ev) :
    ∀ x ∈ (finished P L allow World.init evs).sess.puts, ∀ c ∈ x.chunks,
      ∃ ci ∈ (finished P L allow World.init evs).sess.casRegistered,
        ci.hash = x.hash ∧ ∃ e ∈ ci.chunks, e.hash = c.hash := by
  intro x hx c hc
  refine ⟨x.casInfo, C11_recorded P L allow evs x hx, rfl, ?_⟩
  have : c.hash ∈ (casEntries 0 x.chunks).map (·.hash) := by
    rw [res_casEntries_hashes]; exact List.mem_map.mpr ⟨c, hc, rfl⟩
  obtain ⟨e, he, heq⟩ := List.mem_map.mp this
  exact ⟨e, he, heq⟩

/-! ### When may a found run be stored again?  (the second sentence of C11 and fragmentation prevention)

`FileDeduper::process_chunks` asks `DefragPrevention::allow_dedup_on_next_range(n)` before it accepts a dedup run of `n`
chunks that does not continue the current segment; a rejected run is stored again as new data.  These three facts delimit the
recorded finding `repeat-upload-bytes-withheld-by-fragmentation-prevention`: nothing is ever rejected before 128 ranges have
been recorded for the file; a run of at least 8 chunks is never rejected; and a short run after 128 one-chunk ranges IS
rejected (so "re-uploading … transfers no new chunk bytes" fails of the code for heavily fragmented files). -/

/-- with fewer than 128 recorded ranges every run is accepted (and the estimator is left as it is) -/
theorem C11_defrag_warmup (d : Defrag) (n : Nat) (h : d.window.length < nranges) :
    (d.allowNext n).allow = true ∧ (d.allowNext n).st = d := by
  simp [Defrag.allowNext, h]

/-- a run of at least `MIN_N_CHUNKS_PER_RANGE` = 8 chunks is accepted in every state of the estimator -/
theorem C11_defrag_long_run_accepted (d : Defrag) (n : Nat) (h : Gen.minChunksPerRange ≤ n) : (d.allowNext n).allow = true := by
  have h8 : 8 ≤ n := h
  simp only [Defrag.allowNext]
  by_cases hw : d.window.length < nranges
  · simp [hw]
  · by_cases hl : d.low = true
    · by_cases ht : d.total < Gen.minChunksPerRangeLowX2 * nranges / 2
      · have hn : ¬ (n * nranges < d.total) := by
          simp only [nranges, Gen.nrangesInFragmentationEstimator, Gen.minChunksPerRangeLowX2] at *; omega
        simp [hw, hl, ht, hn]
      · simp [hw, hl, ht]
    · by_cases ht : d.total < Gen.minChunksPerRange * nranges
      · have hn : ¬ (n * nranges < d.total) := by
          simp only [nranges, Gen.nrangesInFragmentationEstimator, Gen.minChunksPerRange] at *; omega
        simp [hw, hl, ht, hn]
      · simp [hw, hl, ht]

/-- the witness of the finding: after 128 ranges of one chunk each, a found run of 1..0 chunks — here one chunk, not longer
    than the average — is rejected, in both threshold states -/
theorem C11_defrag_short_run_rejected :
    ((⟨List.replicate 128 1, 128, true⟩ : Defrag).allowNext 0).allow = false ∧
    ((⟨List.replicate 128 2, 256, false⟩ : Defrag).allowNext 1).allow = false := by
  simp [Defrag.allowNext, nranges, Gen.nrangesInFragmentationEstimator, Gen.minChunksPerRange, Gen.minChunksPerRangeLowX2]

/-! ### non-vacuity: a history that puts two xorbs (one mid-file, one from the aggregate) -/

section Example

private def ex11P : HashPrims :=
  ⟨fun b => ⟨UInt64.ofNat (b.foldl (fun a x => a * 31 + x.toNat + 1) 7), 1, 2, 3⟩,
   fun b => ⟨UInt64.ofNat (b.foldl (fun a x => a * 33 + x.toNat + 1) 5), 4, 5, 6⟩,
   fun b => ⟨UInt64.ofNat b.length, 7, 8, 9⟩,
   fun k b => ⟨UInt64.ofNat (k.length + b.length), 10, 11, 12⟩⟩

private def ex11Chunk (n : Nat) : DChunk := ⟨ex11P.dataHash [UInt8.ofNat n, 1], [UInt8.ofNat n, 1]⟩

private def ex11History : List Ev :=
  [.call 1 ⟨[ex11Chunk 1, ex11Chunk 2, ex11Chunk 3], [none, none, none], 0, 0⟩, .done 1 [] Hash.zero]

example : ((finished ex11P ⟨100, 2⟩ Defrag.allowNext World.init ex11History).sess.puts.map (·.chunks.length)) = [2, 1] := by
  decide +kernel

end Example

end Xet.Dedup
