/-
C04 — Chunking is a deterministic, content-defined, bounded function of the stream.

Model: `XetModel/Chunker.lean` (`next`, `nextBlock`, `feed` follow `Chunker::next/next_block/finish`
statement for statement; `auto`/`specSplit` is the reference gear-hash rule, one byte at a time).
All theorems hold for every `Params` with `minC < maxC` (what `Chunker::new` asserts), every byte
stream and every partition of it into calls.
-/
import XetProofs.Chunker

namespace Xet.Chunker

/-- `Chunker::new` only ever produces parameters with `minimum_chunk < maximum_chunk`. -/
theorem C04_params_ok (target d m : Nat) (p : Params) (h : mkParams target d m = some p) :
    p.minC < p.maxC ∧ p.minC = target / d ∧ p.maxC = target * m := by
  unfold mkParams at h
  split at h
  · simp at h; subst h; simp_all
  · simp at h

/-- the production constants (regenerated from the Rust source) are accepted by `Chunker::new`. -/
theorem C04_production_params :
    ∃ p, mkParams Gen.targetChunkSize Gen.minimumChunkDivisor Gen.maximumChunkMultiplier = some p ∧
      p.minC < p.maxC ∧ 64 < p.minC ∧ Gen.hashWindowSize = 64 := by
  refine ⟨_, rfl, ?_⟩
  decide

/-- **Partition independence / equality with the reference rule.**  Feeding the stream in any
    pieces (`next_block(piece, false)` for each, then `finish`) yields exactly the chunks of the
    reference automaton on the concatenation.  Hence any two partitions of one stream agree. -/
theorem C04_partition_independent (p : Params) (hmm : p.minC < p.maxC) (parts : List Bytes) :
    feed p parts = specSplit p parts.flatten :=
  feed_eq_specSplit p hmm parts

theorem C04_any_two_partitions (p : Params) (hmm : p.minC < p.maxC) (parts₁ parts₂ : List Bytes)
    (h : parts₁.flatten = parts₂.flatten) : feed p parts₁ = feed p parts₂ := by
  rw [feed_eq_specSplit p hmm, feed_eq_specSplit p hmm, h]

/-- **Chunks concatenate to exactly the input.** -/
theorem C04_concat_spec (p : Params) (data : Bytes) : (specSplit p data).flatten = data := by
  have := auto_flatten p St.init [] data
  simp only [specSplit]
  split
  · simp_all
  · simpa using this

theorem C04_concat (p : Params) (hmm : p.minC < p.maxC) (parts : List Bytes) :
    (feed p parts).flatten = parts.flatten := by
  rw [feed_eq_specSplit p hmm, C04_concat_spec]

theorem Good_init (p : Params) (hmm : p.minC < p.maxC) : Good p St.init [] := by
  simp [Good, St.init]; omega

/-- **Bounds.**  Every chunk is non-empty and at most `maxC` bytes. -/
theorem C04_bounds_all (p : Params) (hmm : p.minC < p.maxC) (data : Bytes) :
    ∀ c ∈ specSplit p data, 0 < c.length ∧ c.length ≤ p.maxC := by
  intro c hc
  have hb := auto_chunk_bounds p hmm St.init [] data (Good_init p hmm)
  have hg := auto_good p hmm St.init [] data (Good_init p hmm)
  simp only [specSplit] at hc
  split at hc
  · exact ⟨(hb c hc).1, (hb c hc).2.1⟩
  · rename_i hne
    rcases List.mem_append.mp hc with h | h
    · exact ⟨(hb c h).1, (hb c h).2.1⟩
    · simp at h; subst h
      refine ⟨List.length_pos_iff.mpr hne, ?_⟩
      have := hg.1; have := hg.2; omega

/-- every chunk except the stream's last is at least `minC − 64` bytes. -/
theorem C04_bounds_min (p : Params) (hmm : p.minC < p.maxC) (data : Bytes) :
    ∀ c ∈ (specSplit p data).dropLast, p.minC ≤ c.length + 64 := by
  intro c hc
  have hb := auto_chunk_bounds p hmm St.init [] data (Good_init p hmm)
  simp only [specSplit] at hc
  split at hc
  · exact (hb c (List.dropLast_subset _ hc)).2.2
  · simp at hc
    exact (hb c hc).2.2

/-- **Content-defined.**  If `c` is a complete chunk of the reference rule (the automaton started
    at a boundary cuts exactly at the end of `c`), then wherever `c` occurs at a boundary it is
    re-chunked identically, and what follows is chunked as if it started the stream: boundaries
    depend only on the bytes since the previous boundary. -/
theorem C04_content_defined (p : Params) (c rest : Bytes)
    (hc : auto p St.init [] c = ⟨[c], St.init, []⟩) :
    specSplit p (c ++ rest) = c :: specSplit p rest := by
  simp only [specSplit, auto_append, hc, Run.andThen]
  split <;> simp_all

/-- iterated form: a stream that is a concatenation of complete chunks splits into exactly them. -/
theorem C04_content_defined_list (p : Params) (cs : List Bytes) (rest : Bytes)
    (hc : ∀ c ∈ cs, auto p St.init [] c = ⟨[c], St.init, []⟩) :
    specSplit p (cs.flatten ++ rest) = cs ++ specSplit p rest := by
  induction cs with
  | nil => simp
  | cons c cs ih =>
    simp only [List.flatten_cons, List.append_assoc, List.cons_append]
    rw [C04_content_defined p c _ (hc c (by simp)), ih (fun c' h => hc c' (by simp [h]))]

/-- every completed chunk of the reference rule is itself "a complete chunk" in the above sense
    (so the hypothesis of `C04_content_defined` is met by every non-final chunk of every stream). -/
theorem C04_chunks_are_complete (p : Params) (data : Bytes) :
    ∀ c ∈ (auto p St.init [] data).chunks, auto p St.init [] c = ⟨[c], St.init, []⟩ := by
  -- generalised over the start state: a chunk completed from `(s, acc)` is `acc ++ consumed` and
  -- re-running from `(s, acc)` over the consumed bytes cuts exactly at their end.
  suffices H : ∀ (data : Bytes) (s : St) (acc : Bytes),
      (∀ c ∈ ((auto p s acc data).chunks).drop 1, auto p St.init [] c = ⟨[c], St.init, []⟩) ∧
      (∀ c, (auto p s acc data).chunks.head? = some c →
        ∃ xs, c = acc ++ xs ∧ auto p s acc xs = ⟨[c], St.init, []⟩) by
    intro c hc
    obtain ⟨h1, h2⟩ := H data St.init []
    cases hch : (auto p St.init [] data).chunks with
    | nil => rw [hch] at hc; simp at hc
    | cons c0 cs =>
      rw [hch] at hc h1
      rcases List.mem_cons.mp hc with rfl | hmem
      · obtain ⟨xs, hxs, ha⟩ := h2 c (by rw [hch]; rfl)
        simp at hxs; subst hxs; exact ha
      · exact h1 c (by simpa using hmem)
  intro data
  induction data with
  | nil => intro s acc; simp [auto]
  | cons x xs ih =>
    intro s acc
    simp only [auto]
    split
    · rename_i hcut
      obtain ⟨i1, i2⟩ := ih (stepByte p s x).st []
      constructor
      · intro c hc
        simp only [List.drop_succ_cons, List.drop_zero] at hc
        cases hch : (auto p (stepByte p s x).st [] xs).chunks with
        | nil => rw [hch] at hc; simp at hc
        | cons c0 cs =>
          rw [hch] at hc i1
          rcases List.mem_cons.mp hc with rfl | hmem
          · obtain ⟨ys, hys, ha⟩ := i2 c (by rw [hch]; rfl)
            simp at hys; subst hys
            rw [stepByte_cut_st p s x hcut] at ha
            exact ha
          · exact i1 c (by simpa using hmem)
      · intro c hc
        simp at hc; subst hc
        refine ⟨[x], rfl, ?_⟩
        simp [auto, hcut, stepByte_cut_st p s x hcut]
    · rename_i hcut
      obtain ⟨i1, i2⟩ := ih (stepByte p s x).st (acc ++ [x])
      refine ⟨i1, ?_⟩
      intro c hc
      obtain ⟨ys, hys, ha⟩ := i2 c hc
      refine ⟨x :: ys, by simp [hys], ?_⟩
      simp only [auto, hcut]
      exact ha

/-- **Safety of the `usize` arithmetic** (dev builds panic on underflow): under the struct
    invariant `cur_chunk_len = chunkbuf.len() < maximum_chunk`, which every call re-establishes,
    each `next` call on non-empty data consumes between 1 and `data.len()` bytes, consumes
    everything when it returns no chunk (the two `debug_assert`s), and the invariant is kept. -/
theorem C04_next_safe (p : Params) (hmm : p.minC < p.maxC) (s : State) (hR : Rel p s) (data : Bytes)
    (hne : data ≠ []) :
    1 ≤ (nextScan p s data).consumed ∧ (nextScan p s data).consumed ≤ data.length ∧
    ((nextScan p s data).create = false →
        (nextScan p s data).consumed = data.length ∧ Rel p (nextScan p s data).st) := by
  obtain ⟨h1, h2, _, _, h5⟩ := nextScan_spec p hmm s hR data hne
  exact ⟨h1, h2, fun h => ⟨(h5 h).1, (h5 h).2.2⟩⟩

/-! ### Non-vacuity: a concrete parameter set and stream exercising skip, match and forced cut. -/

def exParams : Params := ⟨80, 100, maskOf 128⟩   -- skip region = first 15 bytes, forced cut at 100

example : exParams.minC < exParams.maxC := by decide

/-- 230 bytes of a fixed pattern: the reference rule produces more than one chunk, one of them by
    the forced cut, and the code-shaped layer fed byte-by-byte agrees (evaluated by the kernel). -/
def exStream : Bytes := (List.range 230).map (fun i => UInt8.ofNat ((i * 37 + i / 7) % 256))

example : (specSplit exParams exStream).length ≥ 2 := by decide +kernel
example : feed exParams [exStream.take 7, [], (exStream.drop 7).take 1, (exStream.drop 8).take 100, exStream.drop 108]
    = specSplit exParams exStream := by decide +kernel
example : (specSplit exParams exStream).any (fun c => c.length == 100) = true := by decide +kernel

end Xet.Chunker
