/-
C13 — Chunk-cache accounting is exact and the capacity bound holds.

Model: `XetModel/Cache.lean` (step-granular concurrent semantics of `chunk_cache/src/disk.rs`,
`fixed = true` = the code after the F10 fix, `fixed = false` = the code before it).
Theorems quantify over every interleaving (`List Action`), every oracle value (eviction choices,
deletion order) and every CRC function.
-/
import XetProofs.CacheFiles

namespace Xet.Cache

/-- **Accounting is exact in every reachable state.**  From any state with exact counters (in
    particular the empty cache), after any sequence of steps of any number of threads — any
    interleaving of puts and gets at schedule-point granularity, including identical items
    inserted concurrently, any eviction choices — `num_items` is the number of tracked entries and
    `total_bytes` the sum of their lengths. -/
theorem C13_exact (crc : Bytes → UInt32) (w w' : World) (as : List Action)
    (h0 : Exact w.st) (h : run crc true w as = some w') :
    w'.st.numItems = cnt w'.st.items ∧ w'.st.totalBytes = byt w'.st.items :=
  (run_pres crc true as w w' h0.weak h).2 rfl h0

/-- no step of the (fixed) semantics ever hits the arithmetic-underflow panic of a lock section:
    the mutex is never poisoned -/
theorem C13_commit_no_underflow (fixed : Bool) (cap : Nat) (st : CState) (k : Key) (it : Item)
    (choices : List EvChoice) (h : Weak st) : commit fixed cap st k it choices ≠ .panic := by
  have := commit_spec fixed cap st k it choices h
  intro e; rw [e] at this; exact this

/-- **Capacity bound.**  If the counters are exact and the new item is not larger than the
    capacity, then after the commit section of `put` (for every legal sequence of eviction
    choices) `total_bytes ≤ capacity`. -/
theorem C13_capacity (cap : Nat) (st : CState) (k : Key) (it : Item) (choices : List EvChoice) (out : CommitOut)
    (hex : Exact st) (hlen : it.len.toNat ≤ cap) (h : commit true cap st k it choices = .ok out) :
    out.st.totalBytes ≤ cap ∧ Exact out.st := by
  have := commit_spec true cap st k it choices hex.weak
  rw [h] at this
  have := this.2 rfl hex
  exact ⟨this.2 hlen, this.1⟩

/-- **The code before the F10 fix**: the item count is exact and the byte total is never too
    small (so nothing underflows) in every reachable state … -/
theorem C13_prefix_weak (crc : Bytes → UInt32) (w w' : World) (as : List Action)
    (h0 : Weak w.st) (h : run crc false w as = some w') :
    w'.st.numItems = cnt w'.st.items ∧ byt w'.st.items ≤ w'.st.totalBytes :=
  (run_pres crc false as w w' h0 h).1

/-- **Every cache file on disk belongs to a tracked entry at every quiescent point.**  Start from
    an empty cache directory; after any interleaving of puts and gets of any number of threads
    (any eviction choices, any order of the deferred deletions, identical items inserted
    concurrently), in every state where all threads are idle or finished: every file at an item
    path is the file of a tracked entry.  (While threads are running, a file may instead be owed
    by a thread: written and about to be committed, or on a deferred-deletion list — `FileInv`.)
    The state lock is never poisoned. -/
theorem C13_files_tracked (crc : Bytes → UInt32) (cap n : Nat) (as : List Action) (w : World)
    (hr : run crc true (World.fresh cap n) as = some w) (hq : quiescent w = true) :
    (∀ k it c, fileAt w.fs (itemPath k it) c → TrackedItem w.st k it) ∧ w.poisoned = false := by
  have h := run_qinv crc true as _ w (qinv_fresh cap n) hr
  refine ⟨?_, h.lock⟩
  intro k it c hf
  rcases h.files k it c hf with h1 | h1
  · exact h1
  · exact absurd h1 (not_pending_of_quiescent hq k it)

/-- the converse inclusion is *not* an invariant: a deferred deletion that races with a new put
    of the same item leaves a tracked entry without file; it is dropped when it is read
    (`get` → `File::open` fails → `remove_item`).  What is proved about it: reading an entry
    whose file is gone removes it from the state (the first segment of the loop of `get`). -/
theorem C13_read_back_drops (crc : Bytes → UInt32) (w : World) (op : Op) (c : Cell)
    (hgone : FS.get w.fs (itemPath op.key c.item) = none) :
    getMatchedSeg crc w op c = removeSeg w op c.item := by
  unfold getMatchedSeg
  rw [hgone]

/-- **Full statement of the disk part of C13** (kept as a statement): at a quiescent point, after
    every tracked entry was read back, the totals equal what is on disk.  Proved parts: exact
    counters (`C13_exact`), files ⊆ tracked (`C13_files_tracked`), reading an entry without file
    drops it (`C13_read_back_drops`).  Not proved: the counting argument (no duplicate entries,
    so that equal sets give equal sums).  Observation made with the suite `cache_conc`: an entry
    nested in an *earlier* entry of its key can never be the first match of a `get`, so it cannot
    be read back at all; such an entry stays stale until it is evicted or subsumed. -/
def C13_disk_full : Prop :=
  ∀ (crc : Bytes → UInt32) (cap n : Nat) (as : List Action) (w : World),
    run crc true (World.fresh cap n) as = some w → quiescent w = true →
    (∀ k c, Tracked w.st k c → ∃ content, fileAt w.fs (itemPath k c.item) content) →
    w.st.numItems = (w.fs.filter fun e => match e.2 with | .file _ => true | .dir => false).length ∧
    w.st.totalBytes = ((w.fs.filter fun e => match e.2 with | .file _ => true | .dir => false).map
      fun e => match e.2 with | .file c => c.length | .dir => 0).sum

/-- **Re-opening** (kept as a statement): after `reopen` of the directory a quiescent cache left
    behind, with the same capacity, the counters are exact, every cache file is tracked and the
    byte total is within the capacity.  Not proved: it needs that two scanned key directories
    never decode to the same key (true of directories the cache creates — the key directory name
    is an injective encoding and lives under its own 2-character prefix — but false for planted
    case-variant prefix directories, where `HashMap::insert` replaces an entry that was already
    counted).  Checked by the suite `cache_seq` at every re-open (1 200 re-opens with the same
    capacity in the quick tier). -/
def C13_reopen_exact : Prop :=
  ∀ (crc : Bytes → UInt32) (cap n : Nat) (as : List Action) (w w' : World) (order : List Path),
    run crc true (World.fresh cap n) as = some w → quiescent w = true → orderLegal w.fs order = true →
    reopen true w w.fs cap order = some w' →
    Exact w'.st ∧ (w.st.totalBytes ≤ cap → w'.st.totalBytes ≤ cap) ∧
    (∀ k it c, fileAt w'.fs (itemPath k it) c → it.len.toNat ≤ cap → TrackedItem w'.st k it)

/-! ### F10: the pre-fix step function violates exactness (witness schedule) -/

def f10Key : Key := [1, 2, 3]
def f10Op : Op := .put f10Key ⟨0, 1⟩ [0, 1] [7]
def f10World : World := ⟨CState.empty, [], 1000, false, [.idle, .idle]⟩
/-- both threads pass `find_match` before either commits -/
def f10Schedule : List Action :=
  [.start 0 f10Op, .start 1 f10Op, .go 0 {}, .go 1 {}, .go 0 {}, .go 1 {}]

/-- … but `total_bytes` is too large after two simultaneous identical puts: one entry of 13 bytes
    is tracked, `total_bytes = 26`. -/
theorem C13_prefix_F10_witness :
    (run (fun _ => 0) false f10World f10Schedule).map
      (fun w => (w.st.numItems, cnt w.st.items, w.st.totalBytes, byt w.st.items, quiescent w))
      = some (1, 1, 26, 13, true) := by
  decide

/-- the same schedule with the repaired commit step is exact -/
example :
    (run (fun _ => 0) true f10World f10Schedule).map
      (fun w => (w.st.numItems, cnt w.st.items, w.st.totalBytes, byt w.st.items, quiescent w))
      = some (1, 1, 13, 13, true) := by
  decide

/-! ### Non-vacuity of `C13_capacity`: a commit that has to evict -/

/-- capacity 20: after `put` of a 13-byte item under key `[1,2,3]`, a `put` of a 13-byte item
    under key `[9]` evicts the first one (oracle choice `([1,2,3], 0)`), deletes its file and
    its directories; counters exact, within the capacity, one file on disk (+ its two directories) -/
example :
    (run (fun _ => 0) true ⟨CState.empty, [], 20, false, [.idle]⟩
      [.start 0 f10Op, .go 0 {}, .go 0 {},
       .start 0 (.put [9] ⟨0, 1⟩ [0, 1] [7]), .go 0 {}, .go 0 ⟨[(f10Key, 0)], 0⟩, .go 0 {}]).map
      (fun w => (w.st.numItems, cnt w.st.items, w.st.totalBytes, byt w.st.items, quiescent w, w.fs.length))
      = some (1, 1, 13, 13, true, 3) := by
  decide

end Xet.Cache
