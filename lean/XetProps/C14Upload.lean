/-
C14, last clause — "the reported xorb and shard upload bytes equal what was actually handed to the store".

Model: `XetModel/UploadBytes.lean`, a byte-accounting layer over the upload bookkeeping model of C16
(`XetModel/Uploads.lean`): every spawned `put` task adds the byte count its put returned to the session's
`xorb_bytes_uploaded` accumulator iff the put succeeded; `finalize_impl` joins every task, checks the failure latch, and only
then takes the metrics; `upload_and_register_session_shards` returns the summed shard lengths iff every shard upload succeeded.

Quantifier of every theorem: every event sequence `evs : List EvB` from `SB.init` — any number of registered xorbs with any
byte counts, every completion order and outcome of every put, `finalize` at any point with any outcomes of the still-running
puts and any list of (shard length, accepted?) pairs, arbitrary events afterwards.  "Handed to the store" is defined
independently of the accumulator: `SB.handed` = the summed byte counts of the tasks whose put returned `Ok` (`okSum`), and
`shardHanded` = the summed lengths of the shards the store accepted.

The projection `C14_upload_layer_projects` makes every C16 theorem a statement about the same runs.

RESTS ON (modelled, not verified): as C16 (tokio `JoinSet`, atomic reap loop), plus: the accumulator update of a task is atomic
(it happens under the metrics mutex), and a put's return value is what the store accepted.  The tie to the code is the
`up.bytes` operation of suite `session_faults` (real `FileUploadSession` with an instrumented store; the reported numbers of
the implementation are compared with this model's, and with the store's own ledger by monitors).
-/
import XetProofs.UploadBytes

namespace Xet.UploadBytes
open Xet.Uploads

/-- The byte layer is a conservative extension of the C16 model: its bookkeeping component is exactly the C16 run of the
    projected events (for both variants of the layer). -/
theorem C14_upload_layer_projects (early : Bool) (evs : List EvB) :
    (runB early SB.init evs).s = run S.init (evs.map EvB.toEv) := runB_proj early SB.init evs

/-- **The accumulator is exact at every moment**: in every reachable state `xorb_bytes_uploaded` equals the bytes of the puts
    that have returned `Ok` — never more (nothing is counted that the store did not accept) and never less. -/
theorem C14_xorb_accumulator_exact (evs : List EvB) :
    (runB false SB.init evs).metric = (runB false SB.init evs).handed :=
  (binv_reachable evs).metric

/-- **Reported xorb bytes = bytes handed to the store.**  If `finalize` returned `Ok`, the `xorb_bytes_uploaded` it reports is
    the sum of the byte counts of *all* puts of the session, each of which the store accepted. -/
theorem C14_xorb_upload_bytes_exact (evs : List EvB) :
    (runB false SB.init evs).s.finalized = some true →
      (runB false SB.init evs).reportedXorb = some (runB false SB.init evs).handed ∧
      (runB false SB.init evs).handed = (runB false SB.init evs).sizes.sum ∧
      (runB false SB.init evs).sizes.length = (runB false SB.init evs).s.tasks.length ∧
      (∀ t ∈ (runB false SB.init evs).s.tasks, taskOk t = true) := by
  intro h
  have hI := binv_reachable evs
  have hall : ∀ t ∈ (runB false SB.init evs).s.tasks, taskOk t = true := by
    intro t ht
    obtain ⟨i, hi⟩ := List.getElem?_of_mem ht
    exact hI.inv.fin_ok h i t hi
  refine ⟨?_, okSum_all_ok _ _ hI.len hall, hI.len, hall⟩
  rw [hI.xorb h, hI.metric]; rfl

/-- **Reported shard bytes = shard bytes the store accepted**, and every shard was accepted. -/
theorem C14_shard_upload_bytes_exact (evs : List EvB) :
    (runB false SB.init evs).s.finalized = some true →
      (runB false SB.init evs).reportedShard = some (runB false SB.init evs).shardHanded :=
  (binv_reachable evs).shard

/-- **Reported total = everything handed to the store**: xorb bytes of all puts plus the bytes of all (accepted) shards. -/
theorem C14_total_upload_bytes_exact (evs : List EvB) :
    (runB false SB.init evs).s.finalized = some true →
      (runB false SB.init evs).reportedTotal =
        some ((runB false SB.init evs).shardHanded + (runB false SB.init evs).handed) := by
  intro h
  unfold SB.reportedTotal
  rw [(C14_xorb_upload_bytes_exact evs h).1, C14_shard_upload_bytes_exact evs h]

/-- Nothing is reported by a session that did not finalize successfully. -/
theorem C14_upload_bytes_only_on_success (evs : List EvB) :
    (runB false SB.init evs).s.finalized ≠ some true →
      (runB false SB.init evs).reportedXorb = none ∧ (runB false SB.init evs).reportedShard = none :=
  fun h => ⟨(binv_reachable evs).xorb_none h, (binv_reachable evs).shard_none h⟩

/-- The accumulator never exceeds the bytes of all registered puts (a failed put contributes nothing). -/
theorem C14_xorb_accumulator_bounded (evs : List EvB) :
    (runB false SB.init evs).metric ≤ (runB false SB.init evs).sizes.sum := by
  rw [(binv_reachable evs).metric]; exact okSum_le_sum _ _

/-- **Why the metrics must be taken after the join loop** (defect F3, repaired by `fix:` 8f59dbe): in the variant that takes
    them first, a session whose put is still running when `finalize` is called reports success and 0 uploaded bytes
    although 100 bytes were handed to the store. -/
theorem C14_upload_bytes_needs_take_after_join :
    ∃ evs : List EvB, (runB true SB.init evs).s.finalized = some true ∧
      (runB true SB.init evs).reportedXorb = some 0 ∧ (runB true SB.init evs).handed = 100 :=
  ⟨[.register true 100, .finalize false 0 [true] [(40, true)]], by decide⟩

/-! ### the hypotheses are satisfiable, the conclusions are not trivial -/

/-- two xorbs (one completes before `finalize`, one inside its join loop), a last one registered by `finalize`, two shards -/
def sampleHistory : List EvB :=
  [.register true 100, .register true 250, .complete 1 true, .register false 0,
   .finalize true 70 [true, true] [(40, true), (48, true)]]

example : (runB false SB.init sampleHistory).s.finalized = some true ∧
    (runB false SB.init sampleHistory).reportedXorb = some 420 ∧
    (runB false SB.init sampleHistory).reportedShard = some 88 ∧
    (runB false SB.init sampleHistory).handed = 420 ∧
    (runB false SB.init sampleHistory).shardHanded = 88 := by decide

/-- a failed put: the accumulator holds only the accepted bytes, `finalize` fails, nothing is reported -/
example : (runB false SB.init [.register true 100, .register true 250, .complete 0 false, .complete 1 true,
      .finalize false 0 [] [(40, true)]]).metric = 250 ∧
    (runB false SB.init [.register true 100, .register true 250, .complete 0 false, .complete 1 true,
      .finalize false 0 [] [(40, true)]]).reportedXorb = none := by decide

/-- a refused shard: the session fails and reports nothing although 40 shard bytes were accepted -/
example : (runB false SB.init [.register true 100, .complete 0 true, .finalize false 0 [] [(40, true), (48, false)]]).s.finalized
      = some false ∧
    (runB false SB.init [.register true 100, .complete 0 true, .finalize false 0 [] [(40, true), (48, false)]]).shardHanded = 40 ∧
    (runB false SB.init [.register true 100, .complete 0 true, .finalize false 0 [] [(40, true), (48, false)]]).reportedShard
      = none := by decide

end Xet.UploadBytes
