/-
C12 — A chunk-cache hit returns exactly the bytes that were put.

Model: `XetModel/Cache.lean`.  Reference data: `X : Key → List Bytes` (the chunk list of the xorb
behind every key); a put is *consistent* if its offsets and data are the slice of `X k` named by
its chunk range (`OpOK`).  Histories (`HOp`): steps of any number of threads at schedule-point
granularity (any interleaving, any eviction choices, any deletion order) and close – damage –
re-open events.  The CRC function is arbitrary.
-/
import XetProofs.CacheFiles

namespace Xet.Cache

/-- one event of a history -/
inductive HOp
  /-- a step of the concurrent semantics -/
  | act (a : Action)
  /-- the cache is closed (all threads idle), the directory is found as `fs'` and opened with
      capacity `cap`; `order` is the `read_dir` order -/
  | reopen (fs' : FS) (cap : Nat) (order : List Path)

def runH (crc : Bytes → UInt32) (fixed lenient : Bool) : World → List HOp → Option World
  | w, [] => some w
  | w, .act a :: rest =>
    match step crc fixed w a with
    | none => none
    | some w' => runH crc fixed lenient w' rest
  | w, .reopen fs' cap order :: rest =>
    match reopen lenient w fs' cap order with
    | none => none
    | some w' => runH crc fixed lenient w' rest

/-- the histories the property quantifies over: every put that is started is consistent with the
    reference data of its key; whatever happened to the directory while it was closed is
    `Detectable` (relative to the directory as it was left) -/
def HistOK (crc : Bytes → UInt32) (X : Ref) (fixed lenient : Bool) : World → List HOp → Prop
  | _, [] => True
  | w, .act a :: rest => ActionOK X a ∧ ∀ w', step crc fixed w a = some w' → HistOK crc X fixed lenient w' rest
  | w, .reopen fs' cap order :: rest =>
    Detectable crc w.fs fs' ∧ ∀ w', reopen lenient w fs' cap order = some w' → HistOK crc X fixed lenient w' rest

theorem inv12_fresh (crc : Bytes → UInt32) (X : Ref) (cap n : Nat) : Inv12 crc X (World.fresh cap n) := by
  have hidle : ∀ pc ∈ (World.fresh cap n).threads, pc = PC.idle := by
    intro pc hm; exact (List.mem_replicate.mp hm).2
  have hkn : ∀ k c, ¬ Known (World.fresh cap n) k c := by
    intro k c hk
    rcases hk with ⟨v, hm, _⟩ | ⟨op, hm, _⟩
    · simp [World.fresh, CState.empty] at hm
    · have := hidle _ hm; cases this
  refine ⟨?_, ?_, ?_, ?_, ?_, ?_⟩
  · intro k it c hf; simp [fileAt, World.fresh, FS.get] at hf
  · intro k c hk; exact absurd hk (hkn k c)
  · intro k it hm; have := hidle _ hm; cases this
  · intro k1 c1 _ _ hk; exact absurd hk (hkn k1 c1)
  · intro k c hk; exact absurd hk (hkn k c)
  · intro pc hm; rw [hidle pc hm]; exact True.intro

/-- **The invariant behind C12 holds in every reachable state**: every item file whose CRC
    matches the CRC field of its name is the reference file of the key and range its path names;
    entries flagged as verified have such a file (or none). -/
theorem C12_invariant (crc : Bytes → UInt32) (X : Ref) (fixed lenient : Bool) :
    ∀ (h : List HOp) (w w' : World), Inv12 crc X w → HistOK crc X fixed lenient w h →
      runH crc fixed lenient w h = some w' → Inv12 crc X w' := by
  intro h
  induction h with
  | nil => intro w w' hi _ hr; simp [runH] at hr; subst hr; exact hi
  | cons e rest ih =>
    intro w w' hi hok hr
    cases e with
    | act a =>
      simp only [runH] at hr
      split at hr
      · cases hr
      · rename_i w1 hs
        exact ih w1 w' (step_inv12 hi fixed a hok.1 hs) (hok.2 w1 hs) hr
    | reopen fs' cap order =>
      simp only [runH] at hr
      split at hr
      · cases hr
      · rename_i w1 hs
        exact ih w1 w' (reopen_inv12 (hi.good.detectable hok.1) hs) (hok.2 w1 hs) hr

/-- **C12 (proved part).**  Start from an empty cache directory.  After any history of consistent
    puts and arbitrary gets by any number of threads in any interleaving, with any eviction
    choices, overlapping and nested ranges, and any number of close – damage – re-open events
    whose damage is `Detectable`: whenever the step of a thread that executes `get k r` finishes
    with a hit, the returned data are exactly the bytes of chunks `[r.start, r.stop)` of the
    reference xorb of `k` and the returned offsets are the chunk boundaries rebased to 0.
    (Equivalently: damaged, truncated, planted … entries can only produce misses or errors.) -/
theorem C12_hit_partial (crc : Bytes → UInt32) (X : Ref) (hX : RefOK X) (fixed lenient : Bool)
    (cap n : Nat) (h : List HOp) (w w' : World)
    (hok : HistOK crc X fixed lenient (World.fresh cap n) h)
    (hr : runH crc fixed lenient (World.fresh cap n) h = some w)
    (tid : Nat) (o : Oracle) (k : Key) (r : Range) (c : Cell) (data : Bytes) (offs : List Nat)
    (hpc : w.threads[tid]? = some (.matched (.get k r) c))
    (hs : step crc fixed w (.go tid o) = some w')
    (hd : w'.threads[tid]? = some (.done (.hit data offs))) :
    data = (sub (X k) r.start.toNat r.stop.toNat).flatten ∧
    offs = offsOf (sub (X k) r.start.toNat r.stop.toNat) := by
  have hi := C12_invariant crc X fixed lenient h _ w (inv12_fresh crc X cap n) hok hr
  obtain ⟨pc', h1, h2⟩ := step_getpc hi hX fixed tid o k r _ hpc rfl hs
  rw [hd] at h1
  cases h1
  exact ⟨h2.2.2.1, h2.2.2.2⟩

/-- the same for a whole sequential `get` (thread 0 run to completion, as the correspondence
    driver executes it): a hit is the reference slice -/
theorem C12_get_seq (crc : Bytes → UInt32) (X : Ref) (hX : RefOK X) (fixed : Bool) (fuel : Nat)
    (w : World) (hi : Inv12 crc X w) (k : Key) (r : Range) (out : OpOut) (data : Bytes) (offs : List Nat)
    (hrun : runOp crc fixed fuel w (.get k r) [] = some out) (hres : out.res = .hit data offs) :
    data = (sub (X k) r.start.toNat r.stop.toNat).flatten ∧
    offs = offsOf (sub (X k) r.start.toNat r.stop.toNat) ∧ Inv12 crc X out.w := by
  -- generalised loop invariant
  have loop : ∀ (fuel : Nat) (w : World) (pc : PC), Inv12 crc X w → w.threads[0]? = some pc → GetPC X k r pc →
      runToDone crc fixed [] fuel w = some out → RefHit X k r data offs ∧ Inv12 crc X out.w := by
    intro fuel
    induction fuel with
    | zero => intro w pc _ _ _ h; simp [runToDone] at h
    | succ f ih =>
      intro w pc hi hpc hg h
      unfold runToDone at h
      rw [hpc] at h
      cases pc with
      | done res =>
        simp only at h
        cases h
        simp only at hres
        subst hres
        exact ⟨hg, hi⟩
      | _ =>
        simp only at h
        split at h
        · cases h
        · rename_i w1 hs
          obtain ⟨pc', h1, h2⟩ := step_getpc hi hX fixed 0 _ k r _ hpc hg hs
          exact ih w1 pc' (step_inv12 hi fixed (.go 0 ⟨[], 0⟩) True.intro hs) h1 h2 h
  unfold runOp at hrun
  split at hrun
  · cases hrun
  · rename_i w1 hs
    have hi1 := step_inv12 hi fixed _ (show ActionOK X (.start 0 (.get k r)) from True.intro) hs
    have hpc : ∃ pc, w1.threads[0]? = some pc ∧ GetPC X k r pc :=
      ⟨_, step_start_pc hs, startSeg_getpc X w k r⟩
    obtain ⟨pc, h1, h2⟩ := hpc
    obtain ⟨a, b⟩ := loop fuel w1 pc hi1 h1 h2 hrun
    exact ⟨a.2.2.1, a.2.2.2, b⟩

/-- **C12 at full strength** (kept as a statement, not proved): as `C12_hit_partial`, but for the
    wider damage class of the design — a damaged entry only has to differ from an untouched one
    in name-consistency where the *length and* CRC fields are compared.  The model (like the
    code) re-checks only the CRC when it reads an unverified entry; the length is compared
    during the directory scan, against the path that was scanned, which need not be the path
    that is read later (the prefix directory is compared case-insensitively).  So this statement
    needs either that extra reasoning or is false for such planted directories; and for damage
    outside both classes — a rename or move that keeps the (len, crc) fields valid — the property
    is false of the code (F12, known finding). -/
def C12_hit_full : Prop :=
  ∀ (crc : Bytes → UInt32) (X : Ref), RefOK X → ∀ (fixed lenient : Bool) (cap n : Nat) (h : List HOp) (w w' : World),
    (let DetectableLC (fs fs' : FS) : Prop :=
        ∀ k it c, fileAt fs' (itemPath k it) c → c.length = it.len.toNat → crc c = it.crc → fileAt fs (itemPath k it) c
     let rec ok : World → List HOp → Prop
        | _, [] => True
        | w, .act a :: rest => ActionOK X a ∧ ∀ w', step crc fixed w a = some w' → ok w' rest
        | w, .reopen fs' cap order :: rest =>
          DetectableLC w.fs fs' ∧ ∀ w', reopen lenient w fs' cap order = some w' → ok w' rest
     ok (World.fresh cap n) h) →
    runH crc fixed lenient (World.fresh cap n) h = some w →
    ∀ (tid : Nat) (o : Oracle) (k : Key) (r : Range) (c : Cell) (data : Bytes) (offs : List Nat),
      w.threads[tid]? = some (.matched (.get k r) c) →
      step crc fixed w (.go tid o) = some w' →
      w'.threads[tid]? = some (.done (.hit data offs)) →
      data = (sub (X k) r.start.toNat r.stop.toNat).flatten ∧
      offs = offsOf (sub (X k) r.start.toNat r.stop.toNat)

/-! ### never a panic -/

/-- **Parser totality.**  The file-name parser, the header parser and the per-file scan rule are
    total functions into outcome types without a panic value (`Option Item`, `Option (List Nat)`,
    `FileParse`): for *every* file name and *every* content they answer item / skip / remove.
    The only panic outcomes of the model are in `parseKeyDir` + the prefix check of the directory
    scan (the code before the F14 fix) and in `cmpLens` (F12, wider-range rename).  After the F14
    fix (`lenient = true`) the directory scan has no panic outcome, whatever the directory contains: -/
theorem C12_scan_total (fs : FS) (cap : Nat) (order : List Path) (out : ScanOut)
    (h : scan true fs cap order = some out) : out.res = .ok := by
  unfold scan at h
  split at h
  · cases h
  · cases h; exact scanPrefixDirs_ok cap order _ _

/-- the code before the F14 fix panics on a planted directory `ab/abAA` (3 decoded bytes) … -/
theorem C12_prefix_F14_witness :
    (scan false [([[97, 98]], .dir), ([[97, 98], [97, 98, 65, 65]], .dir)] 1000
        [[[97, 98]], [[97, 98], [97, 98, 65, 65]]]).map (·.res) = some .panic := by
  decide

/-- … and the repaired scan skips it -/
example :
    (scan true [([[97, 98]], .dir), ([[97, 98], [97, 98, 65, 65]], .dir)] 1000
        [[[97, 98]], [[97, 98], [97, 98, 65, 65]]]).map (fun o => (o.res, o.s.st.numItems)) = some (.ok, 0) := by
  decide

/-- a thread that executes a `get` never ends in a panic (in any reachable state: `Weak` holds in
    all of them, see C13) -/
theorem C12_get_no_panic (crc : Bytes → UInt32) (fixed : Bool) (w w' : World) (hw : Weak w.st)
    (tid : Nat) (o : Oracle) (k : Key) (r : Range) (c : Cell)
    (hpc : w.threads[tid]? = some (.matched (.get k r) c))
    (hs : step crc fixed w (.go tid o) = some w') :
    w'.threads[tid]? ≠ some (.done .panic) := by
  have hlt : tid < w.threads.length := by
    rcases Nat.lt_or_ge tid w.threads.length with hl | hl
    · exact hl
    · rw [List.getElem?_eq_none hl] at hpc; cases hpc
  unfold step at hs
  simp only [hpc, segment] at hs
  cases hs
  simp only [setThread, getMatchedSeg_threads]
  rw [List.getElem?_set]
  simp only [hlt, if_true]
  intro e
  exact getMatchedSeg_pc_ne_panic crc w _ c hw (Option.some.inj e)

/-- **No panic, any operation.**  In a state that satisfies the C12 invariant and the C13
    accounting invariant, no step of any thread (get or put, any oracle values) ends in a panic:
    the thread that was not `done panic` before is not afterwards.  In particular
    `validate_match` never indexes the stored header out of range, because a file that passed the
    CRC check is the reference file of a covering range. -/
theorem C12_no_panic_step (crc : Bytes → UInt32) (X : Ref) (hX : RefOK X) (fixed : Bool) (w w' : World)
    (hi : Inv12 crc X w) (hw : Weak w.st) (a : Action) (hs : step crc fixed w a = some w') (j : Nat)
    (hj : w'.threads[j]? = some (.done .panic)) : w.threads[j]? = some (.done .panic) :=
  step_no_new_panic hi hX hw fixed a hs j hj

/-- … hence no operation of any interleaving started on an empty cache directory panics
    (consistent puts, arbitrary gets) -/
theorem C12_no_panic (crc : Bytes → UInt32) (X : Ref) (hX : RefOK X) (fixed : Bool) :
    ∀ (as : List Action) (w0 w : World), Inv12 crc X w0 → Weak w0.st → (∀ a ∈ as, ActionOK X a) →
      (∀ j : Nat, w0.threads[j]? ≠ some (PC.done Res.panic)) →
      run crc fixed w0 as = some w → ∀ j : Nat, w.threads[j]? ≠ some (PC.done Res.panic) := by
  intro as
  induction as with
  | nil => intro w0 w _ _ _ h0 hr; simp [run] at hr; subst hr; exact h0
  | cons a as ih =>
    intro w0 w hi hw hok h0 hr
    unfold run at hr
    split at hr
    · cases hr
    · rename_i w1 hs
      exact ih w1 w (step_inv12 hi fixed a (hok a (by simp)) hs) (step_pres crc fixed w0 w1 a hw hs).1
        (fun a' ha' => hok a' (by simp [ha']))
        (fun j hj => h0 j (step_no_new_panic hi hX hw fixed a hs j hj)) hr

/-! ### Non-vacuity: a concrete history with a hit on a nested sub-range -/

def exKey : Key := [7]
def exRef : Ref := fun _ => [[1], [2, 3], [4, 5, 6]]

example : OpOK exRef (.put exKey ⟨0, 3⟩ [0, 1, 3, 6] [1, 2, 3, 4, 5, 6]) := by
  refine ⟨by decide, by decide, by decide, by decide⟩

/-- put chunks `[0,3)`, then `get [1,3)` is a hit with the bytes of chunks 1 and 2 and offsets
    rebased to 0 -/
example :
    ((runOp (fun _ => 0) true 10 (World.fresh 1000 1) (.put exKey ⟨0, 3⟩ [0, 1, 3, 6] [1, 2, 3, 4, 5, 6]) []).bind
      fun o => (runOp (fun _ => 0) true 10 o.w (.get exKey ⟨1, 3⟩) []).map (·.res))
      = some (.hit [2, 3, 4, 5, 6] [0, 2, 5]) := by
  decide

end Xet.Cache
