/-
C02 — Everything a session uploads is self-consistent and server-verifiable.

Model and history as in `XetProps/C01.lean`.  `C02_names` and `C02_casinfo` hold for every history
without any hypothesis; `C02_consistent` (file records) holds for every legal history under the same
explicit collision-extraction hypotheses as C01 (`StoreConsistent`, `NoZeroName` on the final store,
`HashInj` per file inside `LegalHistory`).  "Every stored xorb decodes" is C07 (serialization
round-trip) applied to the chunk lists of `Sess.puts`; "`sha` is SHA-256 of the bytes" is decided by the
correspondence suite (the model carries the value handed to `finalize`), not proved here.
-/
import XetProofs.DedupResolveWorld

set_option linter.unusedSimpArgs false

namespace Xet.Dedup

open Xet.Shard (Seg FileInfo CasInfo Chunk)

/-! ### xorbs -/

/-- **name = recomputed hash**, for every history (legal or not): every xorb handed to `put` is named
    by `cas_node_hash` of its `(chunk hash, length)` list. -/
theorem C02_names (P : HashPrims) (L : Limits) (allow : Defrag → Nat → Decision) (evs : List Ev) :
    ∀ x ∈ (finished P L allow World.init evs).sess.puts, x.hash = Merkle.casNodeHash P (chunkLens x.chunks) := by
  intro x hx
  have := res_named_finished P L allow evs x hx
  rw [this]
  rfl

theorem res_casEntries_spec (cs : List DChunk) : ∀ pos,
    (casEntries pos cs).length = cs.length ∧
    ∀ i (h : i < cs.length), (casEntries pos cs)[i]? = some ⟨cs[i].hash, cs[i].data.length, pos + dataSize (cs.take i), 0⟩ := by
  induction cs with
  | nil => intro pos; simp [casEntries]
  | cons c rest ih =>
    intro pos
    obtain ⟨l, e⟩ := ih (pos + c.data.length)
    refine ⟨by simp [casEntries, l], ?_⟩
    intro i h
    cases i with
    | zero => simp [casEntries, dataSize]
    | succ j =>
      have hj : j < rest.length := by simpa using h
      simp only [casEntries, List.getElem?_cons_succ, e j hj, List.getElem_cons_succ, List.take_succ_cons]
      simp [dataSize]; omega

/-- **the CAS info of a xorb is consistent** (every xorb): named like the xorb, `num_entries` = number of
    chunks, `num_bytes_in_cas` = total length, and entry `i` carries chunk `i`'s hash and length and the
    running sum of the earlier lengths as its start offset. -/
theorem C02_casinfo (x : Xorb) :
    x.casInfo.hash = x.hash ∧ x.casInfo.numEntries = x.chunks.length ∧ x.casInfo.bytesInCas = dataSize x.chunks ∧
    x.casInfo.chunks.length = x.chunks.length ∧
    ∀ i (h : i < x.chunks.length),
      x.casInfo.chunks[i]? = some ⟨x.chunks[i].hash, x.chunks[i].data.length, dataSize (x.chunks.take i), 0⟩ := by
  obtain ⟨l, e⟩ := res_casEntries_spec x.chunks 0
  refine ⟨rfl, rfl, rfl, l, ?_⟩
  intro i h
  have := e i h
  simp only [Nat.zero_add] at this
  exact this

/-! ### file records -/

/-- a segment references an existing store xorb with an in-range, non-empty chunk index range whose
    chunk lengths sum to the recorded segment size -/
def SegInStore (W : List Xorb) (s : Seg) : Prop :=
  s.casHash ≠ Hash.zero ∧ ∃ x, storeFind W s.casHash = some x ∧ s.cstart < s.cend ∧ s.cend ≤ x.chunks.length ∧
    s.bytes = dataSize (slice x.chunks s.cstart s.cend)

theorem res_segInStore {W : List Xorb} {s : Seg} (hz : s.casHash ≠ Hash.zero) (h : SegGood W [] s) : SegInStore W s := by
  obtain ⟨r, hr, hb⟩ := h
  rw [res_resolveSeg_nonzero hz] at hr
  cases hf : storeFind W s.casHash with
  | none => simp [hf] at hr
  | some x =>
    simp only [hf] at hr
    obtain ⟨p1, p2, p3⟩ := res_rangeOf_some hr
    exact ⟨hz, x, hf, p1, p2, by rw [hb, p3]⟩

/-- the verification entries are the range hashes of the chunk hashes each segment covers -/
theorem res_verification_resolved (P : HashPrims) (W : List Xorb) (loc : List DChunk) (segs : List Seg) :
    ∀ all, resolveFile W loc segs = some all →
      verification P segs (chunkLens all) =
        segs.map fun s => Merkle.rangeHash P (((resolveSeg W loc s).getD []).map (·.hash)) := by
  induction segs with
  | nil => intro all _; rfl
  | cons s rest ih =>
    intro all h
    rw [res_resolveFile_cons] at h
    cases hs : resolveSeg W loc s with
    | none => simp [hs] at h
    | some r =>
      cases hr : resolveFile W loc rest with
      | none => simp [hs, hr] at h
      | some all' =>
        simp only [hs, hr, Option.some.injEq] at h
        subst h
        have hlen := (res_resolveSeg_some hs).2
        have e1 : (chunkLens (r ++ all')).take (s.cend - s.cstart) = chunkLens r := by
          rw [res_chunkLens_append, List.take_append_of_le_length (by simp [chunkLens, hlen])]
          rw [List.take_of_length_le (by simp [chunkLens, hlen])]
        have e2 : (chunkLens (r ++ all')).drop (s.cend - s.cstart) = chunkLens all' := by
          rw [res_chunkLens_append, List.drop_append_of_le_length (by simp [chunkLens, hlen])]
          rw [List.drop_of_length_le (by simp [chunkLens, hlen])]
          rfl
        simp only [verification, List.map_cons, e1, e2, ih all' hr, hs, Option.getD_some]
        have e3 : (chunkLens r).map (·.1) = r.map (·.hash) := by simp [chunkLens]
        rw [e3]

/-- **C02_consistent (statement).**  For every legal history followed by `finalize`, with the final store
    `store ++ puts`: every xorb handed to `put` is named by the hash recomputed from its chunks; every
    file record handed to `add_file_reconstruction_info` belongs to a finished file `g` and
    * each segment references an existing xorb with `cstart < cend ≤ |xorb|` and `bytes` = the sum of the
      referenced chunk lengths; the referenced chunks, concatenated, are exactly `g`'s chunks;
    * `hash = file_node_hash(chunks of g, salt)`;
    * `verif[i] = range_hash` of the chunk hashes segment `i` covers;
    * `metaExt = some sha` (the value handed to `finalize`), `num_entries = |segs|`, both flags set. -/
def C02_consistent_statement : Prop :=
  ∀ (P : HashPrims) (L : Limits) (allow : Defrag → Nat → Decision) (store : List Xorb) (evs : List Ev),
    LegalHistory P L allow store World.init evs →
    StoreConsistent (store ++ (finished P L allow World.init evs).sess.puts) →
    NoZeroName (store ++ (finished P L allow World.init evs).sess.puts) →
    (∀ x ∈ (finished P L allow World.init evs).sess.puts, x.hash = Merkle.casNodeHash P (chunkLens x.chunks)) ∧
    (∀ fi ∈ (finished P L allow World.init evs).sess.files, ∃ g ∈ (finished P L allow World.init evs).done,
      (∀ s ∈ fi.segs, SegInStore (store ++ (finished P L allow World.init evs).sess.puts) s) ∧
      resolveFile (store ++ (finished P L allow World.init evs).sess.puts) [] fi.segs = some g.chunks ∧
      fi.hash = Merkle.fileNodeHash P (chunkLens g.chunks) g.salt ∧
      fi.verif = fi.segs.map (fun s => Merkle.rangeHash P
        (((resolveSeg (store ++ (finished P L allow World.init evs).sess.puts) [] s).getD []).map (·.hash))) ∧
      fi.metaExt = some g.sha ∧ fi.numEntries = fi.segs.length ∧
      fi.flags = Shard.flagVerification + Shard.flagMetadataExt)

theorem C02_consistent : C02_consistent_statement := by
  intro P L allow store evs hl hW hZ
  refine ⟨C02_names P L allow evs, ?_⟩
  obtain ⟨_, h2⟩ := res_finished_ok (P := P) (L := L) (allow := allow) hW hZ
    (fun x hx => List.mem_append_left _ hx) evs hl (fun x hx => List.mem_append_right _ hx)
  intro fi hfi
  obtain ⟨g, hg, hres, hsegs, m1, m2, m3, m4, m5, _⟩ := h2 fi hfi
  refine ⟨g, hg, fun s hs => res_segInStore (hsegs s hs).1 (hsegs s hs).2, hres, m1, ?_, m3, m4, m5⟩
  rw [m2]
  exact res_verification_resolved P _ [] fi.segs g.chunks hres

/-- no record reaches `add_file_reconstruction_info` with a zero xorb hash (corollary) -/
theorem C02_no_zero_segment (P : HashPrims) (L : Limits) (allow : Defrag → Nat → Decision) (store : List Xorb) (evs : List Ev)
    (hl : LegalHistory P L allow store World.init evs)
    (hW : StoreConsistent (store ++ (finished P L allow World.init evs).sess.puts))
    (hZ : NoZeroName (store ++ (finished P L allow World.init evs).sess.puts)) :
    ∀ fi ∈ (finished P L allow World.init evs).sess.files, ∀ s ∈ fi.segs, s.casHash ≠ Hash.zero := by
  intro fi hfi s hs
  obtain ⟨g, _, h, _⟩ := (C02_consistent P L allow store evs hl hW hZ).2 fi hfi
  exact (h s hs).1

end Xet.Dedup
