/-
C16 — Shards follow their xorbs, and upload failures are never swallowed.

Model: `XetModel/Uploads.lean` — the upload-task bookkeeping of one `FileUploadSession`
(`register_new_xorb_for_upload`: reap loop over `try_join_next`, first error returned and latched in
`xorb_upload_failed`, then `spawn`; `finalize_impl`: last xorb, join all tasks, latch check, shard uploads;
`upload_and_register_session_shards`: `jh??`).

Quantifier of every theorem: every event sequence `evs : List Ev` from `S.init` — any number of registered
xorbs (empty or not), every completion order and every outcome of every background `put` (`complete i ok` is
the oracle), every interleaving of API calls and completions, `finalize` at any point with every outcome of
the still-running puts and of the shard uploads, and arbitrary events after `finalize`.

All theorems are consequences of one inductive invariant (`XetProofs/Uploads.lean`: `Inv`, `inv_init`,
`inv_step`, `inv_reachable`).

What "reported" means here: `apiErrors` counts the API calls (`add_data`/`finish` reaching
`register_new_xorb_for_upload`, or `finalize`) that returned `Err`.

RESTS ON (modelled, not verified): tokio `JoinSet` (`try_join_next`/`join_next` hand out finished tasks in
completion order; a task is handed out once), atomicity of one reap loop (it runs under the task-set mutex),
"every spawned task eventually finishes" for the join loop of `finalize`, no `add_data`/`finish` after
`finalize` (the model ignores them).  Outside this model: the data-level half of the first sentence (file
records of the session's shards reference only xorbs put by this session or known from earlier sessions) is the
session model's business (C01/C03); here "the xorbs of the session" = the tasks of the session.
-/
import XetProofs.Uploads

namespace Xet.Uploads

theorem taskOk_not_failed (t : TaskSt) (h : taskOk t = true) : taskFailed t = false := by
  cases t with
  | running => rfl
  | done ok => cases ok <;> simp_all [taskOk, taskFailed]
  | reaped ok => cases ok <;> simp_all [taskOk, taskFailed]

/-- **Shards follow their xorbs** (first sentence, unconditional since the latch fix).  In every reachable
    state in which a shard upload has been issued, every `put` the session ever spawned has completed
    successfully (it is `.done true` or `.reaped true`: in particular none is still running and none failed).
    As `shardUploadsStarted` is set in the very step that issues the shard uploads, this says that all puts had
    completed `ok` *before* the first `upload_shard`. -/
theorem C16_order (evs : List Ev) :
    (run S.init evs).shardUploadsStarted = true → ∀ t ∈ (run S.init evs).tasks, taskOk t = true := by
  intro h t ht
  obtain ⟨i, hi⟩ := List.getElem?_of_mem ht
  exact (inv_reachable evs).started_ok h i t hi

/-- **A session that reports success stored everything.**  If `finalize` returned `Ok` then every `put` of the
    session completed successfully and no shard upload failed — whatever happened before (errors returned by
    earlier calls included) and whatever events follow. -/
theorem C16_success_means_all_stored (evs : List Ev) :
    (run S.init evs).finalized = some true →
      (∀ t ∈ (run S.init evs).tasks, taskOk t = true) ∧ (run S.init evs).shardFailed = false := by
  intro h
  have hI := inv_reachable evs
  refine ⟨?_, ?_⟩
  · intro t ht
    obtain ⟨i, hi⟩ := List.getElem?_of_mem ht
    exact hI.fin_ok h i t hi
  · cases hs : (run S.init evs).shardFailed with
    | false => rfl
    | true => have := hI.shard_fin hs; simp [h] at this

/-- **Failures are never swallowed.**  Once `finalize` has been called: if any `put` of the session failed
    (reaped or not, before or after `finalize`) or a shard upload failed, then `finalize` returned `Err`, and at
    least one API call of the session returned `Err`. -/
theorem C16_not_swallowed (evs : List Ev) :
    (run S.init evs).finalized.isSome = true →
    ((∃ t ∈ (run S.init evs).tasks, taskFailed t = true) ∨ (run S.init evs).shardFailed = true) →
      (run S.init evs).finalized = some false ∧ 1 ≤ (run S.init evs).apiErrors := by
  intro hsome hfail
  have hI := inv_reachable evs
  cases hf : (run S.init evs).finalized with
  | none => simp [hf] at hsome
  | some b =>
    cases b with
    | false => exact ⟨rfl, hI.fin_err hf⟩
    | true =>
      have hall := C16_success_means_all_stored evs hf
      rcases hfail with ⟨t, ht, hft⟩ | hs
      · have := taskOk_not_failed t (hall.1 t ht); simp [this] at hft
      · simp [hall.2] at hs

/-- **The error of a failed `put` that was seen has been returned.**  Whenever a failed task has been reaped
    (by the reap loop of some registration, or by the join loop of `finalize`), or `finalize` has been called
    and some task has failed, at least one API call has returned `Err`.
    What is *not* claimed (and is false, see `C16_unreported_window`): a task that failed in the background
    but has neither been reaped nor been followed by `finalize` has not been reported yet — it is reported by
    the next call that reaches the reap loop (`C16_reported_by_next_register`, `C16_reported_by_finalize`). -/
theorem C16_error_reported (evs : List Ev) :
    ((∃ i : Nat, (run S.init evs).tasks[i]? = some (.reaped false)) ∨
     ((run S.init evs).finalized.isSome = true ∧ ∃ t ∈ (run S.init evs).tasks, taskFailed t = true)) →
      1 ≤ (run S.init evs).apiErrors := by
  rintro (⟨i, hi⟩ | ⟨hs, hf⟩)
  · exact (inv_reachable evs).reaped_err i hi
  · exact (C16_not_swallowed evs hs (Or.inl hf)).2

/-- the window in which a failure is not yet reported exists: the put failed, no API call has run since -/
theorem C16_unreported_window :
    let s := run S.init [.register true, .complete 0 false]
    s.tasks = [.done false] ∧ s.apiErrors = 0 ∧ s.finalized = none ∧ s.latch = false := by decide

/-- **… and the window closes at the next registration.**  In every reachable, not yet finalized state in
    which some task has failed and is not reaped, the next call that reaches `register_new_xorb_for_upload`
    (empty xorb or not) returns `Err`: exactly one more API error, the latch is set, no task is spawned. -/
theorem C16_reported_by_next_register (evs : List Ev) (ne : Bool) (j : Nat)
    (hfin : (run S.init evs).finalized = none)
    (hj : (run S.init evs).tasks[j]? = some (.done false)) :
    (run S.init (evs ++ [.register ne])).apiErrors = (run S.init evs).apiErrors + 1 ∧
    (run S.init (evs ++ [.register ne])).latch = true ∧
    (run S.init (evs ++ [.register ne])).tasks.length = (run S.init evs).tasks.length := by
  have hI := inv_reachable evs
  have hsp := registerStep_spec _ ne hI hfin
  have hr := registerStep_reports _ ne hI.wf j hj
  have hrun : run S.init (evs ++ [.register ne]) = (registerStep (run S.init evs) ne).1 := by
    rw [run_snoc, step_register]; simp [hfin]
  rw [hrun]
  obtain ⟨h1, h2, _⟩ := hsp.failed hr
  refine ⟨h2, h1, ?_⟩
  have hlen := (reap_spec ((run S.init evs).finished.length + 1) (run S.init evs)).length
  have hrp := reap_reports ((run S.init evs).finished.length + 1) (run S.init evs) hI.wf (Nat.lt_succ_self _) j hj
  simp [registerStep, hrp, hlen]

/-- **… or at `finalize`.**  In every reachable, not yet finalized state in which some task has failed and is
    not reaped, `finalize` returns `Err` (with exactly one more API error) and issues no shard upload. -/
theorem C16_reported_by_finalize (evs : List Ev) (lastNe : Bool) (rest : List Bool) (shardsOk : Bool) (j : Nat)
    (hfin : (run S.init evs).finalized = none)
    (hj : (run S.init evs).tasks[j]? = some (.done false)) :
    (run S.init (evs ++ [.finalize lastNe rest shardsOk])).finalized = some false ∧
    (run S.init (evs ++ [.finalize lastNe rest shardsOk])).apiErrors = (run S.init evs).apiErrors + 1 ∧
    (run S.init (evs ++ [.finalize lastNe rest shardsOk])).shardUploadsStarted = false := by
  have hI := inv_reachable evs
  have hsp := registerStep_spec _ lastNe hI hfin
  have hr := registerStep_reports _ lastNe hI.wf j hj
  have hrun : run S.init (evs ++ [.finalize lastNe rest shardsOk]) =
      { (registerStep (run S.init evs) lastNe).1 with finalized := some false } := by
    rw [run_snoc, step_finalize]; simp [hfin, hr]
  rw [hrun]
  obtain ⟨_, h2, _⟩ := hsp.failed hr
  refine ⟨rfl, h2, ?_⟩
  show (registerStep (run S.init evs) lastNe).1.shardUploadsStarted = false
  rw [hsp.started]
  cases h : (run S.init evs).shardUploadsStarted with
  | false => rfl
  | true => have := hI.started_fin h; simp [hfin] at this

/-- **The latch remembers.**  A task that was reaped as failed leaves a permanent mark — the latch
    `xorb_upload_failed`, or the `Err` result of the `finalize` whose join loop saw it — and a session whose
    latch is set can never finalize successfully. -/
theorem C16_latch (evs : List Ev) :
    ((∃ i : Nat, (run S.init evs).tasks[i]? = some (.reaped false)) →
        (run S.init evs).latch = true ∨ (run S.init evs).finalized = some false) ∧
    ((run S.init evs).latch = true → (run S.init evs).finalized ≠ some true) := by
  have hI := inv_reachable evs
  exact ⟨fun ⟨i, hi⟩ => hI.reaped_latch i hi, hI.latch_fin⟩

/-- **F9 witness (pre-fix behaviour).**  On the history `register; complete 0 failed; register (reaps the
    failure, returns the error); finalize`, the session *without* the latch check reports success and uploads
    its shards although xorb 0 was never stored (the error had been returned — once — by the second
    registration: second sentence of C16 true, first sentence false).  With the latch (`step`, the code as
    fixed) the same history ends in `Err` without any shard upload. -/
theorem C16_prefix_F9_witness :
    (let s := runNoLatch S.init f9History
     s.finalized = some true ∧ s.shardUploadsStarted = true ∧ s.tasks = [.reaped false] ∧ s.apiErrors = 1) ∧
    (let s := run S.init f9History
     s.finalized = some false ∧ s.shardUploadsStarted = false ∧ s.tasks = [.reaped false] ∧ s.apiErrors = 2 ∧
     s.latch = true) := by decide

/-! ### non-vacuity -/

/-- `C16_order` / `C16_success_means_all_stored` are not vacuous: three xorbs, completions out of order, one
    still running at `finalize`; shards uploaded, success. -/
example :
    let s := run S.init [.register true, .register true, .complete 1 true, .register false, .register true,
      .complete 0 true, .finalize true [true, true] true]
    s.shardUploadsStarted = true ∧ s.finalized = some true ∧ s.apiErrors = 0 ∧
    s.tasks = [.reaped true, .reaped true, .reaped true, .reaped true] := by decide

/-- `C16_not_swallowed` is not vacuous, three ways: failure seen by the join loop of `finalize`; failure of a
    shard upload; failure reaped by the registration inside `finalize`. -/
example :
    let s := run S.init [.register true, .register true, .complete 1 true, .finalize false [false] true]
    s.finalized = some false ∧ s.apiErrors = 1 ∧ s.shardUploadsStarted = false ∧ s.latch = false ∧
    s.tasks = [.reaped false, .reaped true] := by decide

example :
    let s := run S.init [.register true, .complete 0 true, .finalize true [true] false]
    s.finalized = some false ∧ s.apiErrors = 1 ∧ s.shardUploadsStarted = true ∧ s.shardFailed = true ∧
    s.tasks = [.reaped true, .reaped true] := by decide

example :
    let s := run S.init [.register true, .register true, .complete 1 false, .complete 0 true,
      .finalize true [] true, .complete 5 true, .register true]
    s.finalized = some false ∧ s.apiErrors = 1 ∧ s.latch = true ∧ s.finished = [0] ∧
    s.tasks = [.done true, .reaped false] ∧ s.shardUploadsStarted = false := by decide

/-- the reap loop stops at the first failure in completion order and leaves later finished tasks unreaped;
    they are reaped by the next call. -/
example :
    let s := run S.init [.register true, .register true, .register true, .complete 2 true, .complete 0 false,
      .complete 1 true, .register true]
    s.tasks = [.reaped false, .done true, .reaped true] ∧ s.finished = [1] ∧ s.apiErrors = 1 ∧ s.latch = true := by
  decide

/-- `C16_latch`, first disjunct and second disjunct are both realised (latch without finalize; failed finalize
    without latch). -/
example :
    let s := run S.init [.register true, .complete 0 false, .register false]
    s.tasks = [.reaped false] ∧ s.latch = true ∧ s.finalized = none ∧ s.apiErrors = 1 := by decide

end Xet.Uploads
