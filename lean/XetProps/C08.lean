/-
C08 — Xorb validation accepts only hash-consistent objects and never panics.

"If either xorb validator accepts a byte string for hash h, then its chunks decode, the hash recomputed
from the decoded chunks equals h, and any footer it relied on matches the chunk data; every valid
serialized xorb is accepted by both validators for its own hash and rejected for any other.  On
arbitrary truncated, bit-flipped or spliced input the validators and the footer parser return a
rejection or an error, never a panic or an unbounded allocation."

Model: `XetModel/XorbFormat.lean` — `validate` = `CasObject::validate_cas_object`
(cas_object/src/cas_object_format.rs), `validateStream` = `validate_cas_object_from_async_read`
(cas_object/src/validate_xorb_stream.rs), `deserialize` / `parseInfo` / `parseInfoV1Body` /
`parseInfoV0Body` / `deserializeAsyncV1` = the footer parsers.  `u32` arithmetic that the Rust code
does with plain `+`/`-` is *checked* in the model (outcome `.error .panic`, the dev-profile behaviour).

Quantification.  Soundness (`C08_sound_*`) and totality (`C08_no_panic*`, `C08_footer_parser_total`,
`C08_alloc_bounded*`) hold for EVERY codec `C` — no round-trip assumption: a validator that accepts has
itself decoded every chunk — every hash primitives `P`, every `maxChunk`, every byte string and every
hash; so does `C08_validators_agree_general` (the two validators accept the same V1 objects, on
arbitrary input).  Completeness (`C08_complete*`, `C08_validators_agree`) is about `serialize` and needs
the C07 hypotheses (`C.RoundTrip`, `SerOK`, `maxChunk·2 < 2^24`) plus `hashes = cs.map P.dataHash`.

Every full statement is a `def … : Prop` (suffix `_statement`); every one of them is proved (no
`_partial` theorem in this file).
-/
import XetProofs.XorbValidateComplete
import XetProofs.XorbValidateAgree
import XetProps.C06
import XetProps.C07

namespace Xet.Xorb

/-! ## (1) soundness of the seekable validator -/

/-- **Full statement, seekable validator.**  For every `P`, codec `C`, `maxChunk`, byte string `obj`,
    hash `h`: if `validate_cas_object` returns `Some(cas)` then there are chunks `chunks` with physical
    sizes `sizes` such that
    * the first `Σ sizes` bytes of `obj` are *exactly* a sequence of serialized chunks that
      `deserialize_chunk` decodes to `chunks`, chunk `i` occupying `sizes[i]` bytes (`DecodesTo`);
    * the producer's hash `cas_node_hash` of the recomputed (chunk hash, length) list equals `h`
      (and so does the validators' `add_file`+`finalize` route, `Merkle.validatorRoot`);
    * the returned footer is the one `CasObject::deserialize` parses from `obj`, its `cashash` is `h`,
      its hash table is the list of recomputed chunk hashes, its boundary table the running sums of the
      physical sizes, and — for a V1 footer — its unpacked-offset table the running sums of the chunk
      lengths; `num_chunks` is the number of chunks;
    * the footer does not begin before the end of the chunks, begins there up to a multiple of `2^32`
      (the code compares `as u32` truncations), and begins *exactly* there when `|obj| < 2^32`:
      `|obj| = Σ sizes + info_length + 4`;
    * the model's `goBack` component is `none`. -/
def C08_sound_seekable_statement : Prop :=
  ∀ (P : HashPrims) (C : Codec) (maxChunk : Nat) (obj : Bytes) (h : Hash) (cas : CasObject) (gb : Option Nat),
    validate P C maxChunk obj h = .accept cas gb →
    ∃ (chunks : List Bytes) (sizes : List Nat),
      DecodesTo C maxChunk (obj.take sizes.sum) chunks sizes ∧
      Merkle.casNodeHash P (chunks.map fun d => (P.dataHash d, d.length)) = h ∧
      Merkle.validatorRoot P (chunks.map fun d => (P.dataHash d, d.length)) [] = h ∧
      deserialize obj = .ok cas ∧
      cas.info.cashash = h ∧
      cas.info.numChunks = chunks.length ∧
      cas.info.hashes = chunks.map P.dataHash ∧
      cas.info.boundaries = runningSums 0 sizes ∧
      (cas.info.boundariesVersion = boundariesVersion →
        cas.info.unpacked = runningSums 0 (chunks.map (·.length))) ∧
      sizes.sum + cas.infoLength + 4 ≤ obj.length ∧
      (obj.length - (sizes.sum + cas.infoLength + 4)) % 2 ^ 32 = 0 ∧
      (obj.length < 2 ^ 32 → obj.length = sizes.sum + cas.infoLength + 4) ∧
      gb = none

theorem C08_sound_seekable : C08_sound_seekable_statement := by
  intro P C maxChunk obj h cas gb hv
  obtain ⟨hgb, chunks, sizes, s⟩ := validate_sound P C maxChunk obj h cas gb hv
  have hroot := s.root
  refine ⟨chunks, sizes, s.decodes, ?_, hroot, s.footer, s.cashash, s.numChunks, s.hashes, s.boundaries,
    s.unpacked, s.footerPosLe, s.footerPosMod, ?_, hgb⟩
  · rw [← Merkle.C06_producer_eq_validators P _ []]; exact hroot
  · intro hlt
    have := s.footerPosLe; have := s.footerPosMod
    omega

/-- consequence: an accepted object has at least one chunk and its content area fits `u32`. -/
theorem C08_sound_seekable_nonempty (P : HashPrims) (C : Codec) (maxChunk : Nat) (obj : Bytes) (h : Hash)
    (cas : CasObject) (gb : Option Nat) (hv : validate P C maxChunk obj h = .accept cas gb) :
    cas.info.numChunks ≠ 0 ∧ cas.info.boundaries.getLastD 0 < 2 ^ 32 := by
  obtain ⟨_, chunks, sizes, s⟩ := validate_sound P C maxChunk obj h cas gb hv
  have hfit := s.contentFits
  refine ⟨by rw [s.numChunks]; exact s.nonempty, ?_⟩
  rw [s.boundaries, runningSums_getLastD]
  split <;> omega

/-! ## (2) soundness of the streaming validator -/

/-- **Full statement, streaming validator.**  For every `P`, `C`, `maxChunk`, `obj`, `h`: if
    `validate_cas_object_from_async_read` returns `Some((cas, go_back))` then there are `chunks`, `sizes`
    such that the first `Σ sizes ≤ |obj|` bytes of `obj` are exactly a sequence of serialized chunks that
    the *asynchronous* chunk reads of the loop (`read_exact` header, `read_exact` payload, decompress,
    length check) decode to `chunks` — hence also the synchronous decoder —, the recomputed hash is `h`
    (producer's `cas_node_hash` and validators' route), and exactly one of the three accept shapes holds
    (`StreamShape`):
    * **footer present** (`go_back = None`): the rest of the stream is `XETBLOB`, version 1, a V1 footer
      body that `deserialize_async` parses to `cas`, the `u32` length word, end of stream; and the footer
      agrees field by field with what was recomputed (`FooterMatches`: `cashash = h`, `num_chunks`, chunk
      hashes, boundary offsets = running sums of the physical sizes, unpacked offsets = running sums of the
      chunk lengths, boundaries version, `info_length = 92 + 40·n`, `|obj| = Σ sizes + info_length + 4`);
    * **footer absent** (`go_back = Some(0)`): the stream ends right after the chunks and the returned
      object is `create_cas_object_from_parts(h, boundaries, chunks)`;
    * **V0 footer** (`go_back = Some(8)`): the next 8 bytes are `XETBLOB`, version 0, and the returned
      object is again `create_cas_object_from_parts`. -/
def C08_sound_streaming_statement : Prop :=
  ∀ (P : HashPrims) (C : Codec) (maxChunk : Nat) (obj : Bytes) (h : Hash) (cas : CasObject) (gb : Option Nat),
    validateStream P C maxChunk obj h = .accept cas gb →
    ∃ (chunks : List Bytes) (sizes : List Nat),
      DecodesToAsync C maxChunk (obj.take sizes.sum) chunks sizes ∧
      DecodesTo C maxChunk (obj.take sizes.sum) chunks sizes ∧
      sizes.sum ≤ obj.length ∧
      Merkle.casNodeHash P (chunks.map fun d => (P.dataHash d, d.length)) = h ∧
      Merkle.validatorRoot P (chunks.map fun d => (P.dataHash d, d.length)) [] = h ∧
      StreamShape P h obj chunks sizes cas gb

theorem C08_sound_streaming : C08_sound_streaming_statement := by
  intro P C maxChunk obj h cas gb hv
  obtain ⟨chunks, sizes, s⟩ := validateStream_sound P C maxChunk obj h cas gb hv
  have hroot := s.root
  refine ⟨chunks, sizes, s.decodes, s.decodes.toSync, s.fits, ?_, hroot, s.shape⟩
  rw [← Merkle.C06_producer_eq_validators P _ []]; exact hroot

/-- the three shapes spelled out by `go_back` (what a caller can rely on after matching on it). -/
theorem C08_sound_streaming_shapes (P : HashPrims) (C : Codec) (maxChunk : Nat) (obj : Bytes) (h : Hash)
    (cas : CasObject) (gb : Option Nat) (hv : validateStream P C maxChunk obj h = .accept cas gb) :
    ∃ (chunks : List Bytes) (sizes : List Nat),
      DecodesToAsync C maxChunk (obj.take sizes.sum) chunks sizes ∧
      Merkle.casNodeHash P (chunkMeta P chunks) = h ∧
      ((gb = none ∧ FooterMatches P h obj cas chunks sizes ∧
          deserializeAsyncV1 ((obj.drop sizes.sum).drop 8) = .ok cas) ∨
       (gb = some 0 ∧ obj.length = sizes.sum ∧
          cas = casFromParts h (runningSums 0 sizes) (chunkMeta P chunks)) ∨
       (gb = some 8 ∧ sizes.sum + 8 ≤ obj.length ∧ ((obj.drop sizes.sum).take 8).take 7 = identMain ∧
          (((obj.drop sizes.sum).take 8).getD 7 0).toNat = formatVersionV0 ∧
          cas = casFromParts h (runningSums 0 sizes) (chunkMeta P chunks))) := by
  obtain ⟨chunks, sizes, s⟩ := validateStream_sound P C maxChunk obj h cas gb hv
  refine ⟨chunks, sizes, s.decodes, ?_, ?_⟩
  · rw [← Merkle.C06_producer_eq_validators P _ []]; exact s.root
  · cases s.shape with
    | footer _ he hm =>
      cases he with
      | footer _ _ _ _ t4 => exact .inl ⟨rfl, hm, t4⟩
    | noFooter hl => exact .inr (.inl ⟨rfl, hl, rfl⟩)
    | v0 he =>
      cases he with
      | v0 t1 t2 t3 =>
        refine .inr (.inr ⟨rfl, ?_, t2, t3, rfl⟩)
        simp only [List.length_drop] at t1
        have := s.fits
        omega

/-! ## (3) completeness on serialized objects, validator agreement -/

/-- **Full statement, completeness.**  For every round-tripping codec, every `maxChunk` with
    `2·maxChunk < 2^24`, every object `s = CasObject::serialize(h, cs, hashes, schemes)` under the C07
    hypotheses `SerOK` whose per-chunk hashes are the data hashes of the chunks, and EVERY hash `h'`:
    both validators return `Some(s.cas)` (streaming: with `go_back = None`) **iff** `h' = h` and `h` is
    the `cas_node_hash` of the chunk list; in every other case both return `Ok(None)` (reject) — never
    an error. -/
def C08_complete_statement : Prop :=
  ∀ (P : HashPrims) (C : Codec), C.RoundTrip → ∀ (maxChunk : Nat), maxChunk * 2 < 2 ^ 24 →
    ∀ (h : Hash) (cs : List Bytes) (hashes : List Hash) (schemes : List Scheme),
      SerOK C maxChunk h cs hashes schemes → hashes = cs.map P.dataHash → ∀ (h' : Hash),
      let s := serialize C h cs hashes schemes
      let good := h' = h ∧ h = Merkle.casNodeHash P (cs.map fun d => (P.dataHash d, d.length))
      (validate P C maxChunk s.bytes h' = .accept s.cas none ↔ good) ∧
      (¬ good → validate P C maxChunk s.bytes h' = .reject) ∧
      (validateStream P C maxChunk s.bytes h' = .accept s.cas none ↔ good) ∧
      (¬ good → validateStream P C maxChunk s.bytes h' = .reject)

theorem C08_complete : C08_complete_statement := by
  intro P C hC maxChunk hm h cs hashes schemes ok hhs h' s good
  have hv := validate_serialized P C hC maxChunk hm h cs hashes schemes ok hhs h'
  have hs := validateStream_serialized P C hC maxChunk hm h cs hashes schemes ok hhs h'
  have hroot : Merkle.validatorRoot P (chunkMeta P cs) []
      = Merkle.casNodeHash P (cs.map fun d => (P.dataHash d, d.length)) :=
    Merkle.C06_producer_eq_validators P _ []
  rw [hroot] at hv hs
  have e1 : (Merkle.casNodeHash P (cs.map fun d => (P.dataHash d, d.length)) = h' ∧
      Merkle.casNodeHash P (cs.map fun d => (P.dataHash d, d.length)) = h) ↔ good := by
    constructor
    · rintro ⟨a, b⟩; exact ⟨by rw [← a, b], b.symm⟩
    · rintro ⟨a, b⟩; exact ⟨by rw [a, ← b], b.symm⟩
  have e2 : (h = h' ∧ Merkle.casNodeHash P (cs.map fun d => (P.dataHash d, d.length)) = h') ↔ good := by
    constructor
    · rintro ⟨a, b⟩; exact ⟨a.symm, by rw [b, a]⟩
    · rintro ⟨a, b⟩; exact ⟨a.symm, by rw [a, ← b]⟩
  refine ⟨?_, ?_, ?_, ?_⟩
  · show validate P C maxChunk (serialize C h cs hashes schemes).bytes h' = _ ↔ _
    rw [hv]
    constructor
    · intro hc; split at hc
      · rename_i hg; exact e1.mp hg
      · cases hc
    · intro hg; rw [if_pos (e1.mpr hg)]
  · intro hng
    show validate P C maxChunk (serialize C h cs hashes schemes).bytes h' = _
    rw [hv, if_neg (fun hg => hng (e1.mp hg))]
  · show validateStream P C maxChunk (serialize C h cs hashes schemes).bytes h' = _ ↔ _
    rw [hs]
    constructor
    · intro hc; split at hc
      · rename_i hg; exact e2.mp hg
      · cases hc
    · intro hg; rw [if_pos (e2.mpr hg)]
  · intro hng
    show validateStream P C maxChunk (serialize C h cs hashes schemes).bytes h' = _
    rw [hs, if_neg (fun hg => hng (e2.mp hg))]

/-- **Own hash accepted, every other hash rejected.**  When the producer passed the correct hash
    (`h = cas_node_hash` of the chunk list, as `C06_producer_eq_validators` says the uploader computes),
    both validators accept the serialized object for `h` and reject it for every `h' ≠ h`. -/
theorem C08_complete_own_hash (P : HashPrims) (C : Codec) (hC : C.RoundTrip) (maxChunk : Nat)
    (hm : maxChunk * 2 < 2 ^ 24) (h : Hash) (cs : List Bytes) (hashes : List Hash) (schemes : List Scheme)
    (ok : SerOK C maxChunk h cs hashes schemes) (hhs : hashes = cs.map P.dataHash)
    (hh : h = Merkle.casNodeHash P (cs.map fun d => (P.dataHash d, d.length))) :
    validate P C maxChunk (serialize C h cs hashes schemes).bytes h = .accept (serialize C h cs hashes schemes).cas none ∧
    validateStream P C maxChunk (serialize C h cs hashes schemes).bytes h
      = .accept (serialize C h cs hashes schemes).cas none ∧
    ∀ h', h' ≠ h →
      validate P C maxChunk (serialize C h cs hashes schemes).bytes h' = .reject ∧
      validateStream P C maxChunk (serialize C h cs hashes schemes).bytes h' = .reject := by
  have c := fun h' => C08_complete P C hC maxChunk hm h cs hashes schemes ok hhs h'
  refine ⟨(c h).1.mpr ⟨rfl, hh⟩, (c h).2.2.1.mpr ⟨rfl, hh⟩, fun h' hne => ?_⟩
  exact ⟨(c h').2.1 (fun hg => hne hg.1), (c h').2.2.2 (fun hg => hne hg.1)⟩

/-- **Full statement, validator agreement** on serialized objects: for every hash `h'` (right or
    wrong) the seekable and the streaming validator return the same verdict, same footer, and
    `go_back = None`. -/
def C08_validators_agree_statement : Prop :=
  ∀ (P : HashPrims) (C : Codec), C.RoundTrip → ∀ (maxChunk : Nat), maxChunk * 2 < 2 ^ 24 →
    ∀ (h : Hash) (cs : List Bytes) (hashes : List Hash) (schemes : List Scheme),
      SerOK C maxChunk h cs hashes schemes → hashes = cs.map P.dataHash → ∀ (h' : Hash),
      validate P C maxChunk (serialize C h cs hashes schemes).bytes h'
        = validateStream P C maxChunk (serialize C h cs hashes schemes).bytes h'

theorem C08_validators_agree : C08_validators_agree_statement := by
  intro P C hC maxChunk hm h cs hashes schemes ok hhs h'
  rw [validate_serialized P C hC maxChunk hm h cs hashes schemes ok hhs h',
    validateStream_serialized P C hC maxChunk hm h cs hashes schemes ok hhs h']
  by_cases hg : h = h' ∧ Merkle.validatorRoot P (chunkMeta P cs) [] = h'
  · rw [if_pos hg, if_pos ⟨hg.2, by rw [hg.2, hg.1]⟩]
  · rw [if_neg hg, if_neg (fun hc => hg ⟨by rw [← hc.2, hc.1], hc.1⟩)]

/-- **Full statement, validator agreement on arbitrary input** (DESIGN: "on every input that parses
    as chunks ++ footer ++ len").  For every `P`, `C`, `maxChunk`, byte string `obj`, hash `h`, footer `cas`:
    * if the streaming validator accepts `obj` with a footer (`go_back = None`) that declares at least
      one chunk, the seekable validator accepts `obj` with the same footer (no size hypothesis);
    * if the seekable validator accepts `obj` with a V1 footer and `|obj| < 2^32`, the streaming
      validator accepts it with the same footer and `go_back = None`.
    Both side conditions are necessary: the chunk-less object `footer(n = 0, cashash = 0) ‖ le32(92)` is
    accepted by the streaming validator for the all-zero hash and rejected by the seekable one (witness
    below); a V0 footer makes the streaming validator return `Some(8)` and a regenerated footer by
    design; above 4 GiB the seekable validator compares `as u32` truncations of the positions. -/
def C08_validators_agree_general_statement : Prop :=
  ∀ (P : HashPrims) (C : Codec) (maxChunk : Nat) (obj : Bytes) (h : Hash) (cas : CasObject),
    (validateStream P C maxChunk obj h = .accept cas none → cas.info.numChunks ≠ 0 →
      validate P C maxChunk obj h = .accept cas none) ∧
    (∀ gb, validate P C maxChunk obj h = .accept cas gb → obj.length < 2 ^ 32 →
      cas.info.boundariesVersion = boundariesVersion →
      validateStream P C maxChunk obj h = .accept cas none)

theorem C08_validators_agree_general : C08_validators_agree_general_statement :=
  fun P C maxChunk obj h cas =>
    ⟨stream_accept_imp_seek P C maxChunk obj h cas, fun gb => seek_accept_imp_stream P C maxChunk obj h cas gb⟩

/-- the chunk area of a serialized object is `DecodesTo`-decodable to the original chunks: the
    witness of `C08_sound_seekable` on a serialized object is the chunk list itself (by uniqueness of
    decoding, `DecodesTo.unique`). -/
theorem C08_serialized_decodes (C : Codec) (hC : C.RoundTrip) (maxChunk : Nat) (hm : maxChunk * 2 < 2 ^ 24)
    (cs : List Bytes) (schemes : List Scheme) (hl : schemes.length = cs.length)
    (hcs : ∀ c ∈ cs, c.length ≤ maxChunk) :
    DecodesTo C maxChunk (serChunks C (cs.zip schemes)) cs (physSizes C (cs.zip schemes)) := by
  have := decodesTo_serChunks C hC maxChunk hm (cs.zip schemes) (fun p hp => hcs p.1 (List.of_mem_zip hp).1)
  rwa [map_fst_zip_eq cs schemes hl] at this

/-- decoding is deterministic: the `chunks`/`sizes` of the soundness theorems are unique. -/
theorem C08_decodes_unique (C : Codec) (maxChunk : Nat) (bytes : Bytes) (cs cs' : List Bytes) (sz sz' : List Nat)
    (h : DecodesTo C maxChunk bytes cs sz) (h' : DecodesTo C maxChunk bytes cs' sz') : cs = cs' ∧ sz = sz' :=
  DecodesTo.unique h h'

/-! ## (4) totality: no panic, bounded allocation -/

/-- **Full statement, footer parser totality.**  For ANY input the footer parsers —
    `CasObjectInfoV1::deserialize` (`parseInfo`, incl. the V0 path), its body parsers,
    `CasObject::deserialize` (seek + parse + length check) and `CasObject::deserialize_async` — return
    a footer or one of the errors `UnexpectedEof` / `FormatError` (/ the `InvalidInput` io error of a
    seek before the start): never a panic.  (The model has no panic site in them: all reads are
    `read_exact`, all counts are compared, never used as indices.) -/
def C08_footer_parser_total_statement : Prop :=
  (∀ (input : Bytes) (e : Err), parseInfo input = .error e → e = .eof ∨ e = .format) ∧
  (∀ (c : Cur) (e : Err), parseInfoV1Body c = .error e → e = .eof ∨ e = .format) ∧
  (∀ (c : Cur) (e : Err), parseInfoV0Body c = .error e → e = .eof ∨ e = .format) ∧
  (∀ (obj : Bytes) (e : Err), deserialize obj = .error e → e = .eof ∨ e = .format ∨ e = .io) ∧
  (∀ (input : Bytes) (e : Err), deserializeAsyncV1 input = .error e → e = .eof ∨ e = .format)

theorem C08_footer_parser_total : C08_footer_parser_total_statement :=
  ⟨parseInfo_err, parseInfoV1Body_err, parseInfoV0Body_err, deserialize_err, deserializeAsyncV1_err⟩

/-- corollary in the shape of the property text: none of them returns `.error .panic`. -/
theorem C08_footer_parser_no_panic (input : Bytes) (c : Cur) :
    parseInfo input ≠ .error .panic ∧ parseInfoV1Body c ≠ .error .panic ∧ parseInfoV0Body c ≠ .error .panic ∧
    deserialize input ≠ .error .panic ∧ deserializeAsyncV1 input ≠ .error .panic := by
  refine ⟨fun h => ?_, fun h => ?_, fun h => ?_, fun h => ?_, fun h => ?_⟩
  · rcases parseInfo_err _ _ h with h | h <;> cases h
  · rcases parseInfoV1Body_err _ _ h with h | h <;> cases h
  · rcases parseInfoV0Body_err _ _ h with h | h <;> cases h
  · rcases deserialize_err _ _ h with h | h | h <;> cases h
  · rcases deserializeAsyncV1_err _ _ h with h | h <;> cases h

/-- the single-chunk decoders are total as well (header `validate`, decompression errors). -/
theorem C08_chunk_decoder_total (C : Codec) (maxChunk : Nat) (input : Bytes) (e : Err)
    (h : deserializeChunkSync C maxChunk input = .error e) : e = .eof ∨ e = .format ∨ e = .io :=
  deserializeChunkSync_err h

/-- **Full statement, bounded allocation.**  Every table the footer parser builds is paid for by
    input bytes: a successful `readU32s n` / `readHashes n` (the loops that fill
    `chunk_boundary_offsets`, `unpacked_chunk_offsets`, `chunk_hashes`) returns exactly `n` new entries
    AND `4·n` (resp. `32·n`) is at most the number of bytes that were available — an inflated declared
    count cannot succeed, and on failure at most `available/4` (resp. `/32`) entries were pushed.
    For a whole footer: `60 + 36·num_chunks ≤ bytes read ≤ |input|`, and the three tables have at most
    `num_chunks` entries.  (Separately, not modelled: the Rust `Vec::with_capacity` reservations are
    capped by `prealloc_num_chunks(declared) = min(declared, AVERAGE_NUM_CHUNKS_PER_XORB·9/8)`, so the
    up-front reservation is bounded by a constant and growth beyond it by the bytes actually read.) -/
def C08_alloc_bounded_statement : Prop :=
  (∀ (n : Nat) (c c' : Cur) (acc l : List Nat), readU32s n c acc = .ok (l, c') →
      l.length = acc.length + n ∧ 4 * n ≤ c.rest.length ∧ c'.rest.length + 4 * n = c.rest.length) ∧
  (∀ (n : Nat) (c c' : Cur) (acc l : List Hash), readHashes n c acc = .ok (l, c') →
      l.length = acc.length + n ∧ 32 * n ≤ c.rest.length ∧ c'.rest.length + 32 * n = c.rest.length) ∧
  (∀ (input : Bytes) (r : InfoRead), parseInfo input = .ok r →
      60 + 36 * r.info.numChunks ≤ r.bytesRead ∧ r.bytesRead ≤ input.length ∧
      r.info.hashes.length = r.info.numChunks ∧ r.info.boundaries.length = r.info.numChunks ∧
      r.info.unpacked.length ≤ r.info.numChunks) ∧
  (∀ (obj : Bytes) (cas : CasObject), deserialize obj = .ok cas →
      60 + 36 * cas.info.numChunks ≤ cas.infoLength ∧ cas.infoLength + 4 ≤ obj.length)

theorem C08_alloc_bounded : C08_alloc_bounded_statement := by
  refine ⟨fun n c c' acc l h => ?_, fun n c c' acc l h => ?_, fun input r h => ?_, fun obj cas h => ?_⟩
  · have := readU32s_ok n c c' acc l h; omega
  · have := readHashes_ok n c c' acc l h; omega
  · have s := parseInfo_spec input r h
    have := s.account
    refine ⟨s.size, by omega, s.ok.hashesLen, s.ok.bndLen, ?_⟩
    -- V1: exactly `num_chunks`; V0: empty
    simp only [parseInfo, bind, Except.bind] at h
    split at h; · cases h
    split at h; · cases h
    split at h; · cases h
    split at h
    · have := (parseInfoV0Body_spec _ _ h).unp; rw [this]; exact Nat.zero_le _
    · split at h; · cases h
      exact Nat.le_of_eq (parseInfoV1Body_spec _ _ h).unpLen
  · have s := deserialize_spec obj cas h
    exact ⟨s.size, s.fits⟩

/-- **Full statement, no panic.**  For every `P`, `C`, `maxChunk`, `obj`, `h`:
    * seekable validator: if `|obj| + 2·maxChunk + 8 ≤ u32::MAX` (the object plus one maximal chunk
      record fits `u32`: the synchronous decoder reports `header.compressed_length + 8` consumed even
      when the payload is cut short by the end of the file) and the chunk count *declared by the footer*
      times `maxChunk` fits `u32` (the `unpacked_chunk_offset += …` accumulator), then the verdict is not
      a panic;
    * streaming validator: if `|obj| ≤ u32::MAX` and the total unpacked size of every chunk prefix the
      stream decodes to fits `u32` (the `prefixsum += …` accumulator), then the verdict is not a panic.
    The excluded region is real: DESIGN §5 F7 (≥ 32 769 chunks of 128 KiB zeros compress to ≈ 18 MB and
    overflow the `u32` unpacked offset). -/
def C08_no_panic_statement : Prop :=
  ∀ (P : HashPrims) (C : Codec) (maxChunk : Nat) (obj : Bytes) (h : Hash),
    (obj.length + maxChunk * 2 + 8 ≤ u32Max →
      (∀ cas, deserialize obj = .ok cas → cas.info.numChunks * maxChunk ≤ u32Max) →
      validate P C maxChunk obj h ≠ .error .panic) ∧
    (obj.length ≤ u32Max →
      (∀ chunks sizes, Seg (deserializeChunkAsync C maxChunk) obj chunks sizes → sizes.sum ≤ obj.length →
        (chunks.map (·.length)).sum ≤ u32Max) →
      validateStream P C maxChunk obj h ≠ .error .panic)

theorem C08_no_panic : C08_no_panic_statement :=
  fun P C maxChunk obj h =>
    ⟨validate_no_panic P C maxChunk obj h, validateStream_no_panic P C maxChunk obj h⟩

/-- pure-length sufficient conditions (a declared chunk costs ≥ 36 footer bytes; a streamed chunk
    ≥ 8 bytes and unpacks to ≤ `maxChunk`): with `|obj| < 2^32` as the leading hypothesis. -/
theorem C08_no_panic_by_length (P : HashPrims) (C : Codec) (maxChunk : Nat) (obj : Bytes) (h : Hash)
    (hlen : obj.length < 2 ^ 32) :
    (obj.length + maxChunk * 2 + 8 ≤ u32Max → obj.length / 36 * maxChunk ≤ u32Max →
      validate P C maxChunk obj h ≠ .error .panic) ∧
    (obj.length / 8 * maxChunk ≤ u32Max → validateStream P C maxChunk obj h ≠ .error .panic) :=
  ⟨validate_no_panic' P C maxChunk obj h,
   validateStream_no_panic' P C maxChunk obj h (by simp only [u32Max]; omega)⟩

/-- the outcome of either validator on ANY input is accept / reject / one of the non-panic errors,
    under the hypotheses of `C08_no_panic` (trichotomy spelled out for the seekable validator). -/
theorem C08_validate_outcomes (P : HashPrims) (C : Codec) (maxChunk : Nat) (obj : Bytes) (h : Hash)
    (hobj : obj.length + maxChunk * 2 + 8 ≤ u32Max)
    (hdecl : ∀ cas, deserialize obj = .ok cas → cas.info.numChunks * maxChunk ≤ u32Max) :
    (∃ cas, validate P C maxChunk obj h = .accept cas none) ∨ validate P C maxChunk obj h = .reject ∨
    (∃ e, validate P C maxChunk obj h = .error e ∧ e ≠ .panic) := by
  cases hv : validate P C maxChunk obj h with
  | accept cas gb =>
    obtain ⟨hgb, _⟩ := validate_sound P C maxChunk obj h cas gb hv
    subst hgb; exact .inl ⟨cas, rfl⟩
  | reject => exact .inr (.inl rfl)
  | error e =>
    refine .inr (.inr ⟨e, rfl, fun he => ?_⟩)
    subst he
    exact validate_no_panic P C maxChunk obj h hobj hdecl hv

/-! ## Non-vacuity

The 5-chunk object of `XetProps/C07.lean` (`exCodec`, `exChunks`, `exSchemes`: LZ4 kept, LZ4 fallback
to `None`, BG4+LZ4 kept, empty chunk, plain `None`), now with toy hash primitives so that the hashes
are *consistent* (`hashes = cs.map P.dataHash`, `h = cas_node_hash`). -/

/-- toy primitives: length and byte sum (enough to make single-byte mutations visible) -/
def exP : HashPrims where
  dataHash b := ⟨UInt64.ofNat b.length, UInt64.ofNat (b.foldl (fun a x => a + x.toNat) 0), 7, 1⟩
  internalHash b := ⟨1, UInt64.ofNat b.length, UInt64.ofNat (b.foldl (fun a x => a + x.toNat) 0), 3⟩
  verifyHash _ := Hash.zero
  keyed _ _ := Hash.zero

def exHashes8 : List Hash := exChunks.map exP.dataHash
def exH8 : Hash := Merkle.casNodeHash exP (exChunks.map fun d => (exP.dataHash d, d.length))
def exSer8 : Serialized := serialize exCodec exH8 exChunks exHashes8 exSchemes

/-- decidable view of a verdict -/
def verdictCode : Verdict → Option (Option (CasObject × Option Nat))
  | .accept cas gb => some (some (cas, gb))
  | .reject => some none
  | .error _ => none

def verdictErr : Verdict → Option Err
  | .error e => some e
  | _ => none

/-- the hypotheses of `C08_complete` hold for the example -/
theorem exSerOK : SerOK exCodec exMax exH8 exChunks exHashes8 exSchemes :=
  ⟨by decide, by decide, by decide, by decide +kernel, by decide +kernel, by decide +kernel, by decide +kernel⟩

example : exH8 = ⟨1, 348, 16562, 3⟩ ∧ exSer8.bytes.length = 358 := by decide +kernel

/-- (3) instantiated: own hash accepted by both validators, the C07 example hash (≠) rejected -/
example : validate exP exCodec exMax exSer8.bytes exH8 = .accept exSer8.cas none ∧
    validateStream exP exCodec exMax exSer8.bytes exH8 = .accept exSer8.cas none ∧
    validate exP exCodec exMax exSer8.bytes exHash = .reject ∧
    validateStream exP exCodec exMax exSer8.bytes exHash = .reject := by
  have c := C08_complete_own_hash exP exCodec exCodec_roundTrip exMax (by decide) exH8 exChunks exHashes8
    exSchemes exSerOK rfl rfl
  have hne : exHash ≠ exH8 := by decide +kernel
  exact ⟨c.1, c.2.1, (c.2.2 exHash hne).1, (c.2.2 exHash hne).2⟩

/-- the same verdicts computed by the kernel from the model (no theorem involved) -/
example : verdictCode (validate exP exCodec exMax exSer8.bytes exH8) = some (some (exSer8.cas, none)) := by
  decide +kernel
example : verdictCode (validateStream exP exCodec exMax exSer8.bytes exH8) = some (some (exSer8.cas, none)) := by
  decide +kernel
example : verdictCode (validate exP exCodec exMax exSer8.bytes exHash) = some none ∧
    verdictCode (validateStream exP exCodec exMax exSer8.bytes exHash) = some none := by decide +kernel

/-- one mutated copy: a data byte of the last chunk (offset 57: `7 → 8`) — both validators reject -/
example : verdictCode (validate exP exCodec exMax (exSer8.bytes.set 57 8) exH8) = some none ∧
    verdictCode (validateStream exP exCodec exMax (exSer8.bytes.set 57 8) exH8) = some none := by decide +kernel

/-- a footer byte flipped (offset 70, inside `cashash`): reject; truncated at 200: `UnexpectedEof`;
    chunk area spliced twice: reject — never a panic -/
example : verdictCode (validate exP exCodec exMax (exSer8.bytes.set 70 0) exH8) = some none ∧
    verdictErr (validate exP exCodec exMax (exSer8.bytes.take 200) exH8) = some .eof ∧
    verdictErr (validateStream exP exCodec exMax (exSer8.bytes.take 200) exH8) = some .eof ∧
    verdictCode (validateStream exP exCodec exMax (exSer8.bytes.take 62 ++ exSer8.bytes.take 62) exH8) = some none := by
  decide +kernel

/-- the footer-absent accept shape of the streaming validator (`go_back = Some(0)`) on the bare
    chunk area: a regenerated footer with the same tables -/
example : verdictCode (validateStream exP exCodec exMax (exSer8.bytes.take 62) exH8)
    = some (some (casFromParts exH8 exSer8.cas.info.boundaries (chunkMeta exP exChunks), some 0)) := by
  decide +kernel

/-- the soundness conclusion on the example: the witness is the chunk list itself -/
example : DecodesTo exCodec exMax (exSer8.bytes.take 62) exChunks [10, 21, 10, 8, 13] := by
  have h := C08_serialized_decodes exCodec exCodec_roundTrip exMax (by decide) exChunks exSchemes (by decide)
    (by decide +kernel)
  have e1 : serChunks exCodec (exChunks.zip exSchemes) = exSer8.bytes.take 62 := by decide +kernel
  have e2 : physSizes exCodec (exChunks.zip exSchemes) = [10, 21, 10, 8, 13] := by decide +kernel
  rwa [e1, e2] at h

/-- the chunk-less object with the all-zero hash: accepted by the streaming validator, rejected by the
    seekable one — the side condition `num_chunks ≠ 0` of `C08_validators_agree_general` is necessary
    (reported to the integrator as an observed disagreement of the two validators). -/
def exEmptyInfo : Info :=
  ⟨Hash.zero, [], [], [], 0, hashesOffFromEnd 0 0 0, boundaryOffFromEnd 0 0, boundariesVersion, zeros 16⟩
def exEmptyObj : Bytes := exEmptyInfo.bytes ++ le32 exEmptyInfo.bytes.length
example : exEmptyObj.length = 96 ∧
    verdictCode (validateStream exP exCodec exMax exEmptyObj Hash.zero) = some (some (⟨exEmptyInfo, 92⟩, none)) ∧
    verdictCode (validate exP exCodec exMax exEmptyObj Hash.zero) = some none := by decide +kernel

/-- `C08_validators_agree_general` instantiated on the example object, from the streaming side -/
example : validate exP exCodec exMax exSer8.bytes exH8 = .accept exSer8.cas none := by
  have hs : validateStream exP exCodec exMax exSer8.bytes exH8 = .accept exSer8.cas none :=
    (C08_complete_own_hash exP exCodec exCodec_roundTrip exMax (by decide) exH8 exChunks exHashes8
      exSchemes exSerOK rfl rfl).2.1
  exact (C08_validators_agree_general exP exCodec exMax exSer8.bytes exH8 exSer8.cas).1 hs (by decide)

/-- the hypotheses of `C08_no_panic` are satisfiable (and hold for every byte string of that length) -/
example : exSer8.bytes.length + exMax * 2 + 8 ≤ u32Max ∧ exSer8.bytes.length / 36 * exMax ≤ u32Max ∧
    exSer8.bytes.length / 8 * exMax ≤ u32Max := by decide +kernel

/-- allocation bound witnessed: a footer declaring 2^32−1 chunks in 100 bytes fails with EOF -/
example : (readU32s 4294967295 ⟨zeros 100, 0⟩ []).toOption = none := by
  have := C08_alloc_bounded.1 4294967295 ⟨zeros 100, 0⟩
  cases h : readU32s 4294967295 ⟨zeros 100, 0⟩ [] with
  | error e => rfl
  | ok r =>
    have := this r.2 [] r.1 h
    simp [zeros] at this

end Xet.Xorb
