/-
C06 — Content hashes are stable pure functions and all code paths agree.

Model: `XetModel/Hash.lean`, `XetModel/Merkle.lean`; every theorem holds for *every* choice of the
hash primitives (`HashPrims`).  That the primitives are BLAKE3 with the source's keys is decided
by the correspondence suite `hashes` (an independent Lean BLAKE3 recomputes every value).
-/
import XetProofs.Merkle

namespace Xet.Merkle

/-- the branching constant regenerated from `merkledb/src/constants.rs` is usable:
    with `MEAN_TREE_BRANCHING_FACTOR = 0` the Rust loop would divide by zero, and the progress
    argument below needs `≥ 1`. -/
theorem C06_branching_ok : 1 ≤ branching := by decide

/-- **Progress / termination of `merge`.**  One level over ≥ 2 nodes yields between 1 and
    `(n+2)/3` parents — every parent except the last has ≥ 3 children — so the `while nodes.len() > 1`
    loop terminates with exactly one root. -/
theorem C06_level_shrinks (P : HashPrims) (m : Memo) (nodes : List Node) (h2 : 2 ≤ nodes.length) :
    1 ≤ (mergeOneLevel P branching m nodes).parents.length ∧
    (mergeOneLevel P branching m nodes).parents.length * 3 ≤ nodes.length + 2 := by
  refine ⟨(mergeOneLevel_progress P branching C06_branching_ok m nodes h2).1, ?_⟩
  have := mergeOneLevelAux_length_le P branching C06_branching_ok m [] nodes
  simpa [mergeOneLevel] using this

theorem C06_merge_terminates (P : HashPrims) (m : Memo) (nodes : List Node) (hne : nodes ≠ []) :
    (merge P branching m nodes).parents.length = 1 :=
  merge_single P branching C06_branching_ok m nodes hne

/-- **The uploader's xorb hash equals what both validators recompute.**  The validators go through
    `add_file` + `finalize` (leaves → `merge` → CAS staging that only extends the memo DB by an
    arbitrary `ext` → `merge` of the single file root); the producer calls `cas_node_hash`.
    For every chunk list (empty, singletons, repeated hashes, any lengths) the results coincide. -/
theorem C06_producer_eq_validators (P : HashPrims) (cs : List (Hash × Nat)) (ext : Memo) :
    validatorRoot P cs ext = casNodeHash P cs := by
  unfold validatorRoot casNodeHash rootHash
  split
  · rfl
  · rename_i hne
    have hne' : (addLeaves Memo.init cs).nodes ≠ [] := by
      intro h
      have := addLeaves_length Memo.init cs
      rw [h] at this
      cases cs <;> simp_all
    have h1 := C06_merge_terminates P (addLeaves Memo.init cs).memo (addLeaves Memo.init cs).nodes hne'
    generalize hp : (merge P branching (addLeaves Memo.init cs).memo (addLeaves Memo.init cs).nodes) = res at h1
    obtain ⟨parents, memo⟩ := res
    simp only at h1 ⊢
    match parents, h1 with
    | [r], _ => simp only [hp, merge_of_single]

/-- **hex round-trips**: `from_hex(hex(h)) = h`, and `hex` is always 64 characters. -/
theorem C06_hex_roundtrip (h : Hash) : Hash.fromHex h.hex = some h := by
  have l0 := wordHex_length h.w0
  have l1 := wordHex_length h.w1
  have l2 := wordHex_length h.w2
  have l3 := wordHex_length h.w3
  have hlen : h.hex.length = 64 := by simp [Hash.hex, l0, l1, l2, l3]
  unfold Hash.fromHex
  rw [if_neg (by omega)]
  have e : h.hex = Hash.wordHex h.w0 ++ (Hash.wordHex h.w1 ++ (Hash.wordHex h.w2 ++ Hash.wordHex h.w3)) := by
    simp [Hash.hex]
  have d16 : h.hex.drop 16 = Hash.wordHex h.w1 ++ (Hash.wordHex h.w2 ++ Hash.wordHex h.w3) := by
    rw [e]; exact List.drop_left' l0
  have d32 : h.hex.drop 32 = Hash.wordHex h.w2 ++ Hash.wordHex h.w3 := by
    have : h.hex.drop 32 = (h.hex.drop 16).drop 16 := by simp
    rw [this, d16]; exact List.drop_left' l1
  have d48 : h.hex.drop 48 = Hash.wordHex h.w3 := by
    have : h.hex.drop 48 = (h.hex.drop 32).drop 16 := by simp
    rw [this, d32]; exact List.drop_left' l2
  have t0 : h.hex.take 16 = Hash.wordHex h.w0 := by rw [e]; exact List.take_left' l0
  have t1 : (h.hex.drop 16).take 16 = Hash.wordHex h.w1 := by rw [d16]; exact List.take_left' l1
  have t2 : (h.hex.drop 32).take 16 = Hash.wordHex h.w2 := by rw [d32]; exact List.take_left' l2
  have t3 : (h.hex.drop 48).take 16 = Hash.wordHex h.w3 := by rw [d48, ← l3]; exact List.take_length
  rw [t0, t1, t2, t3]
  simp [parseWord_wordHex]

theorem C06_hex_length (h : Hash) : h.hex.length = 64 := by
  simp [Hash.hex, wordHex_length]

/-- `hex` is injective (distinct hashes never print alike) — consequence of the round trip. -/
theorem C06_hex_injective (a b : Hash) (h : a.hex = b.hex) : a = b := by
  have ha := C06_hex_roundtrip a
  rw [h, C06_hex_roundtrip b] at ha
  exact (Option.some.inj ha).symm

/-- **Streaming hasher = one-shot hash** for `HashedWrite`: whatever the inner writer accepts at
    each call (any sequence of short writes), the digest is the data hash of exactly the bytes
    that were handed on.  (Before the `fix:` commit the code hashed the whole buffer on every call;
    the suite `hashes` reproduces that on the implementation.) -/
theorem C06_hashedwrite_streaming (P : HashPrims) (buf : Bytes) (accepts : List Nat) :
    (HW.writeAll HW.init buf accepts).hash P = P.dataHash (HW.writeAll HW.init buf accepts).written := by
  simp [HW.hash, HW_writeAll_inv HW.init buf accepts rfl]

/-- The same under **inner-writer faults**: the caller presents the unconsumed rest again after every transient error of the
    inner writer (event `0`), the inner writer accepts any number of bytes otherwise.  The digest is the data hash of exactly the
    bytes that reached the inner writer, and those bytes are a prefix of the caller's data (nothing written twice, nothing
    skipped) — for every buffer and every event sequence. -/
theorem C06_hashedwrite_streaming_faulty (P : HashPrims) (buf : Bytes) (events : List Nat) :
    (HW.writeRetry HW.init buf events).hash P = P.dataHash (HW.writeRetry HW.init buf events).written
    ∧ ∃ k, k ≤ buf.length ∧ (HW.writeRetry HW.init buf events).written = buf.take k := by
  refine ⟨by simp [HW.hash, HW_writeRetry_inv HW.init buf events rfl], ?_⟩
  simpa [HW.init] using HW_writeRetry_prefix HW.init buf events

/-- Exact form: the digest is the data hash of the first `events.sum` bytes of the caller's data — in particular of all of it
    as soon as the inner writer has been willing to take that many bytes in total, however the acceptances and failures fell. -/
theorem C06_hashedwrite_retry_exact (P : HashPrims) (buf : Bytes) (events : List Nat) :
    (HW.writeRetry HW.init buf events).hash P = P.dataHash (buf.take events.sum) ∧
    (buf.length ≤ events.sum → (HW.writeRetry HW.init buf events).hash P = P.dataHash buf) := by
  have h := HW_writeRetry_exact HW.init buf events
  have hh : (HW.writeRetry HW.init buf events).hashed = buf.take events.sum := by
    rw [HW_writeRetry_inv HW.init buf events rfl, h]; simp [HW.init]
  refine ⟨by simp [HW.hash, hh], fun hle => ?_⟩
  simp [HW.hash, hh, List.take_of_length_le hle]

/-! ### Non-vacuity -/
example : (HW.writeRetry HW.init [1, 2, 3, 4, 5] [2, 0, 0, 1, 0, 9]).written = [1, 2, 3, 4, 5] := by decide

example : (merge ⟨fun _ => Hash.zero, fun b => ⟨0, 0, 0, UInt64.ofNat b.length⟩, fun _ => Hash.zero, fun _ _ => Hash.zero⟩
    branching Memo.init ((List.range 12).map fun i => ⟨⟨1, 2, 3, UInt64.ofNat (i * 4)⟩, i + 1⟩)).parents.length = 1 := by
  decide +kernel

end Xet.Merkle
