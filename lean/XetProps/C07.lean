/-
C07 — Xorb serialization round-trips for every chunk range and compression.

Model: `XetModel/XorbFormat.lean` (byte-exact chunk header, footer V1, object; `serializeChunk`,
the sync / async(=stream) chunk decoders, `CasObject::{serialize, deserialize, get_*}`),
`XetModel/Bg4.lean`, `XetModel/Hash.lean`.

Quantification.  Every theorem holds for
* EVERY codec `C` (LZ4 frame compressor/decompressor pair) with `C.RoundTrip`;
* every compression scheme per chunk (`None | LZ4 | ByteGrouping4LZ4`; the automatic choice
  `choose_from_data` is an oracle: any choice it makes is one of these), including the branch of
  `serialize_chunk` that falls back to `None` when compression does not shrink the chunk;
* every `maxChunk` with `maxChunk * 2 < 2^24` (the 3-byte header fields); the regenerated
  `MAXIMUM_CHUNK_SIZE` satisfies it (`C07_max_chunk_fits`);
* all chunk lists and lengths with no bound other than the format's field widths (u24 / u32).

`hbg` (BG4 regroup ∘ split = id) is taken as a hypothesis here:
-- discharged by Xet.Bg4.regroup_split at integration
-/
import XetProofs.XorbFormat

namespace Xet.Xorb

/-! ## (a) byte-level facts -/

/-- A 3-byte little-endian field (chunk header lengths) decodes to the number that was encoded,
    for every `n < 2^24`; stated on the three bytes as `parse_chunk_header` sees them. -/
theorem C07_le3_roundtrip (n : Nat) (h : n < 2 ^ 24) :
    le3 n = [UInt8.ofNat (n % 256), UInt8.ofNat (n / 256 % 256), UInt8.ofNat (n / 65536 % 256)] ∧
    ofLe3 (UInt8.ofNat (n % 256)) (UInt8.ofNat (n / 256 % 256)) (UInt8.ofNat (n / 65536 % 256)) = n :=
  ⟨rfl, ofLe3_le3 n h⟩

/-- A 4-byte little-endian `u32` (`write_u32` / `read_u32`) decodes to the number that was encoded,
    for every `n < 2^32`; stated on the four bytes as the footer parser sees them. -/
theorem C07_le32_roundtrip (n : Nat) (h : n < 2 ^ 32) :
    le32 n = [UInt8.ofNat (n % 256), UInt8.ofNat (n / 256 % 256), UInt8.ofNat (n / 65536 % 256),
              UInt8.ofNat (n / 16777216 % 256)] ∧
    ofLe32 (UInt8.ofNat (n % 256)) (UInt8.ofNat (n / 256 % 256)) (UInt8.ofNat (n / 65536 % 256))
      (UInt8.ofNat (n / 16777216 % 256)) = n :=
  ⟨rfl, ofLe32_le32 n h⟩

/-- Every hash survives `as_bytes` followed by `from`: 32 bytes, and reading them back gives the
    same four words (also when more bytes follow, as in the footer). -/
theorem C07_hash_bytes_roundtrip (h : Hash) (rest : Bytes) :
    (Hash.toBytes h).length = 32 ∧ Hash.ofBytes (Hash.toBytes h) = h ∧
    Hash.ofBytes (Hash.toBytes h ++ rest) = h :=
  ⟨Hash.toBytes_length h, Hash.ofBytes_toBytes h, Hash.ofBytes_toBytes_append h rest⟩

/-- Every compression scheme survives `as u8` followed by `CompressionScheme::try_from`. -/
theorem C07_scheme_code_roundtrip (s : Scheme) : Scheme.ofCode s.code = some s :=
  Scheme.ofCode_code s

/-- The production `MAXIMUM_CHUNK_SIZE` (regenerated from the Rust source) and twice that value (the
    bound on the compressed length) fit the 3-byte header fields. -/
theorem C07_max_chunk_fits : Gen.merkledbMaximumChunkSize * 2 < 2 ^ 24 := by decide

/-! ### facts about the regenerated constants the proofs use (one obligation per constant, so a
change of a constant in the Rust source breaks exactly that obligation) -/

/-- the chunk header version is one byte -/
theorem C07_const_chunk_version : currentChunkVersion < 256 := currentChunkVersion_lt
/-- `CAS_OBJECT_FORMAT_IDENT` is 7 bytes -/
theorem C07_const_ident_main : identMain.length = 7 := identMain_length
/-- `CAS_OBJECT_FORMAT_IDENT_HASHES` is 7 bytes -/
theorem C07_const_ident_hashes : identHashes.length = 7 := identHashes_length
/-- `CAS_OBJECT_FORMAT_IDENT_BOUNDARIES` is 7 bytes -/
theorem C07_const_ident_boundaries : identBoundaries.length = 7 := identBoundaries_length
/-- the footer version is one byte -/
theorem C07_const_format_version : formatVersion < 256 := formatVersion_lt
/-- the current footer version is not the legacy V0 version (else `deserialize` takes the V0 path) -/
theorem C07_const_format_version_ne_v0 : formatVersion ≠ formatVersionV0 := formatVersion_ne_v0
/-- the hashes-section version is one byte -/
theorem C07_const_hashes_version : hashesVersion < 256 := hashesVersion_lt
/-- the boundaries-section version is one byte -/
theorem C07_const_boundaries_version : boundariesVersion < 256 := boundariesVersion_lt

/-! ## (b) chunk header -/

/-- **Chunk header round trip.**  For every `maxChunk` with `2·maxChunk < 2^24` and every header
    with the current version, `clen ≤ 2·maxChunk`, `ulen ≤ maxChunk` and any scheme:
    `parse_chunk_header` of the 8 serialized bytes returns exactly that header. -/
theorem C07_chunk_header_roundtrip (maxChunk : Nat) (hmax : maxChunk * 2 < 2 ^ 24) (h : ChunkHeader)
    (hv : h.version = currentChunkVersion) (hc : h.clen ≤ 2 * maxChunk) (hu : h.ulen ≤ maxChunk) :
    parseChunkHeader maxChunk (ChunkHeader.bytes h) = .ok h :=
  parseChunkHeader_bytes maxChunk hmax h hv (by omega) hu

/-! ## (c) one chunk -/

/-- **Chunk round trip.**  For every round-tripping codec, every scheme (whether the compressed
    form is kept or the incompressible fallback to `None` is taken), every chunk `d` of at most
    `maxChunk` bytes and every following input `rest`: both the synchronous and the asynchronous
    single-chunk decoder return exactly `d`, report header + payload bytes consumed, and leave the
    reader exactly at `rest`. -/
theorem C07_chunk_roundtrip (C : Codec) (hC : C.RoundTrip)
    (hbg : ∀ d, Bg4.regroup (Bg4.split d) = d)   -- discharged by Xet.Bg4.regroup_split at integration
    (maxChunk : Nat) (hmax : maxChunk * 2 < 2 ^ 24) (sch : Scheme) (d rest : Bytes)
    (hd : d.length ≤ maxChunk) :
    deserializeChunkSync C maxChunk (serializeChunk C sch d ++ rest)
      = .ok ⟨d, (serializeChunk C sch d).length, rest⟩ ∧
    deserializeChunkAsync C maxChunk (serializeChunk C sch d ++ rest)
      = .ok ⟨d, (serializeChunk C sch d).length, rest⟩ :=
  ⟨deserializeChunkSync_serializeChunk C hC hbg maxChunk hmax sch d rest hd,
   deserializeChunkAsync_serializeChunk C hC hbg maxChunk hmax sch d rest hd⟩

/-- the serialized chunk is the 8-byte header plus a payload no longer than the chunk (the
    fallback guarantees compression never expands). -/
theorem C07_chunk_size (C : Codec) (sch : Scheme) (d : Bytes) :
    8 ≤ (serializeChunk C sch d).length ∧ (serializeChunk C sch d).length ≤ 8 + d.length := by
  have := serializeChunk_length C sch d
  have := chunkPayloadOf_length_le C sch d
  simp only [chunkHeaderLen] at *
  omega

/-! ## (d) chunk sequences: the three decoders -/

/-- **Decoder agreement.**  For every chunk list `cs` (each chunk ≤ `maxChunk`; any number of
    chunks, also none) with one scheme per chunk, on the concatenation `ser` of the serialized
    chunks the synchronous multi-chunk decoder and the asynchronous one (which is also the
    streaming one: `deserialize_chunks_from_stream` runs the async decoder over a `StreamReader`)
    return the same result, and it is: all chunk bytes in order, all of `ser` consumed, and
    `chunk_byte_indices = 0 ::` running sums of the chunk lengths.  In particular the loop fuel
    `|ser| + 1` of the model is enough. -/
theorem C07_decoders_agree (C : Codec) (hC : C.RoundTrip)
    (hbg : ∀ d, Bg4.regroup (Bg4.split d) = d)   -- discharged by Xet.Bg4.regroup_split at integration
    (maxChunk : Nat) (hmax : maxChunk * 2 < 2 ^ 24) (cs : List Bytes) (schemes : List Scheme)
    (hlen : schemes.length = cs.length) (hcs : ∀ c ∈ cs, c.length ≤ maxChunk) :
    let ser := ((cs.zip schemes).map fun p => serializeChunk C p.2 p.1).flatten
    deserializeChunks (deserializeChunkSync C maxChunk) ser
      = .ok ⟨cs.flatten, ser.length, 0 :: runningSums 0 (cs.map (·.length))⟩ ∧
    deserializeChunks (deserializeChunkAsync C maxChunk) ser
      = deserializeChunks (deserializeChunkSync C maxChunk) ser := by
  intro ser
  have hps : ∀ p ∈ cs.zip schemes, p.1.length ≤ maxChunk :=
    fun p hp => hcs p.1 (List.of_mem_zip hp).1
  have hm : (cs.zip schemes).map (·.1) = cs := map_fst_zip_eq cs schemes hlen
  have hml : (cs.zip schemes).map (·.1.length) = cs.map (·.length) := by
    rw [← hm, List.map_map]; simp only [hm]; rfl
  have e1 := deserializeChunks_serChunks C maxChunk _ (goodDecoder_sync C hC hbg maxChunk hmax) _ hps
  have e2 := deserializeChunks_serChunks C maxChunk _ (goodDecoder_async C hC hbg maxChunk hmax) _ hps
  rw [hm, hml] at e1 e2
  exact ⟨e1, e2.trans e1.symm⟩

/-! ## (e) footer -/

/-- **Footer round trip.**  For every well-formed `CasObjectInfoV1` (`Info.WF`: the three tables have
    `num_chunks` entries, every entry, `num_chunks` and the two back-offsets fit `u32`, the
    back-offsets are the ones `fill_in_boundary_offsets` computes, 16 buffer bytes, current
    boundaries version) followed by any bytes `rest`: `CasObjectInfoV1::deserialize` returns exactly
    that footer, reports its serialized length as bytes read, and leaves the reader at `rest`. -/
theorem C07_footer_roundtrip (info : Info) (hwf : info.WF) (rest : Bytes) :
    parseInfo (info.bytes ++ rest) = .ok ⟨info, info.bytes.length, rest⟩ :=
  parseInfo_bytes info hwf rest

/-- the serialized V1 footer of an `n`-chunk object is `92 + 40·n` bytes. -/
theorem C07_footer_length (info : Info) (hwf : info.WF) : info.bytes.length = 92 + 40 * info.numChunks := by
  rw [Info.bytes_length info hwf]
  simp only [infoLen, hashesOffFromEnd, boundaryOffFromEnd]
  omega

/-- the same body parser is used by `deserialize_async` (after ident + version were consumed). -/
theorem C07_footer_body_roundtrip (info : Info) (hwf : info.WF) (rest : Bytes) (pos : Nat) :
    parseInfoV1Body ⟨info.bodyBytes rest, pos⟩ = .ok ⟨info, pos + 32 + info.hashesOffFromEnd, rest⟩ :=
  parseInfoV1Body_bodyBytes info hwf rest pos

/-! ## (f) whole object -/

/-- **Object round trip.**  For every round-tripping codec, every non-empty chunk list `cs` (each
    chunk ≤ `maxChunk`), one hash and one scheme per chunk, a non-zero object hash, serialized size
    `< 2^32` and total content `< 2^32` (the `u32` fields of the footer; the content bound is the
    type of the `(hash, u32)` boundary list `CasObject::serialize` takes): with
    `s = CasObject::serialize(..)`,
    * `deserialize` of the bytes returns exactly the `CasObject` that `serialize` returned;
    * its boundary table is the running sums of the physical chunk sizes, its unpacked table the
      running sums of the chunk lengths, its hash table the given hashes;
    * `get_all_bytes` returns the concatenation of all chunks;
    * for EVERY chunk range `i < j ≤ n`, `get_bytes_by_chunk_range` returns exactly the
      concatenation of chunks `i..j`;
    * `uncompressed_range_length i j` is the total length of chunks `i..j` (`i ≤ j ≤ n`, `i < n`)
      and `uncompressed_chunk_length i` the length of chunk `i`. -/
theorem C07_object_roundtrip (C : Codec) (hC : C.RoundTrip)
    (hbg : ∀ d, Bg4.regroup (Bg4.split d) = d)   -- discharged by Xet.Bg4.regroup_split at integration
    (maxChunk : Nat) (hmax : maxChunk * 2 < 2 ^ 24)
    (h : Hash) (cs : List Bytes) (hashes : List Hash) (schemes : List Scheme)
    (hne : 1 ≤ cs.length) (hhl : hashes.length = cs.length) (hsl : schemes.length = cs.length)
    (hcs : ∀ c ∈ cs, c.length ≤ maxChunk) (hh : h ≠ Hash.zero)
    (hsize : (serialize C h cs hashes schemes).bytes.length < 2 ^ 32)
    (hunp : (cs.map (·.length)).sum < 2 ^ 32) :
    let s := serialize C h cs hashes schemes
    deserialize s.bytes = .ok s.cas ∧
    s.cas.info.boundaries
      = runningSums 0 ((cs.zip schemes).map fun p => (serializeChunk C p.2 p.1).length) ∧
    s.cas.info.unpacked = runningSums 0 (cs.map (·.length)) ∧
    s.cas.info.hashes = hashes ∧ s.cas.info.cashash = h ∧ s.cas.info.numChunks = cs.length ∧
    getAllBytes C maxChunk s.cas s.bytes = .ok cs.flatten ∧
    (∀ i j, i < j → j ≤ cs.length →
      getBytesByChunkRange C maxChunk s.cas s.bytes i j = .ok ((cs.drop i).take (j - i)).flatten) ∧
    (∀ i j, i ≤ j → i < cs.length → j ≤ cs.length →
      uncompressedRangeLength s.cas i j = .ok (((cs.drop i).take (j - i)).map (·.length)).sum) ∧
    (∀ i (hi : i < cs.length), uncompressedChunkLength s.cas i = .ok cs[i].length) := by
  intro s
  have ok : SerOK C maxChunk h cs hashes schemes := ⟨hne, hhl, hsl, hcs, hh, hsize, hunp⟩
  exact ⟨deserialize_serialize C maxChunk h cs hashes schemes ok,
    serInfo_boundaries C h cs hashes schemes, rfl, rfl, rfl, rfl,
    getAllBytes_serialize C hC hbg maxChunk hmax h cs hashes schemes ok,
    fun i j hij hj => getBytesByChunkRange_serialize C hC hbg maxChunk hmax h cs hashes schemes ok i j hij hj,
    fun i j hij hi hj => uncompressedRangeLength_serialize C maxChunk h cs hashes schemes ok i j hij hi hj,
    fun i hi => uncompressedChunkLength_serialize C maxChunk h cs hashes schemes ok i hi⟩

/-- the footer written by `serialize` is well-formed in the sense of `C07_footer_roundtrip`. -/
theorem C07_serialized_footer_wf (C : Codec) (maxChunk : Nat)
    (h : Hash) (cs : List Bytes) (hashes : List Hash) (schemes : List Scheme)
    (hne : 1 ≤ cs.length) (hhl : hashes.length = cs.length) (hsl : schemes.length = cs.length)
    (hcs : ∀ c ∈ cs, c.length ≤ maxChunk) (hh : h ≠ Hash.zero)
    (hsize : (serialize C h cs hashes schemes).bytes.length < 2 ^ 32)
    (hunp : (cs.map (·.length)).sum < 2 ^ 32) :
    (serialize C h cs hashes schemes).cas.info.WF :=
  serInfo_WF C maxChunk h cs hashes schemes ⟨hne, hhl, hsl, hcs, hh, hsize, hunp⟩

/-! ## Non-vacuity -/

/-- a toy codec that really compresses something: runs of 3..255 zero bytes become 2 bytes,
    everything else is stored with a one-byte tag (so it expands: the fallback branch). -/
def exCodec : Codec where
  lz4c d := if 3 ≤ d.length ∧ d.length < 256 ∧ d.all (· == 0) = true then [1, UInt8.ofNat d.length] else 0 :: d
  lz4d b := match b with
    | 0 :: d => .ok d
    | [1, n] => .ok (List.replicate n.toNat 0)
    | _ => .err

theorem all_zero_eq_replicate (d : Bytes) (h : d.all (· == 0) = true) : List.replicate d.length 0 = d := by
  induction d with
  | nil => rfl
  | cons x xs ih =>
    simp only [List.all_cons, Bool.and_eq_true, beq_iff_eq] at h
    simp only [List.length_cons, List.replicate_succ, ih h.2, h.1]

theorem exCodec_roundTrip : exCodec.RoundTrip := by
  intro d
  by_cases h : 3 ≤ d.length ∧ d.length < 256 ∧ d.all (· == 0) = true
  · simp only [exCodec, if_pos h, toNat_ofNat_u8, Nat.mod_eq_of_lt h.2.1, all_zero_eq_replicate d h.2.2]
  · simp only [exCodec, if_neg h]

def exMax : Nat := 64
def exChunks : List Bytes :=
  [zeros 40, (List.range 13).map (fun i => UInt8.ofNat (i * 37 + 5)), zeros 37, [], [7, 0, 0, 0, 9]]
def exSchemes : List Scheme := [.lz4, .lz4, .bg4lz4, .bg4lz4, .none]
def exHashes : List Hash := [⟨1, 2, 3, 4⟩, ⟨5, 6, 7, 8⟩, ⟨9, 10, 11, 12⟩, ⟨13, 14, 15, 16⟩, ⟨0, 0, 0, 1⟩]
def exHash : Hash := ⟨0xdeadbeef, 1, 2, 0xffffffffffffffff⟩
def exSer : Serialized := serialize exCodec exHash exChunks exHashes exSchemes

example : exMax * 2 < 2 ^ 24 := by decide
example : 1 ≤ exChunks.length ∧ exHashes.length = exChunks.length ∧ exSchemes.length = exChunks.length := by decide
example : ∀ c ∈ exChunks, c.length ≤ exMax := by decide +kernel
example : exHash ≠ Hash.zero := by decide
example : exSer.bytes.length < 2 ^ 32 ∧ (exChunks.map (·.length)).sum < 2 ^ 32 := by decide +kernel

/-- the example exercises: compressed LZ4 kept, LZ4 fallback to `None`, compressed BG4+LZ4 kept,
    empty chunk, plain `None` (schemes recorded in the five chunk headers). -/
example : exSer.cas.info.boundaries = [10, 31, 41, 49, 62] ∧ exSer.cas.info.unpacked = [40, 53, 90, 90, 95] ∧
    exSer.bytes.length = 62 + (92 + 40 * 5) + 4 := by decide +kernel
example : [0, 10, 31, 41, 49].map (fun o => (exSer.bytes.drop o).getD 4 255) = [1, 0, 2, 0, 0] := by decide +kernel


/-- the conclusions evaluated on the example by the kernel (no BG4 hypothesis needed): footer
    parse, whole object, a middle chunk range crossing all branch kinds, lengths. -/
example : (deserialize exSer.bytes).toOption = some exSer.cas := by decide +kernel
example : (getAllBytes exCodec exMax exSer.cas exSer.bytes).toOption = some exChunks.flatten := by decide +kernel
example : (getBytesByChunkRange exCodec exMax exSer.cas exSer.bytes 1 4).toOption
    = some ((exChunks.drop 1).take 3).flatten := by decide +kernel
example : (uncompressedRangeLength exSer.cas 1 4).toOption = some 50 ∧
    (uncompressedChunkLength exSer.cas 2).toOption = some 37 := by decide +kernel
example : ((deserializeChunks (deserializeChunkAsync exCodec exMax) (exSer.bytes.take 62)).toOption.map
    fun r => (r.data, r.consumed, r.indices)) = some (exChunks.flatten, 62, [0, 40, 53, 90, 90, 95]) := by
  decide +kernel

/-- all hypotheses of the object theorem hold together for the example (given the BG4 fact). -/
example (hbg : ∀ d, Bg4.regroup (Bg4.split d) = d) :
    getBytesByChunkRange exCodec exMax exSer.cas exSer.bytes 2 5 = .ok ((exChunks.drop 2).take 3).flatten :=
  (C07_object_roundtrip exCodec exCodec_roundTrip hbg exMax (by decide) exHash exChunks exHashes exSchemes
    (by decide) (by decide) (by decide) (by decide +kernel) (by decide) (by decide +kernel)
    (by decide +kernel)).2.2.2.2.2.2.2.1 2 5 (by decide) (by decide)

/-- a well-formed footer that is not produced by `serialize` (arbitrary tables), and a header. -/
def exInfo : Info :=
  ⟨exHash, [exHash, Hash.zero], [4294967295, 7], [0, 4294967295], 2, hashesOffFromEnd 2 2 2, boundaryOffFromEnd 2 2,
   boundariesVersion, [1, 2, 3, 4, 5, 6, 7, 8, 9, 10, 11, 12, 13, 14, 15, 16]⟩
example : exInfo.WF := by decide +kernel
example : ((parseInfo (exInfo.bytes ++ [1, 2, 3])).toOption.map fun r => (r.info, r.bytesRead, r.rest))
    = some (exInfo, 172, [1, 2, 3]) := by decide +kernel
example : parseChunkHeader exMax (ChunkHeader.bytes ⟨currentChunkVersion, 128, .bg4lz4, 64⟩)
    = .ok ⟨currentChunkVersion, 128, .bg4lz4, 64⟩ :=
  C07_chunk_header_roundtrip exMax (by decide) _ rfl (by decide) (by decide)


end Xet.Xorb
