/-
Lemmas for C09 (interpolation search): the loop invariant of DESIGN.md Appendix A.1 and its
preservation by the three arms, the duplicate batch, the final scan, and fuel sufficiency.
-/
import XetModel.InterpSearch
namespace Xet.InterpSearch

/-! ### checked primitives succeed under their side condition -/

theorem csub_ok {a b : Nat} (h : b ≤ a) : csub a b = .ok (a - b) := by simp [csub, h]
theorem cadd_ok {a b : Nat} (h : a + b ≤ u64Max) : cadd a b = .ok (a + b) := by simp [cadd, h]
theorem cmul_ok {a b : Nat} (h : a * b ≤ u64Max) : cmul a b = .ok (a * b) := by simp [cmul, h]
theorem readKey_ok {t : Table} {off : Nat} (h : off < t.n) : readKey t off = .ok (t.key off) := by
  simp [readKey, h]
theorem readVal_ok {t : Table} {off : Nat} (h : off < t.n) : readVal t off = .ok (t.val off) := by
  simp [readVal, h]

@[simp] theorem ok_bind {α β : Type} (a : α) (f : α → Except Err β) : (Except.ok a >>= f) = f a := rfl
@[simp] theorem pure_eq_ok {α : Type} (a : α) : (pure a : Except Err α) = .ok a := rfl

/-- Side conditions under which the theorems hold.  `hD1`, `hW1` are about the two constants of the
    Rust source (checked by `decide` on the regenerated constants in `XetProps/C09Search.lean`; the
    proof does not need `D ≤ W`);
    `hN`, `hB`, `hK` say that the table positions, the byte offsets and the key are `u64` values. -/
structure Bounds (p : Params) (t : Table) (key : Nat) : Prop where
  hD1 : 1 ≤ p.D
  hW1 : 1 ≤ p.W
  hN : t.n + p.W + 1 ≤ u64Max
  hB : p.readStart + t.n * p.pairSize ≤ u64Max
  hK : key ≤ u64Max

/-! ### the specification function `valsIn` -/

theorem valsIn_append (t : Table) (key : Nat) : ∀ (c1 a c2 : Nat),
    valsIn t key a (c1 + c2) = valsIn t key a c1 ++ valsIn t key (a + c1) c2 := by
  intro c1
  induction c1 with
  | zero => intro a c2; simp [valsIn]
  | succ c ih =>
    intro a c2
    have e : c + 1 + c2 = (c + c2) + 1 := by omega
    have e2 : a + 1 + c = a + (c + 1) := by omega
    rw [e]
    simp only [valsIn]
    rw [ih (a + 1) c2, e2]
    split <;> simp

theorem valsIn_eq_nil (t : Table) (key : Nat) : ∀ (cnt a : Nat),
    (∀ o, a ≤ o → o < a + cnt → t.key o ≠ key) → valsIn t key a cnt = [] := by
  intro cnt
  induction cnt with
  | zero => intro a _; simp [valsIn]
  | succ c ih =>
    intro a h
    simp only [valsIn]
    rw [if_neg (h a (Nat.le_refl a) (by omega))]
    exact ih (a + 1) (fun o h1 h2 => h o (by omega) (by omega))

theorem valsIn_succ_eq (t : Table) (key a cnt : Nat) (h : t.key a = key) :
    valsIn t key a (cnt + 1) = t.val a :: valsIn t key (a + 1) cnt := by
  simp [valsIn, h]

theorem valsIn_succ_ne (t : Table) (key a cnt : Nat) (h : t.key a ≠ key) :
    valsIn t key a (cnt + 1) = valsIn t key (a + 1) cnt := by
  simp [valsIn, h]

/-- split `[a, a + c)` at `b`. -/
theorem valsIn_split (t : Table) (key a b c : Nat) (h1 : a ≤ b) (h2 : b ≤ a + c) :
    valsIn t key a c = valsIn t key a (b - a) ++ valsIn t key b (a + c - b) := by
  have e : c = (b - a) + (a + c - b) := by omega
  have e2 : a + (b - a) = b := by omega
  conv => lhs; rw [e]
  rw [valsIn_append, e2]

theorem valsIn_length_le (t : Table) (key : Nat) : ∀ (cnt a : Nat), (valsIn t key a cnt).length ≤ cnt := by
  intro cnt
  induction cnt with
  | zero => intro a; simp [valsIn]
  | succ c ih =>
    intro a
    simp only [valsIn]
    have := ih (a + 1)
    split <;> simp <;> omega

/-! ### `write_result` keeps the first `cap` recorded values -/

theorem writeResult_take (cap : Nat) (full : List Nat) (v : Nat) :
    writeResult cap (full.take cap) v = (full ++ [v]).take cap := by
  unfold writeResult
  by_cases h : full.length < cap
  · have h1 : (full.take cap).length < cap := by simp [List.length_take]; omega
    rw [if_pos h1, List.take_of_length_le (by omega), List.take_of_length_le (by simp; omega)]
  · have h1 : ¬ (full.take cap).length < cap := by simp [List.length_take]; omega
    rw [if_neg h1, List.take_append_of_le_length (by omega)]

/-! ### the clamp -/

theorem computeProbe_spec (φ : Probe) (key lo loKey hi hiKey : Nat)
    (h1 : loKey ≤ key) (h2 : loKey ≤ hiKey) (h3 : lo < hi) (h4 : hi ≤ u64Max) :
    ∃ cand, computeProbe φ key lo loKey hi hiKey = .ok cand ∧ cand ≤ hi - 1 ∧ lo ≤ cand ∧
      (lo + 1 ≤ hi - 1 → lo + 1 ≤ cand) := by
  refine ⟨min (max (φ lo loKey hi hiKey key) (lo + 1)) (hi - 1), ?_, ?_, ?_, ?_⟩
  · simp (disch := omega) only [computeProbe, csub_ok, cadd_ok, ok_bind, pure_eq_ok]
  · omega
  · omega
  · omega

theorem seekEntry_ok (p : Params) (t : Table) (key : Nat) (hb : Bounds p t key) (off : Nat) (h : off ≤ t.n) :
    seekEntry p off = .ok off := by
  have hm : off * p.pairSize ≤ t.n * p.pairSize := Nat.mul_le_mul_right _ h
  have hB := hb.hB
  simp (disch := omega) only [seekEntry, cmul_ok, cadd_ok, ok_bind, pure_eq_ok]

/-! ### the invariant (DESIGN.md Appendix A.1) -/

/-- `full` is the ghost *recording sequence*: every value ever passed to `write_result`, in order. -/
structure Inv (p : Params) (t : Table) (key : Nat) (s : St) (full : List Nat) : Prop where
  lo_lt : s.lo < s.hi
  hi_le : s.hi ≤ t.n + 1
  /-- positions `1 … lo` hold keys `< key` -/
  below : ∀ o, o < s.lo → t.key o < key
  /-- positions `hi … n` hold keys `≥ key` … -/
  above : ∀ o, s.hi ≤ o + 1 → o < t.n → key ≤ t.key o
  out_eq : s.out = full.take p.cap
  /-- … and everything equal to `key` among them has been recorded, exactly once -/
  full_perm : full.Perm (valsIn t key (s.hi - 1) (t.n + 1 - s.hi))
  loKey_le : s.loKey ≤ key
  key_le : key ≤ s.hiKey
  /-- while the loop continues the probe is strictly inside `(lo, hi)` -/
  probe_in : s.lo + p.W < s.hi → s.lo < s.probe ∧ s.probe < s.hi

/-- lowering `hi` to `q` when all of `[q, hi)` was handled: the new recording sequence is
    `full ++ valsIn (q-1) (hi-q)`. -/
theorem perm_lower (t : Table) (key hi q n : Nat) (full : List Nat) (hq1 : 1 ≤ q) (hq : q ≤ hi) (hh : hi ≤ n + 1)
    (hp : full.Perm (valsIn t key (hi - 1) (n + 1 - hi))) :
    (full ++ valsIn t key (q - 1) (hi - q)).Perm (valsIn t key (q - 1) (n + 1 - q)) := by
  rw [valsIn_split t key (q - 1) (hi - 1) (n + 1 - q) (by omega) (by omega)]
  have e1 : hi - 1 - (q - 1) = hi - q := by omega
  have e2 : q - 1 + (n + 1 - q) - (hi - 1) = n + 1 - hi := by omega
  rw [e1, e2]
  exact List.perm_append_comm.trans (List.Perm.append_left _ hp)

/-! ### the three arms -/

theorem stepLess_spec (φ : Probe) (p : Params) (t : Table) (key : Nat) (s : St) (full : List Nat) (pk : Nat)
    (hs : Sorted t) (hb : Bounds p t key) (hI : Inv p t key s full) (hg : s.lo + p.W < s.hi)
    (hpk : pk = t.key (s.probe - 1)) (hlt : key < pk) :
    ∃ s', stepLess φ p key s pk = .ok s' ∧ Inv p t key s' full ∧ s'.hi - s'.lo < s.hi - s.lo := by
  obtain ⟨hpl, hph⟩ := hI.probe_in hg
  have hhi := hI.hi_le
  have hN := hb.hN
  have hlk := hI.loKey_le
  have hD1 := hb.hD1
  have hW1 := hb.hW1
  obtain ⟨cand, hc, b1, b2, b3⟩ := computeProbe_spec φ key s.lo s.loKey s.probe pk hlk (by omega) hpl (by omega)
  -- nothing in `[probe, hi)` equals `key`
  have hnil : valsIn t key (s.probe - 1) (s.hi - s.probe) = [] := by
    apply valsIn_eq_nil
    intro o h1 h2
    have := hs (s.probe - 1) o h1 (by omega)
    omega
  have hperm : full.Perm (valsIn t key (s.probe - 1) (t.n + 1 - s.probe)) := by
    have := perm_lower t key s.hi s.probe t.n full (by omega) (by omega) hhi hI.full_perm
    rwa [hnil, List.append_nil] at this
  have habove : ∀ o, s.probe ≤ o + 1 → o < t.n → key ≤ t.key o := by
    intro o h1 h2
    have := hs (s.probe - 1) o (by omega) h2
    omega
  simp (disch := omega) only [stepLess, hc, ok_bind, cadd_ok, csub_ok, pure_eq_ok]
  split
  · refine ⟨_, rfl, ?_, ?_⟩
    · exact ⟨hpl, by dsimp only; omega, hI.below, habove, hI.out_eq, hperm, hlk, by dsimp only; omega,
        by dsimp only; omega⟩
    · dsimp only; omega
  · refine ⟨_, rfl, ?_, ?_⟩
    · exact ⟨hpl, by dsimp only; omega, hI.below, habove, hI.out_eq, hperm, hlk, by dsimp only; omega,
        by dsimp only; omega⟩
    · dsimp only; omega

/-- the duplicate batch: starting with the cursor at offset `cur`, `cnt` iterations, all keys in
    `[cur, cur+cnt)` being `≥ key`, it records exactly the values of the entries equal to `key`. -/
theorem batch_spec (t : Table) (key cap : Nat) (hs : Sorted t) : ∀ (cnt cur : Nat) (full : List Nat),
    cur + cnt ≤ t.n → (∀ o, cur ≤ o → o < cur + cnt → key ≤ t.key o) →
    batch t key cap cnt cur (full.take cap) = .ok ((full ++ valsIn t key cur cnt).take cap) := by
  intro cnt
  induction cnt with
  | zero => intro cur full _ _; simp [batch, valsIn]
  | succ c ih =>
    intro cur full hle hge
    simp (disch := omega) only [batch, readKey_ok, readVal_ok, ok_bind, pure_eq_ok]
    by_cases hk : t.key cur = key
    · rw [if_pos hk, writeResult_take, ih (cur + 1) (full ++ [t.val cur]) (by omega)
        (fun o h1 h2 => hge o (by omega) (by omega)), valsIn_succ_eq t key cur c hk]
      simp
    · rw [if_neg hk]
      have hnil : valsIn t key cur (c + 1) = [] := by
        apply valsIn_eq_nil
        intro o h1 h2
        have := hs cur o h1 (by omega)
        have := hge cur (Nat.le_refl _) (by omega)
        omega
      rw [hnil, List.append_nil]

theorem stepEqual_spec (p : Params) (t : Table) (key : Nat) (s : St) (full : List Nat)
    (hs : Sorted t) (hb : Bounds p t key) (hI : Inv p t key s full) (hg : s.lo + p.W < s.hi)
    (heq : t.key (s.probe - 1) = key) :
    ∃ s' full', stepEqual p t key s (s.probe - 1) key = .ok s' ∧ Inv p t key s' full' ∧
      s'.hi - s'.lo < s.hi - s.lo := by
  obtain ⟨hpl, hph⟩ := hI.probe_in hg
  have hhi := hI.hi_le
  have hN := hb.hN
  have hD1 := hb.hD1
  have hW1 := hb.hW1
  have hlk := hI.loKey_le
  have habove : ∀ o, s.probe ≤ o + 1 → o < t.n → key ≤ t.key o := by
    intro o h1 h2
    have := hs (s.probe - 1) o (by omega) h2
    omega
  have hcur : s.probe - 1 + 1 = s.probe := by omega
  have hbatch := batch_spec t key p.cap hs (s.hi - (s.probe + 1)) s.probe (full ++ [t.val (s.probe - 1)])
    (by omega) (fun o h1 h2 => habove o (by omega) (by omega))
  have hvals : valsIn t key (s.probe - 1) (s.hi - s.probe) =
      t.val (s.probe - 1) :: valsIn t key s.probe (s.hi - (s.probe + 1)) := by
    have e : s.hi - s.probe = (s.hi - (s.probe + 1)) + 1 := by omega
    rw [e, valsIn_succ_eq t key (s.probe - 1) _ heq, hcur]
  have hperm := perm_lower t key s.hi s.probe t.n full (by omega) (by omega) hhi hI.full_perm
  simp (disch := omega) only [stepEqual, readVal_ok, ok_bind, cadd_ok, csub_ok, pure_eq_ok]
  rw [hI.out_eq, writeResult_take, hcur, hbatch]
  simp only [ok_bind]
  refine ⟨_, full ++ valsIn t key (s.probe - 1) (s.hi - s.probe), rfl, ?_, ?_⟩
  · refine ⟨hpl, by dsimp only; omega, hI.below, habove, ?_, hperm, hlk, by dsimp only; omega,
      by dsimp only; omega⟩
    dsimp only
    rw [hvals]
    simp
  · dsimp only; omega

theorem stepGreater_spec (φ : Probe) (p : Params) (t : Table) (key : Nat) (s : St) (full : List Nat) (pk : Nat)
    (hs : Sorted t) (hb : Bounds p t key) (hI : Inv p t key s full) (hg : s.lo + p.W < s.hi)
    (hpk : pk = t.key (s.probe - 1)) (hgt : pk < key) :
    ∃ s', stepGreater φ p key s pk = .ok s' ∧ Inv p t key s' full ∧ s'.hi - s'.lo < s.hi - s.lo := by
  obtain ⟨hpl, hph⟩ := hI.probe_in hg
  have hhi := hI.hi_le
  have hN := hb.hN
  have hkh := hI.key_le
  have hD1 := hb.hD1
  have hW1 := hb.hW1
  obtain ⟨cand, hc, b1, b2, b3⟩ := computeProbe_spec φ key s.probe pk s.hi s.hiKey (by omega) (by omega) hph (by omega)
  have hbelow : ∀ o, o < s.probe → t.key o < key := by
    intro o h1
    have := hs o (s.probe - 1) (by omega) (by omega)
    omega
  simp (disch := omega) only [stepGreater, hc, ok_bind, cadd_ok, csub_ok, pure_eq_ok]
  split
  · refine ⟨_, rfl, ?_, ?_⟩
    · exact ⟨hph, hhi, hbelow, hI.above, hI.out_eq, hI.full_perm, by dsimp only; omega, hkh,
        by dsimp only; omega⟩
    · dsimp only; omega
  · refine ⟨_, rfl, ?_, ?_⟩
    · exact ⟨hph, hhi, hbelow, hI.above, hI.out_eq, hI.full_perm, by dsimp only; omega, hkh,
        by dsimp only; omega⟩
    · dsimp only; omega

/-- one loop iteration keeps the invariant, succeeds, and strictly shrinks `hi - lo`. -/
theorem step_spec (φ : Probe) (p : Params) (t : Table) (key : Nat) (s : St) (full : List Nat)
    (hs : Sorted t) (hb : Bounds p t key) (hI : Inv p t key s full) (hg : s.lo + p.W < s.hi) :
    ∃ s' full', step φ p t key s = .ok s' ∧ Inv p t key s' full' ∧ s'.hi - s'.lo < s.hi - s.lo := by
  obtain ⟨hpl, hph⟩ := hI.probe_in hg
  have hhi := hI.hi_le
  have hoff : s.probe - 1 < t.n := by omega
  have hseek := seekEntry_ok p t key hb (s.probe - 1) (by omega)
  simp (disch := omega) only [step, csub_ok, hseek, readKey_ok, ok_bind]
  -- the state with the seek logged satisfies the same invariant
  have hI1 : Inv p t key ⟨s.lo, s.loKey, s.hi, s.hiKey, s.probe, s.out, (s.probe - 1) :: s.seeks⟩ full :=
    ⟨hI.lo_lt, hI.hi_le, hI.below, hI.above, hI.out_eq, hI.full_perm, hI.loKey_le, hI.key_le, hI.probe_in⟩
  by_cases h1 : key < t.key (s.probe - 1)
  · rw [if_pos h1]
    obtain ⟨s', e, i, d⟩ := stepLess_spec φ p t key _ full (t.key (s.probe - 1)) hs hb hI1 hg rfl h1
    exact ⟨s', full, e, i, d⟩
  · rw [if_neg h1]
    by_cases h2 : key = t.key (s.probe - 1)
    · rw [if_pos h2]
      have := stepEqual_spec p t key _ full hs hb hI1 hg h2.symm
      rw [← h2]
      exact this
    · rw [if_neg h2]
      obtain ⟨s', e, i, d⟩ := stepGreater_spec φ p t key _ full (t.key (s.probe - 1)) hs hb hI1 hg rfl (by omega)
      exact ⟨s', full, e, i, d⟩

/-- the probing loop terminates within the fuel, without error, in a state satisfying the invariant
    and the negated guard. -/
theorem mainLoop_spec (φ : Probe) (p : Params) (t : Table) (key : Nat) (hs : Sorted t) (hb : Bounds p t key) :
    ∀ (fuel : Nat) (s : St) (full : List Nat), Inv p t key s full → s.hi - s.lo < fuel →
    ∃ s' full', mainLoop φ p t key fuel s = .ok s' ∧ Inv p t key s' full' ∧ ¬ (s'.lo + p.W < s'.hi) := by
  intro fuel
  induction fuel with
  | zero => intro s full _ h; omega
  | succ f ih =>
    intro s full hI hf
    have hhi := hI.hi_le
    have hlt := hI.lo_lt
    have hN := hb.hN
    simp (disch := omega) only [mainLoop, cadd_ok, ok_bind]
    by_cases hg : s.lo + p.W < s.hi
    · rw [if_pos hg]
      obtain ⟨s1, full1, e1, i1, d1⟩ := step_spec φ p t key s full hs hb hI hg
      rw [e1]
      simp only [ok_bind]
      exact ih s1 full1 i1 (by omega)
    · rw [if_neg hg]
      exact ⟨s, full, rfl, hI, hg⟩

/-- the final linear scan of `(lo, hi)`. -/
theorem scan_spec (t : Table) (key cap : Nat) (hs : Sorted t) (hn : t.n + 1 ≤ u64Max) :
    ∀ (fuel lo hi : Nat) (full : List Nat), lo ≤ t.n → hi ≤ t.n + 1 → hi ≤ lo + 1 + fuel →
    scan t key cap fuel lo hi (full.take cap) = .ok ((full ++ valsIn t key lo (hi - 1 - lo)).take cap) := by
  intro fuel
  induction fuel with
  | zero =>
    intro lo hi full h0 h1 h2
    have e : hi - 1 - lo = 0 := by omega
    have : ¬ (lo + 1 < hi) := by omega
    simp (disch := omega) only [scan, cadd_ok, ok_bind, pure_eq_ok]
    rw [if_neg this, e]
    simp [valsIn]
  | succ f ih =>
    intro lo hi full h0 h1 h2
    by_cases hg : lo + 1 < hi
    · obtain ⟨m, hm⟩ : ∃ m, hi - 1 - lo = m + 1 := ⟨hi - 1 - lo - 1, by omega⟩
      have hm' : hi - 1 - (lo + 1) = m := by omega
      simp (disch := omega) only [scan, cadd_ok, readKey_ok, readVal_ok, ok_bind, pure_eq_ok]
      rw [if_pos hg, hm]
      by_cases hlt : key < t.key lo
      · rw [if_pos hlt]
        have hnil : valsIn t key lo (m + 1) = [] := by
          apply valsIn_eq_nil
          intro o h3 h4
          have := hs lo o h3 (by omega)
          omega
        rw [hnil, List.append_nil]
      · rw [if_neg hlt]
        by_cases heq : key = t.key lo
        · rw [if_pos heq, writeResult_take, ih (lo + 1) hi _ (by omega) h1 (by omega), hm',
            valsIn_succ_eq t key lo m heq.symm]
          simp
        · rw [if_neg heq, ih (lo + 1) hi _ (by omega) h1 (by omega), hm',
            valsIn_succ_ne t key lo m (fun h => heq h.symm)]
    · have e : hi - 1 - lo = 0 := by omega
      simp (disch := omega) only [scan, cadd_ok, ok_bind, pure_eq_ok]
      rw [if_neg hg, e]
      simp [valsIn]

/-- **Main lemma.**  For a sorted table, every probe function and every key the search succeeds
    (no underflow, overflow, out-of-table read or fuel exhaustion) and returns the first `cap`
    elements of an arrangement `full` of *all* values stored under the key. -/
theorem search_spec (φ : Probe) (p : Params) (t : Table) (key : Nat) (hs : Sorted t) (hb : Bounds p t key) :
    ∃ r full, search φ p t key = .ok r ∧ List.Perm full (valuesAt t key) ∧ r.out = List.take p.cap full := by
  by_cases hc : p.cap = 0
  · exact ⟨⟨[], []⟩, valuesAt t key, by simp [search, hc], List.Perm.refl _, by simp [hc]⟩
  · have hN := hb.hN
    have hK := hb.hK
    obtain ⟨pr, hpr, b1, b2, b3⟩ := computeProbe_spec φ key 0 0 (t.n + 1) u64Max (by omega) (by omega) (by omega) (by omega)
    have hI0 : Inv p t key ⟨0, 0, t.n + 1, u64Max, pr, [], []⟩ [] := by
      refine ⟨?_, ?_, ?_, ?_, ?_, ?_, ?_, hK, ?_⟩
      · dsimp only; omega
      · dsimp only; omega
      · intro o h1; dsimp only at h1; omega
      · intro o h1 h2; dsimp only at h1; omega
      · simp
      · dsimp only
        have e : t.n + 1 - (t.n + 1) = 0 := by omega
        rw [e]; simp [valsIn]
      · dsimp only; omega
      · dsimp only; intro h; have := hb.hD1; have := hb.hW1; omega
    obtain ⟨s, full, hm, hI, hng⟩ := mainLoop_spec φ p t key hs hb (t.n + 2) _ [] hI0 (by dsimp only; omega)
    have hhi := hI.hi_le
    have hlt := hI.lo_lt
    have hseek := seekEntry_ok p t key hb s.lo (by omega)
    have hscan := scan_spec t key p.cap hs (by omega) (t.n + 1) s.lo s.hi full (by omega) hhi (by omega)
    refine ⟨⟨(full ++ valsIn t key s.lo (s.hi - 1 - s.lo)).take p.cap, (s.lo :: s.seeks).reverse⟩,
      full ++ valsIn t key s.lo (s.hi - 1 - s.lo), ?_, ?_, rfl⟩
    · simp (disch := omega) only [search, if_neg hc, cadd_ok, hpr, hm, hseek, hI.out_eq, hscan, ok_bind, pure_eq_ok]
    · -- `valuesAt = valsIn 0 lo ++ valsIn lo (hi-1-lo) ++ valsIn (hi-1) (n+1-hi)` and the first is empty
      unfold valuesAt
      rw [valsIn_split t key 0 s.lo t.n (by omega) (by omega)]
      have hnil : valsIn t key 0 (s.lo - 0) = [] := by
        apply valsIn_eq_nil
        intro o _ h2
        have := hI.below o (by omega)
        omega
      rw [hnil, List.nil_append, valsIn_split t key s.lo (s.hi - 1) (0 + t.n - s.lo) (by omega) (by omega)]
      have e2 : s.lo + (0 + t.n - s.lo) - (s.hi - 1) = t.n + 1 - s.hi := by omega
      rw [e2]
      exact (List.perm_append_comm.trans (List.Perm.append_left _ hI.full_perm))

end Xet.InterpSearch
