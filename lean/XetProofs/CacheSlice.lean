import XetModel.Cache
namespace Xet.Cache

/-- boundaries of a chunk list, starting at `a` -/
def psFrom : Nat → List Bytes → List Nat
  | a, [] => [a]
  | a, c :: cs => a :: psFrom (a + c.length) cs

/-- chunk byte offsets of a chunk list: `[0, |c0|, |c0|+|c1|, …]` (one more than chunks) -/
def offsOf (cs : List Bytes) : List Nat := psFrom 0 cs

/-- chunks `[s, e)` -/
def sub (cs : List Bytes) (s e : Nat) : List Bytes := (cs.drop s).take (e - s)

/-- content of the cache file that stores the chunk list `cs` -/
def encodeFile (cs : List Bytes) : Bytes := headerBytes (offsOf cs) ++ cs.flatten

/-! ### integers -/

theorem le32N_length (n : Nat) : (le32N n).length = 4 := rfl

/-- the only place where the `UInt` conversions are unfolded -/
theorem rdU32_le32N (n : Nat) (h : n < 4294967296) (rest : Bytes) :
    rdU32 (le32N n ++ rest) = some ⟨n, rest⟩ := by
  have hn : (UInt32.ofNat n).toNat = n := by
    rw [UInt32.toNat_ofNat']; omega
  simp only [le32N, le32, hn, List.cons_append, List.nil_append, rdU32, rd32,
    UInt8.toNat_ofNat', UInt32.toNat_ofNat']
  congr 2
  omega

/-! ### `psFrom` -/

theorem psFrom_length (a : Nat) (cs : List Bytes) : (psFrom a cs).length = cs.length + 1 := by
  induction cs generalizing a with
  | nil => rfl
  | cons c cs ih => simp [psFrom, ih]

theorem length_le_flatten (cs : List Bytes) (hne : ∀ c ∈ cs, c ≠ []) :
    cs.length ≤ cs.flatten.length := by
  induction cs with
  | nil => simp
  | cons c cs ih =>
    have hc : c ≠ [] := hne c (by simp)
    have := ih (fun d hd => hne d (by simp [hd]))
    have : 0 < c.length := List.length_pos_iff.mpr hc
    simp only [List.flatten_cons, List.length_append, List.length_cons]
    omega

theorem psFrom_drop (a : Nat) (cs : List Bytes) (i : Nat) (hi : i ≤ cs.length) :
    (psFrom a cs).drop i = psFrom (a + (cs.take i).flatten.length) (cs.drop i) := by
  induction cs generalizing a i with
  | nil =>
    have : i = 0 := by simpa using hi
    subst this; simp
  | cons c cs ih =>
    cases i with
    | zero => simp
    | succ i =>
      simp only [psFrom, List.drop_succ_cons, List.take_succ_cons, List.flatten_cons,
        List.length_append]
      rw [ih _ _ (by simpa using hi), Nat.add_assoc]

theorem psFrom_take (a : Nat) (cs : List Bytes) (k : Nat) :
    (psFrom a cs).take (k + 1) = psFrom a (cs.take k) := by
  induction cs generalizing a k with
  | nil => simp [psFrom]
  | cons c cs ih =>
    cases k with
    | zero => simp [psFrom]
    | succ k => simp [psFrom, ih]

theorem psFrom_map_sub (a b : Nat) (cs : List Bytes) :
    (psFrom (a + b) cs).map (· - a) = psFrom b cs := by
  induction cs generalizing b with
  | nil => simp [psFrom]
  | cons c cs ih =>
    simp only [psFrom, List.map_cons]
    rw [Nat.add_assoc, ih]
    simp

theorem psFrom_getElem? (a : Nat) (cs : List Bytes) (i : Nat) (hi : i ≤ cs.length) :
    (psFrom a cs)[i]? = some (a + (cs.take i).flatten.length) := by
  have h := psFrom_drop a cs i hi
  have : (psFrom a cs)[i]? = ((psFrom a cs).drop i)[0]? := by simp
  rw [this, h]
  cases cs.drop i <;> simp [psFrom]

theorem psFrom_head? (a : Nat) (cs : List Bytes) : (psFrom a cs).head? = some a := by
  cases cs <;> simp [psFrom]

theorem psFrom_getLast? (a : Nat) (cs : List Bytes) :
    (psFrom a cs).getLast? = some (a + cs.flatten.length) := by
  induction cs generalizing a with
  | nil => simp [psFrom]
  | cons c cs ih =>
    have hne : psFrom (a + c.length) cs ≠ [] := by
      intro h; have := psFrom_length (a + c.length) cs; simp [h] at this
    simp only [psFrom, List.getLast?_cons_of_ne_nil hne, ih, List.flatten_cons, List.length_append,
      Nat.add_assoc]

theorem psFrom_strict (a : Nat) (cs : List Bytes) (hne : ∀ c ∈ cs, c ≠ []) :
    strictlyIncreasing (psFrom a cs) = true := by
  induction cs generalizing a with
  | nil => simp [psFrom, strictlyIncreasing]
  | cons c cs ih =>
    have hc : 0 < c.length := List.length_pos_iff.mpr (hne c (by simp))
    have ih' := ih (a + c.length) (fun d hd => hne d (by simp [hd]))
    cases cs with
    | nil => simp [psFrom, strictlyIncreasing]; omega
    | cons d ds =>
      simp only [psFrom] at ih' ⊢
      simp only [strictlyIncreasing, ih', Bool.and_true, decide_eq_true_eq]
      omega

/-! ### header -/

theorem flatMap_le32N_length (offs : List Nat) : (offs.flatMap le32N).length = 4 * offs.length := by
  induction offs with
  | nil => rfl
  | cons o os ih => simp only [List.flatMap_cons, List.length_append, le32N_length, ih,
      List.length_cons]; omega

theorem headerBytes_length (offs : List Nat) : (headerBytes offs).length = 4 * (offs.length + 1) := by
  simp only [headerBytes, List.length_append, le32N_length, flatMap_le32N_length]; omega

theorem headerBytes_length_eq_headerLen (offs : List Nat) :
    (headerBytes offs).length = headerLen offs := by
  rw [headerBytes_length, headerLen]; omega

theorem offsOf_length (cs : List Bytes) : (offsOf cs).length = cs.length + 1 := psFrom_length 0 cs

theorem encodeFile_length (cs : List Bytes) :
    (encodeFile cs).length = 4 * (cs.length + 2) + cs.flatten.length := by
  simp only [encodeFile, List.length_append, headerBytes_length, offsOf_length]

theorem parseIdxs_psFrom (cs : List Bytes) (a : Nat) (last : Option Nat) (rest : Bytes)
    (hlast : match last with | none => a = 0 | some l => l < a)
    (hne : ∀ c ∈ cs, c ≠ []) (hsz : a + cs.flatten.length < 4294967296) :
    parseIdxs (cs.length + 1) last ((psFrom a cs).flatMap le32N ++ rest) = some (psFrom a cs) := by
  induction cs generalizing a last with
  | nil =>
    simp only [psFrom, List.flatMap_cons, List.flatMap_nil, List.append_nil, List.length_nil,
      parseIdxs]
    rw [rdU32_le32N a (by simpa using hsz)]
    cases last with
    | none => simp only at hlast; simp [hlast]
    | some l => simp only at hlast; simp; omega
  | cons c cs ih =>
    have hc : 0 < c.length := List.length_pos_iff.mpr (hne c (by simp))
    simp only [List.flatten_cons, List.length_append] at hsz
    have ih' := ih (a + c.length) (some a) (by simp; omega) (fun d hd => hne d (by simp [hd]))
      (by omega)
    simp only [psFrom, List.flatMap_cons, List.append_assoc, List.length_cons]
    rw [parseIdxs, rdU32_le32N a (by omega)]
    cases last with
    | none => simp only at hlast; subst hlast; simpa using ih'
    | some l =>
      simp only at hlast
      simp only [ih', Option.map_some, ge_iff_le]
      rw [if_neg (by omega)]

theorem parseHeader_encodeFile (cs : List Bytes) (rest : Bytes) (hne : ∀ c ∈ cs, c ≠ [])
    (hsz : cs.flatten.length + 1 < 4294967296) :
    parseHeader (headerBytes (offsOf cs) ++ rest) = some (offsOf cs) := by
  have hl := length_le_flatten cs hne
  simp only [parseHeader, headerBytes, List.append_assoc, offsOf_length]
  rw [rdU32_le32N _ (by omega)]
  exact parseIdxs_psFrom cs 0 none rest rfl hne (by omega)

/-! ### slicing -/

theorem sub_length (cs : List Bytes) (s e : Nat) (he : e ≤ cs.length) : (sub cs s e).length = e - s := by
  simp only [sub, List.length_take, List.length_drop]; omega

theorem mem_sub {cs : List Bytes} {s e : Nat} {c : Bytes} (h : c ∈ sub cs s e) : c ∈ cs :=
  List.mem_of_mem_drop (List.mem_of_mem_take h)

theorem sub_sub (cs : List Bytes) (s e s' e' : Nat) (h1 : s ≤ s') (h2 : s' ≤ e') (h3 : e' ≤ e) :
    sub (sub cs s e) (s' - s) (e' - s) = sub cs s' e' := by
  simp only [sub, List.drop_take, List.drop_drop, List.take_take]
  have : s + (s' - s) = s' := by omega
  rw [this]
  congr 1
  omega

theorem flatten_drop_take (cs : List Bytes) (i : Nat) :
    cs.flatten.drop (cs.take i).flatten.length = (cs.drop i).flatten := by
  conv => lhs; arg 2; rw [← List.take_append_drop i cs]
  rw [List.flatten_append, List.drop_left' rfl]

theorem getRange_offsOf (cs : List Bytes) (i j : Nat) (hij : i ≤ j) (hj : j ≤ cs.length) :
    (match (offsOf cs)[i]?, (offsOf cs)[j]? with
      | some sb, some eb =>
        let rest := (encodeFile cs).drop (sb + headerLen (offsOf cs))
        if rest.length < eb - sb then Res.err .io
        else .hit (rest.take (eb - sb)) ((((offsOf cs).drop i).take (j - i + 1)).map (· - sb))
      | _, _ => .err .badRange) = .hit (sub cs i j).flatten (offsOf (sub cs i j)) := by
  have hi : i ≤ cs.length := by omega
  simp only [offsOf, psFrom_getElem? 0 cs i hi, psFrom_getElem? 0 cs j hj, Nat.zero_add]
  -- the split of `take j`
  have hsplit : cs.take j = cs.take i ++ sub cs i j := by
    have : j = i + (j - i) := by omega
    conv => lhs; rw [this, List.take_add]
    rfl
  have hlen : (cs.take j).flatten.length - (cs.take i).flatten.length = (sub cs i j).flatten.length := by
    rw [hsplit, List.flatten_append, List.length_append]; omega
  have hrest : (encodeFile cs).drop ((cs.take i).flatten.length + headerLen (psFrom 0 cs))
      = (sub cs i j).flatten ++ ((cs.drop i).drop (j - i)).flatten := by
    rw [encodeFile, ← headerBytes_length_eq_headerLen, offsOf, Nat.add_comm, ← List.drop_drop,
      List.drop_left' rfl, flatten_drop_take, ← List.flatten_append, sub, List.take_append_drop]
  simp only [hlen, hrest, List.length_append]
  rw [if_neg (by omega), List.take_left' rfl]
  congr 1
  rw [psFrom_drop 0 cs i hi, psFrom_take, Nat.zero_add]
  exact psFrom_map_sub _ 0 _

theorem getRange_encodeFile (cs : List Bytes) (start : UInt32) (r : Range) (hne : ∀ c ∈ cs, c ≠ [])
    (h1 : start.toNat ≤ r.start.toNat) (h2 : r.start.toNat < r.stop.toNat)
    (h3 : r.stop.toNat - start.toNat ≤ cs.length) :
    getRange (offsOf cs) (encodeFile cs) r start
      = .hit (sub cs (r.start.toNat - start.toNat) (r.stop.toNat - start.toNat)).flatten
          (offsOf (sub cs (r.start.toNat - start.toNat) (r.stop.toNat - start.toNat))) := by
  have _ := hne
  have := getRange_offsOf cs (r.start.toNat - start.toNat) (r.stop.toNat - start.toNat) (by omega) h3
  rw [← this]
  rfl

theorem putArgsOk_sub (cs : List Bytes) (r : Range) (hne : ∀ c ∈ cs, c ≠ [])
    (h2 : r.start.toNat < r.stop.toNat) (h3 : r.stop.toNat ≤ cs.length) :
    putArgsOk r (offsOf (sub cs r.start.toNat r.stop.toNat)) (sub cs r.start.toNat r.stop.toNat).flatten
      = true := by
  have hstrict := psFrom_strict 0 (sub cs r.start.toNat r.stop.toNat) (fun c hc => hne c (mem_sub hc))
  simp only [putArgsOk, offsOf, psFrom_length, psFrom_head?, psFrom_getLast?, hstrict,
    sub_length cs _ _ h3, h2, Nat.zero_add, decide_true, Bool.and_self]

end Xet.Cache
