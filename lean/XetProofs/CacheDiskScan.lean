/-
The directory scan on re-open (`initialize_state`) applied to a directory that only the cache has
written to (`FsWF`): the scan never stops early, never replaces an entry it has already counted,
ends with exact counters within the capacity, and tracks every item file that is not larger than
the capacity and lies in the directory of a valid key.
Core only.
-/
import XetProofs.CacheDisk

namespace Xet.Cache

/-! ### names and paths -/

/-- keys as the Rust type `Key { prefix : String, hash : MerkleHash }` can produce them -/
def ValidKey (k : Key) : Prop := 32 ≤ k.length ∧ utf8Valid (k.drop 32) = true

instance (k : Key) : Decidable (ValidKey k) := by unfold ValidKey; exact inferInstance

theorem FS.isChild_iff {p q : Path} : FS.isChild p q = true ↔ q ≠ [] ∧ q.dropLast = p := by
  simp [FS.isChild]

theorem child_eq {p q : Path} (h : FS.isChild p q = true) : q = p ++ [q.getLast?.getD []] := by
  obtain ⟨hne, hd⟩ := FS.isChild_iff.mp h
  have := (List.dropLast_concat_getLast hne).symm
  rw [hd] at this
  rw [List.getLast?_eq_some_getLast hne]
  exact this

theorem mem_childrenIn {fs : FS} {order : List Path} {p q : Path} :
    q ∈ childrenIn fs order p ↔ q ∈ order ∧ FS.isChild p q = true ∧ (FS.get fs q).isSome = true := by
  simp [childrenIn, List.mem_filter]

theorem childrenIn_nodup {fs : FS} {order : List Path} (h : order.Nodup) (p : Path) :
    (childrenIn fs order p).Nodup := List.filter_sublist.nodup h

theorem b64Encode_length_ge (k : Bytes) (h : k ≠ []) : 4 ≤ (b64Encode k).length := by
  match k, h with
  | [a], _ => simp [b64Encode]
  | [a, b], _ => simp [b64Encode]
  | a :: b :: c :: rest, _ => simp [b64Encode]

theorem prefixDirName_length {k : Key} (h : k ≠ []) : (prefixDirName k).length = 2 := by
  have := b64Encode_length_ge k h
  simp [prefixDirName, keyDirName]
  omega

theorem keyPath_inj {k k' : Key} (h : keyPath k = keyPath k') : k = k' := by
  simp only [keyPath, List.cons.injEq, and_true] at h
  exact keyDirName_inj h.2

theorem keyPath_dropLast (k : Key) : (keyPath k).dropLast = [prefixDirName k] := by simp [keyPath]

theorem itemPath_dropLast (k : Key) (it : Item) : (itemPath k it).dropLast = keyPath k := by
  simp [itemPath, keyPath]

theorem parseKeyDir_valid {k : Key} (h : ValidKey k) : parseKeyDir (keyDirName k) = .key k := by
  unfold parseKeyDir keyDirName
  rw [b64Decode_encode]
  simp only
  rw [if_neg (by have := h.1; omega), if_pos h.2]

theorem parseKeyDir_key {n : Name} {k : Key} (h : parseKeyDir n = .key k) : n = keyDirName k := by
  unfold parseKeyDir at h
  split at h
  · cases h
  · rename_i buf hb
    split at h
    · cases h
    · split at h
      · injection h with h
        subst h
        exact (b64Encode_decode hb).symm
      · cases h

theorem parseCacheFile_skip {cap : Nat} {name : Name} {c : Bytes}
    (h : parseCacheFile cap name (.file c) = .skip) : cap < c.length := by
  unfold parseCacheFile at h
  simp only at h
  split at h
  · assumption
  · split at h
    · cases h
    · split at h <;> cases h

theorem parseCacheFile_remove {cap : Nat} {name : Name} {n : Node}
    (h : parseCacheFile cap name n = .remove) : ∃ c, n = .file c := by
  cases n with
  | dir => simp [parseCacheFile] at h
  | file c => exact ⟨c, rfl⟩

theorem parseFileName_lt {n : Name} {it : Item} (h : parseFileName n = some it) :
    it.start.toNat < it.stop.toNat := by
  unfold parseFileName at h
  split at h
  · cases h
  · rename_i buf _
    unfold itemOfBuf at h
    split at h
    · simp only at h
      split at h
      · cases h
      · rename_i hlt
        injection h with h
        subst h
        simpa using hlt
    · cases h

/-- a small file with a well-formed name and the right length is counted, not removed -/
theorem parseCacheFile_small {cap : Nat} {it : Item} {c : Bytes} (hle : c.length ≤ cap)
    (hlen : c.length = it.len.toNat) (hlt : it.start.toNat < it.stop.toNat) :
    parseCacheFile cap (fileName it) (.file c) = .item it := by
  unfold parseCacheFile
  simp only
  rw [if_neg (by omega), parseFileName_fileName it hlt]
  simp only
  rw [if_neg (by simp [hlen])]

theorem parseCacheFile_item {cap : Nat} {name : Name} {n : Node} {it : Item}
    (h : parseCacheFile cap name n = .item it) :
    ∃ c, n = .file c ∧ c.length ≤ cap ∧ fileName it = name ∧ c.length = it.len.toNat ∧
      it.start.toNat < it.stop.toNat := by
  cases n with
  | dir => simp [parseCacheFile] at h
  | file c =>
    unfold parseCacheFile at h
    simp only at h
    split at h
    · cases h
    · rename_i hc
      split at h
      · cases h
      · rename_i it' hp
        split at h
        · cases h
        · rename_i hl
          injection h with h
          subst h
          exact ⟨c, rfl, by omega, fileName_parse hp, by simpa using hl, parseFileName_lt hp⟩

/-! ### the scan only removes files -/

def FsSub (cap : Nat) (fs0 fs : FS) : Prop :=
  ∀ p, FS.get fs p = FS.get fs0 p ∨ (FS.get fs p = none ∧ ∃ c, FS.get fs0 p = some (.file c) ∧
    parseCacheFile cap (p.getLast?.getD []) (.file c) = .remove)

theorem FsSub.refl (cap : Nat) (fs : FS) : FsSub cap fs fs := fun _ => Or.inl rfl

theorem FsSub.fileAt {cap : Nat} {fs0 fs : FS} (h : FsSub cap fs0 fs) {p : Path} {c : Bytes} (hf : fileAt fs p c) : fileAt fs0 p c := by
  unfold Xet.Cache.fileAt at *
  rcases h p with e | ⟨e, _⟩
  · rw [← e]; exact hf
  · rw [e] at hf; cases hf

theorem FsSub.get_some {cap : Nat} {fs0 fs : FS} (h : FsSub cap fs0 fs) {p : Path} {n : Node} (hg : FS.get fs p = some n) :
    FS.get fs0 p = some n := by
  rcases h p with e | ⟨e, _⟩
  · rw [← e]; exact hg
  · rw [e] at hg; cases hg

theorem FsSub.dir {cap : Nat} {fs0 fs : FS} (h : FsSub cap fs0 fs) {p : Path} (hg : FS.get fs0 p = some .dir) :
    FS.get fs p = some .dir := by
  rcases h p with e | ⟨_, c, e⟩
  · rw [e]; exact hg
  · rw [hg] at e; cases e.1

theorem FsSub.erase {cap : Nat} {fs0 fs : FS} (h : FsSub cap fs0 fs) {p : Path} {c : Bytes}
    (hg : FS.get fs p = some (.file c)) (hrm : parseCacheFile cap (p.getLast?.getD []) (.file c) = .remove) :
    FsSub cap fs0 (FS.erase fs p) := by
  intro q
  rw [FS.get_erase]
  split
  · rename_i e; subst e
    exact Or.inr ⟨rfl, c, h.get_some hg, hrm⟩
  · exact h q

/-! ### the environment of a scan -/

structure ScanEnv (fs0 : FS) (cap : Nat) (order : List Path) : Prop where
  wf : FsWF fs0
  bound : SmallBound fs0 cap
  cap_pos : 0 < cap
  ord_all : ∀ (p : Path) (n : Node), FS.get fs0 p = some n → p ∈ order
  ord_nd : order.Nodup

theorem scanEnv_of_legal {fs0 : FS} {cap : Nat} {order : List Path} (hwf : FsWF fs0) (hb : SmallBound fs0 cap)
    (hc : 0 < cap) (hl : orderLegal fs0 order = true) : ScanEnv fs0 cap order := by
  unfold orderLegal at hl
  simp only [Bool.and_eq_true, List.all_eq_true, decide_eq_true_eq] at hl
  refine ⟨hwf, hb, hc, ?_, hl.2⟩
  intro p n hg
  have := hl.1.2 (p, n) (FS.mem_of_get hg)
  simpa using this

/-! ### invariants of the scan state -/

/-- files of key `k` not larger than the capacity are tracked -/
def Cov (cap : Nat) (s : ScanSt) (k : Key) : Prop :=
  ∀ it c, fileAt s.fs (itemPath k it) c → c.length ≤ cap → ∃ cell ∈ getK s.st.items k, cell.item = it

theorem Cov.mono {cap : Nat} {s s' : ScanSt} {k : Key} (h : Cov cap s k)
    (hg : getK s'.st.items k = getK s.st.items k) (hs : ∀ q c, fileAt s'.fs q c → fileAt s.fs q c) :
    Cov cap s' k := by
  intro it c hf hl
  rw [hg]
  exact h it c (hs _ _ hf) hl

/-- between two key directories -/
structure SI (fs0 : FS) (cap : Nat) (s : ScanSt) : Prop where
  ex : Exact s.st
  nd : ND s.st.items
  src : ∀ (k : Key) (c : Cell), c ∈ getK s.st.items k → SmallFile fs0 cap (k, c.item)
  sub : FsSub cap fs0 s.fs
  nf : s.full = false

/-- inside the key directory of `k`, `acc` = the entries pushed so far -/
structure SF (fs0 : FS) (cap : Nat) (k : Key) (s : ScanSt) (acc : List Cell) : Prop where
  num : s.st.numItems = cnt s.st.items + acc.length
  tot : s.st.totalBytes = byt s.st.items + sumLen acc
  nd : ND s.st.items
  fresh : getK s.st.items k = []
  accnd : ItemsND acc
  src : ∀ (k' : Key) (c : Cell), c ∈ getK s.st.items k' → SmallFile fs0 cap (k', c.item)
  accsrc : ∀ c ∈ acc, SmallFile fs0 cap (k, c.item)
  sub : FsSub cap fs0 s.fs
  nf : s.full = false

theorem mem_pairs_getK {m : Items} (h : ND m) {k : Key} {it : Item} (hm : (k, it) ∈ pairs m) :
    ∃ c ∈ getK m k, c.item = it := by
  obtain ⟨c, ht, hc⟩ := mem_pairs.mp hm
  exact ⟨c, (trackedIn_iff_getK h.keys k c).mp ht, hc⟩

theorem SF.bound {fs0 : FS} {cap : Nat} {k : Key} {s : ScanSt} {acc : List Cell} (h : SF fs0 cap k s acc)
    (hb : SmallBound fs0 cap) : s.st.totalBytes ≤ cap := by
  have hL : (pairs s.st.items ++ acc.map fun c => (k, c.item)).Nodup := by
    rw [List.nodup_append]
    refine ⟨pairs_nodup h.nd, ?_, ?_⟩
    · have : (acc.map fun c => (k, c.item)) = (acc.map Cell.item).map fun i => (k, i) := by simp
      rw [this, List.Nodup, List.pairwise_map]
      exact (h.accnd : (acc.map Cell.item).Nodup).imp (fun hne e => hne (by injection e))
    · intro a ha b hb e
      subst e
      obtain ⟨k', it⟩ := a
      simp only [List.mem_map, Prod.mk.injEq] at hb
      obtain ⟨_, _, hk, _⟩ := hb
      subst hk
      obtain ⟨c, hc, _⟩ := mem_pairs_getK h.nd ha
      rw [h.fresh] at hc
      cases hc
  have hS : ∀ x ∈ pairs s.st.items ++ acc.map (fun c => (k, c.item)), SmallFile fs0 cap x := by
    intro x hx
    rw [List.mem_append] at hx
    rcases hx with hx | hx
    · obtain ⟨k', it⟩ := x
      obtain ⟨c, hc, hi⟩ := mem_pairs_getK h.nd hx
      have := h.src k' c hc
      rw [hi] at this
      exact this
    · simp only [List.mem_map] at hx
      obtain ⟨c, hc, rfl⟩ := hx
      exact h.accsrc c hc
  have := hb _ hL hS
  rw [List.map_append, List.sum_append_nat, ← byt_eq_pairs, ← sumLen_eq_map] at this
  rw [h.tot]
  exact this

theorem SI.bound {fs0 : FS} {cap : Nat} {s : ScanSt} (h : SI fs0 cap s) (hb : SmallBound fs0 cap) :
    s.st.totalBytes ≤ cap := by
  have hS : ∀ x ∈ pairs s.st.items, SmallFile fs0 cap x := by
    intro x hx
    obtain ⟨k', it⟩ := x
    obtain ⟨c, hc, hi⟩ := mem_pairs_getK h.nd hx
    have := h.src k' c hc
    rw [hi] at this
    exact this
  have := hb _ (pairs_nodup h.nd) hS
  rw [← byt_eq_pairs, ← h.ex.2] at this
  exact this

theorem SI.toSF {fs0 : FS} {cap : Nat} {s : ScanSt} (h : SI fs0 cap s) {k : Key} (hf : getK s.st.items k = []) :
    SF fs0 cap k s [] :=
  ⟨by simpa using h.ex.1, by simpa [sumLen] using h.ex.2, h.nd, hf, List.nodup_nil, h.src,
   fun _ hc => absurd hc List.not_mem_nil, h.sub, h.nf⟩

/-! ### the files of one key directory -/

theorem scanFiles_sf {fs0 : FS} {cap : Nat} (hb : SmallBound fs0 cap) (hcap : 0 < cap) (k : Key) :
    ∀ (ps : List Path) (s : ScanSt) (acc : List Cell), SF fs0 cap k s acc → ps.Nodup →
    (∀ p ∈ ps, FS.isChild (keyPath k) p = true) → (∀ c ∈ acc, itemPath k c.item ∉ ps) →
    SF fs0 cap k (scanFiles cap ps s acc).1 (scanFiles cap ps s acc).2 ∧
    (scanFiles cap ps s acc).1.st.items = s.st.items ∧
    (∀ c ∈ acc, c ∈ (scanFiles cap ps s acc).2) ∧
    (∀ p ∈ ps, ∀ c, fileAt (scanFiles cap ps s acc).1.fs p c → c.length ≤ cap →
      ∃ cell ∈ (scanFiles cap ps s acc).2, itemPath k cell.item = p) ∧
    (∀ q c, fileAt (scanFiles cap ps s acc).1.fs q c → fileAt s.fs q c) := by
  intro ps
  induction ps with
  | nil => intro s acc h _ _ _; exact ⟨h, rfl, fun _ hc => hc, fun _ hp => absurd hp List.not_mem_nil, fun _ _ x => x⟩
  | cons p ps ih =>
    intro s acc h hnd hch hacc
    rw [List.nodup_cons] at hnd
    have hch' : ∀ p' ∈ ps, FS.isChild (keyPath k) p' = true := fun p' hp' => hch p' (List.mem_cons_of_mem _ hp')
    have hacc' : ∀ c ∈ acc, itemPath k c.item ∉ ps := fun c hc hm => hacc c hc (List.mem_cons_of_mem _ hm)
    unfold scanFiles
    split
    · -- the entry is gone
      rename_i hnone
      obtain ⟨a, b, d, e, f⟩ := ih s acc h hnd.2 hch' hacc'
      refine ⟨a, b, d, ?_, f⟩
      intro p' hp' c hf hl
      simp only [List.mem_cons] at hp'
      rcases hp' with rfl | hp'
      · have := f _ _ hf
        unfold fileAt at this
        rw [hnone] at this; cases this
      · exact e p' hp' c hf hl
    · rename_i n hsome
      split
      · -- skipped
        rename_i hskip
        obtain ⟨a, b, d, e, f⟩ := ih s acc h hnd.2 hch' hacc'
        refine ⟨a, b, d, ?_, f⟩
        intro p' hp' c hf hl
        simp only [List.mem_cons] at hp'
        rcases hp' with rfl | hp'
        · have := f _ _ hf
          unfold fileAt at this
          rw [hsome] at this
          injection this with this
          subst this
          have := parseCacheFile_skip hskip
          omega
        · exact e p' hp' c hf hl
      · -- removed
        rename_i hrm
        obtain ⟨c0, hc0⟩ := parseCacheFile_remove hrm
        subst hc0
        have h1 : SF fs0 cap k { s with fs := FS.erase s.fs p } acc :=
          ⟨h.num, h.tot, h.nd, h.fresh, h.accnd, h.src, h.accsrc, h.sub.erase hsome hrm, h.nf⟩
        obtain ⟨a, b, d, e, f⟩ := ih { s with fs := FS.erase s.fs p } acc h1 hnd.2 hch' hacc'
        refine ⟨a, b, d, ?_, fun q c hf => fileAt_erase (f q c hf)⟩
        intro p' hp' c hf hl
        simp only [List.mem_cons] at hp'
        rcases hp' with rfl | hp'
        · have := f _ _ hf
          unfold fileAt at this
          simp only [FS.get_erase, if_true] at this
          cases this
        · exact e p' hp' c hf hl
      · -- counted
        rename_i it hit
        obtain ⟨c0, hn, hle, hname, hlen, hlt⟩ := parseCacheFile_item hit
        subst hn
        have hp : p = itemPath k it := by
          have := child_eq (hch p List.mem_cons_self)
          rw [← hname] at this
          simpa [itemPath, keyPath] using this
        have hsmall : SmallFile fs0 cap (k, it) := ⟨c0, by rw [← hp]; exact h.sub.get_some hsome, hlen, hle, hlt⟩
        have h1 : SF fs0 cap k
            { s with st := { s.st with totalBytes := s.st.totalBytes + it.len.toNat, numItems := s.st.numItems + 1,
                                       nextId := s.st.nextId + 1 } }
            (acc ++ [⟨it, s.st.nextId⟩]) := by
          refine ⟨?_, ?_, h.nd, h.fresh, ?_, h.src, ?_, h.sub, h.nf⟩
          · simp only [List.length_append, List.length_singleton]; have := h.num; omega
          · simp only [sumLen_append, sumLen]; have := h.tot; omega
          · unfold ItemsND
            rw [List.map_append, List.nodup_append]
            refine ⟨h.accnd, by simp, ?_⟩
            intro x hx y hy e
            simp at hy
            subst hy
            subst e
            obtain ⟨c, hc, hci⟩ := List.mem_map.mp hx
            apply hacc c hc
            rw [hci, ← hp]
            exact List.mem_cons_self
          · intro c hc
            rw [List.mem_append] at hc
            rcases hc with hc | hc
            · exact h.accsrc c hc
            · simp at hc; subst hc; exact hsmall
        have hbd := h1.bound hb
        dsimp only
        rw [if_neg (by simp only at hbd; omega)]
        have hacc1 : ∀ c ∈ acc ++ [⟨it, s.st.nextId⟩], itemPath k c.item ∉ ps := by
          intro c hc
          rw [List.mem_append] at hc
          rcases hc with hc | hc
          · exact hacc' c hc
          · simp at hc; subst hc; rw [← hp]; exact hnd.1
        obtain ⟨a, b, d, e, f⟩ := ih _ _ h1 hnd.2 hch' hacc1
        refine ⟨a, b, fun c hc => d c (List.mem_append_left _ hc), ?_, f⟩
        intro p' hp' c hf hl
        simp only [List.mem_cons] at hp'
        rcases hp' with rfl | hp'
        · exact ⟨⟨it, s.st.nextId⟩, d _ (by simp), hp.symm⟩
        · exact e p' hp' c hf hl

/-! ### the key directories of one prefix directory -/

/-- the postcondition of a loop that started in `s` and ended in `s'` having looked at the key
    directories (`done k` = the directory of `k` was among them) -/
structure LoopPost (fs0 : FS) (cap : Nat) (s s' : ScanSt) (done : Key → Prop) : Prop where
  si : SI fs0 cap s'
  frame : ∀ k : Key, ¬ done k → getK s'.st.items k = getK s.st.items k
  complete : ∀ k : Key, done k → ValidKey k → Cov cap s' k
  shrink : ∀ (q : Path) (c : Bytes), fileAt s'.fs q c → fileAt s.fs q c

theorem dir_of_env {fs0 : FS} {cap : Nat} {order : List Path} (env : ScanEnv fs0 cap order) {s : ScanSt}
    (hs : FsSub cap fs0 s.fs) {p : Path} (hp : (FS.get fs0 p).isSome = true) (hl : p.length ≤ 2) :
    FS.isDir s.fs p = true := by
  cases hg : FS.get fs0 p with
  | none => rw [hg] at hp; cases hp
  | some n =>
    have := env.wf.dir_of_length hg hl
    subst this
    rw [FS.isDir_iff]
    exact hs.dir hg

theorem scanKeyDirs_si {fs0 : FS} {cap : Nat} {order : List Path} (env : ScanEnv fs0 cap order) (d1 : Name) :
    ∀ (ps : List Path) (s : ScanSt), SI fs0 cap s → ps.Nodup →
    (∀ p ∈ ps, FS.isChild [d1] p = true ∧ (FS.get fs0 p).isSome = true) →
    (∀ p ∈ ps, ∀ k, p = keyPath k → getK s.st.items k = []) →
    LoopPost fs0 cap s (scanKeyDirs true cap order d1 ps s).s (fun k => keyPath k ∈ ps) := by
  intro ps
  induction ps with
  | nil =>
    intro s h _ _ _
    exact ⟨h, fun _ _ => rfl, fun _ hd => absurd hd List.not_mem_nil, fun _ _ x => x⟩
  | cons p ps ih =>
    intro s h hnd hch hfresh
    rw [List.nodup_cons] at hnd
    have hch' : ∀ p' ∈ ps, FS.isChild [d1] p' = true ∧ (FS.get fs0 p').isSome = true :=
      fun p' hp' => hch p' (List.mem_cons_of_mem _ hp')
    have hfresh' : ∀ p' ∈ ps, ∀ k, p' = keyPath k → getK s.st.items k = [] :=
      fun p' hp' => hfresh p' (List.mem_cons_of_mem _ hp')
    obtain ⟨hchild, hsome⟩ := hch p List.mem_cons_self
    have hpeq := child_eq hchild
    have hplen : p.length = 2 := by rw [hpeq]; simp
    have hdir : FS.isDir s.fs p = true := dir_of_env env h.sub hsome (by omega)
    -- the directory is skipped: then it is not the directory of a valid key
    have skip : (∀ k, p = keyPath k → ¬ ValidKey k) →
        LoopPost fs0 cap s (scanKeyDirs true cap order d1 ps s).s (fun k => keyPath k ∈ p :: ps) := by
      intro hbad
      obtain ⟨a, b, d, e⟩ := ih s h hnd.2 hch' hfresh'
      refine ⟨a, fun k hk => b k (fun hm => hk (List.mem_cons_of_mem _ hm)), ?_, e⟩
      intro k hk hv
      simp only [List.mem_cons] at hk
      rcases hk with hk | hk
      · exact absurd hv (hbad k hk.symm)
      · exact d k hk hv
    have hd2 : ∀ k, p = keyPath k → p.getLast?.getD [] = keyDirName k ∧ d1 = prefixDirName k := by
      intro k hk
      rw [hk] at hpeq
      simp only [keyPath, List.cons_append, List.nil_append, List.cons.injEq, and_true] at hpeq
      have e1 : (keyPath k).getLast?.getD [] = keyDirName k := by simp [keyPath]
      rw [hk]
      exact ⟨e1, hpeq.1.symm⟩
    unfold scanKeyDirs
    rw [if_neg (by simp [hdir])]
    dsimp only
    split
    · -- name does not start with the prefix directory name
      rename_i hcond
      simp only [if_true]
      apply skip
      intro k hk hv
      obtain ⟨e1, e2⟩ := hd2 k hk
      rw [e1, e2] at hcond
      have hne : k ≠ [] := by intro e; subst e; have := hv.1; simp at this
      have := b64Encode_length_ge k hne
      rcases hcond with hc | hc
      · simp [keyDirName] at hc; omega
      · exact hc (by simp [prefixDirName])
    · split
      · simp only [if_true]
        apply skip
        intro k hk hv
        rename_i hpk
        rw [(hd2 k hk).1, parseKeyDir_valid hv] at hpk
        cases hpk
      · apply skip
        intro k hk hv
        rename_i hpk
        rw [(hd2 k hk).1, parseKeyDir_valid hv] at hpk
        cases hpk
      · rename_i k hpk
        -- `p` is the key directory of `k`
        have hpk' : p = keyPath k := by
          have hname := parseKeyDir_key hpk
          cases hg : FS.get fs0 p with
          | none => rw [hg] at hsome; cases hsome
          | some n =>
            rcases env.wf.shape p n hg with ⟨k', e, _⟩ | ⟨k', e, _⟩ | ⟨k', it', _, e, _⟩
            · rw [e] at hplen; simp at hplen
            · have := (hd2 k' e).1
              rw [hname] at this
              rw [e, keyDirName_inj this]
            · rw [e] at hplen; simp [itemPath] at hplen
        have hfr : getK s.st.items k = [] := hfresh p List.mem_cons_self k hpk'
        have hsf := h.toSF hfr
        have hcn : (childrenIn s.fs order p).Nodup := childrenIn_nodup env.ord_nd p
        have hcc : ∀ q ∈ childrenIn s.fs order p, FS.isChild (keyPath k) q = true := by
          intro q hq; rw [← hpk']; exact (mem_childrenIn.mp hq).2.1
        obtain ⟨a, b, _, e, f⟩ := scanFiles_sf env.bound env.cap_pos k (childrenIn s.fs order p) s [] hsf hcn hcc
          (fun _ hc => absurd hc List.not_mem_nil)
        rw [if_neg (by simp [a.nf])]
        -- coverage of `k` right after its directory
        have hcov : ∀ it c, fileAt (scanFiles cap (childrenIn s.fs order p) s []).1.fs (itemPath k it) c →
            c.length ≤ cap → ∃ cell ∈ (scanFiles cap (childrenIn s.fs order p) s []).2, cell.item = it := by
          intro it c hf hl
          have hf0 := f _ _ hf
          have hmem : itemPath k it ∈ childrenIn s.fs order p := by
            rw [mem_childrenIn]
            refine ⟨env.ord_all _ _ (h.sub.fileAt hf0), ?_, ?_⟩
            · rw [FS.isChild_iff, itemPath_dropLast, hpk']; exact ⟨by simp [itemPath], rfl⟩
            · unfold fileAt at hf0; rw [hf0]; rfl
          obtain ⟨cell, hc, hi⟩ := e _ hmem c hf hl
          exact ⟨cell, hc, (itemPath_inj hi).2⟩
        have hne_of : ∀ p' ∈ ps, ∀ k', p' = keyPath k' → k' ≠ k := by
          intro p' hp' k' hk' e
          subst e
          rw [← hpk'] at hk'
          subst hk'
          exact hnd.1 hp'
        -- common continuation from the state `s1` after this directory
        have cont : ∀ s1 : ScanSt, SI fs0 cap s1 → (∀ k', k' ≠ k → getK s1.st.items k' = getK s.st.items k') →
            Cov cap s1 k → (∀ q c, fileAt s1.fs q c → fileAt s.fs q c) →
            LoopPost fs0 cap s (scanKeyDirs true cap order d1 ps s1).s (fun k => keyPath k ∈ p :: ps) := by
          intro s1 hs1 hfr1 hcov1 hsh1
          have hfresh1 : ∀ p' ∈ ps, ∀ k', p' = keyPath k' → getK s1.st.items k' = [] := by
            intro p' hp' k' hk'
            rw [hfr1 k' (hne_of p' hp' k' hk')]
            exact hfresh' p' hp' k' hk'
          obtain ⟨a', b', d', e'⟩ := ih s1 hs1 hnd.2 hch' hfresh1
          refine ⟨a', ?_, ?_, fun q c hf => hsh1 q c (e' q c hf)⟩
          · intro k' hk'
            simp only [List.mem_cons, not_or] at hk'
            rw [b' k' hk'.2]
            apply hfr1
            intro e; subst e; exact hk'.1 hpk'.symm
          · intro k' hk' hv
            simp only [List.mem_cons] at hk'
            rcases hk' with hk' | hk'
            · have : k' = k := keyPath_inj (hk'.trans hpk')
              subst this
              have hnot : keyPath k' ∉ ps := by rw [← hpk']; exact hnd.1
              exact hcov1.mono (b' k' hnot) e'
            · exact d' k' hk' hv
        split
        · -- nothing counted in this directory
          rename_i hemp
          have hemp' : (scanFiles cap (childrenIn s.fs order p) s []).2 = [] := by simpa using hemp
          apply cont
          · exact ⟨⟨by simpa [hemp'] using a.num, by simpa [hemp', sumLen] using a.tot⟩, a.nd, a.src, a.sub, a.nf⟩
          · intro k' _; rw [b]
          · intro it c hf hl
            obtain ⟨cell, hc, _⟩ := hcov it c hf hl
            rw [hemp'] at hc; cases hc
          · exact f
        · apply cont
          · have c1 := cnt_setK (scanFiles cap (childrenIn s.fs order p) s []).1.st.items k
              (scanFiles cap (childrenIn s.fs order p) s []).2
            have c2 := byt_setK (scanFiles cap (childrenIn s.fs order p) s []).1.st.items k
              (scanFiles cap (childrenIn s.fs order p) s []).2
            rw [a.fresh] at c1 c2
            simp only [List.length_nil, sumLen, Nat.add_zero] at c1 c2
            refine ⟨⟨?_, ?_⟩, ?_, ?_, a.sub, a.nf⟩
            · simp only [insertK]; have := a.num; omega
            · simp only [insertK]; have := a.tot; omega
            · exact a.nd.setK k a.accnd
            · intro k' c hc
              simp only [insertK, getK_setK] at hc
              split at hc
              · rename_i e; subst e; exact a.accsrc c hc
              · exact a.src k' c hc
          · intro k' hk'
            simp only [insertK, getK_setK, if_neg hk', b]
          · intro it c hf hl
            obtain ⟨cell, hc, hi⟩ := hcov it c hf hl
            refine ⟨cell, ?_, hi⟩
            simp only [insertK, getK_setK, if_true]
            exact hc
          · exact f

/-! ### the prefix directories -/

theorem no_file_without_dir {fs0 : FS} (wf : FsWF fs0) {k : Key} (hnone : FS.get fs0 (keyPath k) = none)
    (it : Item) (c : Bytes) : ¬ fileAt fs0 (itemPath k it) c := by
  intro hf
  have := wf.parent _ _ hf (by simp [itemPath])
  rw [itemPath_dropLast, FS.isDir_iff, hnone] at this
  cases this

theorem scanPrefixDirs_si {fs0 : FS} {cap : Nat} {order : List Path} (env : ScanEnv fs0 cap order) :
    ∀ (ps : List Path) (s : ScanSt), SI fs0 cap s → ps.Nodup →
    (∀ p ∈ ps, FS.isChild [] p = true ∧ (FS.get fs0 p).isSome = true) →
    (∀ p ∈ ps, ∀ k, p = [prefixDirName k] → getK s.st.items k = []) →
    LoopPost fs0 cap s (scanPrefixDirs true cap order ps s).s (fun k => [prefixDirName k] ∈ ps) := by
  intro ps
  induction ps with
  | nil =>
    intro s h _ _ _
    exact ⟨h, fun _ _ => rfl, fun _ hd => absurd hd List.not_mem_nil, fun _ _ x => x⟩
  | cons p ps ih =>
    intro s h hnd hch hfresh
    rw [List.nodup_cons] at hnd
    have hch' : ∀ p' ∈ ps, FS.isChild [] p' = true ∧ (FS.get fs0 p').isSome = true :=
      fun p' hp' => hch p' (List.mem_cons_of_mem _ hp')
    have hfresh' : ∀ p' ∈ ps, ∀ k, p' = [prefixDirName k] → getK s.st.items k = [] :=
      fun p' hp' => hfresh p' (List.mem_cons_of_mem _ hp')
    obtain ⟨hchild, hsome⟩ := hch p List.mem_cons_self
    have hpeq := child_eq hchild
    simp only [List.nil_append] at hpeq
    have hdir : FS.isDir s.fs p = true := dir_of_env env h.sub hsome (by rw [hpeq]; simp)
    unfold scanPrefixDirs
    dsimp only
    split
    · -- skipped: not the prefix directory of a valid key
      rename_i hcond
      obtain ⟨a, b, d, e⟩ := ih s h hnd.2 hch' hfresh'
      refine ⟨a, fun k hk => b k (fun hm => hk (List.mem_cons_of_mem _ hm)), ?_, e⟩
      intro k hk hv
      simp only [List.mem_cons] at hk
      rcases hk with hk | hk
      · exfalso
        rcases hcond with hc | hc
        · simp [hdir] at hc
        · apply hc
          rw [← hk]
          have hne : k ≠ [] := by intro e; subst e; have := hv.1; simp at this
          simpa using prefixDirName_length hne
      · exact d k hk hv
    · -- the key directories of this prefix directory
      have hkd : ∀ q ∈ childrenIn s.fs order p, FS.isChild [p.getLast?.getD []] q = true ∧ (FS.get fs0 q).isSome = true := by
        intro q hq
        obtain ⟨_, h2, h3⟩ := mem_childrenIn.mp hq
        rw [← hpeq]
        refine ⟨h2, ?_⟩
        cases hg : FS.get s.fs q with
        | none => rw [hg] at h3; cases h3
        | some n => rw [h.sub.get_some hg]; rfl
      have hparent : ∀ q ∈ childrenIn s.fs order p, ∀ k, q = keyPath k → p = [prefixDirName k] := by
        intro q hq k hk
        have := (FS.isChild_iff.mp (mem_childrenIn.mp hq).2.1).2
        rw [hk, keyPath_dropLast] at this
        exact this.symm
      have hkfresh : ∀ q ∈ childrenIn s.fs order p, ∀ k, q = keyPath k → getK s.st.items k = [] :=
        fun q hq k hk => hfresh p List.mem_cons_self k (hparent q hq k hk)
      obtain ⟨a, b, d, e⟩ := scanKeyDirs_si env (p.getLast?.getD []) (childrenIn s.fs order p) s h
        (childrenIn_nodup env.ord_nd p) hkd hkfresh
      have hok := scanKeyDirs_ok cap order (p.getLast?.getD []) (childrenIn s.fs order p) s
      split
      · rename_i hpanic; rw [hok] at hpanic; cases hpanic
      · rw [if_neg (by simp [a.nf])]
        have hfresh1 : ∀ p' ∈ ps, ∀ k, p' = [prefixDirName k] →
            getK (scanKeyDirs true cap order (p.getLast?.getD []) (childrenIn s.fs order p) s).s.st.items k = [] := by
          intro p' hp' k hk
          rw [b k]
          · exact hfresh' p' hp' k hk
          · intro hm
            have := hparent _ hm k rfl
            rw [← hk] at this
            subst this
            exact hnd.1 hp'
        obtain ⟨a', b', d', e'⟩ := ih _ a hnd.2 hch' hfresh1
        refine ⟨a', ?_, ?_, fun q c hf => e q c (e' q c hf)⟩
        · intro k hk
          simp only [List.mem_cons, not_or] at hk
          rw [b' k hk.2]
          apply b
          intro hm
          exact hk.1 (hparent _ hm k rfl).symm
        · intro k hk hv
          simp only [List.mem_cons] at hk
          rcases hk with hk | hk
          · have hnot : [prefixDirName k] ∉ ps := by rw [hk]; exact hnd.1
            have hcov1 : Cov cap (scanKeyDirs true cap order (p.getLast?.getD []) (childrenIn s.fs order p) s).s k := by
              by_cases hm : keyPath k ∈ childrenIn s.fs order p
              · exact d k hm hv
              · -- the key directory does not exist: no files below it
                have hnone : FS.get fs0 (keyPath k) = none := by
                  cases hg : FS.get fs0 (keyPath k) with
                  | none => rfl
                  | some n =>
                    exfalso
                    apply hm
                    rw [mem_childrenIn]
                    refine ⟨env.ord_all _ _ hg, ?_, ?_⟩
                    · rw [FS.isChild_iff, keyPath_dropLast, hk]; exact ⟨by simp [keyPath], rfl⟩
                    · have := env.wf.dir_of_length hg (by simp [keyPath])
                      subst this
                      rw [h.sub.dir hg]; rfl
                intro it c hf _
                exact absurd (h.sub.fileAt (e _ _ hf)) (no_file_without_dir env.wf hnone it c)
            exact hcov1.mono (b' k hnot) e'
          · exact d' k hk hv

/-! ### the whole scan -/

theorem si_init (fs0 : FS) (cap : Nat) : SI fs0 cap ⟨CState.empty, fs0, false⟩ :=
  ⟨⟨rfl, rfl⟩, ND.nil, fun _ _ hc => by simp [CState.empty, getK, lookupK] at hc, FsSub.refl cap fs0, rfl⟩

theorem scan_main {fs0 : FS} {cap : Nat} {order : List Path} (env : ScanEnv fs0 cap order) {out : ScanOut}
    (h : scan true fs0 cap order = some out) :
    Exact out.s.st ∧ out.s.st.totalBytes ≤ cap ∧ ND out.s.st.items ∧
    (∀ k it c, ValidKey k → fileAt out.s.fs (itemPath k it) c → c.length ≤ cap → TrackedItem out.s.st k it) ∧
    (∀ q c, fileAt out.s.fs q c → fileAt fs0 q c) ∧
    (∀ k c, Tracked out.s.st k c → ∃ content, fileAt out.s.fs (itemPath k c.item) content ∧
      content.length = c.item.len.toNat ∧ content.length ≤ cap) := by
  unfold scan at h
  rw [if_neg (by have := env.cap_pos; omega)] at h
  injection h with h
  subst h
  have hroot : ∀ p ∈ childrenIn fs0 order [], FS.isChild [] p = true ∧ (FS.get fs0 p).isSome = true :=
    fun p hp => (mem_childrenIn.mp hp).2
  obtain ⟨a, _, d, e⟩ := scanPrefixDirs_si env (childrenIn fs0 order []) ⟨CState.empty, fs0, false⟩ (si_init fs0 cap)
    (childrenIn_nodup env.ord_nd []) hroot (fun _ _ _ _ => rfl)
  refine ⟨a.ex, a.bound env.bound, a.nd, ?_, e, ?_⟩
  · intro k it c hv hf hl
    have hf0 := e _ _ hf
    -- the key directory and the prefix directory exist
    have h1 := env.wf.parent _ _ hf0 (by simp [itemPath])
    rw [itemPath_dropLast, FS.isDir_iff] at h1
    have h2 := env.wf.parent _ _ h1 (by simp [keyPath])
    rw [keyPath_dropLast, FS.isDir_iff] at h2
    have hm : [prefixDirName k] ∈ childrenIn fs0 order [] := by
      rw [mem_childrenIn]
      refine ⟨env.ord_all _ _ h2, ?_, by rw [h2]; rfl⟩
      rw [FS.isChild_iff]; exact ⟨by simp, rfl⟩
    obtain ⟨cell, hc, hi⟩ := d k hm hv it c hf hl
    exact ⟨cell, trackedIn_getK hc, hi⟩
  · intro k c ht
    obtain ⟨content, hf, hlen, hle, hlt⟩ := a.src k c ((trackedIn_iff_getK a.nd.keys k c).mp ht)
    refine ⟨content, ?_, hlen, hle⟩
    rcases a.sub (itemPath k c.item) with e | ⟨_, c', e1, e2⟩
    · unfold fileAt at hf ⊢; rw [e]; exact hf
    · exfalso
      unfold fileAt at hf
      rw [hf] at e1
      injection e1 with e1
      injection e1 with e1
      subst e1
      have : (itemPath k c.item).getLast?.getD [] = fileName c.item := by simp [itemPath]
      rw [this, parseCacheFile_small hle hlen hlt] at e2
      cases e2

end Xet.Cache
