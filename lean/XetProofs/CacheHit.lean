/-
Invariant behind C12 (a hit returns the stored slice) for the chunk-cache model, preserved by every
step of the concurrent semantics and by close – damage – re-open.
-/
import XetProofs.Cache
import XetProofs.CacheCodec
import XetProofs.CacheSlice

namespace Xet.Cache

/-! ### file-system frame lemmas -/

def fileAt (fs : FS) (p : Path) (c : Bytes) : Prop := FS.get fs p = some (.file c)

theorem FS.get_erase (fs : FS) (p q : Path) :
    FS.get (FS.erase fs p) q = if p = q then none else FS.get fs q := by
  induction fs with
  | nil => simp [FS.erase, FS.get]
  | cons e rest ih =>
    obtain ⟨x, n⟩ := e
    by_cases hx : x = p
    · subst hx
      simp only [FS.erase, if_true, ih]
      by_cases hq : x = q
      · simp [hq]
      · simp [hq, FS.get]
    · simp only [FS.erase, hx, if_false, FS.get, ih]
      by_cases hq : x = q
      · subst hq; simp [Ne.symm hx]
      · simp [hq]

theorem FS.get_put (fs : FS) (p q : Path) (n : Node) :
    FS.get (FS.put fs p n) q = if p = q then some n else FS.get fs q := by
  unfold FS.put
  by_cases h : p = q
  · simp [FS.get, h]
  · simp [FS.get, h, FS.get_erase]

theorem fileAt_erase {fs : FS} {p q : Path} {c : Bytes} (h : fileAt (FS.erase fs p) q c) : fileAt fs q c := by
  unfold fileAt at *
  rw [FS.get_erase] at h
  split at h
  · cases h
  · exact h

theorem fileAt_mkdir {fs : FS} {p q : Path} {c : Bytes} : fileAt (FS.mkdir fs p) q c ↔ fileAt fs q c := by
  unfold fileAt FS.mkdir
  cases hp : FS.get fs p with
  | some n => simp
  | none =>
    simp only [FS.get_put]
    by_cases h : p = q
    · subst h; simp [hp]
    · simp [h]

theorem fileAt_unlinkFile {fs : FS} {p q : Path} {c : Bytes} (h : fileAt (unlinkFile fs p) q c) : fileAt fs q c := by
  unfold unlinkFile at h
  split at h
  · exact fileAt_erase h
  · exact h

theorem fileAt_erase_dir {fs : FS} {p q : Path} {c : Bytes} (hd : FS.isDir fs p = true) :
    fileAt (FS.erase fs p) q c ↔ fileAt fs q c := by
  unfold fileAt
  rw [FS.get_erase]
  by_cases h : p = q
  · subst h
    unfold FS.isDir at hd
    cases hg : FS.get fs p with
    | none => simp
    | some n => cases n <;> simp_all
  · simp [h]

theorem fileAt_checkRemoveDir {fs : FS} {k : Key} {q : Path} {c : Bytes} :
    fileAt (checkRemoveDir fs k) q c ↔ fileAt fs q c := by
  unfold checkRemoveDir
  split
  · exact Iff.rfl
  · rename_i h1
    split
    · exact Iff.rfl
    · have hd : FS.isDir fs (keyPath k) = true := by simpa using h1
      dsimp only
      split
      · exact fileAt_erase_dir hd
      · rename_i h2
        split
        · exact fileAt_erase_dir hd
        · have hd2 : FS.isDir (FS.erase fs (keyPath k)) [prefixDirName k] = true := by simpa using h2
          exact (fileAt_erase_dir hd2).trans (fileAt_erase_dir hd)

theorem fileAt_writeItemFile {fs fs' : FS} {k : Key} {it : Item} {content : Bytes} {q : Path} {c : Bytes}
    (hw : writeItemFile fs k it content = some fs') (h : fileAt fs' q c) :
    (q = itemPath k it ∧ c = content) ∨ (q ≠ itemPath k it ∧ fileAt fs q c) := by
  unfold writeItemFile at hw
  dsimp only at hw
  split at hw
  · cases hw
  · cases hw
    unfold fileAt at h
    rw [FS.get_put] at h
    by_cases hq : itemPath k it = q
    · simp [hq] at h; exact Or.inl ⟨hq.symm, h.symm⟩
    · simp [hq] at h
      refine Or.inr ⟨fun e => hq e.symm, ?_⟩
      exact fileAt_mkdir.mp (fileAt_mkdir.mp h)

theorem fileAt_fun {fs : FS} {p : Path} {c c' : Bytes} (h : fileAt fs p c) (h' : fileAt fs p c') : c = c' := by
  unfold fileAt at *; rw [h] at h'; cases h'; rfl

/-! ### tracked entries -/

def Tracked (st : CState) (k : Key) (c : Cell) : Prop := ∃ v, (k, v) ∈ st.items ∧ c ∈ v

def TrackedIn (m : Items) (k : Key) (c : Cell) : Prop := ∃ v, (k, v) ∈ m ∧ c ∈ v

theorem mem_of_lookupK {m : Items} {k : Key} {v : List Cell} (h : lookupK m k = some v) : (k, v) ∈ m := by
  induction m with
  | nil => simp [lookupK] at h
  | cons e rest ih =>
    obtain ⟨q, w⟩ := e
    by_cases hq : q = k
    · simp [lookupK, hq] at h; subst h; subst hq; simp
    · simp [lookupK, hq] at h; exact List.mem_cons_of_mem _ (ih h)

theorem trackedIn_getK {m : Items} {k : Key} {c : Cell} (h : c ∈ getK m k) : TrackedIn m k c := by
  unfold getK at h
  cases hl : lookupK m k with
  | none => simp [hl] at h
  | some v => simp [hl] at h; exact ⟨v, mem_of_lookupK hl, h⟩

theorem trackedIn_setK {m : Items} {k k' : Key} {v : List Cell} {c : Cell} (h : TrackedIn (setK m k v) k' c) :
    (k' = k ∧ c ∈ v) ∨ TrackedIn m k' c := by
  induction m with
  | nil =>
    obtain ⟨v', hm, hc⟩ := h
    simp [setK] at hm
    exact Or.inl ⟨hm.1, hm.2 ▸ hc⟩
  | cons e rest ih =>
    obtain ⟨q, w⟩ := e
    obtain ⟨v', hm, hc⟩ := h
    by_cases hq : q = k
    · simp [setK, hq] at hm
      rcases hm with ⟨h1, h2⟩ | hm
      · exact Or.inl ⟨h1, h2 ▸ hc⟩
      · exact Or.inr ⟨v', List.mem_cons_of_mem _ hm, hc⟩
    · simp [setK, hq] at hm
      rcases hm with ⟨h1, h2⟩ | hm
      · exact Or.inr ⟨v', by simp [h1, h2], hc⟩
      · rcases ih ⟨v', hm, hc⟩ with h | ⟨v2, h2, h3⟩
        · exact Or.inl h
        · exact Or.inr ⟨v2, List.mem_cons_of_mem _ h2, h3⟩

theorem trackedIn_eraseK {m : Items} {k k' : Key} {c : Cell} (h : TrackedIn (eraseK m k) k' c) : TrackedIn m k' c := by
  induction m with
  | nil => obtain ⟨v', hm, _⟩ := h; simp [eraseK] at hm
  | cons e rest ih =>
    obtain ⟨q, w⟩ := e
    obtain ⟨v', hm, hc⟩ := h
    by_cases hq : q = k
    · simp [eraseK, hq] at hm
      exact ⟨v', List.mem_cons_of_mem _ hm, hc⟩
    · simp [eraseK, hq] at hm
      rcases hm with ⟨h1, h2⟩ | hm
      · exact ⟨v', by simp [h1, h2], hc⟩
      · obtain ⟨v2, h2, h3⟩ := ih ⟨v', hm, hc⟩
        exact ⟨v2, List.mem_cons_of_mem _ h2, h3⟩

theorem tracked_removeItemLocked {st st' : CState} {k : Key} {it : Item}
    (h : removeItemLocked st k it = .ok (some st')) :
    (∀ k' c, Tracked st' k' c → Tracked st k' c) ∧ st'.verified = st.verified ∧ st'.nextId = st.nextId := by
  unfold removeItemLocked at h
  split at h
  · cases h; exact ⟨fun _ _ h => h, rfl, rfl⟩
  · rename_i cells hk
    split at h
    · cases h
    · split at h
      · cases h
      · cases h
        refine ⟨?_, rfl, rfl⟩
        intro k' c ht
        dsimp only [Tracked] at ht
        split at ht
        · exact trackedIn_eraseK ht
        · rcases trackedIn_setK ht with ⟨h1, h2⟩ | h
          · subst h1; exact ⟨cells, mem_of_lookupK hk, mem_swapRemove h2⟩
          · exact h

theorem tracked_evictLoop (toRemove : Int) : ∀ (choices : List EvChoice) (st : CState) (removed : Int)
    (acc : List (Key × Item)) (out : EvOut), evictLoop toRemove st removed choices acc = .ok out →
    (∀ k' c, Tracked out.st k' c → Tracked st k' c) ∧ out.st.verified = st.verified ∧ out.st.nextId = st.nextId := by
  intro choices
  induction choices with
  | nil =>
    intro st removed acc out h
    unfold evictLoop at h
    split at h
    · cases h
    · cases h; exact ⟨fun _ _ h => h, rfl, rfl⟩
  | cons ch rest ih =>
    intro st removed acc out h
    obtain ⟨k, i⟩ := ch
    unfold evictLoop at h
    split at h
    · cases h
    · split at h
      · cases h
      · rename_i cells hk
        split at h
        · cases h
        · rename_i c hc
          split at h
          · cases h
          · obtain ⟨a, b, d⟩ := ih _ _ _ out h
            refine ⟨?_, b, d⟩
            intro k' c' ht
            have := a k' c' ht
            dsimp only [Tracked] at this
            split at this
            · exact trackedIn_eraseK this
            · rcases trackedIn_setK this with ⟨h1, h2⟩ | h
              · subst h1; exact ⟨cells, mem_of_lookupK hk, List.mem_of_mem_eraseIdx h2⟩
              · exact h

theorem tracked_commit {fixed : Bool} {cap : Nat} {st : CState} {k : Key} {it : Item} {choices : List EvChoice}
    {out : CommitOut} (h : commit fixed cap st k it choices = .ok out) :
    (∀ k' c, Tracked out.st k' c → Tracked st k' c ∨ (k' = k ∧ c = ⟨it, st.nextId⟩)) ∧
    out.st.verified = st.nextId :: st.verified ∧ out.st.nextId = st.nextId + 1 := by
  unfold commit at h
  dsimp only at h
  split at h
  · cases h
  · split at h
    · cases h
    · cases h
    · rename_i ev hev
      cases h
      obtain ⟨a, b, d⟩ := tracked_evictLoop _ _ _ _ _ _ hev
      have hrem : ∀ k' c, Tracked (afterRemove st k (removeSubsumed fixed it (getK st.items k))
          (subsumedIdx it 0 (getK st.items k)).length) k' c → Tracked st k' c := by
        intro k' c ht
        dsimp only [Tracked, afterRemove] at ht
        rcases trackedIn_setK ht with ⟨h1, h2⟩ | h
        · rw [h1]
          exact trackedIn_getK ((removeSubsumed_spec fixed it (getK st.items k)).2.2.2 c h2)
        · exact h
      refine ⟨?_, ?_, ?_⟩
      · intro k' c ht
        dsimp only [Tracked, addItem] at ht
        rcases trackedIn_setK ht with ⟨h1, h2⟩ | h
        · rw [List.mem_append] at h2
          rcases h2 with h2 | h2
          · rw [h1]; exact Or.inl (hrem _ _ (a _ _ (trackedIn_getK h2)))
          · simp at h2; rw [d] at h2; exact Or.inr ⟨h1, h2⟩
        · exact Or.inl (hrem _ _ (a _ _ h))
      · simp only [addItem, b, d, afterRemove]
      · simp only [addItem, d, afterRemove]

/-! ### the invariant -/

/-- reference data: the chunk list of the xorb behind every key -/
abbrev Ref := Key → List Bytes

structure RefOK (X : Ref) : Prop where
  nonEmpty : ∀ k, ∀ c ∈ X k, c ≠ []
  size : ∀ k, (X k).flatten.length + 1 < 4294967296

/-- `content` is the cache file of the chunks `[it.start, it.stop)` of key `k` -/
def GoodFile (X : Ref) (k : Key) (it : Item) (content : Bytes) : Prop :=
  it.start.toNat < it.stop.toNat ∧ it.stop.toNat ≤ (X k).length ∧
  content = encodeFile (sub (X k) it.start.toNat it.stop.toNat)

/-- every item file whose CRC matches the CRC in its name holds the reference slice named by its
    path (directory = key, name = range) -/
def FsGood (crc : Bytes → UInt32) (X : Ref) (fs : FS) : Prop :=
  ∀ k it c, fileAt fs (itemPath k it) c → crc c = it.crc → GoodFile X k it c

/-- operations the property quantifies over: any get with a non-empty range; puts that are
    consistent with the reference data of their key -/
def OpOK (X : Ref) : Op → Prop
  | .get _ r => r.start.toNat < r.stop.toNat
  | .put k r offs data =>
    r.start.toNat < r.stop.toNat ∧ r.stop.toNat ≤ (X k).length ∧
    offs = offsOf (sub (X k) r.start.toNat r.stop.toNat) ∧
    data = (sub (X k) r.start.toNat r.stop.toNat).flatten

def PCOK (X : Ref) : PC → Prop
  | .matched op c => OpOK X op ∧ covers op.range c = true
  | .noMatch op => OpOK X op
  | .removing op _ => OpOK X op
  | _ => True

/-- a thread holds a clone of cell `c` of key `k` -/
def Held (ts : List PC) (k : Key) (c : Cell) : Prop := ∃ op, PC.matched op c ∈ ts ∧ op.key = k

def Known (w : World) (k : Key) (c : Cell) : Prop := Tracked w.st k c ∨ Held w.threads k c

structure Inv12 (crc : Bytes → UInt32) (X : Ref) (w : World) : Prop where
  good : FsGood crc X w.fs
  ver : ∀ k c, Known w k c → c.cid ∈ w.st.verified →
    ∀ content, fileAt w.fs (itemPath k c.item) content → crc content = c.item.crc
  wr : ∀ k it, PC.written k it ∈ w.threads →
    ∀ content, fileAt w.fs (itemPath k it) content → crc content = it.crc
  uniq : ∀ k1 c1 k2 c2, Known w k1 c1 → Known w k2 c2 → c1.cid = c2.cid → k1 = k2 ∧ c1.item = c2.item
  fresh : ∀ k c, Known w k c → c.cid < w.st.nextId
  pcs : ∀ pc ∈ w.threads, PCOK X pc

theorem Inv12.mono {crc : Bytes → UInt32} {X : Ref} {w w' : World} (h : Inv12 crc X w)
    (hfs : ∀ q c, fileAt w'.fs q c → fileAt w.fs q c)
    (hkn : ∀ k c, Known w' k c → Known w k c)
    (hver : ∀ x ∈ w'.st.verified, x ∈ w.st.verified)
    (hid : w.st.nextId ≤ w'.st.nextId)
    (hwr : ∀ k it, PC.written k it ∈ w'.threads → PC.written k it ∈ w.threads)
    (hpcs : ∀ pc ∈ w'.threads, PCOK X pc) : Inv12 crc X w' where
  good := fun k it c hf hc => h.good k it c (hfs _ _ hf) hc
  ver := fun k c hk hv content hf => h.ver k c (hkn _ _ hk) (hver _ hv) content (hfs _ _ hf)
  wr := fun k it hm content hf => h.wr k it (hwr _ _ hm) content (hfs _ _ hf)
  uniq := fun k1 c1 k2 c2 h1 h2 he => h.uniq k1 c1 k2 c2 (hkn _ _ h1) (hkn _ _ h2) he
  fresh := fun k c hk => Nat.lt_of_lt_of_le (h.fresh k c (hkn _ _ hk)) hid
  pcs := hpcs

/-- thread `tid` moves to `pc'`, state and files only shrink -/
theorem Inv12.update {crc : Bytes → UInt32} {X : Ref} {w : World} (h : Inv12 crc X w) (tid : Nat)
    (st' : CState) (fs' : FS) (cap' : Nat) (p' : Bool) (pc' : PC)
    (hfs : ∀ q c, fileAt fs' q c → fileAt w.fs q c)
    (htr : ∀ k c, Tracked st' k c → Known w k c)
    (hver : ∀ x ∈ st'.verified, x ∈ w.st.verified)
    (hid : w.st.nextId ≤ st'.nextId)
    (hpc : PCOK X pc')
    (hheld : ∀ op c, pc' = .matched op c → Known w op.key c)
    (hwr : ∀ k it, pc' = .written k it → PC.written k it ∈ w.threads) :
    Inv12 crc X ⟨st', fs', cap', p', w.threads.set tid pc'⟩ := by
  apply h.mono hfs
  · intro k c hk
    rcases hk with hk | ⟨op, hm, hkey⟩
    · exact htr k c hk
    · rcases List.mem_or_eq_of_mem_set hm with hm | hm
      · exact Or.inr ⟨op, hm, hkey⟩
      · subst hkey; exact hheld op c hm.symm
  · exact hver
  · exact hid
  · intro k it hm
    rcases List.mem_or_eq_of_mem_set hm with hm | hm
    · exact hm
    · exact hwr k it hm.symm
  · intro pc hm
    rcases List.mem_or_eq_of_mem_set hm with hm | hm
    · exact h.pcs pc hm
    · subst hm; exact hpc

theorem Inv12.verify {crc : Bytes → UInt32} {X : Ref} {w : World} (h : Inv12 crc X w) {k : Key} {c : Cell}
    (hk : Known w k c)
    (hc : ∀ content, fileAt w.fs (itemPath k c.item) content → crc content = c.item.crc) :
    Inv12 crc X (markVerified w c.cid) := by
  unfold markVerified
  split
  · exact h
  · refine ⟨h.good, ?_, h.wr, h.uniq, h.fresh, h.pcs⟩
    intro k' c' hk' hv content hf
    simp only [List.mem_cons] at hv
    rcases hv with hv | hv
    · obtain ⟨e1, e2⟩ := h.uniq k' c' k c hk' hk hv
      subst e1
      rw [e2] at hf ⊢
      exact hc content hf
    · exact h.ver k' c' hk' hv content hf

theorem goodFile_of_put {crc : Bytes → UInt32} {X : Ref} {k : Key} {r : Range} {offs : List Nat} {data : Bytes}
    (hop : OpOK X (.put k r offs data)) : GoodFile X k (mkItem crc r offs data) (headerBytes offs ++ data) := by
  obtain ⟨h1, h2, h3, h4⟩ := hop
  refine ⟨h1, h2, ?_⟩
  simp only [mkItem, encodeFile]
  rw [h3, h4]

theorem Inv12.write {crc : Bytes → UInt32} {X : Ref} {w : World} (h : Inv12 crc X w) (tid : Nat)
    {k : Key} {r : Range} {offs : List Nat} {data : Bytes} {fs' : FS}
    (hop : OpOK X (.put k r offs data))
    (hw : writeItemFile w.fs k (mkItem crc r offs data) (headerBytes offs ++ data) = some fs') :
    Inv12 crc X ⟨w.st, fs', w.cap, w.poisoned, w.threads.set tid (.written k (mkItem crc r offs data))⟩ := by
  have hcrc : crc (headerBytes offs ++ data) = (mkItem crc r offs data).crc := rfl
  have hkn : ∀ k' c, Known ⟨w.st, fs', w.cap, w.poisoned, w.threads.set tid (.written k (mkItem crc r offs data))⟩ k' c →
      Known w k' c := by
    intro k' c hk
    rcases hk with hk | ⟨op, hm, hkey⟩
    · exact Or.inl hk
    · rcases List.mem_or_eq_of_mem_set hm with hm | hm
      · exact Or.inr ⟨op, hm, hkey⟩
      · cases hm
  refine ⟨?_, ?_, ?_, ?_, ?_, ?_⟩
  · intro k' it' c hf hc
    rcases fileAt_writeItemFile hw hf with ⟨hp, hcont⟩ | ⟨_, hold⟩
    · obtain ⟨e1, e2⟩ := itemPath_inj hp
      subst e1 e2 hcont
      exact goodFile_of_put hop
    · exact h.good k' it' c hold hc
  · intro k' c hk hv content hf
    rcases fileAt_writeItemFile hw hf with ⟨hp, hcont⟩ | ⟨_, hold⟩
    · obtain ⟨e1, e2⟩ := itemPath_inj hp
      rw [e2, hcont]; exact hcrc
    · exact h.ver k' c (hkn _ _ hk) hv content hold
  · intro k' it' hm content hf
    rcases fileAt_writeItemFile hw hf with ⟨hp, hcont⟩ | ⟨hne, hold⟩
    · obtain ⟨e1, e2⟩ := itemPath_inj hp
      rw [e2, hcont]; exact hcrc
    · rcases List.mem_or_eq_of_mem_set hm with hm | hm
      · exact h.wr k' it' hm content hold
      · cases hm; exact absurd rfl hne
  · intro k1 c1 k2 c2 h1 h2 he
    exact h.uniq k1 c1 k2 c2 (hkn _ _ h1) (hkn _ _ h2) he
  · intro k' c hk
    exact h.fresh k' c (hkn _ _ hk)
  · intro pc hm
    rcases List.mem_or_eq_of_mem_set hm with hm | hm
    · exact h.pcs pc hm
    · subst hm; exact True.intro

theorem Inv12.commit {crc : Bytes → UInt32} {X : Ref} {w : World} (h : Inv12 crc X w) (tid : Nat)
    {fixed : Bool} {k : Key} {it : Item} {ev : List EvChoice} {out : CommitOut} (pc' : PC)
    (hmem : PC.written k it ∈ w.threads)
    (hc : commit fixed w.cap w.st k it ev = .ok out)
    (hpc1 : ∀ op c, pc' ≠ .matched op c) (hpc2 : ∀ k' it', pc' ≠ .written k' it') (hpc3 : PCOK X pc') :
    Inv12 crc X ⟨out.st, w.fs, w.cap, w.poisoned, w.threads.set tid pc'⟩ := by
  obtain ⟨htr, hv, hn⟩ := tracked_commit hc
  have hkn : ∀ k' c, Known ⟨out.st, w.fs, w.cap, w.poisoned, w.threads.set tid pc'⟩ k' c →
      Known w k' c ∨ (k' = k ∧ c = ⟨it, w.st.nextId⟩) := by
    intro k' c hk
    rcases hk with hk | ⟨op, hm, hkey⟩
    · rcases htr k' c hk with h1 | h1
      · exact Or.inl (Or.inl h1)
      · exact Or.inr h1
    · rcases List.mem_or_eq_of_mem_set hm with hm | hm
      · exact Or.inl (Or.inr ⟨op, hm, hkey⟩)
      · exact absurd hm.symm (hpc1 op c)
  refine ⟨h.good, ?_, ?_, ?_, ?_, ?_⟩
  · intro k' c hk hver content hf
    simp only [hv, List.mem_cons] at hver
    rcases hkn k' c hk with hold | ⟨e1, e2⟩
    · rcases hver with hver | hver
      · have := h.fresh k' c hold; omega
      · exact h.ver k' c hold hver content hf
    · subst e1 e2
      exact h.wr k' it hmem content hf
  · intro k' it' hm content hf
    rcases List.mem_or_eq_of_mem_set hm with hm | hm
    · exact h.wr k' it' hm content hf
    · exact absurd hm.symm (hpc2 k' it')
  · intro k1 c1 k2 c2 h1 h2 he
    rcases hkn k1 c1 h1 with o1 | ⟨a1, b1⟩ <;> rcases hkn k2 c2 h2 with o2 | ⟨a2, b2⟩
    · exact h.uniq k1 c1 k2 c2 o1 o2 he
    · have := h.fresh k1 c1 o1; subst b2; simp only at he; omega
    · have := h.fresh k2 c2 o2; subst b1; simp only at he; omega
    · subst a1 b1 a2 b2; exact ⟨rfl, rfl⟩
  · intro k' c hk
    simp only [hn]
    rcases hkn k' c hk with hold | ⟨_, e2⟩
    · have := h.fresh k' c hold; omega
    · subst e2; simp
  · intro pc hm
    rcases List.mem_or_eq_of_mem_set hm with hm | hm
    · exact h.pcs pc hm
    · subst hm; exact hpc3

/-! ### segments preserve the invariant -/

/-- `s` is the outcome of running thread `tid` of `w` to its next schedule point -/
def SegOK (crc : Bytes → UInt32) (X : Ref) (w : World) (tid : Nat) (s : Seg) : Prop :=
  s.w.threads = w.threads ∧ Inv12 crc X { s.w with threads := w.threads.set tid s.pc }

theorem findSeg_ok {crc : Bytes → UInt32} {X : Ref} {w : World} (h : Inv12 crc X w) (tid : Nat) (op : Op)
    (hop : OpOK X op) : SegOK crc X w tid (findSeg w op) := by
  have triv : ∀ pc', PCOK X pc' → (∀ op c, pc' ≠ .matched op c) → (∀ k it, pc' ≠ .written k it) →
      Inv12 crc X ⟨w.st, w.fs, w.cap, w.poisoned, w.threads.set tid pc'⟩ := by
    intro pc' h1 h2 h3
    exact h.update tid w.st w.fs w.cap w.poisoned pc' (fun _ _ x => x) (fun _ _ x => Or.inl x)
      (fun _ x => x) (Nat.le_refl _) h1 (fun op c e => absurd e (h2 op c)) (fun k it e => absurd e (h3 k it))
  unfold findSeg
  split
  · exact ⟨rfl, triv _ True.intro (fun _ _ e => by cases e) (fun _ _ e => by cases e)⟩
  · split
    · rename_i c hfm
      refine ⟨rfl, ?_⟩
      have hmem : c ∈ getK w.st.items op.key := List.mem_of_find?_eq_some hfm
      have hcov : covers op.range c = true := List.find?_some hfm
      exact h.update tid w.st w.fs w.cap w.poisoned (.matched op c) (fun _ _ x => x) (fun _ _ x => Or.inl x)
        (fun _ x => x) (Nat.le_refl _) ⟨hop, hcov⟩
        (fun op' c' e => by
          have e1 : op' = op := by injection e with e1 _; exact e1.symm
          have e2 : c' = c := by injection e with _ e2; exact e2.symm
          subst e1 e2; exact Or.inl (trackedIn_getK hmem)) (fun k it e => by cases e)
    · refine ⟨rfl, ?_⟩
      cases op with
      | get k r => exact triv _ True.intro (fun _ _ e => by cases e) (fun _ _ e => by cases e)
      | put k r offs data => exact triv _ hop (fun _ _ e => by cases e) (fun _ _ e => by cases e)

theorem removeSeg_ok {crc : Bytes → UInt32} {X : Ref} {w : World} (h : Inv12 crc X w) (tid : Nat) (op : Op)
    (it : Item) (hop : OpOK X op) : SegOK crc X w tid (removeSeg w op it) := by
  have triv : ∀ p' pc', PCOK X pc' → (∀ op c, pc' ≠ .matched op c) → (∀ k it, pc' ≠ .written k it) →
      Inv12 crc X ⟨w.st, w.fs, w.cap, p', w.threads.set tid pc'⟩ := by
    intro p' pc' h1 h2 h3
    exact h.update tid w.st w.fs w.cap p' pc' (fun _ _ x => x) (fun _ _ x => Or.inl x)
      (fun _ x => x) (Nat.le_refl _) h1 (fun op c e => absurd e (h2 op c)) (fun k it e => absurd e (h3 k it))
  unfold removeSeg
  split
  · exact ⟨rfl, triv _ _ True.intro (fun _ _ e => by cases e) (fun _ _ e => by cases e)⟩
  · split
    · exact ⟨rfl, triv _ _ True.intro (fun _ _ e => by cases e) (fun _ _ e => by cases e)⟩
    · exact ⟨rfl, triv _ _ True.intro (fun _ _ e => by cases e) (fun _ _ e => by cases e)⟩
    · exact findSeg_ok h tid op hop
    · rename_i st' hrm
      obtain ⟨a, b, d⟩ := tracked_removeItemLocked hrm
      refine ⟨rfl, ?_⟩
      exact h.update tid st' w.fs w.cap w.poisoned (.removing op it) (fun _ _ x => x)
        (fun k c x => Or.inl (a k c x)) (fun x hx => b ▸ hx) (Nat.le_of_eq d.symm) hop
        (fun _ _ e => by cases e) (fun _ _ e => by cases e)

/-- `SegOK` relative to a world that differs from `w` only in its verification flags -/
theorem SegOK.of_eq_threads {crc : Bytes → UInt32} {X : Ref} {w w1 : World} {tid : Nat} {s : Seg}
    (ht : w1.threads = w.threads) (h : SegOK crc X w1 tid s) : SegOK crc X w tid s := by
  unfold SegOK at *
  rw [ht] at h
  exact h

theorem markVerified_threads (w : World) (cid : Nat) : (markVerified w cid).threads = w.threads := by
  unfold markVerified; split <;> rfl

theorem markVerified_fs (w : World) (cid : Nat) : (markVerified w cid).fs = w.fs := by
  unfold markVerified; split <;> rfl

theorem getMatchedSeg_ok {crc : Bytes → UInt32} {X : Ref} {w : World} (h : Inv12 crc X w) (tid : Nat) (op : Op)
    (c : Cell) (hmem : PC.matched op c ∈ w.threads) : SegOK crc X w tid (getMatchedSeg crc w op c) := by
  have hpc := h.pcs _ hmem
  have hop : OpOK X op := hpc.1
  have hkn : Known w op.key c := Or.inr ⟨op, hmem, rfl⟩
  unfold getMatchedSeg
  split
  · exact removeSeg_ok h tid op c.item hop
  · refine ⟨rfl, ?_⟩
    exact h.update tid w.st w.fs w.cap w.poisoned _ (fun _ _ x => x) (fun _ _ x => Or.inl x)
      (fun _ x => x) (Nat.le_refl _) True.intro (fun _ _ e => by cases e) (fun _ _ e => by cases e)
  · rename_i content hget
    split
    · exact removeSeg_ok h tid op c.item hop
    · rename_i hcond
      have hcrc : ∀ content', fileAt w.fs (itemPath op.key c.item) content' → crc content' = c.item.crc := by
        intro content' hf
        have : content' = content := fileAt_fun hf hget
        subst this
        by_cases hv : c.cid ∈ w.st.verified
        · exact h.ver op.key c hkn hv content' hf
        · simp [hv] at hcond; exact hcond
      have h1 := h.verify hkn hcrc
      have ht := markVerified_threads w c.cid
      dsimp only
      split
      · exact (removeSeg_ok h1 tid op c.item hop).of_eq_threads ht
      · rename_i hdr _
        refine ⟨ht, ?_⟩
        have := h1.update tid (markVerified w c.cid).st (markVerified w c.cid).fs (markVerified w c.cid).cap
          (markVerified w c.cid).poisoned (PC.done (getRange hdr content op.range c.item.start))
          (fun _ _ x => x) (fun _ _ x => Or.inl x)
          (fun _ x => x) (Nat.le_refl _) True.intro (fun _ _ e => by cases e) (fun _ _ e => by cases e)
        rw [ht] at this
        exact this

theorem putMatchedSeg_ok {crc : Bytes → UInt32} {X : Ref} {w : World} (h : Inv12 crc X w) (tid : Nat) (op : Op)
    (offs : List Nat) (data : Bytes) (c : Cell) (hop : OpOK X op) :
    SegOK crc X w tid (putMatchedSeg crc w op offs data c) := by
  have triv : ∀ r, SegOK crc X w tid ⟨w, .done r⟩ := by
    intro r
    refine ⟨rfl, ?_⟩
    exact h.update tid w.st w.fs w.cap w.poisoned _ (fun _ _ x => x) (fun _ _ x => Or.inl x)
      (fun _ x => x) (Nat.le_refl _) True.intro (fun _ _ e => by cases e) (fun _ _ e => by cases e)
  unfold putMatchedSeg
  split
  · exact removeSeg_ok h tid op c.item hop
  · exact triv _
  · split
    · exact removeSeg_ok h tid op c.item hop
    · split
      · exact removeSeg_ok h tid op c.item hop
      · split
        · exact removeSeg_ok h tid op c.item hop
        · dsimp only
          split
          · split
            · split <;> exact triv _
            · exact triv _
          · exact triv _

theorem unlinkNext_ok {crc : Bytes → UInt32} {X : Ref} {w : World} (tid : Nat) (st' : CState) (fs' : FS) (p' : Bool)
    (k : Key) (sub : List Item) (ev : List (Key × Item))
    (hinv : ∀ pc', (∀ op c, pc' ≠ .matched op c) → (∀ k' it', pc' ≠ .written k' it') → PCOK X pc' →
      Inv12 crc X ⟨st', fs', w.cap, p', w.threads.set tid pc'⟩) :
    SegOK crc X w tid (unlinkNext ⟨st', fs', w.cap, p', w.threads⟩ k sub ev) := by
  unfold unlinkNext
  split
  · exact ⟨rfl, hinv _ (fun _ _ e => by cases e) (fun _ _ e => by cases e) True.intro⟩
  · exact ⟨rfl, hinv _ (fun _ _ e => by cases e) (fun _ _ e => by cases e) True.intro⟩

theorem segment_ok {crc : Bytes → UInt32} {X : Ref} {w : World} (h : Inv12 crc X w) (fixed : Bool) (tid : Nat)
    (pc : PC) (o : Oracle) (s : Seg) (hmem : pc ∈ w.threads) (hs : segment crc fixed w pc o = some s) :
    SegOK crc X w tid s := by
  have hpc := h.pcs pc hmem
  unfold segment at hs
  split at hs
  · cases hs
  · cases hs
  · split at hs
    · cases hs; exact getMatchedSeg_ok h tid _ _ hmem
    · cases hs; exact putMatchedSeg_ok h tid _ _ _ _ hpc.1
  · split at hs
    · cases hs
    · dsimp only at hs
      split at hs
      · cases hs
        refine ⟨rfl, ?_⟩
        exact h.update tid w.st w.fs w.cap w.poisoned _ (fun _ _ x => x) (fun _ _ x => Or.inl x)
          (fun _ x => x) (Nat.le_refl _) True.intro (fun _ _ e => by cases e) (fun _ _ e => by cases e)
      · rename_i fs' hw
        cases hs
        exact ⟨rfl, h.write tid hpc hw⟩
  · rename_i k it
    split at hs
    · cases hs
      refine ⟨rfl, ?_⟩
      exact h.update tid w.st w.fs w.cap w.poisoned _ (fun _ _ x => x) (fun _ _ x => Or.inl x)
        (fun _ x => x) (Nat.le_refl _) True.intro (fun _ _ e => by cases e) (fun _ _ e => by cases e)
    · split at hs
      · cases hs
      · cases hs
        refine ⟨rfl, ?_⟩
        exact h.update tid w.st w.fs w.cap true _ (fun _ _ x => x) (fun _ _ x => Or.inl x)
          (fun _ x => x) (Nat.le_refl _) True.intro (fun _ _ e => by cases e) (fun _ _ e => by cases e)
      · rename_i out hc
        cases hs
        exact unlinkNext_ok tid out.st w.fs w.poisoned k out.subsumed out.evicted
          (fun pc' h1 h2 h3 => h.commit tid pc' hmem hc h1 h2 h3)
  · rename_i k sub ev
    have shrink : ∀ fs', (∀ q c, fileAt fs' q c → fileAt w.fs q c) → ∀ sub' ev',
        SegOK crc X w tid (unlinkNext ⟨w.st, fs', w.cap, w.poisoned, w.threads⟩ k sub' ev') := by
      intro fs' hfs sub' ev'
      exact unlinkNext_ok tid w.st fs' w.poisoned k sub' ev'
        (fun pc' h1 h2 h3 => h.update tid w.st fs' w.cap w.poisoned pc' hfs (fun _ _ x => Or.inl x)
          (fun _ x => x) (Nat.le_refl _) h3 (fun op c e => absurd e (h1 op c)) (fun k it e => absurd e (h2 k it)))
    split at hs
    · cases hs
      exact shrink _ (fun q c hf => fileAt_unlinkFile hf) _ _
    · split at hs
      · cases hs
      · split at hs
        · cases hs
        · cases hs
          exact shrink _ (fun q c hf => fileAt_unlinkFile (fileAt_checkRemoveDir.mp hf)) _ _
  · rename_i op it
    cases hs
    have hfs : ∀ q c, fileAt (match FS.get w.fs (itemPath op.key it) with
        | none => w.fs
        | some _ => checkRemoveDir (unlinkFile w.fs (itemPath op.key it)) op.key) q c → fileAt w.fs q c := by
      intro q c hf
      split at hf
      · exact hf
      · exact fileAt_unlinkFile (fileAt_checkRemoveDir.mp hf)
    -- first shrink the files (thread still parked), then run `find_match`
    have h1 : Inv12 crc X { w with fs := (match FS.get w.fs (itemPath op.key it) with
        | none => w.fs
        | some _ => checkRemoveDir (unlinkFile w.fs (itemPath op.key it)) op.key) } :=
      h.mono hfs (fun _ _ x => x) (fun _ x => x) (Nat.le_refl _) (fun _ _ x => x) h.pcs
    exact (findSeg_ok h1 tid op hpc).of_eq_threads rfl

theorem startSeg_ok {crc : Bytes → UInt32} {X : Ref} {w : World} (h : Inv12 crc X w) (tid : Nat) (op : Op)
    (hop : ∀ k r offs data, op = .put k r offs data → OpOK X op) : SegOK crc X w tid (startSeg w op) := by
  have triv : ∀ r, SegOK crc X w tid ⟨w, .done r⟩ := by
    intro r
    refine ⟨rfl, ?_⟩
    exact h.update tid w.st w.fs w.cap w.poisoned _ (fun _ _ x => x) (fun _ _ x => Or.inl x)
      (fun _ x => x) (Nat.le_refl _) True.intro (fun _ _ e => by cases e) (fun _ _ e => by cases e)
  unfold startSeg
  split
  · rename_i k r
    split
    · exact triv _
    · rename_i hr
      exact findSeg_ok h tid _ (by simp only [OpOK]; omega)
  · rename_i k r offs data
    split
    · exact triv _
    · exact findSeg_ok h tid _ (hop k r offs data rfl)

/-- the operations started by a schedule are puts consistent with the reference data (gets are
    unrestricted) -/
def ActionOK (X : Ref) : Action → Prop
  | .start _ (.put k r offs data) => OpOK X (.put k r offs data)
  | _ => True

theorem step_inv12 {crc : Bytes → UInt32} {X : Ref} {w w' : World} (h : Inv12 crc X w) (fixed : Bool) (a : Action)
    (ha : ActionOK X a) (hs : step crc fixed w a = some w') : Inv12 crc X w' := by
  unfold step at hs
  split at hs
  · rename_i tid op
    have hop : ∀ k r offs data, op = .put k r offs data → OpOK X op := by
      intro k r offs data e; subst e; exact ha
    have := startSeg_ok (crc := crc) h tid op hop
    split at hs
    · cases hs; unfold setThread; rw [this.1]; exact this.2
    · cases hs; unfold setThread; rw [this.1]; exact this.2
    · cases hs
  · rename_i tid o
    split at hs
    · cases hs
    · rename_i pc hpc
      split at hs
      · cases hs
      · rename_i s hseg
        cases hs
        have := segment_ok h fixed tid pc o s (List.mem_of_getElem? hpc) hseg
        unfold setThread; rw [this.1]; exact this.2

/-! ### a hit is the slice of the reference data -/

theorem flatten_length_sublist {a b : List Bytes} (h : List.Sublist a b) : a.flatten.length ≤ b.flatten.length := by
  induction h with
  | slnil => simp
  | cons x _ ih => simp only [List.flatten_cons, List.length_append]; omega
  | cons_cons x _ ih => simp only [List.flatten_cons, List.length_append]; omega

theorem sub_flatten_le (cs : List Bytes) (s e : Nat) : (sub cs s e).flatten.length ≤ cs.flatten.length :=
  flatten_length_sublist ((List.take_sublist _ _).trans (List.drop_sublist _ _))

theorem findSeg_pc_ne_hit (w : World) (op : Op) (d : Bytes) (o : List Nat) :
    (findSeg w op).pc ≠ .done (.hit d o) := by
  unfold findSeg
  split
  · intro e; cases e
  · split
    · intro e; cases e
    · cases op <;> (intro e; cases e)

theorem removeSeg_pc_ne_hit (w : World) (op : Op) (it : Item) (d : Bytes) (o : List Nat) :
    (removeSeg w op it).pc ≠ .done (.hit d o) := by
  unfold removeSeg
  split
  · intro e; cases e
  · split
    · intro e; cases e
    · intro e; cases e
    · exact findSeg_pc_ne_hit _ _ _ _
    · intro e; cases e

/-- the only way a `get` produces a hit: the covering entry's file passed the CRC check (now or
    earlier), so it is the reference file of its range, and slicing it gives the reference slice -/
theorem getMatchedSeg_hit {crc : Bytes → UInt32} {X : Ref} {w : World} (h : Inv12 crc X w) (hX : RefOK X)
    (k : Key) (r : Range) (c : Cell) (hmem : PC.matched (.get k r) c ∈ w.threads) (data : Bytes) (offs : List Nat)
    (hd : (getMatchedSeg crc w (.get k r) c).pc = .done (.hit data offs)) :
    r.start.toNat < r.stop.toNat ∧ r.stop.toNat ≤ (X k).length ∧
    data = (sub (X k) r.start.toNat r.stop.toNat).flatten ∧
    offs = offsOf (sub (X k) r.start.toNat r.stop.toNat) := by
  have hpc := h.pcs _ hmem
  have hr : r.start.toNat < r.stop.toNat := hpc.1
  have hcov : covers r c = true := hpc.2
  have hkn : Known w k c := Or.inr ⟨.get k r, hmem, rfl⟩
  unfold getMatchedSeg at hd
  simp only [Op.key, Op.range] at hd
  split at hd
  · exact absurd hd (removeSeg_pc_ne_hit _ _ _ _ _)
  · cases hd
  · rename_i content hget
    split at hd
    · exact absurd hd (removeSeg_pc_ne_hit _ _ _ _ _)
    · rename_i hcond
      have hcrc : crc content = c.item.crc := by
        by_cases hv : c.cid ∈ w.st.verified
        · exact h.ver k c hkn hv content hget
        · simp [hv] at hcond; exact hcond
      obtain ⟨g1, g2, g3⟩ := h.good k c.item content hget hcrc
      split at hd
      · exact absurd hd (removeSeg_pc_ne_hit _ _ _ _ _)
      · rename_i hdr hph
        have hne : ∀ x ∈ sub (X k) c.item.start.toNat c.item.stop.toNat, x ≠ [] :=
          fun x hx => hX.nonEmpty k x (mem_sub hx)
        have hsz : (sub (X k) c.item.start.toNat c.item.stop.toNat).flatten.length + 1 < 4294967296 := by
          have := sub_flatten_le (X k) c.item.start.toNat c.item.stop.toNat
          have := hX.size k
          omega
        have hh : hdr = offsOf (sub (X k) c.item.start.toNat c.item.stop.toNat) := by
          have := parseHeader_encodeFile _ (sub (X k) c.item.start.toNat c.item.stop.toNat).flatten hne hsz
          rw [g3] at hph
          unfold encodeFile at hph
          rw [this] at hph
          exact (Option.some.inj hph).symm
        simp only [covers, Bool.and_eq_true, decide_eq_true_eq] at hcov
        have hlen := sub_length (X k) c.item.start.toNat c.item.stop.toNat g2
        have hgr := getRange_encodeFile (sub (X k) c.item.start.toNat c.item.stop.toNat) c.item.start r hne
          hcov.1 hr (by omega)
        rw [hh, g3, hgr] at hd
        rw [sub_sub (X k) _ _ _ _ hcov.1 (Nat.le_of_lt hr) hcov.2] at hd
        injection hd with hd
        injection hd with e1 e2
        exact ⟨hr, by omega, e1.symm, e2.symm⟩

/-! ### close – damage – re-open -/

/-- cells tracked in `m` or waiting in the buffer `acc` of the key directory `k` being scanned -/
def KnownS (m : Items) (k : Key) (acc : List Cell) (k' : Key) (c : Cell) : Prop :=
  TrackedIn m k' c ∨ (k' = k ∧ c ∈ acc)

/-- during the scan all cell identities are below the counter and belong to one (key, item) -/
structure ScanInv (m : Items) (k : Key) (acc : List Cell) (n : Nat) : Prop where
  lt : ∀ k' c, KnownS m k acc k' c → c.cid < n
  uniq : ∀ k1 c1 k2 c2, KnownS m k acc k1 c1 → KnownS m k acc k2 c2 → c1.cid = c2.cid →
    k1 = k2 ∧ c1.item = c2.item

theorem ScanInv.push {m : Items} {k : Key} {acc : List Cell} {n : Nat} (h : ScanInv m k acc n) (it : Item) :
    ScanInv m k (acc ++ [⟨it, n⟩]) (n + 1) := by
  have hk : ∀ k' c, KnownS m k (acc ++ [⟨it, n⟩]) k' c → KnownS m k acc k' c ∨ (k' = k ∧ c = ⟨it, n⟩) := by
    intro k' c hc
    rcases hc with hc | ⟨e, hc⟩
    · exact Or.inl (Or.inl hc)
    · rw [List.mem_append] at hc
      rcases hc with hc | hc
      · exact Or.inl (Or.inr ⟨e, hc⟩)
      · simp at hc; exact Or.inr ⟨e, hc⟩
  constructor
  · intro k' c hc
    rcases hk k' c hc with ho | ⟨_, e⟩
    · have := h.lt k' c ho; omega
    · subst e; simp
  · intro k1 c1 k2 c2 h1 h2 he
    rcases hk k1 c1 h1 with o1 | ⟨a1, b1⟩ <;> rcases hk k2 c2 h2 with o2 | ⟨a2, b2⟩
    · exact h.uniq k1 c1 k2 c2 o1 o2 he
    · have := h.lt k1 c1 o1; subst b2; simp only at he; omega
    · have := h.lt k2 c2 o2; subst b1; simp only at he; omega
    · subst a1 b1 a2 b2; exact ⟨rfl, rfl⟩

theorem ScanInv.insert {m : Items} {k : Key} {acc : List Cell} {n : Nat} (h : ScanInv m k acc n) (k0 : Key) :
    ScanInv (insertK m k acc) k0 [] n := by
  have hk : ∀ k' c, KnownS (insertK m k acc) k0 [] k' c → KnownS m k acc k' c := by
    intro k' c hc
    rcases hc with hc | ⟨_, hc⟩
    · rcases trackedIn_setK hc with ⟨e, hc⟩ | hc
      · exact Or.inr ⟨e, hc⟩
      · exact Or.inl hc
    · cases hc
  exact ⟨fun k' c hc => h.lt k' c (hk k' c hc), fun k1 c1 k2 c2 h1 h2 he => h.uniq k1 c1 k2 c2 (hk _ _ h1) (hk _ _ h2) he⟩

theorem ScanInv.rekey {m : Items} {k k0 : Key} {n : Nat} (h : ScanInv m k [] n) : ScanInv m k0 [] n := by
  have hk : ∀ k' c, KnownS m k0 [] k' c → KnownS m k [] k' c := by
    intro k' c hc
    rcases hc with hc | ⟨_, hc⟩
    · exact Or.inl hc
    · cases hc
  exact ⟨fun k' c hc => h.lt k' c (hk k' c hc), fun k1 c1 k2 c2 h1 h2 he => h.uniq k1 c1 k2 c2 (hk _ _ h1) (hk _ _ h2) he⟩

theorem scanFiles_inv (cap : Nat) (k : Key) : ∀ (ps : List Path) (s : ScanSt) (acc : List Cell),
    ScanInv s.st.items k acc s.st.nextId →
    ScanInv (scanFiles cap ps s acc).1.st.items k (scanFiles cap ps s acc).2 (scanFiles cap ps s acc).1.st.nextId ∧
    (scanFiles cap ps s acc).1.st.verified = s.st.verified ∧
    (∀ q c, fileAt (scanFiles cap ps s acc).1.fs q c → fileAt s.fs q c) := by
  intro ps
  induction ps with
  | nil => intro s acc h; exact ⟨h, rfl, fun _ _ x => x⟩
  | cons p ps ih =>
    intro s acc h
    unfold scanFiles
    split
    · exact ih s acc h
    · split
      · exact ih s acc h
      · obtain ⟨a, b, d⟩ := ih { s with fs := FS.erase s.fs p } acc h
        exact ⟨a, b, fun q c hf => fileAt_erase (d q c hf)⟩
      · rename_i it _
        dsimp only
        split
        · exact ⟨h.push it, rfl, fun _ _ x => x⟩
        · exact ih _ _ (h.push it)

theorem scanKeyDirs_inv (lenient : Bool) (cap : Nat) (order : List Path) (d1 : Name) :
    ∀ (ps : List Path) (s : ScanSt), ScanInv s.st.items [] [] s.st.nextId →
    ScanInv (scanKeyDirs lenient cap order d1 ps s).s.st.items [] [] (scanKeyDirs lenient cap order d1 ps s).s.st.nextId ∧
    (scanKeyDirs lenient cap order d1 ps s).s.st.verified = s.st.verified ∧
    (∀ q c, fileAt (scanKeyDirs lenient cap order d1 ps s).s.fs q c → fileAt s.fs q c) := by
  intro ps
  induction ps with
  | nil => intro s h; exact ⟨h, rfl, fun _ _ x => x⟩
  | cons p ps ih =>
    intro s h
    unfold scanKeyDirs
    split
    · exact ih s h
    · dsimp only
      split
      · split
        · exact ih s h
        · exact ⟨h, rfl, fun _ _ x => x⟩
      · split
        · split
          · exact ih s h
          · exact ⟨h, rfl, fun _ _ x => x⟩
        · exact ih s h
        · rename_i k _
          obtain ⟨a, b, d⟩ := scanFiles_inv cap k (childrenIn s.fs order p) s [] h.rekey
          split
          · exact ⟨a.insert [], b, d⟩
          · split
            · obtain ⟨a', b', d'⟩ := ih (scanFiles cap (childrenIn s.fs order p) s []).1
                (by
                  have : (scanFiles cap (childrenIn s.fs order p) s []).2 = [] := by
                    rename_i he; simpa using he
                  rw [this] at a; exact a.rekey)
              exact ⟨a', b'.trans b, fun q c hf => d q c (d' q c hf)⟩
            · obtain ⟨a', b', d'⟩ := ih
                { (scanFiles cap (childrenIn s.fs order p) s []).1 with
                  st := { (scanFiles cap (childrenIn s.fs order p) s []).1.st with
                    items := insertK (scanFiles cap (childrenIn s.fs order p) s []).1.st.items k
                      (scanFiles cap (childrenIn s.fs order p) s []).2 } }
                (a.insert [])
              exact ⟨a', b'.trans b, fun q c hf => d q c (d' q c hf)⟩

theorem scanPrefixDirs_inv (lenient : Bool) (cap : Nat) (order : List Path) :
    ∀ (ps : List Path) (s : ScanSt), ScanInv s.st.items [] [] s.st.nextId →
    ScanInv (scanPrefixDirs lenient cap order ps s).s.st.items [] [] (scanPrefixDirs lenient cap order ps s).s.st.nextId ∧
    (scanPrefixDirs lenient cap order ps s).s.st.verified = s.st.verified ∧
    (∀ q c, fileAt (scanPrefixDirs lenient cap order ps s).s.fs q c → fileAt s.fs q c) := by
  intro ps
  induction ps with
  | nil => intro s h; exact ⟨h, rfl, fun _ _ x => x⟩
  | cons p ps ih =>
    intro s h
    unfold scanPrefixDirs
    dsimp only
    split
    · exact ih s h
    · obtain ⟨a, b, d⟩ := scanKeyDirs_inv lenient cap order (p.getLast?.getD []) (childrenIn s.fs order p) s h
      split
      · exact ⟨a, b, d⟩
      · split
        · exact ⟨a, b, d⟩
        · obtain ⟨a', b', d'⟩ := ih _ a
          exact ⟨a', b'.trans b, fun q c hf => d q c (d' q c hf)⟩

/-- damage done while the cache was closed is *detectable*: every item file of the directory as
    found whose CRC matches the CRC field of its name is an untouched entry of the directory as
    it was left (same path, same content).  Bit flips, truncation, extension, deletion, junk
    files and directories, renames that change the CRC field or give an undecodable name are
    all of this kind (for the first three: as far as CRC-32 detects them).  A rename or move that
    keeps the CRC field valid is not (F12). -/
def Detectable (crc : Bytes → UInt32) (fs fs' : FS) : Prop :=
  ∀ k it c, fileAt fs' (itemPath k it) c → crc c = it.crc → fileAt fs (itemPath k it) c

theorem FsGood.detectable {crc : Bytes → UInt32} {X : Ref} {fs fs' : FS} (h : FsGood crc X fs)
    (hd : Detectable crc fs fs') : FsGood crc X fs' :=
  fun k it c hf hc => h k it c (hd k it c hf hc) hc

theorem scan_inv {lenient : Bool} {fs' : FS} {cap : Nat} {order : List Path} {out : ScanOut}
    (h : scan lenient fs' cap order = some out) :
    ScanInv out.s.st.items [] [] out.s.st.nextId ∧ out.s.st.verified = [] ∧
    (∀ q c, fileAt out.s.fs q c → fileAt fs' q c) := by
  unfold scan at h
  split at h
  · cases h
  · cases h
    have h0 : ScanInv CState.empty.items [] [] CState.empty.nextId :=
      ⟨fun k' c hc => by rcases hc with ⟨v, hm, _⟩ | ⟨_, hc⟩ <;> simp [CState.empty] at *,
       fun k1 c1 _ _ hc _ _ => by rcases hc with ⟨v, hm, _⟩ | ⟨_, hc⟩ <;> simp [CState.empty] at *⟩
    exact scanPrefixDirs_inv lenient cap order (childrenIn fs' order []) ⟨CState.empty, fs', false⟩ h0

theorem reopen_inv12 {crc : Bytes → UInt32} {X : Ref} {w w' : World} {fs' : FS} {lenient : Bool} {cap : Nat}
    {order : List Path} (hg : FsGood crc X fs') (hr : reopen lenient w fs' cap order = some w') :
    Inv12 crc X w' := by
  unfold reopen at hr
  split at hr
  · cases hr
  · split at hr
    · cases hr
    · rename_i out hscan
      split at hr
      · cases hr
      · cases hr
        obtain ⟨a, b, d⟩ := scan_inv hscan
        have hidle : ∀ pc ∈ w.threads.map (fun _ => PC.idle), pc = PC.idle := by
          intro pc hm; simp at hm; exact hm.2.symm
        have hkn : ∀ k c, Known ⟨out.s.st, out.s.fs, cap, false, w.threads.map fun _ => PC.idle⟩ k c →
            KnownS out.s.st.items [] [] k c := by
          intro k c hk
          rcases hk with hk | ⟨op, hm, _⟩
          · exact Or.inl hk
          · have := hidle _ hm; cases this
        refine ⟨?_, ?_, ?_, ?_, ?_, ?_⟩
        · exact fun k it c hf hc => hg k it c (d _ _ hf) hc
        · intro k c _ hv; simp only [b] at hv; cases hv
        · intro k it hm; have := hidle _ hm; cases this
        · intro k1 c1 k2 c2 h1 h2 he; exact a.uniq k1 c1 k2 c2 (hkn _ _ h1) (hkn _ _ h2) he
        · intro k c hk; exact a.lt k c (hkn _ _ hk)
        · intro pc hm; rw [hidle pc hm]; exact True.intro

/-! ### a thread that executes `get k r` ends with the reference slice or without a hit -/

/-- the reference answer for `get k r` -/
def RefHit (X : Ref) (k : Key) (r : Range) (data : Bytes) (offs : List Nat) : Prop :=
  r.start.toNat < r.stop.toNat ∧ r.stop.toNat ≤ (X k).length ∧
  data = (sub (X k) r.start.toNat r.stop.toNat).flatten ∧
  offs = offsOf (sub (X k) r.start.toNat r.stop.toNat)

/-- program counters of a thread that is executing (or has finished) `get k r` -/
def GetPC (X : Ref) (k : Key) (r : Range) : PC → Prop
  | .matched op _ => op = .get k r
  | .removing op _ => op = .get k r
  | .done (.hit d o) => RefHit X k r d o
  | .done _ => True
  | _ => False

theorem findSeg_getpc (X : Ref) (w : World) (k : Key) (r : Range) : GetPC X k r (findSeg w (.get k r)).pc := by
  unfold findSeg
  split
  · exact True.intro
  · split
    · rfl
    · exact True.intro

theorem removeSeg_getpc (X : Ref) (w : World) (k : Key) (r : Range) (it : Item) :
    GetPC X k r (removeSeg w (.get k r) it).pc := by
  unfold removeSeg
  split
  · exact True.intro
  · split
    · exact True.intro
    · exact True.intro
    · exact findSeg_getpc X _ k r
    · rfl

theorem getMatchedSeg_getpc {crc : Bytes → UInt32} {X : Ref} {w : World} (h : Inv12 crc X w) (hX : RefOK X)
    (k : Key) (r : Range) (c : Cell) (hmem : PC.matched (.get k r) c ∈ w.threads) :
    GetPC X k r (getMatchedSeg crc w (.get k r) c).pc := by
  cases hpc : (getMatchedSeg crc w (.get k r) c).pc with
  | done res =>
    cases res with
    | hit d o => exact getMatchedSeg_hit h hX k r c hmem d o hpc
    | _ => exact True.intro
  | _ =>
    -- every other program counter comes out of `removeSeg`
    revert hpc
    unfold getMatchedSeg
    simp only [Op.key, Op.range]
    split
    · intro e; rw [← e]; exact removeSeg_getpc X _ k r _
    · intro e; cases e
    · split
      · intro e; rw [← e]; exact removeSeg_getpc X _ k r _
      · split
        · intro e; rw [← e]; exact removeSeg_getpc X _ k r _
        · intro e; cases e

theorem startSeg_getpc (X : Ref) (w : World) (k : Key) (r : Range) : GetPC X k r (startSeg w (.get k r)).pc := by
  unfold startSeg
  simp only
  split
  · exact True.intro
  · exact findSeg_getpc X w k r

/-- one more step of a thread executing `get k r` -/
theorem step_getpc {crc : Bytes → UInt32} {X : Ref} {w w' : World} (h : Inv12 crc X w) (hX : RefOK X)
    (fixed : Bool) (tid : Nat) (o : Oracle) (k : Key) (r : Range) (pc : PC)
    (hpc : w.threads[tid]? = some pc) (hg : GetPC X k r pc)
    (hs : step crc fixed w (.go tid o) = some w') :
    ∃ pc', w'.threads[tid]? = some pc' ∧ GetPC X k r pc' := by
  have hlt : tid < w.threads.length := by
    rcases Nat.lt_or_ge tid w.threads.length with hl | hl
    · exact hl
    · rw [List.getElem?_eq_none hl] at hpc; cases hpc
  unfold step at hs
  simp only [hpc] at hs
  split at hs
  · cases hs
  · rename_i s hseg
    cases hs
    have hthr := (segment_ok h fixed tid pc o s (List.mem_of_getElem? hpc) hseg).1
    refine ⟨s.pc, ?_, ?_⟩
    · simp only [setThread, hthr]
      rw [List.getElem?_set]; simp [hlt]
    · unfold segment at hseg
      cases pc with
      | idle => cases hseg
      | done _ => cases hseg
      | matched op c =>
        simp only [GetPC] at hg
        subst hg
        simp only at hseg
        cases hseg
        exact getMatchedSeg_getpc h hX k r c (List.mem_of_getElem? hpc)
      | noMatch op => exact absurd hg (by simp [GetPC])
      | written _ _ => exact absurd hg (by simp [GetPC])
      | unlinking _ _ _ => exact absurd hg (by simp [GetPC])
      | removing op it =>
        simp only [GetPC] at hg
        subst hg
        simp only at hseg
        cases hseg
        exact findSeg_getpc X _ k r

theorem step_start_pc {crc : Bytes → UInt32} {fixed : Bool} {w w' : World} {tid : Nat} {op : Op}
    (hs : step crc fixed w (.start tid op) = some w') : w'.threads[tid]? = some (startSeg w op).pc := by
  simp only [step] at hs
  have hl : ∀ pc, w.threads[tid]? = some pc → tid < w.threads.length := by
    intro pc h0
    rcases Nat.lt_or_ge tid w.threads.length with hl | hl
    · exact hl
    · rw [List.getElem?_eq_none hl] at h0; cases h0
  split at hs
  · rename_i h0
    cases hs
    simp only [setThread, startSeg_w]
    rw [List.getElem?_set]; simp [hl _ h0]
  · rename_i h0
    cases hs
    simp only [setThread, startSeg_w]
    rw [List.getElem?_set]; simp [hl _ h0]
  · cases hs

end Xet.Cache
