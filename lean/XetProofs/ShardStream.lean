/-
Helper lemmas for the streaming / minimal shard readers (`XetModel/ShardStream.lean`):
  Part 1  the byte-list reader, header and record-header parsers
  Part 2  views that show a stored record (`FileView.Shows`, `CasView.Shows`): accessors, raw bytes, re-decoding
  Part 3  one loop iteration (`nextFile`, `nextCas`) and the section walk on a serialized section
  Part 4  `process_shard_stream` and `MDBMinimalShard::from_reader` on a serialized shard
  Part 5  arbitrary input: adequate fuel, error kinds, bookkeeping of the minimal shard
  Part 6  truncated shards
Core Lean only.
-/
import XetModel.ShardStream
import XetProofs.ShardFormat

namespace Xet.Shard

/-! ## Part 1 — reader primitives -/

theorem readExact_append (x rest : Bytes) {n : Nat} (h : x.length = n) : readExact (x ++ rest) n = .ok ⟨x, rest⟩ := by
  subst h
  simp [readExact]

theorem copyTake_append (x rest : Bytes) {n : Nat} (h : x.length = n) : copyTake (x ++ rest) n = ⟨x, rest⟩ := by
  subst h
  simp [copyTake]

theorem readExact_short (r : Bytes) {n : Nat} (h : r.length < n) : readExact r n = .error .eof := by
  simp [readExact]; omega

theorem readExact_ok {r : Bytes} {n : Nat} {t : Taken} (h : readExact r n = .ok t) :
    n ≤ r.length ∧ t.data = r.take n ∧ t.rest = r.drop n := by
  unfold readExact at h
  split at h
  · simp only [Except.ok.injEq] at h; subst h; exact ⟨by assumption, rfl, rfl⟩
  · cases h

theorem readExact_error {r : Bytes} {n : Nat} {e : Err} (h : readExact r n = .error e) : e = .eof ∧ r.length < n := by
  unfold readExact at h
  split at h
  · cases h
  · simp only [Except.error.injEq] at h; exact ⟨h.symm, by omega⟩

theorem streamHeader_headerBytes (rest : Bytes) : streamHeader (headerBytes ++ rest) = .ok rest := by
  have e : headerBytes ++ rest = headerTag ++ (le64 headerVersion ++ (le64 footerSize ++ rest)) := by
    simp [headerBytes, List.append_assoc]
  rw [e]
  simp only [streamHeader, readExact_append _ _ headerTag_length, ne_eq, not_true_eq_false, if_false,
    readExact_append _ _ (le64_length _)]

theorem At.self (x : Bytes) : At x 0 x := ⟨[], [], by simp, rfl⟩

theorem parseFileHdr_bytes (hd : FileHdr) (w1 : hd.flags < 4294967296) (w2 : hd.numEntries < 4294967296)
    (w3 : hd.unused < 18446744073709551616) : parseFileHdr hd.bytes = .ok hd := by
  obtain ⟨r1, r2, r3, r4⟩ := parseFileHeader_of_At (At.self hd.bytes) w1 w2 w3
  simp only [Nat.zero_add] at r2 r3 r4
  simp only [parseFileHdr, r1, r2, r3, r4, ok_bind]

theorem parseCasHdr_bytes (hd : CasHeader) (w1 : hd.flags < 4294967296) (w2 : hd.numEntries < 4294967296)
    (w3 : hd.bytesInCas < 4294967296) (w4 : hd.bytesOnDisk < 4294967296) : parseCasHdr hd.bytes = .ok hd := by
  have := parseCasHeader_of_At (At.self hd.bytes) w1 w2 w3 w4
  simpa [parseCasHdr] using this

theorem FileHdr.bytes_length (hd : FileHdr) : hd.bytes.length = 48 := fileHeaderBytes_length _ _ _ _
theorem CasHeader.bytes_length (hd : CasHeader) : hd.bytes.length = 48 := casHeaderBytes_length _ _ _ _ _
theorem FileHdr.bytes_length' (hd : FileHdr) : hd.bytes.length = recSize := fileHeaderBytes_length _ _ _ _
theorem CasHeader.bytes_length' (hd : CasHeader) : hd.bytes.length = recSize := casHeaderBytes_length _ _ _ _ _

theorem bookend_fileHdr : (⟨bookendHash, 0, 0, 0⟩ : FileHdr).bytes = bookend := bookend_eq_fileHeader.symm
theorem bookend_casHdr : (⟨bookendHash, 0, 0, 0, 0⟩ : CasHeader).bytes = bookend := bookend_eq_casHeader.symm

/-! ## Part 2 — views that show a stored record -/

def FileInfo.hdr (f : FileInfo) : FileHdr := ⟨f.hash, f.flags, f.numEntries, f.unused⟩
def CasInfo.hdr (c : CasInfo) : CasHeader := ⟨c.hash, c.flags, c.numEntries, c.bytesInCas, c.bytesOnDisk⟩

/-- the records behind the header -/
def FileInfo.tail (f : FileInfo) : Bytes :=
  f.segs.flatMap segBytes ++ (if f.hasVerif then f.verif.flatMap hash16 else [])
    ++ (match f.metaExt with | some m => hash16 m | none => [])

theorem FileInfo.bytes_eq (f : FileInfo) : f.bytes = f.hdr.bytes ++ f.tail := by
  obtain ⟨hash, flags, n, unused, segs, verif, metaExt⟩ := f
  cases metaExt <;> simp [FileInfo.bytes, FileInfo.hdr, FileHdr.bytes, FileInfo.tail, List.append_assoc]

theorem CasInfo.bytes_eq (c : CasInfo) : c.bytes = c.hdr.bytes ++ c.chunks.flatMap chunkBytes := rfl

theorem FileInfo.hdr_tailRecs (f : FileInfo) (w : f.WF) : f.hdr.tailRecs = f.tailRecs := by
  obtain ⟨_, _, w3, _⟩ := w
  show (f.numEntries + (if f.hasVerif then f.numEntries else 0) + (if f.hasMeta then 1 else 0)) = _
  rw [w3]; rfl

theorem FileInfo.tail_length (f : FileInfo) (w : f.WF) : f.tail.length = f.hdr.tailRecs * recSize := by
  have h1 := FileInfo.bytes_length f w
  rw [FileInfo.bytes_eq, List.length_append, FileHdr.bytes_length] at h1
  rw [FileInfo.hdr_tailRecs f w]
  simp only [recSize] at h1 ⊢
  omega

/-- the view `v` shows the stored record `f`: its header is `f`'s and the record's bytes lie at its offset -/
structure FileView.Shows (v : FileView) (f : FileInfo) : Prop where
  hdr : v.hdr = f.hdr
  at_ : At v.data v.offset f.bytes

structure CasView.Shows (v : CasView) (c : CasInfo) : Prop where
  hdr : v.hdr = c.hdr
  at_ : At v.data v.offset c.bytes

theorem drop_take_of_At {b x : Bytes} {off : Nat} (h : At b off x) : (b.drop off).take x.length = x := by
  obtain ⟨pre, post, hb, ho⟩ := h
  subst hb ho
  simp [List.append_assoc]

theorem FileView.Shows.bytes {v : FileView} {f : FileInfo} (s : v.Shows f) (w : f.WF) : v.bytes = f.bytes := by
  have hl : v.byteSize = f.bytes.length := by
    rw [FileView.byteSize, s.hdr, FileInfo.hdr_tailRecs f w, FileInfo.bytes_length f w, Nat.mul_comm]
  rw [FileView.bytes, hl, drop_take_of_At s.at_]

theorem CasView.Shows.bytes {v : CasView} {c : CasInfo} (s : v.Shows c) (w : c.WF) : v.bytes = c.bytes := by
  have hl : v.byteSize = c.bytes.length := by
    rw [CasView.byteSize, s.hdr, CasInfo.bytes_length, Nat.mul_comm]
    simp [CasInfo.hdr, w.2.2.1]
  rw [CasView.bytes, hl, drop_take_of_At s.at_]

theorem FileView.Shows.toInfo {v : FileView} {f : FileInfo} (s : v.Shows f) (w : f.WF) : v.toInfo = .ok (some f) := by
  rw [FileView.toInfo, s.bytes w, parseFileInfo_of_At (At.self f.bytes) w]
  rfl

theorem CasView.Shows.toInfo {v : CasView} {c : CasInfo} (s : v.Shows c) (w : c.WF) : v.toInfo = .ok (some c) := by
  rw [CasView.toInfo, s.bytes w, parseCasInfo_of_At (At.self c.bytes) w]
  rfl

/-! ### accessors = the owned parsers at the view's offset -/

theorem entriesFrom_parseSegs (b : Bytes) (base n i : Nat) (acc : List Seg) :
    entriesFrom (fun idx => parseSeg b (base + (1 + idx) * recSize)) n i acc = parseSegs b n (base + (1 + i) * recSize) acc := by
  induction n generalizing i acc with
  | zero => rfl
  | succ n ih =>
    simp only [entriesFrom, parseSegs]
    cases parseSeg b (base + (1 + i) * recSize) with
    | error e => rfl
    | ok s =>
      simp only
      rw [ih]
      congr 1
      simp only [recSize]; omega

theorem entriesFrom_parseChunks (b : Bytes) (base n i : Nat) (acc : List Chunk) :
    entriesFrom (fun idx => parseChunk b (base + recSize + idx * recSize)) n i acc
      = parseChunks b n (base + recSize + i * recSize) acc := by
  induction n generalizing i acc with
  | zero => rfl
  | succ n ih =>
    simp only [entriesFrom, parseChunks]
    cases parseChunk b (base + recSize + i * recSize) with
    | error e => rfl
    | ok s =>
      simp only
      rw [ih]
      congr 1
      simp only [recSize]; omega

theorem entriesFrom_parseHashes48 (b : Bytes) (base n i : Nat) (acc : List Hash) :
    entriesFrom (fun idx => (readAt b (base + idx * recSize) recSize).map Hash.ofBytes) n i acc
      = parseHashes48 b n (base + i * recSize) acc := by
  induction n generalizing i acc with
  | zero => rfl
  | succ n ih =>
    simp only [entriesFrom, parseHashes48]
    cases readAt b (base + i * recSize) recSize with
    | error e => rfl
    | ok s =>
      show entriesFrom _ n (i + 1) (Hash.ofBytes s :: acc) = _
      rw [ih]
      congr 1
      simp only [recSize]; omega

/-- `(0..n).map(entry)` is `parseSegs` at the record's first segment -/
theorem FileView.entries_eq (v : FileView) : v.entries = parseSegs v.data v.hdr.numEntries (v.offset + recSize) [] := by
  have := entriesFrom_parseSegs v.data v.offset v.hdr.numEntries 0 []
  have e : v.entry = fun idx => parseSeg v.data (v.offset + (1 + idx) * recSize) := rfl
  rw [FileView.entries, e, this]
  simp

theorem CasView.chunks_eq (v : CasView) : v.chunks = parseChunks v.data v.hdr.numEntries (v.offset + recSize) [] := by
  have := entriesFrom_parseChunks v.data v.offset v.hdr.numEntries 0 []
  have e : v.chunk = fun idx => parseChunk v.data (v.offset + recSize + idx * recSize) := rfl
  rw [CasView.chunks, e, this]
  simp

theorem FileView.Shows.entries {v : FileView} {f : FileInfo} (s : v.Shows f) (w : f.WF) : v.entries = .ok f.segs := by
  obtain ⟨_, _, w3, _, _, w6, _, _⟩ := w
  have h := s.at_
  rw [FileInfo.bytes_eq, FileInfo.tail, List.append_assoc] at h
  obtain ⟨_, h2⟩ := h.split (FileHdr.bytes_length _)
  have h3 := h2.left
  have := parseSegs_of_At f.segs (v.offset + 48) [] h3 w6
  rw [FileView.entries_eq, s.hdr]
  simpa [FileInfo.hdr, w3, recSize] using this

theorem FileView.Shows.verifications {v : FileView} {f : FileInfo} (s : v.Shows f) (w : f.WF) :
    v.verifications = .ok f.verif := by
  obtain ⟨_, _, w3, _, _, _, w7, _⟩ := w
  unfold FileView.verifications
  have hv : v.hdr.hasVerif = f.hasVerif := by rw [s.hdr]; rfl
  rw [hv]
  rcases (Bool.eq_false_or_eq_true f.hasVerif).symm with hV | hV
  · simp only [hV, Bool.false_eq_true, if_false] at w7 ⊢
    rw [List.eq_nil_of_length_eq_zero w7]
  · simp only [hV, if_true] at w7 ⊢
    have h := s.at_
    rw [FileInfo.bytes_eq, FileInfo.tail, hV] at h
    simp only [if_true] at h
    have h1 : At v.data v.offset (f.hdr.bytes ++ f.segs.flatMap segBytes ++ f.verif.flatMap hash16) := by
      have := h
      simp only [← List.append_assoc] at this
      exact this.left
    have h2 := h1.right
    have hl : (f.hdr.bytes ++ f.segs.flatMap segBytes).length = 48 + 48 * f.segs.length := by
      simp [FileHdr.bytes_length, flatMap_length_const segBytes 48 _ segBytes_length]
    rw [hl] at h2
    have h3 := parseHashes48_of_At f.verif _ [] h2
    have h4 := entriesFrom_parseHashes48 v.data (v.offset + (48 + 48 * f.segs.length)) v.hdr.numEntries 0 []
    have hn : v.hdr.numEntries = f.segs.length := by rw [s.hdr]; exact w3
    have hfun : v.verification = fun idx => (readAt v.data (v.offset + (48 + 48 * f.segs.length) + idx * recSize) recSize).map Hash.ofBytes := by
      funext idx
      simp only [FileView.verification, hn, recSize]
      congr 2
      omega
    rw [w7] at h3
    rw [hfun, h4, hn]
    simpa using h3

theorem CasView.Shows.chunks {v : CasView} {c : CasInfo} (s : v.Shows c) (w : c.WF) : v.chunks = .ok c.chunks := by
  obtain ⟨_, _, w3, _, _, _, w7⟩ := w
  have h := s.at_
  rw [CasInfo.bytes_eq] at h
  obtain ⟨_, h2⟩ := h.split (CasHeader.bytes_length _)
  have := parseChunks_of_At c.chunks (v.offset + 48) [] h2 w7
  rw [CasView.chunks_eq, s.hdr]
  simpa [CasInfo.hdr, w3, recSize] using this

/-- the view a reader builds for a stored record at offset 0 of its own buffer (streaming walk) -/
def viewOfFile (f : FileInfo) : FileView := ⟨f.hdr, f.bytes, 0⟩
def viewOfCas (c : CasInfo) : CasView := ⟨c.hdr, c.bytes, 0⟩

theorem viewOfFile_shows (f : FileInfo) : (viewOfFile f).Shows f := ⟨rfl, At.self _⟩
theorem viewOfCas_shows (c : CasInfo) : (viewOfCas c).Shows c := ⟨rfl, At.self _⟩

/-! ## Part 3 — one loop iteration and the section walk on a serialized section -/

theorem FileInfo.hdr_wf (f : FileInfo) (w : f.WF) :
    f.hdr.flags < 4294967296 ∧ f.hdr.numEntries < 4294967296 ∧ f.hdr.unused < 18446744073709551616 ∧ f.hdr.hash ≠ bookendHash := by
  obtain ⟨w1, w2, w3, w4, w5, _⟩ := w
  refine ⟨w2, ?_, w5, w1⟩
  show f.numEntries < _
  omega

theorem nextFile_record (f : FileInfo) (w : f.WF) (rest : Bytes) :
    nextFile (f.bytes ++ rest) = .ok (.record (viewOfFile f) rest) := by
  obtain ⟨h1, h2, h3, h4⟩ := f.hdr_wf w
  have e : f.bytes ++ rest = f.hdr.bytes ++ (f.tail ++ rest) := by rw [FileInfo.bytes_eq, List.append_assoc]
  have hlen : ¬ ((f.hdr.bytes ++ f.tail).length < 0 + (1 + f.hdr.tailRecs) * recSize) := by
    rw [List.length_append, FileHdr.bytes_length, FileInfo.tail_length f w]
    simp only [recSize]; omega
  rw [e]
  simp only [nextFile, readExact_append _ _ (FileHdr.bytes_length' _), parseFileHdr_bytes _ h1 h2 h3, if_neg h4,
    copyTake_append _ _ (FileInfo.tail_length f w), FileView.fromDataAndHeader, if_neg hlen]
  rw [← FileInfo.bytes_eq]
  rfl

theorem nextFile_bookend (rest : Bytes) : nextFile (bookend ++ rest) = .ok (.bookend rest) := by
  rw [← bookend_fileHdr]
  simp only [nextFile, readExact_append _ _ (FileHdr.bytes_length' _),
    parseFileHdr_bytes ⟨bookendHash, 0, 0, 0⟩ (by decide) (by decide) (by decide), if_true]

theorem CasInfo.hdr_wf (c : CasInfo) (w : c.WF) :
    c.hdr.flags < 4294967296 ∧ c.hdr.numEntries < 4294967296 ∧ c.hdr.bytesInCas < 4294967296 ∧
    c.hdr.bytesOnDisk < 4294967296 ∧ c.hdr.hash ≠ bookendHash := by
  obtain ⟨w1, w2, w3, w4, w5, w6, _⟩ := w
  refine ⟨w2, ?_, w5, w6, w1⟩
  show c.numEntries < _
  omega

theorem nextCas_record (c : CasInfo) (w : c.WF) (rest : Bytes) :
    nextCas (c.bytes ++ rest) = .ok (.record (viewOfCas c) rest) := by
  obtain ⟨h1, h2, h3, h4, h5⟩ := c.hdr_wf w
  have e : c.bytes ++ rest = c.hdr.bytes ++ (c.chunks.flatMap chunkBytes ++ rest) := by
    rw [CasInfo.bytes_eq, List.append_assoc]
  have hcl : (c.chunks.flatMap chunkBytes).length = c.hdr.numEntries * recSize := by
    rw [flatMap_length_const chunkBytes 48 _ chunkBytes_length]
    show _ = c.numEntries * recSize
    rw [w.2.2.1, recSize, Nat.mul_comm]
  have hlen : ¬ ((c.hdr.bytes ++ c.chunks.flatMap chunkBytes).length < 0 + (recSize + c.hdr.numEntries * recSize)) := by
    rw [List.length_append, CasHeader.bytes_length, hcl]
    simp only [recSize]; omega
  rw [e]
  simp only [nextCas, readExact_append _ _ (CasHeader.bytes_length' _), parseCasHdr_bytes _ h1 h2 h3 h4, if_neg h5,
    copyTake_append _ _ hcl, CasView.fromDataAndHeader, if_neg hlen]
  rfl

theorem nextCas_bookend (rest : Bytes) : nextCas (bookend ++ rest) = .ok (.bookend rest) := by
  rw [← bookend_casHdr]
  simp only [nextCas, readExact_append _ _ (CasHeader.bytes_length' _),
    parseCasHdr_bytes ⟨bookendHash, 0, 0, 0, 0⟩ (by decide) (by decide) (by decide) (by decide), if_true]

/-- the callback folded over a list of views: what a walk over a well-formed section amounts to -/
def foldCb {α σ : Type} (cb : σ → α → Except Err σ) : σ → List α → Bytes → Walk σ
  | s, [], rest => ⟨s, .ok rest⟩
  | s, v :: vs, rest =>
    match cb s v with
    | .error e => ⟨s, .error e⟩
    | .ok s' => foldCb cb s' vs rest

theorem walk_succ {α σ : Type} (next : Bytes → Except Err (Item α)) (cb : σ → α → Except Err σ) (fuel : Nat) (s : σ) (r : Bytes) :
    walk next cb (fuel + 1) s r =
      match next r with
      | .error e => ⟨s, .error e⟩
      | .ok (.bookend rest) => ⟨s, .ok rest⟩
      | .ok (.record v rest) =>
        match cb s v with
        | .error e => ⟨s, .error e⟩
        | .ok s' => walk next cb fuel s' rest := rfl

theorem walk_fileSection {σ : Type} (cb : σ → FileView → Except Err σ) (fs : List FileInfo) (w : ∀ f ∈ fs, f.WF)
    (idx fuel : Nat) (s : σ) (rest : Bytes) (hf : fs.length < fuel) :
    walk nextFile cb fuel s ((fileSection idx fs).bytes ++ (bookend ++ rest)) = foldCb cb s (fs.map viewOfFile) rest := by
  induction fs generalizing idx fuel s with
  | nil =>
    cases fuel with
    | zero => simp at hf
    | succ fuel =>
      show walk nextFile cb (fuel + 1) s ([] ++ (bookend ++ rest)) = _
      rw [List.nil_append, walk_succ, nextFile_bookend]
      rfl
  | cons f fs ih =>
    cases fuel with
    | zero => simp at hf
    | succ fuel =>
      simp only [fileSection, List.append_assoc, walk, nextFile_record f (w f List.mem_cons_self), List.map_cons, foldCb]
      cases cb s (viewOfFile f) with
      | error e => rfl
      | ok s' =>
        simp only
        exact ih (fun x hx => w x (List.mem_cons_of_mem _ hx)) _ fuel s' (by simp at hf; omega)

theorem walk_casSection {σ : Type} (cb : σ → CasView → Except Err σ) (cs : List CasInfo) (w : ∀ c ∈ cs, c.WF)
    (idx fuel : Nat) (s : σ) (rest : Bytes) (hf : cs.length < fuel) :
    walk nextCas cb fuel s ((casSection idx cs).bytes ++ (bookend ++ rest)) = foldCb cb s (cs.map viewOfCas) rest := by
  induction cs generalizing idx fuel s with
  | nil =>
    cases fuel with
    | zero => simp at hf
    | succ fuel =>
      show walk nextCas cb (fuel + 1) s ([] ++ (bookend ++ rest)) = _
      rw [List.nil_append, walk_succ, nextCas_bookend]
      rfl
  | cons c cs ih =>
    cases fuel with
    | zero => simp at hf
    | succ fuel =>
      simp only [casSection, List.append_assoc, walk, nextCas_record c (w c List.mem_cons_self), List.map_cons, foldCb]
      cases cb s (viewOfCas c) with
      | error e => rfl
      | ok s' =>
        simp only
        exact ih (fun x hx => w x (List.mem_cons_of_mem _ hx)) _ fuel s' (by simp at hf; omega)

/-- `walkFuel` exceeds the number of records of a section followed by its bookend -/
theorem walkFuel_fileSection (idx : Nat) (fs : List FileInfo) (w : ∀ f ∈ fs, f.WF) (rest : Bytes) :
    fs.length < walkFuel ((fileSection idx fs).bytes ++ (bookend ++ rest)) := by
  have h1 := fileSection_bytes_length idx fs w
  have h2 := length_le_sumMap FileInfo.numRecs fs (fun f hf => numRecs_pos f (w f hf))
  simp only [walkFuel, List.length_append, h1, bookend_length, recSize]
  omega

theorem walkFuel_casSection (idx : Nat) (cs : List CasInfo) (rest : Bytes) :
    cs.length < walkFuel ((casSection idx cs).bytes ++ (bookend ++ rest)) := by
  have h1 := casSection_bytes_length idx cs
  have h2 := length_le_sumMap (fun c : CasInfo => 1 + c.chunks.length) cs (fun c _ => by omega)
  simp only [walkFuel, List.length_append, h1, bookend_length, recSize]
  omega

theorem walkFiles_section {σ : Type} (cb : σ → FileView → Except Err σ) (fs : List FileInfo) (w : ∀ f ∈ fs, f.WF)
    (idx : Nat) (s : σ) (rest : Bytes) :
    walkFiles cb s ((fileSection idx fs).bytes ++ (bookend ++ rest)) = foldCb cb s (fs.map viewOfFile) rest :=
  walk_fileSection cb fs w idx _ s rest (walkFuel_fileSection idx fs w rest)

theorem walkCas_section {σ : Type} (cb : σ → CasView → Except Err σ) (cs : List CasInfo) (w : ∀ c ∈ cs, c.WF)
    (idx : Nat) (s : σ) (rest : Bytes) :
    walkCas cb s ((casSection idx cs).bytes ++ (bookend ++ rest)) = foldCb cb s (cs.map viewOfCas) rest :=
  walk_casSection cb cs w idx _ s rest (walkFuel_casSection idx cs rest)

theorem foldCb_collect {α : Type} (acc vs : List α) (rest : Bytes) : foldCb collect acc vs rest = ⟨acc ++ vs, .ok rest⟩ := by
  induction vs generalizing acc with
  | nil => simp [foldCb]
  | cons v vs ih => simp [foldCb, collect, ih]

theorem foldCb_ignore {α : Type} (acc vs : List α) (rest : Bytes) : foldCb ignore acc vs rest = ⟨acc, .ok rest⟩ := by
  induction vs generalizing acc with
  | nil => simp [foldCb]
  | cons v vs ih => simp [foldCb, ignore, ih]

/-! ## Part 4 — whole shard images -/

/-- a shard image: header, file section, bookend, CAS section, bookend, then anything (lookup tables and footer
    of `serialize`, of a keyed export, of `MDBMinimalShard::serialize`, or nothing at all) -/
def shardImage (fs : List FileInfo) (cs : List CasInfo) (trailer : Bytes) : Bytes :=
  headerBytes ++ ((fileSection 0 fs).bytes ++ (bookend ++ ((casSection 0 cs).bytes ++ (bookend ++ trailer))))

/-- lookup tables and footer of `serialize` -/
def serializeTrailer (m : Mem) (t : List (Nat × Nat × Nat)) : Bytes :=
  lookupBytes (fileSection 0 m.files).lookup ++ (lookupBytes (casSection 0 m.cas).lookup ++ (chunkLookupBytes t ++ (serialize m t).footer.bytes))

theorem serialize_eq_image (m : Mem) (t : List (Nat × Nat × Nat)) :
    (serialize m t).bytes = shardImage m.files m.cas (serializeTrailer m t) := by
  simp only [serialize, shardImage, serializeTrailer, List.append_assoc]

theorem fileSection_bytes_eq (idx : Nat) (fs : List FileInfo) : (fileSection idx fs).bytes = fs.flatMap FileInfo.bytes := by
  induction fs generalizing idx with
  | nil => rfl
  | cons f fs ih => simp only [fileSection, ih, List.flatMap_cons]

theorem casSection_bytes_eq (idx : Nat) (cs : List CasInfo) : (casSection idx cs).bytes = cs.flatMap CasInfo.bytes := by
  induction cs generalizing idx with
  | nil => rfl
  | cons c cs ih => simp only [casSection, ih, List.flatMap_cons]

/-- **`process_shard_stream` on a shard image** hands the callbacks one view per stored record, in section order,
    each view holding exactly the record's bytes; then returns `Ok`.  Without a CAS callback the CAS section is
    not read; without a file callback the file section is walked and nothing is delivered. -/
theorem streamShard_image (fs : List FileInfo) (cs : List CasInfo) (tr : Bytes) (wf : ∀ f ∈ fs, f.WF) (wc : ∀ c ∈ cs, c.WF)
    (wantF wantC : Bool) :
    streamShard (shardImage fs cs tr) wantF wantC =
      ⟨if wantF then fs.map viewOfFile else [], if wantC then cs.map viewOfCas else [], .ok ()⟩ := by
  unfold streamShard shardImage
  rw [streamHeader_headerBytes]
  cases wantF <;> cases wantC <;>
    simp only [streamCasPart, walkFiles_section _ fs wf, walkCas_section _ cs wc, foldCb_collect, foldCb_ignore, List.nil_append,
      if_true, if_false, Bool.false_eq_true]

/-! ### the minimal shard -/

/-- offsets pushed by the closures of `from_reader`: running sums of the record sizes, each cast to `u32` -/
def offsetsFrom : Nat → List Nat → List Nat
  | _, [] => []
  | start, n :: ns => u32Wrap start :: offsetsFrom (start + n) ns

/-- the minimal shard holding the records `fs`, `cs` -/
def minOf (fs : List FileInfo) (cs : List CasInfo) : MinShard :=
  let F := fs.flatMap FileInfo.bytes
  ⟨F ++ bookend ++ cs.flatMap CasInfo.bytes ++ bookend,
   offsetsFrom 0 (fs.map (·.bytes.length)),
   offsetsFrom (F.length + 48) (cs.map (·.bytes.length)),
   u32Wrap (F.length + 48)⟩

theorem foldCb_minFile_true (a : MinAcc) (fs : List FileInfo) (w : ∀ f ∈ fs, f.WF) (rest : Bytes) :
    foldCb (minFileCb true) a (fs.map viewOfFile) rest =
      ⟨⟨a.data ++ fs.flatMap FileInfo.bytes, a.offsets ++ offsetsFrom a.data.length (fs.map (·.bytes.length))⟩, .ok rest⟩ := by
  induction fs generalizing a with
  | nil => simp [foldCb, offsetsFrom]
  | cons f fs ih =>
    have hb : (viewOfFile f).bytes = f.bytes := (viewOfFile_shows f).bytes (w f List.mem_cons_self)
    simp only [List.map_cons, foldCb, minFileCb, if_true, hb]
    rw [ih _ (fun x hx => w x (List.mem_cons_of_mem _ hx))]
    simp [offsetsFrom, List.append_assoc]

theorem foldCb_minFile_false (a : MinAcc) (vs : List FileView) (rest : Bytes) :
    foldCb (minFileCb false) a vs rest = ⟨a, .ok rest⟩ := by
  induction vs generalizing a with
  | nil => simp [foldCb]
  | cons v vs ih => simp [foldCb, minFileCb, ih]

theorem foldCb_minCas (a : MinAcc) (cs : List CasInfo) (w : ∀ c ∈ cs, c.WF) (rest : Bytes) :
    foldCb minCasCb a (cs.map viewOfCas) rest =
      ⟨⟨a.data ++ cs.flatMap CasInfo.bytes, a.offsets ++ offsetsFrom a.data.length (cs.map (·.bytes.length))⟩, .ok rest⟩ := by
  induction cs generalizing a with
  | nil => simp [foldCb, offsetsFrom]
  | cons c cs ih =>
    have hb : (viewOfCas c).bytes = c.bytes := (viewOfCas_shows c).bytes (w c List.mem_cons_self)
    simp only [List.map_cons, foldCb, minCasCb, hb]
    rw [ih _ (fun x hx => w x (List.mem_cons_of_mem _ hx))]
    simp [offsetsFrom, List.append_assoc]

/-- **`MDBMinimalShard::from_reader` on a shard image** stores exactly the records of the sections it was asked to
    include (record bytes verbatim, both bookends always), with one offset per record. -/
theorem minFromReader_image (fs : List FileInfo) (cs : List CasInfo) (tr : Bytes) (wf : ∀ f ∈ fs, f.WF) (wc : ∀ c ∈ cs, c.WF)
    (inclF inclC : Bool) :
    MinShard.fromReader (shardImage fs cs tr) inclF inclC = .ok (minOf (if inclF then fs else []) (if inclC then cs else [])) := by
  unfold MinShard.fromReader shardImage
  rw [streamHeader_headerBytes]
  cases inclF <;> cases inclC <;>
    simp [minCasPart, walkFiles_section _ fs wf, walkCas_section _ cs wc, foldCb_minFile_true _ fs wf, foldCb_minFile_false,
      foldCb_minCas _ cs wc, minOf, offsetsFrom, bookend_length, List.append_assoc]

/-! ### accessors of the minimal shard -/

inductive Pointwise {α β : Type} (R : α → β → Prop) : List α → List β → Prop
  | nil : Pointwise R [] []
  | cons {a b as bs} : R a b → Pointwise R as bs → Pointwise R (a :: as) (b :: bs)

theorem Pointwise.length {α β : Type} {R : α → β → Prop} {l₁ l₂} (h : Pointwise R l₁ l₂) : l₁.length = l₂.length := by
  induction h with
  | nil => rfl
  | cons _ _ ih => simp [ih]

theorem Pointwise.map_eq {α β γ : Type} {R : α → β → Prop} {l₁ l₂} (h : Pointwise R l₁ l₂) (g₁ : α → γ) (g₂ : β → γ)
    (hg : ∀ a b, b ∈ l₂ → R a b → g₁ a = g₂ b) : l₁.map g₁ = l₂.map g₂ := by
  induction h with
  | nil => rfl
  | cons r _ ih =>
    simp only [List.map_cons]
    rw [hg _ _ List.mem_cons_self r, ih (fun a b hb => hg a b (List.mem_cons_of_mem _ hb))]

theorem Pointwise.of_map {α β : Type} {R : α → β → Prop} (g : β → α) (l : List β) (h : ∀ b ∈ l, R (g b) b) :
    Pointwise R (l.map g) l := by
  induction l with
  | nil => exact .nil
  | cons b l ih => exact .cons (h b List.mem_cons_self) (ih (fun x hx => h x (List.mem_cons_of_mem _ hx)))

theorem At.drop_eq {b x : Bytes} {off : Nat} (h : At b off x) : ∃ post, b.drop off = x ++ post := by
  obtain ⟨pre, post, hb, ho⟩ := h
  subst hb ho
  exact ⟨post, by simp [List.append_assoc]⟩

theorem FileView.new_of_At {data : Bytes} {off : Nat} {f : FileInfo} (h : At data off f.bytes) (w : f.WF) :
    FileView.new data off = .ok ⟨f.hdr, data, off⟩ := by
  obtain ⟨h1, h2, h3, _⟩ := f.hdr_wf w
  have hle := h.le
  obtain ⟨post, hd⟩ := h.drop_eq
  have hlen := FileInfo.bytes_length f w
  rw [← FileInfo.hdr_tailRecs f w] at hlen
  have e : data.drop off = f.hdr.bytes ++ (f.tail ++ post) := by rw [hd, FileInfo.bytes_eq, List.append_assoc]
  have c1 : ¬ data.length < off := by omega
  have c2 : ¬ data.length < off + (1 + f.hdr.tailRecs) * recSize := by rw [Nat.mul_comm]; omega
  simp only [FileView.new, if_neg c1, e, readExact_append _ _ (FileHdr.bytes_length' _), parseFileHdr_bytes _ h1 h2 h3,
    FileView.fromDataAndHeader, if_neg c2]

theorem CasView.new_of_At {data : Bytes} {off : Nat} {c : CasInfo} (h : At data off c.bytes) (w : c.WF) :
    CasView.new data off = .ok ⟨c.hdr, data, off⟩ := by
  obtain ⟨h1, h2, h3, h4, _⟩ := c.hdr_wf w
  have hle := h.le
  obtain ⟨post, hd⟩ := h.drop_eq
  have hlen := CasInfo.bytes_length c
  have hn : c.hdr.numEntries = c.chunks.length := w.2.2.1
  have e : data.drop off = c.hdr.bytes ++ (c.chunks.flatMap chunkBytes ++ post) := by rw [hd, CasInfo.bytes_eq, List.append_assoc]
  have c1 : ¬ data.length < off := by omega
  have c2 : ¬ data.length < off + (recSize + c.hdr.numEntries * recSize) := by rw [hn, Nat.mul_comm]; omega
  simp only [CasView.new, if_neg c1, e, readExact_append _ _ (CasHeader.bytes_length' _), parseCasHdr_bytes _ h1 h2 h3 h4,
    CasView.fromDataAndHeader, if_neg c2]

/-- the views of consecutive records inside a shared buffer -/
def fileViewsAt (data : Bytes) : Nat → List FileInfo → List FileView
  | _, [] => []
  | start, f :: fs => ⟨f.hdr, data, start⟩ :: fileViewsAt data (start + f.bytes.length) fs

def casViewsAt (data : Bytes) : Nat → List CasInfo → List CasView
  | _, [] => []
  | start, c :: cs => ⟨c.hdr, data, start⟩ :: casViewsAt data (start + c.bytes.length) cs

theorem fileViewsAt_shows (data : Bytes) (start : Nat) (fs : List FileInfo) (h : At data start (fs.flatMap FileInfo.bytes)) :
    Pointwise FileView.Shows (fileViewsAt data start fs) fs := by
  induction fs generalizing start with
  | nil => exact .nil
  | cons f fs ih =>
    rw [List.flatMap_cons] at h
    exact .cons ⟨rfl, h.left⟩ (ih _ h.right)

theorem casViewsAt_shows (data : Bytes) (start : Nat) (cs : List CasInfo) (h : At data start (cs.flatMap CasInfo.bytes)) :
    Pointwise CasView.Shows (casViewsAt data start cs) cs := by
  induction cs generalizing start with
  | nil => exact .nil
  | cons c cs ih =>
    rw [List.flatMap_cons] at h
    exact .cons ⟨rfl, h.left⟩ (ih _ h.right)

theorem u32Wrap_of_lt {n : Nat} (h : n < 4294967296) : u32Wrap n = n := Nat.mod_eq_of_lt h

theorem getElem?_append_length {α : Type} (pre : List α) (x : α) (rest : List α) : (pre ++ x :: rest)[pre.length]? = some x := by
  simp

theorem entriesFrom_minFile (s : MinShard) (fs : List FileInfo) (w : ∀ f ∈ fs, f.WF) (pre : List Nat) (start : Nat)
    (acc : List FileView) (ho : s.fileOffsets = pre ++ offsetsFrom start (fs.map (·.bytes.length)))
    (hAt : At s.data start (fs.flatMap FileInfo.bytes)) (hb : start + (fs.flatMap FileInfo.bytes).length ≤ 4294967296) :
    entriesFrom s.file fs.length pre.length acc = .ok (acc.reverse ++ fileViewsAt s.data start fs) := by
  induction fs generalizing pre start acc with
  | nil => simp [entriesFrom, fileViewsAt]
  | cons f fs ih =>
    rw [List.flatMap_cons] at hAt
    have wf := w f List.mem_cons_self
    have hpos : 48 ≤ f.bytes.length := by rw [FileInfo.bytes_length f wf, recSize]; omega
    simp only [List.flatMap_cons, List.length_append] at hb
    have hget : s.file pre.length = .ok ⟨f.hdr, s.data, start⟩ := by
      simp only [MinShard.file, ho, List.map_cons, offsetsFrom, getElem?_append_length]
      rw [u32Wrap_of_lt (by omega)]
      exact FileView.new_of_At hAt.left wf
    simp only [List.length_cons, entriesFrom, hget]
    have := ih (fun x hx => w x (List.mem_cons_of_mem _ hx)) (pre ++ [start]) (start + f.bytes.length) (⟨f.hdr, s.data, start⟩ :: acc)
      (by rw [ho, List.map_cons, offsetsFrom, u32Wrap_of_lt (by omega)]; simp) hAt.right (by omega)
    simp only [List.length_append, List.length_cons, List.length_nil] at this
    rw [this]
    simp [fileViewsAt]

theorem entriesFrom_minCas (s : MinShard) (cs : List CasInfo) (w : ∀ c ∈ cs, c.WF) (pre : List Nat) (start : Nat)
    (acc : List CasView) (ho : s.casOffsets = pre ++ offsetsFrom start (cs.map (·.bytes.length)))
    (hAt : At s.data start (cs.flatMap CasInfo.bytes)) (hb : start + (cs.flatMap CasInfo.bytes).length ≤ 4294967296) :
    entriesFrom s.cas cs.length pre.length acc = .ok (acc.reverse ++ casViewsAt s.data start cs) := by
  induction cs generalizing pre start acc with
  | nil => simp [entriesFrom, casViewsAt]
  | cons c cs ih =>
    rw [List.flatMap_cons] at hAt
    have wc := w c List.mem_cons_self
    have hpos : 48 ≤ c.bytes.length := by rw [CasInfo.bytes_length c, recSize]; omega
    simp only [List.flatMap_cons, List.length_append] at hb
    have hget : s.cas pre.length = .ok ⟨c.hdr, s.data, start⟩ := by
      simp only [MinShard.cas, ho, List.map_cons, offsetsFrom, getElem?_append_length]
      rw [u32Wrap_of_lt (by omega)]
      exact CasView.new_of_At hAt.left wc
    simp only [List.length_cons, entriesFrom, hget]
    have := ih (fun x hx => w x (List.mem_cons_of_mem _ hx)) (pre ++ [start]) (start + c.bytes.length) (⟨c.hdr, s.data, start⟩ :: acc)
      (by rw [ho, List.map_cons, offsetsFrom, u32Wrap_of_lt (by omega)]; simp) hAt.right (by omega)
    simp only [List.length_append, List.length_cons, List.length_nil] at this
    rw [this]
    simp [casViewsAt]

theorem offsetsFrom_length (start : Nat) (ns : List Nat) : (offsetsFrom start ns).length = ns.length := by
  induction ns generalizing start with
  | nil => rfl
  | cons n ns ih => simp [offsetsFrom, ih]

/-- **accessors of the minimal shard** holding `fs`, `cs`, provided its data fit the `u32` offsets (strictly less
    than 4 GiB): `num_files`/`num_cas` count the records, `file(i)` / `cas(i)` succeed for every index and show the
    `i`-th record. -/
theorem minOf_views (fs : List FileInfo) (cs : List CasInfo) (wf : ∀ f ∈ fs, f.WF) (wc : ∀ c ∈ cs, c.WF)
    (hb : (minOf fs cs).data.length ≤ 4294967296) :
    (minOf fs cs).numFiles = fs.length ∧ (minOf fs cs).numCas = cs.length ∧
    (minOf fs cs).files = .ok (fileViewsAt (minOf fs cs).data 0 fs) ∧
    (minOf fs cs).casViews = .ok (casViewsAt (minOf fs cs).data ((fs.flatMap FileInfo.bytes).length + 48) cs) ∧
    Pointwise FileView.Shows (fileViewsAt (minOf fs cs).data 0 fs) fs ∧
    Pointwise CasView.Shows (casViewsAt (minOf fs cs).data ((fs.flatMap FileInfo.bytes).length + 48) cs) cs := by
  have hlen : (minOf fs cs).data.length = (fs.flatMap FileInfo.bytes).length + 48 + (cs.flatMap CasInfo.bytes).length + 48 := by
    simp only [minOf, List.length_append, bookend_length]
  have atF : At (minOf fs cs).data 0 (fs.flatMap FileInfo.bytes) :=
    At.mk' (pre := []) (post := bookend ++ cs.flatMap CasInfo.bytes ++ bookend) (by simp [minOf, List.append_assoc]) rfl
  have atC : At (minOf fs cs).data ((fs.flatMap FileInfo.bytes).length + 48) (cs.flatMap CasInfo.bytes) :=
    At.mk' (pre := fs.flatMap FileInfo.bytes ++ bookend) (post := bookend) (by simp [minOf, List.append_assoc])
      (by simp [bookend_length])
  have nF : (minOf fs cs).numFiles = fs.length := by simp [MinShard.numFiles, minOf, offsetsFrom_length]
  have nC : (minOf fs cs).numCas = cs.length := by simp [MinShard.numCas, minOf, offsetsFrom_length]
  refine ⟨nF, nC, ?_, ?_, fileViewsAt_shows _ _ _ atF, casViewsAt_shows _ _ _ atC⟩
  · have := entriesFrom_minFile (minOf fs cs) fs wf [] 0 [] (by simp [minOf]) atF (by omega)
    rw [MinShard.files, viewsFrom, nF]
    simpa using this
  · have := entriesFrom_minCas (minOf fs cs) cs wc [] ((fs.flatMap FileInfo.bytes).length + 48) [] (by simp [minOf]) atC (by omega)
    rw [MinShard.casViews, viewsFrom, nC]
    simpa using this

/-! ## Part 5 — arbitrary input: error kinds and adequate fuel -/

theorem readAt_error {b : Bytes} {off n : Nat} {e : Err} (h : readAt b off n = .error e) : e = .eof := by
  unfold readAt at h
  split at h
  · cases h
  · simp only [Except.error.injEq] at h; exact h.symm

theorem map_readAt_error {α : Type} {b : Bytes} {off n : Nat} {g : Bytes → α} {e : Err}
    (h : (readAt b off n).map g = .error e) : e = .eof := by
  cases hr : readAt b off n with
  | error e' =>
    rw [hr] at h
    simp only [Except.map, Except.error.injEq] at h
    subst h
    exact readAt_error hr
  | ok x => rw [hr] at h; cases h

theorem bind_eq_error {α β : Type} {x : Except Err α} {f : α → Except Err β} {e : Err} (h : x >>= f = .error e) :
    x = .error e ∨ ∃ a, x = .ok a ∧ f a = .error e := by
  cases x with
  | error e' => left; change (Except.error e' : Except Err β) = Except.error e at h; cases h; rfl
  | ok a => right; exact ⟨a, rfl, h⟩

theorem parseFileHdr_error {v : Bytes} {e : Err} (h : parseFileHdr v = .error e) : e = .eof := by
  unfold parseFileHdr at h
  rcases bind_eq_error h with h | ⟨_, _, h⟩
  · exact map_readAt_error h
  rcases bind_eq_error h with h | ⟨_, _, h⟩
  · exact map_readAt_error h
  rcases bind_eq_error h with h | ⟨_, _, h⟩
  · exact map_readAt_error h
  rcases bind_eq_error h with h | ⟨_, _, h⟩
  · exact map_readAt_error h
  cases h

theorem parseCasHdr_error {v : Bytes} {e : Err} (h : parseCasHdr v = .error e) : e = .eof := by
  unfold parseCasHdr parseCasHeader at h
  rcases bind_eq_error h with h | ⟨_, _, h⟩
  · exact map_readAt_error h
  rcases bind_eq_error h with h | ⟨_, _, h⟩
  · exact map_readAt_error h
  rcases bind_eq_error h with h | ⟨_, _, h⟩
  · exact map_readAt_error h
  rcases bind_eq_error h with h | ⟨_, _, h⟩
  · exact map_readAt_error h
  rcases bind_eq_error h with h | ⟨_, _, h⟩
  · exact map_readAt_error h
  cases h

/-- what one iteration can do on **any** input: fail with `eof`, stop at a bookend, or deliver a view and leave a
    remainder at least 48 bytes shorter -/
structure NextOK {α : Type} (next : Bytes → Except Err (Item α)) : Prop where
  error : ∀ r e, next r = .error e → e = .eof
  shrink : ∀ r v rest, next r = .ok (.record v rest) → rest.length + recSize ≤ r.length
  shrinkB : ∀ r rest, next r = .ok (.bookend rest) → rest.length + recSize ≤ r.length

theorem nextFile_ok : NextOK nextFile := by
  refine ⟨?_, ?_, ?_⟩
  · intro r e h
    unfold nextFile at h
    split at h
    · rename_i e' he; simp only [Except.error.injEq] at h; subst h; exact (readExact_error he).1
    · split at h
      · rename_i e' he; simp only [Except.error.injEq] at h; subst h; exact parseFileHdr_error he
      · split at h
        · cases h
        · simp only [FileView.fromDataAndHeader] at h
          split at h
          · rename_i e' he
            split at he
            · simp only [Except.error.injEq] at he h; rw [← h, ← he]
            · cases he
          · cases h
  · intro r v rest h
    unfold nextFile at h
    split at h
    · cases h
    · rename_i t ht
      obtain ⟨h1, _, h3⟩ := readExact_ok ht
      split at h
      · cases h
      · split at h
        · cases h
        · simp only at h
          split at h
          · cases h
          · simp only [Except.ok.injEq, Item.record.injEq] at h
            rw [← h.2]
            simp only [copyTake, h3, List.length_drop]
            omega
  · intro r rest h
    unfold nextFile at h
    split at h
    · cases h
    · rename_i t ht
      obtain ⟨h1, _, h3⟩ := readExact_ok ht
      split at h
      · cases h
      · split at h
        · simp only [Except.ok.injEq, Item.bookend.injEq] at h
          rw [← h, h3, List.length_drop]; omega
        · simp only at h
          split at h <;> cases h

theorem nextCas_ok : NextOK nextCas := by
  refine ⟨?_, ?_, ?_⟩
  · intro r e h
    unfold nextCas at h
    split at h
    · rename_i e' he; simp only [Except.error.injEq] at h; subst h; exact (readExact_error he).1
    · split at h
      · rename_i e' he; simp only [Except.error.injEq] at h; subst h; exact parseCasHdr_error he
      · split at h
        · cases h
        · simp only [CasView.fromDataAndHeader] at h
          split at h
          · rename_i e' he
            split at he
            · simp only [Except.error.injEq] at he h; rw [← h, ← he]
            · cases he
          · cases h
  · intro r v rest h
    unfold nextCas at h
    split at h
    · cases h
    · rename_i t ht
      obtain ⟨h1, _, h3⟩ := readExact_ok ht
      split at h
      · cases h
      · split at h
        · cases h
        · simp only at h
          split at h
          · cases h
          · simp only [Except.ok.injEq, Item.record.injEq] at h
            rw [← h.2]
            simp only [copyTake, h3, List.length_drop]
            omega
  · intro r rest h
    unfold nextCas at h
    split at h
    · cases h
    · rename_i t ht
      obtain ⟨h1, _, h3⟩ := readExact_ok ht
      split at h
      · cases h
      · split at h
        · simp only [Except.ok.injEq, Item.bookend.injEq] at h
          rw [← h, h3, List.length_drop]; omega
        · simp only at h
          split at h <;> cases h

/-- **adequate fuel**: with more fuel than `r.length / 48` and a callback that does not fail, a walk over *any* input
    ends `Ok(rest)` with `rest` a shorter remainder, or `Err(UnexpectedEof)`; the out-of-fuel value never occurs -/
theorem walk_status {α σ : Type} {next : Bytes → Except Err (Item α)} (hn : NextOK next) (cb : σ → α → Except Err σ)
    (hcb : ∀ s v, ∃ s', cb s v = .ok s') (fuel : Nat) (s : σ) (r : Bytes) (hf : r.length / recSize < fuel) :
    (walk next cb fuel s r).status = .error .eof ∨
      ∃ rest, (walk next cb fuel s r).status = .ok rest ∧ rest.length + recSize ≤ r.length := by
  induction fuel generalizing s r with
  | zero => exact absurd hf (Nat.not_lt_zero _)
  | succ fuel ih =>
    rw [walk_succ]
    split
    · rename_i e he; left; rw [hn.error _ _ he]
    · rename_i rest he; right; exact ⟨rest, rfl, hn.shrinkB _ _ he⟩
    · rename_i v rest he
      obtain ⟨s', hs'⟩ := hcb s v
      rw [hs']
      simp only
      have hsh := hn.shrink _ _ _ he
      have : rest.length / recSize < fuel := by
        simp only [recSize] at hsh hf ⊢; omega
      rcases ih s' rest this with h | ⟨rest', h1, h2⟩
      · left; exact h
      · right; exact ⟨rest', h1, by omega⟩

theorem walkFuel_ok (r : Bytes) : r.length / recSize < walkFuel r := by simp [walkFuel]

theorem streamHeader_error {r : Bytes} {e : Err} (h : streamHeader r = .error e) : e = .eof ∨ e = .version := by
  unfold streamHeader at h
  split at h
  · rename_i e' he; simp only [Except.error.injEq] at h; subst h; left; exact (readExact_error he).1
  · split at h
    · simp only [Except.error.injEq] at h; right; exact h.symm
    · split at h
      · rename_i e' he; simp only [Except.error.injEq] at h; subst h; left; exact (readExact_error he).1
      · split at h
        · rename_i e' he; simp only [Except.error.injEq] at h; subst h; left; exact (readExact_error he).1
        · cases h

theorem collect_total {α : Type} (s : List α) (v : α) : ∃ s', collect s v = .ok s' := ⟨_, rfl⟩
theorem ignore_total {α : Type} (s : List α) (v : α) : ∃ s', ignore s v = .ok s' := ⟨_, rfl⟩
theorem minFileCb_total (incl : Bool) (s : MinAcc) (v : FileView) : ∃ s', minFileCb incl s v = .ok s' := by
  cases incl <;> exact ⟨_, rfl⟩
theorem minCasCb_total (s : MinAcc) (v : CasView) : ∃ s', minCasCb s v = .ok s' := ⟨_, rfl⟩

theorem streamCasPart_status (wantC : Bool) (wf : Walk (List FileView))
    (h : wf.status = .error .eof ∨ ∃ rest, wf.status = .ok rest) :
    (streamCasPart wantC wf).status = .ok () ∨ (streamCasPart wantC wf).status = .error .eof := by
  unfold streamCasPart
  rcases h with h | ⟨r1, h⟩
  · rw [h]; right; rfl
  · rw [h]
    simp only
    split
    · rcases walk_status nextCas_ok collect collect_total _ [] r1 (walkFuel_ok r1) with h2 | ⟨_, h2, _⟩
      · unfold walkCas; rw [h2]; right; rfl
      · unfold walkCas; rw [h2]; left; rfl
    · left; rfl

/-- the streaming reader on **any** byte string ends `Ok`, `UnexpectedEof` or `ShardVersionError` -/
theorem streamShard_status (b : Bytes) (wantF wantC : Bool) :
    (streamShard b wantF wantC).status = .ok () ∨ (streamShard b wantF wantC).status = .error .eof ∨
    (streamShard b wantF wantC).status = .error .version := by
  unfold streamShard
  split
  · rename_i e he
    rcases streamHeader_error he with rfl | rfl
    · right; left; rfl
    · right; right; rfl
  · rename_i r0 _
    have hF : ∀ (cb : List FileView → FileView → Except Err (List FileView)) (_ : ∀ s v, ∃ s', cb s v = .ok s'),
        (walkFiles cb [] r0).status = .error .eof ∨ ∃ rest, (walkFiles cb [] r0).status = .ok rest := by
      intro cb hcb
      rcases walk_status nextFile_ok cb hcb _ [] r0 (walkFuel_ok r0) with h | ⟨rest, h, _⟩
      · left; exact h
      · right; exact ⟨rest, h⟩
    cases wantF
    · rcases streamCasPart_status wantC _ (hF ignore ignore_total) with h | h
      · left; exact h
      · right; left; exact h
    · rcases streamCasPart_status wantC _ (hF collect collect_total) with h | h
      · left; exact h
      · right; left; exact h

theorem minCasPart_status (inclC : Bool) (wf : Walk MinAcc) (h : wf.status = .error .eof ∨ ∃ rest, wf.status = .ok rest) :
    (∃ s, minCasPart inclC wf = .ok s) ∨ minCasPart inclC wf = .error .eof := by
  unfold minCasPart
  rcases h with h | ⟨r1, h⟩
  · rw [h]; right; rfl
  · rw [h]
    simp only
    split
    · rcases walk_status nextCas_ok minCasCb minCasCb_total _ ⟨wf.state.data ++ bookend, []⟩ r1 (walkFuel_ok r1) with h2 | ⟨_, h2, _⟩
      · unfold walkCas; rw [h2]; right; rfl
      · unfold walkCas; rw [h2]; left; exact ⟨_, rfl⟩
    · left; exact ⟨_, rfl⟩

/-- the minimal reader on **any** byte string returns a shard, `UnexpectedEof` or `ShardVersionError` -/
theorem minFromReader_status (b : Bytes) (inclF inclC : Bool) :
    (∃ s, MinShard.fromReader b inclF inclC = .ok s) ∨ MinShard.fromReader b inclF inclC = .error .eof ∨
    MinShard.fromReader b inclF inclC = .error .version := by
  unfold MinShard.fromReader
  split
  · rename_i e he
    rcases streamHeader_error he with rfl | rfl
    · right; left; rfl
    · right; right; rfl
  · rename_i r0 _
    have hF : (walkFiles (minFileCb inclF) ⟨[], []⟩ r0).status = .error .eof ∨
        ∃ rest, (walkFiles (minFileCb inclF) ⟨[], []⟩ r0).status = .ok rest := by
      rcases walk_status nextFile_ok (minFileCb inclF) (minFileCb_total inclF) _ ⟨[], []⟩ r0 (walkFuel_ok r0) with h | ⟨rest, h, _⟩
      · left; exact h
      · right; exact ⟨rest, h⟩
    rcases minCasPart_status inclC _ hF with h | h
    · left; exact h
    · right; left; exact h

/-! ## Part 6 — truncated shards -/

/-- the callback folded over the views, ending with a given status -/
def foldCbS {α σ : Type} (cb : σ → α → Except Err σ) : σ → List α → Except Err Bytes → Walk σ
  | s, [], st => ⟨s, st⟩
  | s, v :: vs, st =>
    match cb s v with
    | .error e => ⟨s, .error e⟩
    | .ok s' => foldCbS cb s' vs st

theorem foldCb_eq_foldCbS {α σ : Type} (cb : σ → α → Except Err σ) (s : σ) (vs : List α) (rest : Bytes) :
    foldCb cb s vs rest = foldCbS cb s vs (.ok rest) := by
  induction vs generalizing s with
  | nil => rfl
  | cons v vs ih =>
    simp only [foldCb, foldCbS]
    cases cb s v with
    | error e => rfl
    | ok s' => exact ih s'

theorem foldCbS_status {α σ : Type} (cb : σ → α → Except Err σ) (hcb : ∀ s v, ∃ s', cb s v = .ok s') (s : σ) (vs : List α)
    (st : Except Err Bytes) : (foldCbS cb s vs st).status = st := by
  induction vs generalizing s with
  | nil => rfl
  | cons v vs ih =>
    obtain ⟨s', hs'⟩ := hcb s v
    simp only [foldCbS, hs']
    exact ih s'

theorem foldCbS_collect {α : Type} (acc vs : List α) (st : Except Err Bytes) : foldCbS collect acc vs st = ⟨acc ++ vs, st⟩ := by
  induction vs generalizing acc with
  | nil => simp [foldCbS]
  | cons v vs ih => simp [foldCbS, collect, ih]

/-- the longest prefix of `l` whose elements fit, whole, into `k` bytes -/
def takeWhole {α : Type} (size : α → Nat) : Nat → List α → List α
  | _, [] => []
  | k, x :: xs => if size x ≤ k then x :: takeWhole size (k - size x) xs else []

theorem takeWhole_prefix {α : Type} (size : α → Nat) (k : Nat) (l : List α) : takeWhole size k l <+: l := by
  induction l generalizing k with
  | nil => exact List.prefix_refl _
  | cons x xs ih =>
    simp only [takeWhole]
    split
    · exact List.cons_prefix_cons.mpr ⟨rfl, ih _⟩
    · exact List.nil_prefix

theorem takeWhole_length_le {α : Type} (size : α → Nat) (k : Nat) (l : List α) (h : ∀ x ∈ l, recSize ≤ size x) :
    (takeWhole size k l).length ≤ k / recSize := by
  induction l generalizing k with
  | nil => simp [takeWhole]
  | cons x xs ih =>
    simp only [takeWhole]
    split
    · rename_i hle
      have h1 := ih (k - size x) (fun y hy => h y (List.mem_cons_of_mem _ hy))
      have h2 := h x List.mem_cons_self
      simp only [List.length_cons, recSize] at h1 h2 ⊢
      omega
    · simp

theorem takeWhole_all {α : Type} (size : α → Nat) (k : Nat) (l : List α) (h : (l.map size).sum ≤ k) : takeWhole size k l = l := by
  induction l generalizing k with
  | nil => rfl
  | cons x xs ih =>
    simp only [List.map_cons, List.sum_cons] at h
    simp only [takeWhole]
    rw [if_pos (by omega), ih _ (by omega)]

theorem take_append_ge {α : Type} (x y : List α) (k : Nat) (h : x.length ≤ k) : (x ++ y).take k = x ++ y.take (k - x.length) := by
  rw [List.take_append, List.take_of_length_le h]

theorem FileView.fromDataAndHeader_short {hdr : FileHdr} {data : Bytes} {off : Nat}
    (h : data.length < off + (1 + hdr.tailRecs) * recSize) : FileView.fromDataAndHeader hdr data off = .error .eof := by
  simp [FileView.fromDataAndHeader, h]

theorem CasView.fromDataAndHeader_short {hdr : CasHeader} {data : Bytes} {off : Nat}
    (h : data.length < off + (recSize + hdr.numEntries * recSize)) : CasView.fromDataAndHeader hdr data off = .error .eof := by
  simp [CasView.fromDataAndHeader, h]

/-- a record cut short: the header is incomplete, or the header is there and the data behind it is not -/
theorem nextFile_cut (f : FileInfo) (w : f.WF) (k : Nat) (hk : k < f.bytes.length) : nextFile (f.bytes.take k) = .error .eof := by
  obtain ⟨h1, h2, h3, h4⟩ := f.hdr_wf w
  have hlen := FileInfo.tail_length f w
  by_cases hk48 : k < 48
  · have : (f.bytes.take k).length < recSize := by simp [recSize]; omega
    simp only [nextFile, readExact_short _ this]
  · have hb : f.bytes.length = 48 + f.hdr.tailRecs * recSize := by
      rw [FileInfo.bytes_eq, List.length_append, FileHdr.bytes_length, hlen]
    have e : f.bytes.take k = f.hdr.bytes ++ f.tail.take (k - 48) := by
      rw [FileInfo.bytes_eq, take_append_ge _ _ _ (by rw [FileHdr.bytes_length]; omega), FileHdr.bytes_length]
    have hshort : (f.hdr.bytes ++ (copyTake (f.tail.take (k - 48)) (f.hdr.tailRecs * recSize)).data).length
        < 0 + (1 + f.hdr.tailRecs) * recSize := by
      simp only [copyTake, List.length_append, FileHdr.bytes_length, List.length_take, hlen, recSize] at hb ⊢
      omega
    rw [e]
    simp only [nextFile, readExact_append _ _ (FileHdr.bytes_length' _), parseFileHdr_bytes _ h1 h2 h3, if_neg h4,
      FileView.fromDataAndHeader_short hshort]

theorem nextCas_cut (c : CasInfo) (w : c.WF) (k : Nat) (hk : k < c.bytes.length) : nextCas (c.bytes.take k) = .error .eof := by
  obtain ⟨h1, h2, h3, h4, h5⟩ := c.hdr_wf w
  have hn : c.hdr.numEntries = c.chunks.length := w.2.2.1
  have hlen : (c.chunks.flatMap chunkBytes).length = c.hdr.numEntries * recSize := by
    rw [flatMap_length_const chunkBytes 48 _ chunkBytes_length, hn, recSize, Nat.mul_comm]
  by_cases hk48 : k < 48
  · have : (c.bytes.take k).length < recSize := by simp [recSize]; omega
    simp only [nextCas, readExact_short _ this]
  · have hb : c.bytes.length = 48 + c.hdr.numEntries * recSize := by
      rw [CasInfo.bytes_eq, List.length_append, CasHeader.bytes_length, hlen]
    have e : c.bytes.take k = c.hdr.bytes ++ (c.chunks.flatMap chunkBytes).take (k - 48) := by
      rw [CasInfo.bytes_eq, take_append_ge _ _ _ (by rw [CasHeader.bytes_length]; omega), CasHeader.bytes_length]
    have hshort : (c.hdr.bytes ++ (copyTake ((c.chunks.flatMap chunkBytes).take (k - 48)) (c.hdr.numEntries * recSize)).data).length
        < 0 + (recSize + c.hdr.numEntries * recSize) := by
      simp only [copyTake, List.length_append, CasHeader.bytes_length, List.length_take, hlen, recSize] at hb ⊢
      omega
    rw [e]
    simp only [nextCas, readExact_append _ _ (CasHeader.bytes_length' _), parseCasHdr_bytes _ h1 h2 h3 h4, if_neg h5,
      CasView.fromDataAndHeader_short hshort]

theorem next_short {α : Type} (next : Bytes → Except Err (Item α)) (hn : NextOK next) (r : Bytes) (h : r.length < recSize) :
    next r = .error .eof := by
  cases hr : next r with
  | error e => rw [hn.error _ _ hr]
  | ok it =>
    cases it with
    | bookend rest => have := hn.shrinkB _ _ hr; omega
    | record v rest => have := hn.shrink _ _ _ hr; omega

/-- **a file section cut after `k` bytes**, before the end of its bookend: the walk hands the callback the views of
    exactly the records that are complete within the first `k` bytes, in order, and then fails with `UnexpectedEof` -/
theorem walk_fileSection_cut {σ : Type} (cb : σ → FileView → Except Err σ) (fs : List FileInfo) (w : ∀ f ∈ fs, f.WF)
    (idx fuel k : Nat) (s : σ) (rest : Bytes) (hk : k < (fileSection idx fs).bytes.length + 48)
    (hf : (takeWhole (·.bytes.length) k fs).length < fuel) :
    walk nextFile cb fuel s (((fileSection idx fs).bytes ++ (bookend ++ rest)).take k) =
      foldCbS cb s ((takeWhole (·.bytes.length) k fs).map viewOfFile) (.error .eof) := by
  induction fs generalizing idx fuel k s with
  | nil =>
    cases fuel with
    | zero => simp at hf
    | succ fuel =>
      simp only [fileSection, List.length_nil, Nat.zero_add] at hk
      have : (([] ++ (bookend ++ rest)).take k).length < recSize := by
        simp only [List.nil_append, List.length_take, recSize]; omega
      show walk nextFile cb (fuel + 1) s (([] ++ (bookend ++ rest)).take k) = _
      rw [walk_succ, next_short nextFile nextFile_ok _ this]
      rfl
  | cons f fs ih =>
    have wf := w f List.mem_cons_self
    simp only [fileSection, List.length_append] at hk
    simp only [takeWhole] at hf
    simp only [fileSection, List.append_assoc, takeWhole]
    by_cases hle : f.bytes.length ≤ k
    · simp only [if_pos hle, List.length_cons] at hf ⊢
      cases fuel with
      | zero => omega
      | succ fuel =>
        rw [take_append_ge _ _ _ hle, walk_succ, nextFile_record f wf]
        simp only [List.map_cons, foldCbS]
        cases cb s (viewOfFile f) with
        | error e => rfl
        | ok s' =>
          simp only
          exact ih (fun x hx => w x (List.mem_cons_of_mem _ hx)) _ fuel (k - f.bytes.length) s' (by omega) (by omega)
    · simp only [if_neg hle]
      cases fuel with
      | zero => simp at hf
      | succ fuel =>
        rw [List.take_append_of_le_length (by omega), walk_succ, nextFile_cut f wf k (by omega)]
        rfl

theorem walk_casSection_cut {σ : Type} (cb : σ → CasView → Except Err σ) (cs : List CasInfo) (w : ∀ c ∈ cs, c.WF)
    (idx fuel k : Nat) (s : σ) (rest : Bytes) (hk : k < (casSection idx cs).bytes.length + 48)
    (hf : (takeWhole (·.bytes.length) k cs).length < fuel) :
    walk nextCas cb fuel s (((casSection idx cs).bytes ++ (bookend ++ rest)).take k) =
      foldCbS cb s ((takeWhole (·.bytes.length) k cs).map viewOfCas) (.error .eof) := by
  induction cs generalizing idx fuel k s with
  | nil =>
    cases fuel with
    | zero => simp at hf
    | succ fuel =>
      simp only [casSection, List.length_nil, Nat.zero_add] at hk
      have : (([] ++ (bookend ++ rest)).take k).length < recSize := by
        simp only [List.nil_append, List.length_take, recSize]; omega
      show walk nextCas cb (fuel + 1) s (([] ++ (bookend ++ rest)).take k) = _
      rw [walk_succ, next_short nextCas nextCas_ok _ this]
      rfl
  | cons c cs ih =>
    have wc := w c List.mem_cons_self
    simp only [casSection, List.length_append] at hk
    simp only [takeWhole] at hf
    simp only [casSection, List.append_assoc, takeWhole]
    by_cases hle : c.bytes.length ≤ k
    · simp only [if_pos hle, List.length_cons] at hf ⊢
      cases fuel with
      | zero => omega
      | succ fuel =>
        rw [take_append_ge _ _ _ hle, walk_succ, nextCas_record c wc]
        simp only [List.map_cons, foldCbS]
        cases cb s (viewOfCas c) with
        | error e => rfl
        | ok s' =>
          simp only
          exact ih (fun x hx => w x (List.mem_cons_of_mem _ hx)) _ fuel (k - c.bytes.length) s' (by omega) (by omega)
    · simp only [if_neg hle]
      cases fuel with
      | zero => simp at hf
      | succ fuel =>
        rw [List.take_append_of_le_length (by omega), walk_succ, nextCas_cut c wc k (by omega)]
        rfl

theorem walkFiles_section_cut {σ : Type} (cb : σ → FileView → Except Err σ) (fs : List FileInfo) (w : ∀ f ∈ fs, f.WF)
    (idx k : Nat) (s : σ) (rest : Bytes) (hk : k < (fileSection idx fs).bytes.length + 48) :
    walkFiles cb s (((fileSection idx fs).bytes ++ (bookend ++ rest)).take k) =
      foldCbS cb s ((takeWhole (·.bytes.length) k fs).map viewOfFile) (.error .eof) := by
  apply walk_fileSection_cut cb fs w idx _ k s rest hk
  have h1 := takeWhole_length_le (fun f : FileInfo => f.bytes.length) k fs (fun f hf => by
    rw [FileInfo.bytes_length f (w f hf)]; simp only [recSize]; omega)
  have h2 : (((fileSection idx fs).bytes ++ (bookend ++ rest)).take k).length = k := by
    simp only [List.length_take, List.length_append, bookend_length]; omega
  simp only [walkFuel, h2]
  omega

theorem walkCas_section_cut {σ : Type} (cb : σ → CasView → Except Err σ) (cs : List CasInfo) (w : ∀ c ∈ cs, c.WF)
    (idx k : Nat) (s : σ) (rest : Bytes) (hk : k < (casSection idx cs).bytes.length + 48) :
    walkCas cb s (((casSection idx cs).bytes ++ (bookend ++ rest)).take k) =
      foldCbS cb s ((takeWhole (·.bytes.length) k cs).map viewOfCas) (.error .eof) := by
  apply walk_casSection_cut cb cs w idx _ k s rest hk
  have h1 := takeWhole_length_le (fun c : CasInfo => c.bytes.length) k cs (fun c _ => by
    rw [CasInfo.bytes_length c]; simp only [recSize]; omega)
  have h2 : (((casSection idx cs).bytes ++ (bookend ++ rest)).take k).length = k := by
    simp only [List.length_take, List.length_append, bookend_length]; omega
  simp only [walkFuel, h2]
  omega

attribute [local instance] decEqExcept in
set_option maxRecDepth 10000 in
theorem streamHeader_cut : ∀ k < 48, streamHeader (headerBytes.take k) = .error .eof := by decide

/-- end of the part of a shard image the streaming readers look at -/
def sectionsEnd (fs : List FileInfo) (cs : List CasInfo) : Nat :=
  48 + (fileSection 0 fs).bytes.length + 48 + (casSection 0 cs).bytes.length + 48

theorem take_five {α : Type} (H F B C tr : List α) (k : Nat) (hk : H.length + F.length + B.length + C.length + B.length ≤ k) :
    (H ++ (F ++ (B ++ (C ++ (B ++ tr))))).take k =
      H ++ (F ++ (B ++ (C ++ (B ++ tr.take (k - (H.length + F.length + B.length + C.length + B.length)))))) := by
  rw [take_append_ge _ _ _ (by omega), take_append_ge _ _ _ (by omega), take_append_ge _ _ _ (by omega),
    take_append_ge _ _ _ (by omega), take_append_ge _ _ _ (by omega)]
  congr 6
  omega

/-- a cut at or behind the end of the CAS bookend leaves a shard image with a shorter trailer -/
theorem shardImage_take_ge (fs : List FileInfo) (cs : List CasInfo) (tr : Bytes) (k : Nat) (hk : sectionsEnd fs cs ≤ k) :
    (shardImage fs cs tr).take k = shardImage fs cs (tr.take (k - sectionsEnd fs cs)) := by
  have h := take_five headerBytes (fileSection 0 fs).bytes bookend (casSection 0 cs).bytes tr k (by
    rw [headerBytes_length, bookend_length]; exact hk)
  rw [headerBytes_length, bookend_length] at h
  exact h

theorem takeWhole_zero {α : Type} (size : α → Nat) (l : List α) (h : ∀ x ∈ l, 0 < size x) : takeWhole size 0 l = [] := by
  cases l with
  | nil => rfl
  | cons x xs =>
    have := h x List.mem_cons_self
    simp only [takeWhole]
    rw [if_neg (by omega)]

theorem fileSection_length_sum (idx : Nat) (fs : List FileInfo) :
    (fs.map (·.bytes.length)).sum = (fileSection idx fs).bytes.length := by
  induction fs generalizing idx with
  | nil => rfl
  | cons f fs ih => simp only [List.map_cons, List.sum_cons, fileSection, List.length_append, ih (idx + f.numRecs)]

theorem casSection_length_sum (idx : Nat) (cs : List CasInfo) :
    (cs.map (·.bytes.length)).sum = (casSection idx cs).bytes.length := by
  induction cs generalizing idx with
  | nil => rfl
  | cons c cs ih => simp only [List.map_cons, List.sum_cons, casSection, List.length_append, ih (idx + 1 + c.chunks.length)]

theorem file_size_pos (fs : List FileInfo) (w : ∀ f ∈ fs, f.WF) : ∀ f ∈ fs, 0 < f.bytes.length := by
  intro f hf; rw [FileInfo.bytes_length f (w f hf), recSize]; omega

theorem cas_size_pos (cs : List CasInfo) : ∀ c ∈ cs, 0 < c.bytes.length := by
  intro c _; rw [CasInfo.bytes_length c, recSize]; omega

/-- **`process_shard_stream` on a truncated shard image** (cut anywhere before the end of the CAS bookend): the callbacks
    receive the views of exactly the records complete before the cut — a prefix of the untruncated delivery — and the
    call fails with `UnexpectedEof`. -/
theorem streamShard_cut (fs : List FileInfo) (cs : List CasInfo) (tr : Bytes) (wf : ∀ f ∈ fs, f.WF) (wc : ∀ c ∈ cs, c.WF)
    (k : Nat) (hk : k < sectionsEnd fs cs) :
    streamShard ((shardImage fs cs tr).take k) true true =
      ⟨(takeWhole (·.bytes.length) (k - 48) fs).map viewOfFile,
       (takeWhole (·.bytes.length) (k - 48 - (fileSection 0 fs).bytes.length - 48) cs).map viewOfCas, .error .eof⟩ := by
  unfold sectionsEnd at hk
  by_cases h48 : k < 48
  · have e : (shardImage fs cs tr).take k = headerBytes.take k := by
      unfold shardImage
      rw [List.take_append_of_le_length (by rw [headerBytes_length]; omega)]
    have z1 : k - 48 = 0 := by omega
    rw [e]
    simp only [streamShard, streamHeader_cut k h48, z1, Nat.zero_sub, takeWhole_zero _ fs (file_size_pos fs wf),
      takeWhole_zero _ cs (cas_size_pos cs), List.map_nil]
  · have e : (shardImage fs cs tr).take k = headerBytes ++
        ((fileSection 0 fs).bytes ++ (bookend ++ ((casSection 0 cs).bytes ++ (bookend ++ tr)))).take (k - 48) := by
      unfold shardImage
      rw [take_append_ge _ _ _ (by rw [headerBytes_length]; omega), headerBytes_length]
    rw [e]
    simp only [streamShard, streamHeader_headerBytes, if_true]
    by_cases hF : k - 48 < (fileSection 0 fs).bytes.length + 48
    · have z2 : k - 48 - (fileSection 0 fs).bytes.length - 48 = 0 := by omega
      rw [walkFiles_section_cut collect fs wf 0 (k - 48) [] _ hF, foldCbS_collect, z2,
        takeWhole_zero _ cs (cas_size_pos cs)]
      rfl
    · have e2 : ((fileSection 0 fs).bytes ++ (bookend ++ ((casSection 0 cs).bytes ++ (bookend ++ tr)))).take (k - 48) =
          (fileSection 0 fs).bytes ++ (bookend ++ ((casSection 0 cs).bytes ++ (bookend ++ tr)).take
            (k - 48 - (fileSection 0 fs).bytes.length - 48)) := by
        rw [take_append_ge _ _ _ (by omega), take_append_ge _ _ _ (by rw [bookend_length]; omega), bookend_length]
      have hall : takeWhole (fun f : FileInfo => f.bytes.length) (k - 48) fs = fs :=
        takeWhole_all _ _ _ (by rw [fileSection_length_sum 0 fs]; omega)
      rw [e2, walkFiles_section collect fs wf 0 [], foldCb_collect, hall]
      simp only [streamCasPart, List.nil_append]
      rw [walkCas_section_cut collect cs wc 0 _ [] _ (by omega), foldCbS_collect]
      rfl

/-- **`MDBMinimalShard::from_reader(.., include_cas = true)` on a truncated shard image** fails with `UnexpectedEof`
    wherever the cut lies before the end of the CAS bookend. -/
theorem minFromReader_cut (fs : List FileInfo) (cs : List CasInfo) (tr : Bytes) (wf : ∀ f ∈ fs, f.WF) (wc : ∀ c ∈ cs, c.WF)
    (inclF : Bool) (k : Nat) (hk : k < sectionsEnd fs cs) :
    MinShard.fromReader ((shardImage fs cs tr).take k) inclF true = .error .eof := by
  unfold sectionsEnd at hk
  by_cases h48 : k < 48
  · have e : (shardImage fs cs tr).take k = headerBytes.take k := by
      unfold shardImage
      rw [List.take_append_of_le_length (by rw [headerBytes_length]; omega)]
    rw [e]
    simp only [MinShard.fromReader, streamHeader_cut k h48]
  · have e : (shardImage fs cs tr).take k = headerBytes ++
        ((fileSection 0 fs).bytes ++ (bookend ++ ((casSection 0 cs).bytes ++ (bookend ++ tr)))).take (k - 48) := by
      unfold shardImage
      rw [take_append_ge _ _ _ (by rw [headerBytes_length]; omega), headerBytes_length]
    rw [e]
    simp only [MinShard.fromReader, streamHeader_headerBytes]
    by_cases hF : k - 48 < (fileSection 0 fs).bytes.length + 48
    · rw [walkFiles_section_cut _ fs wf 0 (k - 48) _ _ hF]
      unfold minCasPart
      rw [foldCbS_status _ (minFileCb_total inclF)]
    · have e2 : ((fileSection 0 fs).bytes ++ (bookend ++ ((casSection 0 cs).bytes ++ (bookend ++ tr)))).take (k - 48) =
          (fileSection 0 fs).bytes ++ (bookend ++ ((casSection 0 cs).bytes ++ (bookend ++ tr)).take
            (k - 48 - (fileSection 0 fs).bytes.length - 48)) := by
        rw [take_append_ge _ _ _ (by omega), take_append_ge _ _ _ (by rw [bookend_length]; omega), bookend_length]
      rw [e2, walkFiles_section _ fs wf 0, foldCb_eq_foldCbS]
      unfold minCasPart
      rw [foldCbS_status _ (minFileCb_total inclF)]
      simp only [if_true]
      rw [walkCas_section_cut _ cs wc 0 _ _ _ (by omega), foldCbS_status _ minCasCb_total]

/-- with `include_cas = false` only the header and the file section are read: everything behind the file bookend is
    irrelevant (it may be missing) -/
theorem minFromReader_files_only (fs : List FileInfo) (wf : ∀ f ∈ fs, f.WF) (rest : Bytes) (inclF : Bool) :
    MinShard.fromReader (headerBytes ++ ((fileSection 0 fs).bytes ++ (bookend ++ rest))) inclF false
      = .ok (minOf (if inclF then fs else []) []) := by
  unfold MinShard.fromReader
  rw [streamHeader_headerBytes]
  cases inclF <;>
    simp [minCasPart, walkFiles_section _ fs wf, foldCb_minFile_true _ fs wf, foldCb_minFile_false,
      minOf, offsetsFrom, bookend_length, List.append_assoc]

theorem minFromReader_files_only_cut (fs : List FileInfo) (cs : List CasInfo) (tr : Bytes) (wf : ∀ f ∈ fs, f.WF) (inclF : Bool)
    (k : Nat) :
    MinShard.fromReader ((shardImage fs cs tr).take k) inclF false =
      if k < 48 + (fileSection 0 fs).bytes.length + 48 then .error .eof else .ok (minOf (if inclF then fs else []) []) := by
  by_cases h48 : k < 48
  · have e : (shardImage fs cs tr).take k = headerBytes.take k := by
      unfold shardImage
      rw [List.take_append_of_le_length (by rw [headerBytes_length]; omega)]
    rw [e, if_pos (by omega)]
    simp only [MinShard.fromReader, streamHeader_cut k h48]
  · have e : (shardImage fs cs tr).take k = headerBytes ++
        ((fileSection 0 fs).bytes ++ (bookend ++ ((casSection 0 cs).bytes ++ (bookend ++ tr)))).take (k - 48) := by
      unfold shardImage
      rw [take_append_ge _ _ _ (by rw [headerBytes_length]; omega), headerBytes_length]
    rw [e]
    by_cases hF : k - 48 < (fileSection 0 fs).bytes.length + 48
    · rw [if_pos (by omega)]
      simp only [MinShard.fromReader, streamHeader_headerBytes]
      rw [walkFiles_section_cut _ fs wf 0 (k - 48) _ _ hF]
      unfold minCasPart
      rw [foldCbS_status _ (minFileCb_total inclF)]
    · have e2 : ((fileSection 0 fs).bytes ++ (bookend ++ ((casSection 0 cs).bytes ++ (bookend ++ tr)))).take (k - 48) =
          (fileSection 0 fs).bytes ++ (bookend ++ ((casSection 0 cs).bytes ++ (bookend ++ tr)).take
            (k - 48 - (fileSection 0 fs).bytes.length - 48)) := by
        rw [take_append_ge _ _ _ (by omega), take_append_ge _ _ _ (by rw [bookend_length]; omega), bookend_length]
      rw [if_neg (by omega), e2]
      exact minFromReader_files_only fs wf _ inclF

/-! ## Part 7 — `MDBMinimalShard::serialize` and the seekable reader on its output -/

theorem minOf_data_eq (fs : List FileInfo) (cs : List CasInfo) :
    (minOf fs cs).data = (fileSection 0 fs).bytes ++ (bookend ++ ((casSection 0 cs).bytes ++ bookend)) := by
  simp [minOf, fileSection_bytes_eq, casSection_bytes_eq, List.append_assoc]

/-- the re-serialized minimal shard is a shard image whose trailer is just the table-less footer -/
theorem minOf_serialize_image (fs : List FileInfo) (cs : List CasInfo) :
    (minOf fs cs).serialize = shardImage fs cs (minOf fs cs).footer.bytes := by
  simp [MinShard.serialize, shardImage, minOf_data_eq, List.append_assoc]

theorem minOf_totals (fs : List FileInfo) (cs : List CasInfo) (wf : ∀ f ∈ fs, f.WF) (wc : ∀ c ∈ cs, c.WF)
    (hb : (minOf fs cs).data.length ≤ 4294967296) :
    (minOf fs cs).materialized = sumMap (fun f => sumMap (·.bytes) f.segs) fs ∧
    (minOf fs cs).storedOnDisk = sumMap (·.bytesOnDisk) cs ∧ (minOf fs cs).stored = sumMap (·.bytesInCas) cs := by
  obtain ⟨_, _, hF, hC, sF, sC⟩ := minOf_views fs cs wf wc hb
  refine ⟨?_, ?_, ?_⟩
  · simp only [MinShard.materialized, hF, sumMap]
    congr 1
    exact sF.map_eq _ _ (fun v f hf sh => by rw [sh.entries (wf f hf)])
  · simp only [MinShard.storedOnDisk, hC, sumMap]
    congr 1
    exact sC.map_eq _ _ (fun v c _ sh => by rw [sh.hdr]; rfl)
  · simp only [MinShard.stored, hC, sumMap]
    congr 1
    exact sC.map_eq _ _ (fun v c _ sh => by rw [sh.hdr]; rfl)

theorem minOf_data_length (fs : List FileInfo) (cs : List CasInfo) :
    (minOf fs cs).data.length = (fileSection 0 fs).bytes.length + 48 + (casSection 0 cs).bytes.length + 48 := by
  rw [minOf_data_eq]
  simp only [List.length_append, bookend_length]
  omega

theorem minOf_casInfoStart (fs : List FileInfo) (cs : List CasInfo) (hb : (minOf fs cs).data.length ≤ 4294967296) :
    (minOf fs cs).casInfoStart = (fileSection 0 fs).bytes.length + 48 := by
  have := minOf_data_length fs cs
  show u32Wrap ((fs.flatMap FileInfo.bytes).length + 48) = _
  rw [← fileSection_bytes_eq 0 fs, u32Wrap_of_lt (by omega)]

theorem minOf_footer_fits (m : Mem) (w : m.WF) (hb : (minOf m.files m.cas).data.length ≤ 4294967296) :
    (minOf m.files m.cas).footer.Fits := by
  obtain ⟨t1, t2, t3⟩ := minOf_totals m.files m.cas w.2.2.1 w.2.2.2.1 hb
  have h1 := w.storedOnDisk_lt
  have h2 := w.stored_lt
  have h3 := w.materialized_lt
  have hc := minOf_casInfoStart m.files m.cas hb
  have hl := minOf_data_length m.files m.cas
  simp only [Mem.storedOnDisk, Mem.stored, Mem.materialized] at h1 h2 h3
  constructor <;> simp only [MinShard.footer, headerSize, hc, t1, t2, t3] <;> first | rfl | omega | decide

/-- **the seekable reader on the re-serialized minimal shard** (`MDBMinimalShard::serialize`, the check of the unit test
    `verify_serialization`): `load_from_reader` returns the table-less footer, whose byte totals are those of the content,
    and the two scans return the content. -/
theorem minOf_serialize_seekable (m : Mem) (w : m.WF) (hb : (minOf m.files m.cas).data.length ≤ 4294967296)
    (fuelF fuelC : Nat) (hF : m.files.length < fuelF) (hC : m.cas.length < fuelC) :
    loadInfo (minOf m.files m.cas).serialize = .ok (minOf m.files m.cas).footer ∧
    readAllFiles (minOf m.files m.cas).serialize fuelF (minOf m.files m.cas).footer.fileInfoOff [] = .ok m.files ∧
    readAllCas (minOf m.files m.cas).serialize fuelC (minOf m.files m.cas).footer.casInfoOff [] = .ok m.cas ∧
    (minOf m.files m.cas).footer.materialized = m.materialized ∧
    (minOf m.files m.cas).footer.storedOnDisk = m.storedOnDisk ∧ (minOf m.files m.cas).footer.stored = m.stored := by
  obtain ⟨t1, t2, t3⟩ := minOf_totals m.files m.cas w.2.2.1 w.2.2.2.1 hb
  have fits := minOf_footer_fits m w hb
  have hc := minOf_casInfoStart m.files m.cas hb
  have hl := minOf_data_length m.files m.cas
  have himg := minOf_serialize_image m.files m.cas
  have flen : (minOf m.files m.cas).footer.bytes.length = 200 := Footer.bytes_length _ (by simp [MinShard.footer])
  have atH : At (minOf m.files m.cas).serialize 0 headerBytes :=
    At.mk' (pre := []) (post := (fileSection 0 m.files).bytes ++ (bookend ++ ((casSection 0 m.cas).bytes ++ (bookend ++ (minOf m.files m.cas).footer.bytes))))
      (by rw [himg, shardImage]; simp) rfl
  have atF : At (minOf m.files m.cas).serialize headerSize ((fileSection 0 m.files).bytes ++ bookend) :=
    At.mk' (pre := headerBytes) (post := (casSection 0 m.cas).bytes ++ (bookend ++ (minOf m.files m.cas).footer.bytes))
      (by rw [himg, shardImage]; simp [List.append_assoc]) (by simp [headerBytes_length, headerSize])
  have atC : At (minOf m.files m.cas).serialize ((fileSection 0 m.files).bytes.length + 48 + 48) ((casSection 0 m.cas).bytes ++ bookend) :=
    At.mk' (pre := headerBytes ++ (fileSection 0 m.files).bytes ++ bookend) (post := (minOf m.files m.cas).footer.bytes)
      (by rw [himg, shardImage]; simp [List.append_assoc]) (by simp [headerBytes_length, bookend_length]; omega)
  have slen : (minOf m.files m.cas).serialize.length = 48 + (minOf m.files m.cas).data.length + 200 := by
    simp only [MinShard.serialize, List.length_append, headerBytes_length, flen]
  have atFt : At (minOf m.files m.cas).serialize ((minOf m.files m.cas).serialize.length - footerSize) (minOf m.files m.cas).footer.bytes :=
    At.mk' (pre := headerBytes ++ (minOf m.files m.cas).data) (post := [])
      (by simp [MinShard.serialize]) (by
        rw [slen]; simp only [List.length_append, headerBytes_length, footerSize, Gen.mdbShardFooterSize]; omega)
  refine ⟨loadInfo_of_At atH atFt fits, ?_, ?_, ?_, ?_, ?_⟩
  · have := readAllFiles_of_At m.files 0 fuelF headerSize [] atF w.2.2.1 hF
    simpa [MinShard.footer] using this
  · have := readAllCas_of_At m.cas 0 fuelC _ [] atC w.2.2.2.1 hC
    have e : (minOf m.files m.cas).footer.casInfoOff = (fileSection 0 m.files).bytes.length + 48 + 48 := by
      simp only [MinShard.footer, hc, headerSize]
    rw [e]
    simpa using this
  · exact t1
  · exact t2
  · exact t3

/-! ## Part 8 — "the views return the records" -/

/-- the file views `fv` and xorb views `cv` return exactly the records `fs`, `cs`, in order, through every accessor:
    re-decoded as owned records (`MDBFileInfo::deserialize` / `MDBCASInfo::deserialize` of the view bytes), as raw bytes
    (`serialize`), header (`header()`, `file_hash()`, `num_entries()`, …), `entry(i)` for all `i`, `verification(i)`
    for all `i` when flagged, `chunk(i)` for all `i` -/
structure ViewsReturn (fv : List FileView) (cv : List CasView) (fs : List FileInfo) (cs : List CasInfo) : Prop where
  fileRecords : fv.map FileView.toInfo = fs.map (fun f => .ok (some f))
  fileBytes : fv.map FileView.bytes = fs.map FileInfo.bytes
  fileHeaders : fv.map (·.hdr) = fs.map FileInfo.hdr
  fileEntries : fv.map FileView.entries = fs.map (fun f => .ok f.segs)
  fileVerifications : fv.map FileView.verifications = fs.map (fun f => .ok f.verif)
  casRecords : cv.map CasView.toInfo = cs.map (fun c => .ok (some c))
  casBytes : cv.map CasView.bytes = cs.map CasInfo.bytes
  casHeaders : cv.map (·.hdr) = cs.map CasInfo.hdr
  casChunks : cv.map CasView.chunks = cs.map (fun c => .ok c.chunks)

theorem viewsReturn_of_shows {fv : List FileView} {cv : List CasView} {fs : List FileInfo} {cs : List CasInfo}
    (hf : Pointwise FileView.Shows fv fs) (hc : Pointwise CasView.Shows cv cs) (wf : ∀ f ∈ fs, f.WF) (wc : ∀ c ∈ cs, c.WF) :
    ViewsReturn fv cv fs cs where
  fileRecords := hf.map_eq _ _ (fun _ f h sh => sh.toInfo (wf f h))
  fileBytes := hf.map_eq _ _ (fun _ f h sh => sh.bytes (wf f h))
  fileHeaders := hf.map_eq _ _ (fun _ _ _ sh => sh.hdr)
  fileEntries := hf.map_eq _ _ (fun _ f h sh => sh.entries (wf f h))
  fileVerifications := hf.map_eq _ _ (fun _ f h sh => sh.verifications (wf f h))
  casRecords := hc.map_eq _ _ (fun _ c h sh => sh.toInfo (wc c h))
  casBytes := hc.map_eq _ _ (fun _ c h sh => sh.bytes (wc c h))
  casHeaders := hc.map_eq _ _ (fun _ _ _ sh => sh.hdr)
  casChunks := hc.map_eq _ _ (fun _ c h sh => sh.chunks (wc c h))

theorem viewsReturn_viewOf (fs : List FileInfo) (cs : List CasInfo) (wf : ∀ f ∈ fs, f.WF) (wc : ∀ c ∈ cs, c.WF) :
    ViewsReturn (fs.map viewOfFile) (cs.map viewOfCas) fs cs :=
  viewsReturn_of_shows (Pointwise.of_map _ _ (fun f _ => viewOfFile_shows f)) (Pointwise.of_map _ _ (fun c _ => viewOfCas_shows c)) wf wc

/-! ## Part 9 — bookkeeping of the minimal shard on arbitrary input -/

theorem ofLe_lt (bs : Bytes) : ofLe bs < 256 ^ bs.length := by
  induction bs with
  | nil => simp [ofLe]
  | cons b bs ih =>
    have hb : b.toNat < 256 := b.toNat_lt
    simp only [ofLe, List.foldr_cons, List.length_cons, Nat.pow_succ] at ih ⊢
    omega

theorem readAt_length {b : Bytes} {off n : Nat} {x : Bytes} (h : readAt b off n = .ok x) : x.length = n := by
  unfold readAt at h
  split at h
  · simp only [Except.ok.injEq] at h
    subst h
    simp only [List.length_take, List.length_drop]
    omega
  · cases h

theorem u32At_lt {b : Bytes} {off n : Nat} (h : u32At b off = .ok n) : n < 4294967296 := by
  unfold u32At at h
  cases hr : readAt b off 4 with
  | error e => rw [hr] at h; cases h
  | ok x =>
    rw [hr] at h
    simp only [Except.map, Except.ok.injEq] at h
    have := ofLe_lt x
    rw [readAt_length hr] at this
    omega

theorem u64At_lt {b : Bytes} {off n : Nat} (h : u64At b off = .ok n) : n < 18446744073709551616 := by
  unfold u64At at h
  cases hr : readAt b off 8 with
  | error e => rw [hr] at h; cases h
  | ok x =>
    rw [hr] at h
    simp only [Except.map, Except.ok.injEq] at h
    have := ofLe_lt x
    rw [readAt_length hr] at this
    omega

/-- every field of a parsed header is within its on-disk width -/
def FileHdr.Fits (hd : FileHdr) : Prop :=
  hd.flags < 4294967296 ∧ hd.numEntries < 4294967296 ∧ hd.unused < 18446744073709551616

def CasHeader.Fits (hd : CasHeader) : Prop :=
  hd.flags < 4294967296 ∧ hd.numEntries < 4294967296 ∧ hd.bytesInCas < 4294967296 ∧ hd.bytesOnDisk < 4294967296

theorem parseFileHdr_fits {v : Bytes} {hd : FileHdr} (h : parseFileHdr v = .ok hd) : hd.Fits := by
  unfold parseFileHdr at h
  obtain ⟨a, _, h⟩ := bind_eq_ok h
  obtain ⟨f, hf, h⟩ := bind_eq_ok h
  obtain ⟨n, hn, h⟩ := bind_eq_ok h
  obtain ⟨u, hu, h⟩ := bind_eq_ok h
  simp only [Except.ok.injEq] at h
  subst h
  exact ⟨u32At_lt hf, u32At_lt hn, u64At_lt hu⟩

theorem parseCasHdr_fits {v : Bytes} {hd : CasHeader} (h : parseCasHdr v = .ok hd) : hd.Fits := by
  unfold parseCasHdr parseCasHeader at h
  obtain ⟨a, _, h⟩ := bind_eq_ok h
  obtain ⟨f, hf, h⟩ := bind_eq_ok h
  obtain ⟨n, hn, h⟩ := bind_eq_ok h
  obtain ⟨x, hx, h⟩ := bind_eq_ok h
  obtain ⟨d, hd', h⟩ := bind_eq_ok h
  simp only [Except.ok.injEq] at h
  subst h
  exact ⟨u32At_lt hf, u32At_lt hn, u32At_lt hx, u32At_lt hd'⟩

/-- a complete file record (header that parses to itself, and all the records it announces) lies at `off` in `data` -/
def FileRecAt (data : Bytes) (off : Nat) : Prop :=
  ∃ hd : FileHdr, hd.Fits ∧ At data off hd.bytes ∧ off + (1 + hd.tailRecs) * recSize ≤ data.length

def CasRecAt (data : Bytes) (off : Nat) : Prop :=
  ∃ hd : CasHeader, hd.Fits ∧ At data off hd.bytes ∧ off + (recSize + hd.numEntries * recSize) ≤ data.length

theorem At.append_right {b x : Bytes} {off : Nat} (h : At b off x) (y : Bytes) : At (b ++ y) off x := by
  obtain ⟨pre, post, hb, ho⟩ := h
  exact ⟨pre, post ++ y, by simp [hb, List.append_assoc], ho⟩

theorem FileRecAt.append {data : Bytes} {off : Nat} (h : FileRecAt data off) (y : Bytes) : FileRecAt (data ++ y) off := by
  obtain ⟨hd, f, a, l⟩ := h
  exact ⟨hd, f, a.append_right y, by simp only [List.length_append]; omega⟩

theorem CasRecAt.append {data : Bytes} {off : Nat} (h : CasRecAt data off) (y : Bytes) : CasRecAt (data ++ y) off := by
  obtain ⟨hd, f, a, l⟩ := h
  exact ⟨hd, f, a.append_right y, by simp only [List.length_append]; omega⟩

theorem FileRecAt.new {data : Bytes} {off : Nat} (h : FileRecAt data off) : ∃ v, FileView.new data off = .ok v := by
  obtain ⟨hd, ⟨f1, f2, f3⟩, a, l⟩ := h
  have hle := a.le
  obtain ⟨post, hdrop⟩ := a.drop_eq
  have c1 : ¬ data.length < off := by omega
  have c2 : ¬ data.length < off + (1 + hd.tailRecs) * recSize := by omega
  refine ⟨⟨hd, data, off⟩, ?_⟩
  simp only [FileView.new, if_neg c1, hdrop, readExact_append _ _ (FileHdr.bytes_length' _), parseFileHdr_bytes _ f1 f2 f3,
    FileView.fromDataAndHeader, if_neg c2]

theorem CasRecAt.new {data : Bytes} {off : Nat} (h : CasRecAt data off) : ∃ v, CasView.new data off = .ok v := by
  obtain ⟨hd, ⟨f1, f2, f3, f4⟩, a, l⟩ := h
  have hle := a.le
  obtain ⟨post, hdrop⟩ := a.drop_eq
  have c1 : ¬ data.length < off := by omega
  have c2 : ¬ data.length < off + (recSize + hd.numEntries * recSize) := by omega
  refine ⟨⟨hd, data, off⟩, ?_⟩
  simp only [CasView.new, if_neg c1, hdrop, readExact_append _ _ (CasHeader.bytes_length' _), parseCasHdr_bytes _ f1 f2 f3 f4,
    CasView.fromDataAndHeader, if_neg c2]

/-- what `nextFile` delivers on any input: a view over its own buffer that starts with the re-serialized parsed header
    and is long enough for all the records the header announces -/
structure FileView.Good (v : FileView) : Prop where
  fits : v.hdr.Fits
  bytes : ∃ x, v.bytes = v.hdr.bytes ++ x
  size : v.bytes.length = (1 + v.hdr.tailRecs) * recSize

structure CasView.Good (v : CasView) : Prop where
  fits : v.hdr.Fits
  bytes : ∃ x, v.bytes = v.hdr.bytes ++ x
  size : v.bytes.length = recSize + v.hdr.numEntries * recSize

theorem nextFile_good {r : Bytes} {v : FileView} {rest : Bytes} (h : nextFile r = .ok (.record v rest)) : v.Good := by
  unfold nextFile at h
  split at h
  · cases h
  · rename_i t _
    split at h
    · cases h
    · rename_i hd hhd
      split at h
      · cases h
      · simp only [FileView.fromDataAndHeader] at h
        split at h
        · cases h
        · rename_i v' hv'
          split at hv'
          · cases hv'
          · rename_i hlen
            simp only [Except.ok.injEq] at hv'
            simp only [Except.ok.injEq, Item.record.injEq] at h
            obtain ⟨rfl, _⟩ := h
            subst hv'
            have hl : (1 + hd.tailRecs) * recSize ≤ (hd.bytes ++ (copyTake t.rest (hd.tailRecs * recSize)).data).length := by omega
            refine ⟨parseFileHdr_fits hhd, ?_, ?_⟩
            · refine ⟨(copyTake t.rest (hd.tailRecs * recSize)).data.take ((1 + hd.tailRecs) * recSize - 48), ?_⟩
              simp only [FileView.bytes, FileView.byteSize, List.drop_zero]
              rw [List.take_append, FileHdr.bytes_length, List.take_of_length_le (by rw [FileHdr.bytes_length]; simp only [recSize]; omega)]
            · simp only [FileView.bytes, FileView.byteSize, List.drop_zero, List.length_take]
              omega

theorem nextCas_good {r : Bytes} {v : CasView} {rest : Bytes} (h : nextCas r = .ok (.record v rest)) : v.Good := by
  unfold nextCas at h
  split at h
  · cases h
  · rename_i t _
    split at h
    · cases h
    · rename_i hd hhd
      split at h
      · cases h
      · simp only [CasView.fromDataAndHeader] at h
        split at h
        · cases h
        · rename_i v' hv'
          split at hv'
          · cases hv'
          · rename_i hlen
            simp only [Except.ok.injEq] at hv'
            simp only [Except.ok.injEq, Item.record.injEq] at h
            obtain ⟨rfl, _⟩ := h
            subst hv'
            have hl : recSize + hd.numEntries * recSize ≤ (hd.bytes ++ (copyTake t.rest (hd.numEntries * recSize)).data).length := by omega
            refine ⟨parseCasHdr_fits hhd, ?_, ?_⟩
            · refine ⟨(copyTake t.rest (hd.numEntries * recSize)).data.take (recSize + hd.numEntries * recSize - 48), ?_⟩
              simp only [CasView.bytes, CasView.byteSize, List.drop_zero]
              rw [List.take_append, CasHeader.bytes_length, List.take_of_length_le (by rw [CasHeader.bytes_length]; simp only [recSize]; omega)]
            · simp only [CasView.bytes, CasView.byteSize, List.drop_zero, List.length_take]
              omega

/-- appending a good view's bytes puts a complete record at the old end of the buffer -/
theorem FileView.Good.recAt {v : FileView} (g : v.Good) (data : Bytes) : FileRecAt (data ++ v.bytes) data.length := by
  obtain ⟨x, hx⟩ := g.bytes
  refine ⟨v.hdr, g.fits, ?_, by rw [List.length_append, g.size]; exact Nat.le_refl _⟩
  rw [hx]
  exact At.mk' (pre := data) (post := x) (by simp [List.append_assoc]) rfl

theorem CasView.Good.recAt {v : CasView} (g : v.Good) (data : Bytes) : CasRecAt (data ++ v.bytes) data.length := by
  obtain ⟨x, hx⟩ := g.bytes
  refine ⟨v.hdr, g.fits, ?_, by rw [List.length_append, g.size]; exact Nat.le_refl _⟩
  rw [hx]
  exact At.mk' (pre := data) (post := x) (by simp [List.append_assoc]) rfl

/-- an invariant of the callback state is preserved by a walk if every delivered view preserves it -/
theorem walk_inv {α σ : Type} (next : Bytes → Except Err (Item α)) (cb : σ → α → Except Err σ) (I : σ → Prop)
    (G : α → Prop) (hG : ∀ r v rest, next r = .ok (.record v rest) → G v)
    (hstep : ∀ s v s', G v → I s → cb s v = .ok s' → I s') (fuel : Nat) (s : σ) (r : Bytes) (h : I s) :
    I (walk next cb fuel s r).state := by
  induction fuel generalizing s r with
  | zero => exact h
  | succ fuel ih =>
    rw [walk_succ]
    split
    · exact h
    · exact h
    · rename_i v rest he
      cases hc : cb s v with
      | error e => exact h
      | ok s' => exact ih s' rest (hstep s v s' (hG _ _ _ he) h hc)

/-- invariant of the closure state of `from_reader` during the file walk: if the data still fit `u32` offsets, every
    recorded offset points at a complete record -/
def MinAcc.FileInv (a : MinAcc) : Prop := a.data.length ≤ 4294967296 → ∀ off ∈ a.offsets, FileRecAt a.data off

/-- … and during the CAS walk (the file offsets `fo` recorded before stay valid) -/
def MinAcc.CasInv (fo : List Nat) (a : MinAcc) : Prop :=
  a.data.length ≤ 4294967296 → (∀ off ∈ fo, FileRecAt a.data off) ∧ (∀ off ∈ a.offsets, CasRecAt a.data off)

theorem minFileCb_inv (incl : Bool) (a : MinAcc) (v : FileView) (a' : MinAcc) (g : v.Good) (h : a.FileInv)
    (hc : minFileCb incl a v = .ok a') : a'.FileInv := by
  cases incl with
  | false => simp only [minFileCb, Bool.false_eq_true, if_false, Except.ok.injEq] at hc; subst hc; exact h
  | true =>
    simp only [minFileCb, if_true, Except.ok.injEq] at hc
    subst hc
    intro hb off hoff
    have hs := g.size
    simp only [List.length_append] at hb
    simp only [List.mem_append, List.mem_singleton] at hoff
    rcases hoff with hoff | rfl
    · exact (h (by omega) off hoff).append _
    · rw [u32Wrap_of_lt (by simp only [recSize] at hs; omega)]
      exact g.recAt a.data

theorem minCasCb_inv (fo : List Nat) (a : MinAcc) (v : CasView) (a' : MinAcc) (g : v.Good) (h : a.CasInv fo)
    (hc : minCasCb a v = .ok a') : a'.CasInv fo := by
  simp only [minCasCb, Except.ok.injEq] at hc
  subst hc
  intro hb
  have hs := g.size
  simp only [List.length_append] at hb
  obtain ⟨h1, h2⟩ := h (by omega)
  refine ⟨fun off hoff => (h1 off hoff).append _, ?_⟩
  intro off hoff
  simp only [List.mem_append, List.mem_singleton] at hoff
  rcases hoff with hoff | rfl
  · exact (h2 off hoff).append _
  · rw [u32Wrap_of_lt (by simp only [recSize] at hs; omega)]
    exact g.recAt a.data

theorem entriesFrom_total {α : Type} (get : Nat → Except Err α) (n k : Nat) (acc : List α)
    (h : ∀ i, i < n → ∃ v, get (k + i) = .ok v) : ∃ l, entriesFrom get n k acc = .ok l := by
  induction n generalizing k acc with
  | zero => exact ⟨_, rfl⟩
  | succ n ih =>
    obtain ⟨v, hv⟩ := h 0 (by omega)
    simp only [Nat.add_zero] at hv
    simp only [entriesFrom, hv]
    exact ih (k + 1) (v :: acc) (fun i hi => by
      have := h (i + 1) (by omega)
      rwa [show k + (i + 1) = k + 1 + i by omega] at this)

theorem entriesFrom_length {α : Type} (get : Nat → Except Err α) (n k : Nat) (acc l : List α)
    (h : entriesFrom get n k acc = .ok l) : l.length = acc.length + n := by
  induction n generalizing k acc with
  | zero => simp only [entriesFrom, Except.ok.injEq] at h; subst h; simp
  | succ n ih =>
    simp only [entriesFrom] at h
    split at h
    · have := ih _ _ h
      simp only [List.length_cons] at this
      omega
    · cases h

/-- **no "Programming error" panic on any input**: whenever `from_reader` returns a shard whose data fit `u32` offsets
    (at most 4 GiB), every `file(i)`, `i < num_files`, and every `cas(i)`, `i < num_cas`, succeeds -/
theorem minFromReader_accessors_total (b : Bytes) (inclF inclC : Bool) (s : MinShard)
    (h : MinShard.fromReader b inclF inclC = .ok s) (hb : s.data.length ≤ 4294967296) :
    (∃ fv, s.files = .ok fv) ∧ (∃ cv, s.casViews = .ok cv) := by
  unfold MinShard.fromReader at h
  split at h
  · cases h
  · rename_i r0 _
    have hF : (walkFiles (minFileCb inclF) ⟨[], []⟩ r0).state.FileInv :=
      walk_inv nextFile (minFileCb inclF) MinAcc.FileInv FileView.Good (fun _ _ _ => nextFile_good)
        (fun a v a' g hi hc => minFileCb_inv inclF a v a' g hi hc) _ _ r0 (by intro _ off hoff; cases hoff)
    generalize walkFiles (minFileCb inclF) ⟨[], []⟩ r0 = wf at h hF
    unfold minCasPart at h
    split at h
    · cases h
    · rename_i r1 _
      have key : ∀ (data : Bytes) (fo co : List Nat) (cis : Nat),
          (data.length ≤ 4294967296 → (∀ off ∈ fo, FileRecAt data off) ∧ (∀ off ∈ co, CasRecAt data off)) →
          (⟨data, fo, co, cis⟩ : MinShard).data.length ≤ 4294967296 →
          (∃ fv, (⟨data, fo, co, cis⟩ : MinShard).files = .ok fv) ∧ (∃ cv, (⟨data, fo, co, cis⟩ : MinShard).casViews = .ok cv) := by
        intro data fo co cis hinv hlen
        obtain ⟨i1, i2⟩ := hinv hlen
        constructor
        · apply entriesFrom_total
          intro i hi
          simp only [Nat.zero_add, MinShard.file]
          have hi' : i < fo.length := hi
          rw [List.getElem?_eq_getElem hi']
          exact (i1 _ (List.getElem_mem hi')).new
        · apply entriesFrom_total
          intro i hi
          simp only [Nat.zero_add, MinShard.cas]
          have hi' : i < co.length := hi
          rw [List.getElem?_eq_getElem hi']
          exact (i2 _ (List.getElem_mem hi')).new
      split at h
      · have hC : (walkCas minCasCb ⟨wf.state.data ++ bookend, []⟩ r1).state.CasInv wf.state.offsets :=
          walk_inv nextCas minCasCb (MinAcc.CasInv wf.state.offsets) CasView.Good (fun _ _ _ => nextCas_good)
            (fun a v a' g hi hc => minCasCb_inv _ a v a' g hi hc) _ _ r1 (by
              intro hl
              simp only [List.length_append] at hl
              exact ⟨fun off hoff => (hF (by omega) off hoff).append _, fun off hoff => by cases hoff⟩)
        generalize walkCas minCasCb ⟨wf.state.data ++ bookend, []⟩ r1 = wc at h hC
        split at h
        · cases h
        · simp only [Except.ok.injEq] at h
          subst h
          refine key _ _ _ _ ?_ hb
          intro hl
          simp only [List.length_append] at hl
          obtain ⟨c1, c2⟩ := hC (by omega)
          exact ⟨fun off hoff => (c1 off hoff).append _, fun off hoff => (c2 off hoff).append _⟩
      · simp only [Except.ok.injEq] at h
        subst h
        refine key _ _ _ _ ?_ hb
        intro hl
        simp only [List.length_append] at hl
        refine ⟨fun off hoff => ?_, fun off hoff => by cases hoff⟩
        have := ((hF (by omega) off hoff).append bookend).append bookend
        simpa [List.append_assoc] using this

/-! ## Part 10 — streaming and minimal readers agree on arbitrary input -/

/-- two callbacks that never fail and keep a relation between their states see the same walk -/
theorem walk_sim {α σ₁ σ₂ : Type} (next : Bytes → Except Err (Item α)) (cb₁ : σ₁ → α → Except Err σ₁) (cb₂ : σ₂ → α → Except Err σ₂)
    (R : σ₁ → σ₂ → Prop)
    (hstep : ∀ s₁ s₂ v, R s₁ s₂ → ∃ s₁' s₂', cb₁ s₁ v = .ok s₁' ∧ cb₂ s₂ v = .ok s₂' ∧ R s₁' s₂')
    (fuel : Nat) (s₁ : σ₁) (s₂ : σ₂) (r : Bytes) (h : R s₁ s₂) :
    (walk next cb₁ fuel s₁ r).status = (walk next cb₂ fuel s₂ r).status ∧
    R (walk next cb₁ fuel s₁ r).state (walk next cb₂ fuel s₂ r).state := by
  induction fuel generalizing s₁ s₂ r with
  | zero => exact ⟨rfl, h⟩
  | succ fuel ih =>
    rw [walk_succ, walk_succ]
    cases hn : next r with
    | error e => exact ⟨rfl, h⟩
    | ok it =>
      cases it with
      | bookend rest => exact ⟨rfl, h⟩
      | record v rest =>
        obtain ⟨s₁', s₂', h1, h2, hR⟩ := hstep s₁ s₂ v h
        simp only [h1, h2]
        exact ih s₁' s₂' rest hR

/-- **the minimal reader stores what the streaming reader delivers, on any input**: both fail with the same error, or
    both succeed and the minimal shard's data are the delivered views' bytes (file views, bookend, xorb views, bookend)
    with one offset per view -/
theorem minimal_agrees_stream (b : Bytes) :
    match MinShard.fromReader b true true with
    | .error e => (streamShard b true true).status = .error e
    | .ok s => (streamShard b true true).status = .ok () ∧
        s.data = (streamShard b true true).files.flatMap FileView.bytes ++ bookend
                  ++ (streamShard b true true).cas.flatMap CasView.bytes ++ bookend ∧
        s.numFiles = (streamShard b true true).files.length ∧ s.numCas = (streamShard b true true).cas.length := by
  unfold MinShard.fromReader streamShard
  cases streamHeader b with
  | error e => rfl
  | ok r0 =>
    simp only [if_true]
    obtain ⟨hs, hd, ho⟩ := walk_sim nextFile collect (minFileCb true)
      (fun (acc : List FileView) (a : MinAcc) => a.data = acc.flatMap FileView.bytes ∧ a.offsets.length = acc.length)
      (fun acc a v ⟨h1, h2⟩ => ⟨_, _, rfl, rfl, by simp [h1], by simp [h2]⟩) (walkFuel r0) [] ⟨[], []⟩ r0 ⟨rfl, rfl⟩
    change (walkFiles collect [] r0).status = (walkFiles (minFileCb true) ⟨[], []⟩ r0).status at hs
    change (walkFiles (minFileCb true) ⟨[], []⟩ r0).state.data = (walkFiles collect [] r0).state.flatMap FileView.bytes at hd
    change (walkFiles (minFileCb true) ⟨[], []⟩ r0).state.offsets.length = (walkFiles collect [] r0).state.length at ho
    generalize walkFiles collect [] r0 = w1 at hs hd ho
    generalize walkFiles (minFileCb true) ⟨[], []⟩ r0 = w2 at hs hd ho
    unfold minCasPart streamCasPart
    rw [hs]
    cases w2.status with
    | error e => rfl
    | ok r1 =>
      simp only [if_true]
      obtain ⟨hs', hd', ho'⟩ := walk_sim nextCas collect minCasCb
        (fun (acc : List CasView) (a : MinAcc) => a.data = w2.state.data ++ bookend ++ acc.flatMap CasView.bytes ∧ a.offsets.length = acc.length)
        (fun acc a v ⟨h1, h2⟩ => ⟨_, _, rfl, rfl, by simp [h1, List.append_assoc], by simp [h2]⟩) (walkFuel r1) []
        ⟨w2.state.data ++ bookend, []⟩ r1 ⟨by simp, rfl⟩
      change (walkCas collect [] r1).status = (walkCas minCasCb ⟨w2.state.data ++ bookend, []⟩ r1).status at hs'
      change (walkCas minCasCb ⟨w2.state.data ++ bookend, []⟩ r1).state.data
        = w2.state.data ++ bookend ++ (walkCas collect [] r1).state.flatMap CasView.bytes at hd'
      change (walkCas minCasCb ⟨w2.state.data ++ bookend, []⟩ r1).state.offsets.length = (walkCas collect [] r1).state.length at ho'
      generalize walkCas collect [] r1 = c1 at hs' hd' ho'
      generalize walkCas minCasCb ⟨w2.state.data ++ bookend, []⟩ r1 = c2 at hs' hd' ho'
      rw [hs']
      cases c2.status with
      | error e => rfl
      | ok _ =>
        refine ⟨rfl, ?_, ho, ho'⟩
        simp only [hd', hd]

theorem Mem.WF.dropFiles {m : Mem} (w : m.WF) : (⟨[], m.cas⟩ : Mem).WF := by
  refine ⟨List.Pairwise.nil, w.2.1, ?_, w.2.2.2.1, ?_, w.2.2.2.2.2⟩
  · intro f hf; cases hf
  · show sumMap FileInfo.numRecs [] < 4294967296
    rw [sumMap_nil]; decide

theorem Mem.WF.dropCas {m : Mem} (w : m.WF) : (⟨m.files, []⟩ : Mem).WF := by
  refine ⟨w.1, List.Pairwise.nil, w.2.2.1, ?_, w.2.2.2.2.1, ?_⟩
  · intro c hc; cases hc
  · show sumMap (fun c : CasInfo => 1 + c.chunks.length) [] < 4294967296
    rw [sumMap_nil]; decide

end Xet.Shard
