import XetModel.HashText
import XetProofs.CacheCodec
import XetProofs.ShardFormat
/-! Helper lemmas for the unpadded base64 text form of hashes. -/
namespace Xet.Hash
open Xet.Cache

def padCount (n : Nat) : Nat := if n % 3 = 1 then 2 else if n % 3 = 2 then 1 else 0

theorem padCount_add3 (n : Nat) : padCount (n + 3) = padCount n := by
  unfold padCount
  have : (n + 3) % 3 = n % 3 := by omega
  rw [this]

theorem b64Encode_split (bs : Bytes) :
    b64Encode bs = b64EncodeNoPad bs ++ List.replicate (padCount bs.length) b64Pad := by
  fun_induction b64EncodeNoPad bs with
  | case1 => rfl
  | case2 a => rfl
  | case3 a b => rfl
  | case4 a b c rest ih =>
    have : padCount (a :: b :: c :: rest).length = padCount rest.length := by
      simp only [List.length_cons]; exact padCount_add3 _
    rw [this]
    simp [b64Encode, ih]

theorem b64EncodeNoPad_length (bs : Bytes) :
    ((b64EncodeNoPad bs).length + padCount bs.length) % 4 = 0 ∧ padCount bs.length ≤ 2 := by
  fun_induction b64EncodeNoPad bs with
  | case1 => simp [padCount]
  | case2 a => simp [padCount]
  | case3 a b => simp [padCount]
  | case4 a b c rest ih =>
    have : padCount (a :: b :: c :: rest).length = padCount rest.length := by
      simp only [List.length_cons]; exact padCount_add3 _
    rw [this]
    simp only [List.length_cons]
    omega

theorem b64EncodeNoPad_no_pad (bs : Bytes) : ∀ x ∈ b64EncodeNoPad bs, x ≠ b64Pad := by
  fun_induction b64EncodeNoPad bs with
  | case1 => simp
  | case2 a =>
    have := a.toNat_lt
    intro x hx
    simp only [List.mem_cons, List.not_mem_nil, or_false] at hx
    rcases hx with rfl | rfl <;> exact b64Char_ne_pad _ (by omega)
  | case3 a b =>
    have := a.toNat_lt
    have := b.toNat_lt
    intro x hx
    simp only [List.mem_cons, List.not_mem_nil, or_false] at hx
    rcases hx with rfl | rfl | rfl <;> exact b64Char_ne_pad _ (by omega)
  | case4 a b c rest ih =>
    have := a.toNat_lt
    have := b.toNat_lt
    have := c.toNat_lt
    intro x hx
    simp only [List.mem_cons] at hx
    rcases hx with rfl | rfl | rfl | rfl | hx
    · exact b64Char_ne_pad _ (by omega)
    · exact b64Char_ne_pad _ (by omega)
    · exact b64Char_ne_pad _ (by omega)
    · exact b64Char_ne_pad _ (by omega)
    · exact ih x hx

theorem b64DecodeNoPad_encode (bs : Bytes) : b64DecodeNoPad (b64EncodeNoPad bs) = some bs := by
  have hsplit := b64Encode_split bs
  have hlen := b64EncodeNoPad_length bs
  have hnp := b64EncodeNoPad_no_pad bs
  have hdec := b64Decode_encode bs
  unfold b64DecodeNoPad
  have hc : (b64EncodeNoPad bs).contains b64Pad = false := by
    cases h : (b64EncodeNoPad bs).contains b64Pad with
    | false => rfl
    | true =>
      rw [List.contains_iff_mem] at h
      exact absurd rfl (hnp _ h)
  simp only [hc, Bool.false_eq_true, if_false]
  have hp : padCount bs.length = 0 ∨ padCount bs.length = 1 ∨ padCount bs.length = 2 := by omega
  rcases hp with hp | hp | hp
  · rw [hp] at hsplit hlen
    have h0 : (b64EncodeNoPad bs).length % 4 = 0 := by omega
    rw [if_pos h0]
    rw [show b64EncodeNoPad bs = b64Encode bs by simp [hsplit]]
    exact hdec
  · rw [hp] at hsplit hlen
    have h3 : (b64EncodeNoPad bs).length % 4 = 3 := by omega
    rw [if_neg (by omega), if_neg (by omega), if_pos h3]
    rw [show b64EncodeNoPad bs ++ [b64Pad] = b64Encode bs by simp [hsplit]]
    exact hdec
  · rw [hp] at hsplit hlen
    have h2 : (b64EncodeNoPad bs).length % 4 = 2 := by omega
    rw [if_neg (by omega), if_pos h2]
    rw [show b64EncodeNoPad bs ++ [b64Pad, b64Pad] = b64Encode bs by simp [hsplit]]
    exact hdec

theorem filter_no_pad (l : List UInt8) (h : ∀ x ∈ l, x ≠ b64Pad) : l.filter (· != b64Pad) = l := by
  rw [List.filter_eq_self]
  intro x hx
  simpa using h x hx

/-- the unpadded decoder accepts only the canonical text of the bytes it returns -/
theorem b64EncodeNoPad_decode {s : List UInt8} {bs : Bytes} (h : b64DecodeNoPad s = some bs) : s = b64EncodeNoPad bs := by
  unfold b64DecodeNoPad at h
  split at h
  · simp at h
  · rename_i hc
    have hs : ∀ x ∈ s, x ≠ b64Pad := by
      intro x hx hxe
      apply hc
      rw [List.contains_iff_mem]
      exact hxe ▸ hx
    have key : ∀ k : Nat, b64Decode (s ++ List.replicate k b64Pad) = some bs → s = b64EncodeNoPad bs := by
      intro k hk
      have h1 := b64Encode_decode hk
      rw [b64Encode_split] at h1
      have h2 := congrArg (List.filter (· != b64Pad)) h1
      simp only [List.filter_append, List.filter_replicate, bne_self_eq_false, Bool.false_eq_true, if_false,
        List.append_nil] at h2
      rw [filter_no_pad _ (b64EncodeNoPad_no_pad bs), filter_no_pad _ hs] at h2
      exact h2.symm
    split at h
    · exact key 0 (by simpa using h)
    · split at h
      · exact key 2 (by simpa [List.replicate] using h)
      · split at h
        · exact key 1 (by simpa [List.replicate] using h)
        · simp at h

theorem b64EncodeNoPad_len (bs : Bytes) : (b64EncodeNoPad bs).length = (4 * bs.length + 2) / 3 := by
  fun_induction b64EncodeNoPad bs with
  | case1 => rfl
  | case2 a => simp
  | case3 a b => simp
  | case4 a b c rest ih => simp only [List.length_cons, ih]; omega

/-! ### `as_bytes` / `from_slice` are inverse on 32 bytes -/


theorem wordBytes_eq_le64 (w : UInt64) : wordBytes w = le64 w := by
  simp [wordBytes, le64, List.range_succ]

theorem wordOfBytes_eq_rd64 (b0 b1 b2 b3 b4 b5 b6 b7 : UInt8) (rest : Bytes) :
    wordOfBytes (b0 :: b1 :: b2 :: b3 :: b4 :: b5 :: b6 :: b7 :: rest) = rd64 b0 b1 b2 b3 b4 b5 b6 b7 := by
  unfold wordOfBytes rd64
  congr 1
  simp only [List.take_succ_cons, List.take_zero, List.foldr_cons, List.foldr_nil]
  omega

theorem wordBytes_wordOfBytes8 (b0 b1 b2 b3 b4 b5 b6 b7 : UInt8) (rest : Bytes) :
    wordBytes (wordOfBytes (b0 :: b1 :: b2 :: b3 :: b4 :: b5 :: b6 :: b7 :: rest)) = [b0, b1, b2, b3, b4, b5, b6, b7] := by
  rw [wordOfBytes_eq_rd64, wordBytes_eq_le64, le64_rd64]
theorem wordBytes_wordOfBytes (b : Bytes) (h : 8 ≤ b.length) : wordBytes (wordOfBytes b) = b.take 8 := by
  rcases b with _ | ⟨b0, _ | ⟨b1, _ | ⟨b2, _ | ⟨b3, _ | ⟨b4, _ | ⟨b5, _ | ⟨b6, _ | ⟨b7, rest⟩⟩⟩⟩⟩⟩⟩⟩
  all_goals first
    | (exfalso; simp at h; done)
    | (rw [wordBytes_wordOfBytes8]; simp)

theorem toBytes_ofBytes (bs : Bytes) (h : bs.length = 32) : toBytes (ofBytes bs) = bs := by
  unfold toBytes ofBytes
  simp only
  rw [wordBytes_wordOfBytes bs (by omega), wordBytes_wordOfBytes (bs.drop 8) (by simp; omega),
    wordBytes_wordOfBytes (bs.drop 16) (by simp; omega), wordBytes_wordOfBytes (bs.drop 24) (by simp; omega)]
  have e4 : (bs.drop 24).take 8 = bs.drop 24 := List.take_of_length_le (by simp; omega)
  have e3 : (bs.drop 16).take 8 ++ bs.drop 24 = bs.drop 16 := by
    have := List.take_append_drop 8 (bs.drop 16); simpa [List.drop_drop] using this
  have e2 : (bs.drop 8).take 8 ++ bs.drop 16 = bs.drop 8 := by
    have := List.take_append_drop 8 (bs.drop 8); simpa [List.drop_drop] using this
  rw [e4, List.append_assoc, List.append_assoc, e3, e2, List.take_append_drop]
end Xet.Hash
