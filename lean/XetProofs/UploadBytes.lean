import XetModel.UploadBytes
import XetProofs.Uploads
/-! Helper lemmas for the byte-accounting layer over the upload bookkeeping model (C14, upload-byte clause). -/
namespace Xet.UploadBytes
open Xet.Uploads

/-! ### `okSum` depends only on which tasks are ok -/

theorem okSum_congr (ts ts' : List TaskSt) (zs : List Nat) (hl : ts.length = ts'.length)
    (h : ∀ j : Nat, (ts[j]?).map taskOk = (ts'[j]?).map taskOk) : okSum ts zs = okSum ts' zs := by
  induction ts generalizing ts' zs with
  | nil =>
    cases ts' with
    | nil => rfl
    | cons _ _ => simp at hl
  | cons t ts ih =>
    cases ts' with
    | nil => simp at hl
    | cons t' ts' =>
      cases zs with
      | nil => simp [okSum]
      | cons z zs =>
        have h0 := h 0
        simp at h0
        have := ih ts' zs (by simpa using hl) (fun j => by simpa using h (j + 1))
        simp [okSum, h0, this]

theorem okSum_snoc_running (ts : List TaskSt) (zs : List Nat) (z : Nat) (hl : zs.length = ts.length) :
    okSum (ts ++ [.running]) (zs ++ [z]) = okSum ts zs := by
  induction ts generalizing zs with
  | nil =>
    cases zs with
    | nil => simp [okSum, taskOk]
    | cons _ _ => simp at hl
  | cons t ts ih =>
    cases zs with
    | nil => simp at hl
    | cons z' zs => simp [okSum, ih zs (by simpa using hl)]

theorem okSum_all_ok (ts : List TaskSt) (zs : List Nat) (hl : zs.length = ts.length)
    (h : ∀ t ∈ ts, taskOk t = true) : okSum ts zs = zs.sum := by
  induction ts generalizing zs with
  | nil =>
    cases zs with
    | nil => rfl
    | cons _ _ => simp at hl
  | cons t ts ih =>
    cases zs with
    | nil => simp at hl
    | cons z zs =>
      have ht : taskOk t = true := h t (by simp)
      simp [okSum, ht, ih zs (by simpa using hl) (fun t' ht' => h t' (by simp [ht']))]

theorem okSum_le_sum (ts : List TaskSt) (zs : List Nat) : okSum ts zs ≤ zs.sum := by
  induction ts generalizing zs with
  | nil => cases zs <;> simp [okSum]
  | cons t ts ih =>
    cases zs with
    | nil => simp [okSum]
    | cons z zs =>
      have := ih zs
      simp only [okSum, List.sum_cons]
      split <;> omega

/-- one task goes from `running` to `done ok`: the sum grows by its size iff `ok` -/
theorem okSum_complete (ts ts' : List TaskSt) (zs : List Nat) (i : Nat) (ok : Bool)
    (hl : ts'.length = ts.length) (hz : zs.length = ts.length)
    (hne : ∀ j : Nat, j ≠ i → ts'[j]? = ts[j]?) (hi : ts[i]? = some .running) (hi' : ts'[i]? = some (.done ok)) :
    okSum ts' zs = okSum ts zs + (if ok then zs.getD i 0 else 0) := by
  induction ts generalizing ts' zs i with
  | nil => simp at hi
  | cons t ts ih =>
    cases ts' with
    | nil => simp at hl
    | cons t' ts' =>
      cases zs with
      | nil => simp at hz
      | cons z zs =>
        cases i with
        | zero =>
          simp at hi hi'
          subst hi hi'
          have htl : ts' = ts := by
            apply List.ext_getElem?
            intro j
            simpa using hne (j + 1) (by omega)
          subst htl
          cases ok <;> simp [okSum, taskOk] <;> omega
        | succ i =>
          have h0 := hne 0 (by omega)
          simp at h0
          subst h0
          have := ih ts' zs i (by simpa using hl) (by simpa using hz)
            (fun j hj => by simpa using hne (j + 1) (by omega)) (by simpa using hi) (by simpa using hi')
          simp [okSum, this]
          omega

theorem okSum_completeRunning (ts : List TaskSt) (os : List Bool) (zs : List Nat) :
    okSum (completeRunning ts os) zs = okSum ts zs + joinAdd ts os zs := by
  induction ts generalizing os zs with
  | nil => simp [completeRunning, okSum, joinAdd]
  | cons t ts ih =>
    cases zs with
    | nil => cases t <;> cases os <;> simp [completeRunning, okSum, joinAdd]
    | cons z zs =>
      cases t with
      | running =>
        cases os with
        | nil =>
          have := ih [] zs
          simp [completeRunning, okSum, joinAdd, taskOk, this]; omega
        | cons o os =>
          have := ih os zs
          cases o <;> simp [completeRunning, okSum, joinAdd, taskOk, this] <;> omega
      | done ok =>
        have := ih os zs
        cases os <;> simp [completeRunning, okSum, joinAdd, this] <;> omega
      | reaped ok =>
        have := ih os zs
        cases os <;> simp [completeRunning, okSum, joinAdd, this] <;> omega

theorem taskOk_reapAll (t : TaskSt) : taskOk (reapAll t) = taskOk t := by
  cases t with
  | running => rfl
  | done ok => cases ok <;> rfl
  | reaped ok => rfl

theorem okSum_map_reapAll (ts : List TaskSt) (zs : List Nat) : okSum (ts.map reapAll) zs = okSum ts zs := by
  apply okSum_congr
  · simp
  · intro j
    simp only [List.getElem?_map]
    cases ts[j]? <;> simp [taskOk_reapAll]

/-! ### the reap loop and `registerStep` -/

theorem okSum_reap (n : Nat) (s : S) (zs : List Nat) : okSum (reap n s).1.tasks zs = okSum s.tasks zs := by
  have hsp := reap_spec n s
  apply okSum_congr _ _ _ hsp.length
  intro j
  rcases hsp.tasks j with h | ⟨ok, h1, h2, _⟩
  · rw [h]
  · rw [h1, h2]; cases ok <;> rfl

theorem registerStep_tasks (s : S) (ne : Bool) :
    (registerStep s ne).1.tasks =
      if (registerStep s ne).2 && ne then (reap (s.finished.length + 1) s).1.tasks ++ [.running]
      else (reap (s.finished.length + 1) s).1.tasks := by
  unfold registerStep
  cases hr : (reap (s.finished.length + 1) s).2 <;> cases ne <;> simp [hr]

theorem reap_length (n : Nat) (s : S) : (reap n s).1.tasks.length = s.tasks.length := (reap_spec n s).length

/-- after `registerStep` the sizes list chosen by `sizesAfterRegister` still matches the tasks, and the ok-sum is
    unchanged (a freshly spawned put is running) -/
theorem registerStep_okSum (b : SB) (ne : Bool) (sz : Nat) (hl : b.sizes.length = b.s.tasks.length) :
    (sizesAfterRegister b ne sz).length = (registerStep b.s ne).1.tasks.length ∧
      okSum (registerStep b.s ne).1.tasks (sizesAfterRegister b ne sz) = okSum b.s.tasks b.sizes := by
  rw [registerStep_tasks]
  unfold sizesAfterRegister
  cases hc : ((registerStep b.s ne).2 && ne)
  · simp only [Bool.false_eq_true, if_false]
    exact ⟨by rw [reap_length]; exact hl, okSum_reap _ _ _⟩
  · simp only [if_true]
    refine ⟨by simp [reap_length, hl], ?_⟩
    rw [okSum_snoc_running _ _ _ (by rw [reap_length]; exact hl)]
    exact okSum_reap _ _ _

/-! ### `finalizeCore` -/

theorem finalizeCore_tasks (r : S) (rest : List Bool) (sh : Bool) :
    (finalizeCore r rest sh).tasks = (completeRunning r.tasks rest).map reapAll := by
  unfold finalizeCore
  simp only
  split
  · rfl
  · split
    · rfl
    · split <;> rfl

theorem finalizeCore_ok (r : S) (rest : List Bool) (sh : Bool)
    (h : (finalizeCore r rest sh).finalized = some true) :
    sh = true ∧ (finalizeCore r rest sh).shardUploadsStarted = true := by
  unfold finalizeCore at h ⊢
  simp only at h ⊢
  split at h
  · simp at h
  · split at h
    · simp at h
    · split at h
      · rename_i h1 h2 h3
        simp [h1, h2, h3]
      · simp at h

theorem shardAccepted_all (shards : List (Nat × Bool)) (h : shards.all (·.2) = true) :
    shardAccepted shards = shardSum shards := by
  unfold shardAccepted shardSum
  have : shards.filter (·.2) = shards := by
    rw [List.filter_eq_self]
    intro a ha
    exact (List.all_eq_true.mp h) a ha
  rw [this]

/-! ### the projection to the C16 model -/

theorem stepB_proj (early : Bool) (b : SB) (e : EvB) : (stepB early b e).s = step b.s e.toEv := by
  cases e with
  | register ne sz =>
    simp only [stepB, EvB.toEv, step_register]
    split <;> rfl
  | complete i ok =>
    simp only [stepB, EvB.toEv]
    split
    · rfl
    · rename_i h
      rw [step_complete_other]
      intro hc
      exact h hc
  | finalize ne lsz rest shards =>
    simp only [stepB, EvB.toEv]
    split
    · rename_i h
      simp [step_finalize, h]
    · split <;> rfl

theorem runB_proj (early : Bool) (b : SB) (evs : List EvB) :
    (runB early b evs).s = run b.s (evs.map EvB.toEv) := by
  induction evs generalizing b with
  | nil => rfl
  | cons e evs ih =>
    simp only [runB, List.foldl_cons, List.map_cons, run] at ih ⊢
    rw [ih, stepB_proj]

/-! ### the invariant of the byte layer -/

structure BInv (b : SB) : Prop where
  inv : Inv b.s
  len : b.sizes.length = b.s.tasks.length
  /-- the accumulator is exact in every state: it equals the bytes of the puts that returned `Ok` -/
  metric : b.metric = okSum b.s.tasks b.sizes
  xorb : b.s.finalized = some true → b.reportedXorb = some b.metric
  xorb_none : b.s.finalized ≠ some true → b.reportedXorb = none
  shard : b.s.finalized = some true → b.reportedShard = some b.shardHanded
  shard_none : b.s.finalized ≠ some true → b.reportedShard = none

theorem binv_init : BInv SB.init := by
  refine ⟨inv_init, rfl, rfl, ?_, ?_, ?_, ?_⟩ <;> simp [SB.init, S.init]

theorem stepB_register_fin (early : Bool) (b : SB) (ne : Bool) (sz : Nat) (h : b.s.finalized.isSome = true) :
    stepB early b (.register ne sz) = b := by simp [stepB, h]

theorem stepB_register_open (early : Bool) (b : SB) (ne : Bool) (sz : Nat) (h : b.s.finalized = none) :
    stepB early b (.register ne sz) =
      { b with s := (registerStep b.s ne).1, sizes := sizesAfterRegister b ne sz } := by simp [stepB, h]

theorem stepB_finalize_fin (early : Bool) (b : SB) (ne : Bool) (lsz : Nat) (rest : List Bool) (shards : List (Nat × Bool))
    (h : b.s.finalized.isSome = true) : stepB early b (.finalize ne lsz rest shards) = b := by simp [stepB, h]

theorem stepB_finalize_err (early : Bool) (b : SB) (ne : Bool) (lsz : Nat) (rest : List Bool) (shards : List (Nat × Bool))
    (h : b.s.finalized = none) (hr : (registerStep b.s ne).2 = false) :
    stepB early b (.finalize ne lsz rest shards) =
      { b with s := { (registerStep b.s ne).1 with finalized := some false }, sizes := sizesAfterRegister b ne lsz } := by
  simp [stepB, h, hr, step_finalize]

/-- the state after a `finalize` whose last registration succeeded -/
def finalizeB (early : Bool) (b : SB) (ne : Bool) (lsz : Nat) (rest : List Bool) (shards : List (Nat × Bool)) : SB :=
  let c := finalizeCore (registerStep b.s ne).1 rest (shards.all (·.2))
  let m1 := b.metric + joinAdd (registerStep b.s ne).1.tasks rest (sizesAfterRegister b ne lsz)
  { s := c, sizes := sizesAfterRegister b ne lsz, metric := m1,
    reportedXorb := if c.finalized == some true then some (if early then b.metric else m1) else none,
    reportedShard := if c.finalized == some true then some (shardSum shards) else none,
    shardHanded := if c.shardUploadsStarted then shardAccepted shards else 0 }

theorem stepB_finalize_core (early : Bool) (b : SB) (ne : Bool) (lsz : Nat) (rest : List Bool) (shards : List (Nat × Bool))
    (h : b.s.finalized = none) (hr : (registerStep b.s ne).2 = true) :
    stepB early b (.finalize ne lsz rest shards) = finalizeB early b ne lsz rest shards := by
  simp [stepB, finalizeB, h, hr, step_finalize]

theorem binv_step (b : SB) (e : EvB) (hb : BInv b) : BInv (stepB false b e) := by
  have hinv : Inv (stepB false b e).s := by rw [stepB_proj]; exact inv_step _ _ hb.inv
  cases e with
  | register ne sz =>
    cases hfin' : b.s.finalized with
    | some v => rw [stepB_register_fin _ _ _ _ (by simp [hfin'])]; exact hb
    | none =>
      rw [stepB_register_open _ _ _ _ hfin'] at hinv ⊢
      have hreg := registerStep_spec b.s ne hb.inv hfin'
      have hks := registerStep_okSum b ne sz hb.len
      have hnf : (registerStep b.s ne).1.finalized ≠ some true := by rw [hreg.finalized, hfin']; simp
      have hx := hb.xorb_none (by rw [hfin']; simp)
      have hs := hb.shard_none (by rw [hfin']; simp)
      exact ⟨hinv, hks.1, by rw [hks.2]; exact hb.metric, fun h => absurd h hnf, fun _ => hx,
        fun h => absurd h hnf, fun _ => hs⟩
  | complete i ok =>
    by_cases hrun : b.s.tasks[i]? = some .running
    · have heq : stepB false b (.complete i ok) =
          { b with s := { b.s with tasks := setAt b.s.tasks i (.done ok), finished := b.s.finished ++ [i] },
                   metric := b.metric + (if ok then b.sizes.getD i 0 else 0) } := by
        simp [stepB, hrun, step_complete_running]
      rw [heq] at hinv ⊢
      have hnt : b.s.finalized ≠ some true := by
        intro h
        have := hb.inv.fin_ok h i _ hrun
        simp [taskOk] at this
      refine ⟨hinv, by simp only [length_setAt]; exact hb.len, ?_, fun h => absurd h hnt, fun _ => hb.xorb_none hnt,
        fun h => absurd h hnt, fun _ => hb.shard_none hnt⟩
      show b.metric + _ = okSum (setAt b.s.tasks i (.done ok)) b.sizes
      rw [okSum_complete b.s.tasks (setAt b.s.tasks i (.done ok)) b.sizes i ok (length_setAt _ _ _) hb.len
        (fun j hj => by rw [getElem?_setAt]; simp [hj]) hrun (by rw [getElem?_setAt]; simp [hrun]), hb.metric]
    · have heq : stepB false b (.complete i ok) = b := by
        simp only [stepB]
        try (split
             · rename_i h; exact absurd h hrun
             · rfl)
      rw [heq]; exact hb
  | finalize ne lsz rest shards =>
    cases hfin' : b.s.finalized with
    | some v => rw [stepB_finalize_fin _ _ _ _ _ _ (by simp [hfin'])]; exact hb
    | none =>
      have hks := registerStep_okSum b ne lsz hb.len
      have hx := hb.xorb_none (by rw [hfin']; simp)
      have hs := hb.shard_none (by rw [hfin']; simp)
      cases hr : (registerStep b.s ne).2 with
      | false =>
        rw [stepB_finalize_err _ _ _ _ _ _ hfin' hr] at hinv ⊢
        exact ⟨hinv, hks.1, hb.metric.trans hks.2.symm, fun h => by simp at h, fun _ => hx,
          fun h => by simp at h, fun _ => hs⟩
      | true =>
        rw [stepB_finalize_core _ _ _ _ _ _ hfin' hr] at hinv ⊢
        have hlen : (sizesAfterRegister b ne lsz).length =
            (finalizeCore (registerStep b.s ne).1 rest (shards.all (·.2))).tasks.length := by
          rw [finalizeCore_tasks, List.length_map, length_completeRunning]; exact hks.1
        have hmet : b.metric + joinAdd (registerStep b.s ne).1.tasks rest (sizesAfterRegister b ne lsz) =
            okSum (finalizeCore (registerStep b.s ne).1 rest (shards.all (·.2))).tasks (sizesAfterRegister b ne lsz) := by
          rw [finalizeCore_tasks, okSum_map_reapAll, okSum_completeRunning, hks.2, hb.metric]
        refine ⟨hinv, hlen, hmet, ?_, ?_, ?_, ?_⟩
        · intro h
          have h' : (finalizeCore (registerStep b.s ne).1 rest (shards.all (·.2))).finalized = some true := h
          simp [finalizeB, h']
        · intro h
          have h' : (finalizeCore (registerStep b.s ne).1 rest (shards.all (·.2))).finalized ≠ some true := h
          simp [finalizeB, h']
        · intro h
          have h' : (finalizeCore (registerStep b.s ne).1 rest (shards.all (·.2))).finalized = some true := h
          have hok := finalizeCore_ok _ _ _ h'
          simp [finalizeB, h', hok.2, shardAccepted_all _ hok.1]
        · intro h
          have h' : (finalizeCore (registerStep b.s ne).1 rest (shards.all (·.2))).finalized ≠ some true := h
          simp [finalizeB, h']

theorem binv_run (b : SB) (evs : List EvB) (hb : BInv b) : BInv (runB false b evs) := by
  induction evs generalizing b with
  | nil => exact hb
  | cons e evs ih => exact ih _ (binv_step b e hb)

theorem binv_reachable (evs : List EvB) : BInv (runB false SB.init evs) := binv_run _ _ binv_init

end Xet.UploadBytes
