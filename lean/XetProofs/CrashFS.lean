/-
Helper lemmas for C19: the association-list file system behaves like a function `path → Option content`
(`get_set`, `get_erase`, `get_apply_*`), every crash state of "write a temp file, rename it" differs from the
start state only at the temp name and at the final name (`writeSeq_frame`), and the generic safety theorems
for one write (`write_safe`) and for rounds of "merge, then delete the inputs" (`rounds_safe`).
-/
import XetModel.CrashFS
import XetProofs.ShardOps

namespace Xet.CrashFS

section Generic
variable {P : Type} [DecidableEq P]

/-! ## the file system as a function -/

theorem get_erase (fs : FS P) (p q : P) : get (erase fs p) q = if q = p then none else get fs q := by
  induction fs with
  | nil => simp [erase, get]
  | cons e rest ih =>
    obtain ⟨a, c⟩ := e
    by_cases hap : a = p
    · subst hap
      simp only [erase, if_true, ih, get]
      by_cases hq : q = a
      · simp [hq]
      · have : ¬ a = q := fun h => hq h.symm
        simp [hq, this]
    · simp only [erase, if_neg hap, get, ih]
      by_cases haq : a = q
      · subst haq; simp [hap]
      · simp [haq]

theorem get_set (fs : FS P) (p q : P) (c : Bytes) : get (set fs p c) q = if q = p then some c else get fs q := by
  simp only [set, get, get_erase]
  by_cases h : q = p
  · simp [h]
  · have : ¬ p = q := fun e => h e.symm
    simp [h, this]

theorem get_apply_create (s : FS P) (t q : P) : get (apply s (.create t)) q = if q = t then some [] else get s q := by
  simp [apply, get_set]

theorem get_apply_append (s : FS P) (t q : P) (b : Bytes) :
    get (apply s (.append t b)) q = if q = t then (get s t).map (· ++ b) else get s q := by
  simp only [apply]
  cases h : get s t with
  | none => by_cases hq : q = t <;> simp [hq, h]
  | some c => simp [get_set]

theorem get_apply_rename (s : FS P) (t f q : P) :
    get (apply s (.rename t f)) q =
      match get s t with
      | none => get s q
      | some c => if q = f then some c else if q = t then none else get s q := by
  simp only [apply]
  cases h : get s t with
  | none => rfl
  | some c => simp [get_set, get_erase]

theorem get_apply_unlink (s : FS P) (p q : P) : get (apply s (.unlink p)) q = if q = p then none else get s q := by
  simp [apply, get_erase]

@[simp] theorem run_nil (s : FS P) : run s [] = s := rfl
@[simp] theorem run_cons (s : FS P) (e : Effect P) (es : List (Effect P)) : run s (e :: es) = run (apply s e) es := rfl
theorem run_append (s : FS P) (a b : List (Effect P)) : run s (a ++ b) = run (run s a) b := by
  simp [run, List.foldl_append]

theorem take_append_cases {α} (a b : List α) (k : Nat) :
    (k ≤ a.length ∧ (a ++ b).take k = a.take k) ∨ (a.length < k ∧ (a ++ b).take k = a ++ b.take (k - a.length)) := by
  by_cases h : k ≤ a.length
  · exact Or.inl ⟨h, List.take_append_of_le_length h⟩
  · refine Or.inr ⟨by omega, ?_⟩
    rw [List.take_append]
    rw [List.take_of_length_le (by omega)]

/-! ## the temp file phase -/

/-- `s` differs from `s0` at most at `t`, where a file exists -/
def TmpPhase (s0 s : FS P) (t : P) : Prop := (∀ q, q ≠ t → get s q = get s0 q) ∧ (get s t).isSome = true

theorem tmpPhase_create (s0 : FS P) (t : P) : TmpPhase s0 (apply s0 (.create t)) t :=
  ⟨fun q hq => by simp [get_apply_create, hq], by simp [get_apply_create]⟩

theorem tmpPhase_append {s0 s : FS P} {t : P} (h : TmpPhase s0 s t) (b : Bytes) : TmpPhase s0 (apply s (.append t b)) t := by
  refine ⟨fun q hq => by rw [get_apply_append, if_neg hq]; exact h.1 q hq, ?_⟩
  rw [get_apply_append, if_pos rfl]
  cases hg : get s t with
  | none => have := h.2; simp [hg] at this
  | some c => simp

theorem tmpPhase_appends {s0 : FS P} {t : P} (ps : List Bytes) : ∀ (s : FS P) (k : Nat), TmpPhase s0 s t →
    TmpPhase s0 (run s ((ps.map (Effect.append t)).take k)) t := by
  induction ps with
  | nil => intro s k h; simpa using h
  | cons b ps ih =>
    intro s k h
    cases k with
    | zero => simpa using h
    | succ k => simpa using ih _ k (tmpPhase_append h b)

/-- content of the temp file after all pieces were appended -/
theorem get_appends (t : P) (ps : List Bytes) : ∀ (s : FS P) (c : Bytes), get s t = some c →
    get (run s (ps.map (Effect.append t))) t = some (c ++ ps.flatten) := by
  induction ps with
  | nil => intro s c h; simpa using h
  | cons b ps ih =>
    intro s c h
    have : get (apply s (.append t b)) t = some (c ++ b) := by rw [get_apply_append, if_pos rfl, h]; rfl
    simpa [List.append_assoc] using ih _ _ this

/-- the state after the complete `writeSeq` -/
def DoneState (s0 s : FS P) (t f : P) (content : Bytes) : Prop :=
  ∀ q, get s q = if q = f then some content else if q = t then none else get s0 q

theorem writeSeq_done (s0 : FS P) (t f : P) (ps : List Bytes) : DoneState s0 (run s0 (writeSeq t f ps)) t f ps.flatten := by
  intro q
  have h1 := tmpPhase_create s0 t
  have hc : get (apply s0 (.create t)) t = some [] := by simp [get_apply_create]
  have h2 : TmpPhase s0 (run (apply s0 (.create t)) (ps.map (Effect.append t))) t := by
    have := tmpPhase_appends (s0 := s0) ps _ (ps.map (Effect.append t)).length h1
    rwa [List.take_length] at this
  have h3 := get_appends t ps _ _ hc
  simp only [writeSeq, List.cons_append, List.nil_append, run_cons, run_append, run_nil]
  rw [get_apply_rename, h3]
  simp only [List.nil_append]
  by_cases hqf : q = f
  · simp [hqf]
  · by_cases hqt : q = t
    · simp [hqt]
    · simp [hqf, hqt, h2.1 q hqt]

/-- **Frame of a write.**  After any prefix (`take k`) of `create t; append t …; rename t f` the state either
    differs from the start state only at the temp name (where some file exists, or nothing was done yet), or it
    is the final state: `f` holds exactly the concatenated pieces, `t` is gone, everything else is untouched. -/
theorem writeSeq_frame (s0 : FS P) (t f : P) (ps : List Bytes) (k : Nat) :
    (∀ q, q ≠ t → get (run s0 ((writeSeq t f ps).take k)) q = get s0 q) ∨
    DoneState s0 (run s0 ((writeSeq t f ps).take k)) t f ps.flatten := by
  cases k with
  | zero => left; intro q _; simp
  | succ k =>
    have e : (writeSeq t f ps).take (k + 1) = Effect.create t :: (ps.map (Effect.append t) ++ [Effect.rename t f]).take k := by
      simp [writeSeq]
    rcases take_append_cases (ps.map (Effect.append t)) [Effect.rename t f] k with ⟨_, h⟩ | ⟨hl, h⟩
    · left
      rw [e, h, run_cons]
      exact (tmpPhase_appends ps _ k (tmpPhase_create s0 t)).1
    · right
      have hk : [Effect.rename t f].take (k - (ps.map (Effect.append t)).length) = [Effect.rename t f] := by
        apply List.take_of_length_le
        simp only [List.length_map, List.length_cons, List.length_nil] at hl ⊢
        omega
      rw [e, h, hk]
      have := writeSeq_done s0 t f ps
      simpa [writeSeq] using this

/-! ## invariants -/

/-- every file under a final name is consistent with its name -/
def Inv (Final : P → Prop) (Ok : P → Bytes → Prop) (s : FS P) : Prop :=
  ∀ p c, get s p = some c → Final p → Ok p c

/-- everything held by a final-named file of `s0` is held by a final-named file of `s` -/
def Cov (Final : P → Prop) (covers : P × Bytes → P × Bytes → Prop) (s0 s : FS P) : Prop :=
  ∀ p c, get s0 p = some c → Final p → ∃ q c', get s q = some c' ∧ Final q ∧ covers (q, c') (p, c)

theorem Cov.refl {Final : P → Prop} {covers : P × Bytes → P × Bytes → Prop} (hr : ∀ c, covers c c) (s : FS P) : Cov Final covers s s :=
  fun p c h hf => ⟨p, c, h, hf, hr (p, c)⟩

theorem Cov.trans {Final : P → Prop} {covers : P × Bytes → P × Bytes → Prop}
    (ht : ∀ a b c, covers a b → covers b c → covers a c) {s0 s1 s2 : FS P}
    (h1 : Cov Final covers s0 s1) (h2 : Cov Final covers s1 s2) : Cov Final covers s0 s2 := by
  intro p c hp hf
  obtain ⟨q, c', hq, hfq, hc⟩ := h1 p c hp hf
  obtain ⟨r, c'', hr, hfr, hc'⟩ := h2 q c' hq hfq
  exact ⟨r, c'', hr, hfr, ht _ _ _ hc' hc⟩

/-- same visible files (`get` agrees on final names) -/
theorem Cov.of_same {Final : P → Prop} {covers : P × Bytes → P × Bytes → Prop} (hr : ∀ c, covers c c) {s0 s : FS P}
    (h : ∀ q, Final q → get s q = get s0 q) : Cov Final covers s0 s :=
  fun p c hp hf => ⟨p, c, by rw [h p hf]; exact hp, hf, hr (p, c)⟩

/-- **One interrupted write is safe.**  `t` is not a final name, `t ≠ f`, and the complete content is consistent
    with `f` if `f` is a final name.  Then in every crash state: (a) the invariant holds; (b) every final-named
    file other than `f` is untouched, and `f` holds what it held before or the complete new content —
    never anything else. -/
theorem write_safe (Final : P → Prop) (Ok : P → Bytes → Prop) (s0 : FS P) (t f : P) (ps : List Bytes)
    (hinv : Inv Final Ok s0) (ht : ¬ Final t) (htf : t ≠ f) (hok : Final f → Ok f ps.flatten) (k : Nat) :
    Inv Final Ok (run s0 ((writeSeq t f ps).take k)) ∧
    (∀ q, Final q → q ≠ f → get (run s0 ((writeSeq t f ps).take k)) q = get s0 q) ∧
    (get (run s0 ((writeSeq t f ps).take k)) f = get s0 f ∨ get (run s0 ((writeSeq t f ps).take k)) f = some ps.flatten) := by
  rcases writeSeq_frame s0 t f ps k with h | h
  · refine ⟨fun p c hp hf => ?_, fun q hq _ => ?_, ?_⟩
    · have hpt : p ≠ t := fun e => ht (e ▸ hf)
      rw [h p hpt] at hp
      exact hinv p c hp hf
    · exact h q (fun e => ht (e ▸ hq))
    · exact Or.inl (h f (fun e => htf e.symm))
  · refine ⟨fun p c hp hf => ?_, fun q hq hqf => ?_, Or.inr (by simpa using h f)⟩
    · rw [h p] at hp
      by_cases hpf : p = f
      · subst hpf; simp at hp; subst hp; exact hok hf
      · have hpt : p ≠ t := fun e => ht (e ▸ hf)
        simp [hpf, hpt] at hp
        exact hinv p c hp hf
    · have hqt : q ≠ t := fun e => ht (e ▸ hq)
      rw [h q]; simp [hqf, hqt]

/-! ## rounds: write the merged file, then unlink the inputs -/

theorem get_run_unlinks (us : List P) : ∀ (s : FS P) (q : P),
    get (run s (us.map Effect.unlink)) q = if q ∈ us then none else get s q := by
  induction us with
  | nil => intro s q; simp
  | cons u us ih =>
    intro s q
    simp only [List.map_cons, run_cons, ih, get_apply_unlink, List.mem_cons]
    by_cases h1 : q ∈ us
    · simp [h1]
    · by_cases h2 : q = u <;> simp [h1, h2]

/-- what a round must satisfy in the state `s` it starts from -/
structure RoundOK (Final : P → Prop) (Ok : P → Bytes → Prop) (covers : P × Bytes → P × Bytes → Prop) (s : FS P) (r : Round P) : Prop where
  tmp_not_final : ¬ Final r.tmp
  out_final : Final r.out
  out_ok : Ok r.out r.pieces.flatten
  /-- a file already present under the output name holds nothing the new content does not hold -/
  over : ∀ c, get s r.out = some c → covers (r.out, r.pieces.flatten) (r.out, c)
  /-- the deletion guard: the output is never deleted -/
  removed_ne : ∀ p ∈ r.removed, p ≠ r.out
  /-- only inputs whose records are in the merged file are deleted -/
  removed_cov : ∀ p ∈ r.removed, ∀ c, get s p = some c → Final p → covers (r.out, r.pieces.flatten) (p, c)

/-- state after the complete round -/
theorem round_end (s : FS P) (r : Round P) (q : P) :
    get (run s (roundFx r)) q =
      if q ∈ r.removed then none else if q = r.out then some r.pieces.flatten else if q = r.tmp then none else get s q := by
  rw [roundFx, run_append, get_run_unlinks, writeSeq_done s r.tmp r.out r.pieces q]

/-- **One round is safe at every crash point**, with the witness spelled out: the invariant holds, and every
    final-named file of the start state is still there unchanged or the output file holds its records. -/
theorem round_safe_explicit (Final : P → Prop) (Ok : P → Bytes → Prop) (covers : P × Bytes → P × Bytes → Prop)
    (s : FS P) (r : Round P) (hinv : Inv Final Ok s) (h : RoundOK Final Ok covers s r) (k : Nat) :
    Inv Final Ok (run s ((roundFx r).take k)) ∧
    ∀ p c, get s p = some c → Final p →
      get (run s ((roundFx r).take k)) p = some c ∨
      ∃ c', get (run s ((roundFx r).take k)) r.out = some c' ∧ covers (r.out, c') (p, c) := by
  have htf : r.tmp ≠ r.out := fun e => h.tmp_not_final (e ▸ h.out_final)
  rcases take_append_cases (writeSeq r.tmp r.out r.pieces) (r.removed.map Effect.unlink) k with ⟨_, e⟩ | ⟨_, e⟩
  · rw [roundFx, e]
    obtain ⟨i1, i2, i3⟩ := write_safe Final Ok s r.tmp r.out r.pieces hinv h.tmp_not_final htf (fun _ => h.out_ok) k
    refine ⟨i1, fun p c hp hf => ?_⟩
    by_cases hpo : p = r.out
    · subst hpo
      rcases i3 with i3 | i3
      · exact Or.inl (by rw [i3]; exact hp)
      · exact Or.inr ⟨_, i3, h.over c hp⟩
    · exact Or.inl (by rw [i2 p hf hpo]; exact hp)
  · rw [roundFx, e, run_append, ← List.map_take]
    have hus : ∀ p ∈ r.removed.take (k - (writeSeq r.tmp r.out r.pieces).length), p ∈ r.removed :=
      fun p hp => List.mem_of_mem_take hp
    generalize r.removed.take (k - (writeSeq r.tmp r.out r.pieces).length) = us at hus ⊢
    have hget : ∀ q, get (run (run s (writeSeq r.tmp r.out r.pieces)) (us.map Effect.unlink)) q =
        if q ∈ us then none else if q = r.out then some r.pieces.flatten else if q = r.tmp then none else get s q := by
      intro q; rw [get_run_unlinks, writeSeq_done s r.tmp r.out r.pieces q]
    have hout : get (run (run s (writeSeq r.tmp r.out r.pieces)) (us.map Effect.unlink)) r.out = some r.pieces.flatten := by
      rw [hget]
      have : r.out ∉ us := fun hm => h.removed_ne _ (hus _ hm) rfl
      simp [this]
    refine ⟨fun p c hp hf => ?_, fun p c hp hf => ?_⟩
    · rw [hget] at hp
      by_cases h1 : p ∈ us
      · simp [h1] at hp
      · by_cases h2 : p = r.out
        · subst h2; simp [h1] at hp; subst hp; exact h.out_ok
        · have h3 : p ≠ r.tmp := fun e => h.tmp_not_final (e ▸ hf)
          simp [h1, h2, h3] at hp
          exact hinv p c hp hf
    · by_cases h2 : p = r.out
      · subst h2; exact Or.inr ⟨_, hout, h.over c hp⟩
      · by_cases h1 : p ∈ us
        · exact Or.inr ⟨_, hout, h.removed_cov p (hus p h1) c hp hf⟩
        · have h3 : p ≠ r.tmp := fun e => h.tmp_not_final (e ▸ hf)
          exact Or.inl (by rw [hget]; simp [h1, h2, h3, hp])

theorem round_safe (Final : P → Prop) (Ok : P → Bytes → Prop) (covers : P × Bytes → P × Bytes → Prop)
    (hrefl : ∀ c, covers c c) (s : FS P) (r : Round P) (hinv : Inv Final Ok s) (h : RoundOK Final Ok covers s r) (k : Nat) :
    Inv Final Ok (run s ((roundFx r).take k)) ∧ Cov Final covers s (run s ((roundFx r).take k)) := by
  obtain ⟨i1, i2⟩ := round_safe_explicit Final Ok covers s r hinv h k
  refine ⟨i1, fun p c hp hf => ?_⟩
  rcases i2 p c hp hf with h1 | ⟨c', h1, h2⟩
  · exact ⟨p, c, h1, hf, hrefl _⟩
  · exact ⟨r.out, c', h1, h.out_final, h2⟩

/-- unlinking files keeps the invariant and touches nothing else -/
theorem unlinks_safe (Final : P → Prop) (Ok : P → Bytes → Prop) (s : FS P) (ds : List P) (hinv : Inv Final Ok s) (j : Nat) :
    Inv Final Ok (run s ((ds.map Effect.unlink).take j)) ∧
    ∀ q, q ∉ ds → get (run s ((ds.map Effect.unlink).take j)) q = get s q := by
  rw [← List.map_take]
  refine ⟨fun p c hp hf => ?_, fun q hq => ?_⟩
  · rw [get_run_unlinks] at hp
    by_cases h1 : p ∈ ds.take j
    · simp [h1] at hp
    · simp [h1] at hp; exact hinv p c hp hf
  · rw [get_run_unlinks]
    have : q ∉ ds.take j := fun hm => hq (List.mem_of_mem_take hm)
    simp [this]

/-! ## effects that do not change any content (`mkdir`, `rmdir`, `chmod`) -/

def isNoop : Effect P → Bool
  | .mkdir _ => true
  | .rmdir _ => true
  | .chmod _ => true
  | _ => false

def strip (es : List (Effect P)) : List (Effect P) := es.filter fun e => !isNoop e

theorem apply_noop (s : FS P) (e : Effect P) (h : isNoop e = true) : apply s e = s := by
  cases e <;> simp [isNoop] at h <;> rfl

theorem run_strip (es : List (Effect P)) : ∀ s : FS P, run s (strip es) = run s es := by
  induction es with
  | nil => intro s; rfl
  | cons e es ih =>
    intro s
    by_cases h : isNoop e = true
    · simp [strip, h, apply_noop s e h] at ih ⊢; exact ih s
    · have h' : isNoop e = false := by simpa using h
      simp only [strip, List.filter_cons, h', Bool.not_false, if_true, run_cons]
      exact ih _

omit [DecidableEq P] in
/-- every crash state of a sequence is a crash state of the sequence without the no-op effects -/
theorem strip_take (es : List (Effect P)) : ∀ k, ∃ k', strip (es.take k) = (strip es).take k' := by
  induction es with
  | nil => intro k; exact ⟨0, by simp [strip]⟩
  | cons e es ih =>
    intro k
    cases k with
    | zero => exact ⟨0, by simp [strip]⟩
    | succ k =>
      obtain ⟨k', hk'⟩ := ih k
      by_cases h : isNoop e = true
      · exact ⟨k', by simpa [strip, h] using hk'⟩
      · have h' : isNoop e = false := by simpa using h
        refine ⟨k' + 1, ?_⟩
        simp only [strip, List.take_succ_cons, List.filter_cons, h', Bool.not_false, if_true]
        simpa [strip] using hk'

theorem run_take_strip (es : List (Effect P)) (s : FS P) (k : Nat) : ∃ k', run s (es.take k) = run s ((strip es).take k') := by
  obtain ⟨k', hk'⟩ := strip_take es k
  exact ⟨k', by rw [← run_strip, hk']⟩

/-- the rounds are acceptable one after the other, each in the state its predecessors leave -/
def RoundsOK (Final : P → Prop) (Ok : P → Bytes → Prop) (covers : P × Bytes → P × Bytes → Prop) : FS P → List (Round P) → Prop
  | _, [] => True
  | s, r :: rs => RoundOK Final Ok covers s r ∧ RoundsOK Final Ok covers (run s (roundFx r)) rs

theorem take_length_self {α} (l : List α) : l.take l.length = l := List.take_length

/-- **Rounds are safe at every crash point.** -/
theorem rounds_safe (Final : P → Prop) (Ok : P → Bytes → Prop) (covers : P × Bytes → P × Bytes → Prop)
    (hrefl : ∀ c, covers c c) (htrans : ∀ a b c, covers a b → covers b c → covers a c) (rs : List (Round P)) :
    ∀ (s : FS P), Inv Final Ok s → RoundsOK Final Ok covers s rs → ∀ k,
      Inv Final Ok (run s ((roundsFx rs).take k)) ∧ Cov Final covers s (run s ((roundsFx rs).take k)) := by
  induction rs with
  | nil => intro s hinv _ k; simpa [roundsFx] using ⟨hinv, Cov.refl hrefl s⟩
  | cons r rs ih =>
    intro s hinv h k
    obtain ⟨h1, h2⟩ := h
    have e0 : roundsFx (r :: rs) = roundFx r ++ roundsFx rs := by simp [roundsFx]
    rcases take_append_cases (roundFx r) (roundsFx rs) k with ⟨_, e⟩ | ⟨_, e⟩
    · rw [e0, e]; exact round_safe Final Ok covers hrefl s r hinv h1 k
    · rw [e0, e, run_append]
      have hfull := round_safe Final Ok covers hrefl s r hinv h1 (roundFx r).length
      rw [take_length_self] at hfull
      obtain ⟨j1, j2⟩ := ih _ hfull.1 h2 (k - (roundFx r).length)
      exact ⟨j1, Cov.trans htrans hfull.2 j2⟩

/-! ## restart clean-up -/

theorem get_cleanup_aux (rm : P → Bytes → Bool) (fs : FS P) : ∀ (ps : List P) (acc : FS P) (q : P),
    get (ps.foldl (cleanupStep rm fs) acc) q =
    if q ∈ ps ∧ (∃ c, get fs q = some c ∧ rm q c = true) then none else get acc q := by
  intro ps
  induction ps with
  | nil => intro acc q; simp
  | cons p ps ih =>
    intro acc q
    simp only [List.foldl_cons, ih, List.mem_cons, cleanupStep]
    cases hg : get fs p with
    | none =>
      by_cases hq : q = p
      · subst hq; simp [hg]
      · simp [hq]
    | some c =>
      by_cases hr : rm p c = true
      · simp only [hr, if_true, get_erase]
        by_cases hq : q = p
        · subst hq; simp [hg, hr]
        · simp [hq]
      · simp only [hr]
        by_cases hq : q = p
        · subst hq
          by_cases hqs : q ∈ ps
          · simp [hqs, hg, hr]
          · simp [hqs, hg, hr]
        · simp [hq]

theorem mem_keys_of_get {fs : FS P} {q : P} {c : Bytes} (h : get fs q = some c) : q ∈ fs.map (·.1) := by
  induction fs with
  | nil => simp [get] at h
  | cons e rest ih =>
    obtain ⟨a, d⟩ := e
    simp only [get] at h
    by_cases haq : a = q
    · simp [haq]
    · simp only [if_neg haq] at h
      simp [ih h]

/-- the clean-up removes exactly the files the scan rejects -/
theorem get_cleanup (rm : P → Bytes → Bool) (fs : FS P) (q : P) :
    get (cleanup rm fs) q = match get fs q with
      | some c => if rm q c then none else some c
      | none => none := by
  rw [cleanup, get_cleanup_aux]
  cases hg : get fs q with
  | none => simp
  | some c =>
    have hm := mem_keys_of_get hg
    by_cases hr : rm q c = true
    · simp [hm, hr]
    · simp [hr]

theorem inv_cleanup {Final : P → Prop} {Ok : P → Bytes → Prop} (rm : P → Bytes → Bool) {s : FS P} (h : Inv Final Ok s) :
    Inv Final Ok (cleanup rm s) := by
  intro p c hp hf
  rw [get_cleanup] at hp
  cases hg : get s p with
  | none => simp [hg] at hp
  | some d =>
    rw [hg] at hp
    by_cases hr : rm p d = true
    · simp [hr] at hp
    · simp [hr] at hp; subst hp; exact h p d hg hf

end Generic

/-! ## names -/

theorem parseShardName_temp (u : Name) : parseShardName (tempShardName u) = none := by
  simp [parseShardName, tempShardName, dotMdbTemp, List.reverse_append]

theorem parseShardName_shardName (h : Hash) (hrt : Hash.fromHex h.hex = some h) : parseShardName (shardName h) = some h := by
  simp [parseShardName, shardName, dotMdb, List.reverse_append, hrt]

theorem shardFinal_temp (u : Name) : shardFinal (tempShardName u) = false := by
  simp [shardFinal, parseShardName_temp]

theorem parseXorbName_safeTemp (d : Option Name) (r : Name) : parseXorbName (safeTempName d r) = none := by
  cases d <;> simp [parseXorbName, safeTempName]

theorem parseXorbName_xorbName (h : Hash) (hrt : Hash.fromHex h.hex = some h) : parseXorbName (xorbName h) = some h := by
  simp [parseXorbName, xorbName, defaultDot, hrt]

theorem parseEntryName_safeTemp (d : Option Name) (r : Name) : parseEntryName (safeTempName d r) = none := by
  have hsuf : ∀ pre : Name, ((pre ++ dotTmp).reverse.takeWhile (· ≠ 46)).reverse = [116, 109, 112] := by
    intro pre; simp [dotTmp, List.reverse_append, List.takeWhile]
  have hx : ∀ pre : Name, parseEntryName (pre ++ dotTmp) = none := by
    intro pre
    unfold parseEntryName
    rw [hsuf]
    simp [Hash.fromHex]
  cases d with
  | none =>
    have e : safeTempName none r = ([46] ++ r) ++ dotTmp := by simp [safeTempName]
    rw [e]; exact hx _
  | some d =>
    have e : safeTempName (some d) r = ([46] ++ d ++ [46] ++ r) ++ dotTmp := by simp [safeTempName]
    rw [e]; exact hx _

theorem xorbFinal_safeTemp (d : Option Name) (r : Name) : xorbFinal (safeTempName d r) = false := by
  simp [xorbFinal, parseXorbName_safeTemp]

theorem b64Val_dot : Cache.b64Val 46 = none := by decide

theorem b64Decode_dot (rest : List UInt8) : Cache.b64Decode (46 :: rest) = none := by
  match rest with
  | [] => simp [Cache.b64Decode]
  | [_] => simp [Cache.b64Decode]
  | [_, _] => simp [Cache.b64Decode]
  | c1 :: c2 :: c3 :: rest =>
    simp only [Cache.b64Decode]
    split
    · split <;> simp [Cache.b64Dec1, Cache.b64Dec2, b64Val_dot]
    · simp [Cache.b64Dec3, b64Val_dot]

theorem parseFileName_safeTemp (d : Option Name) (r : Name) : Cache.parseFileName (safeTempName d r) = none := by
  cases d <;> simp [Cache.parseFileName, safeTempName, b64Decode_dot]

theorem cacheFinal_safeTemp (a b : Name) (d : Option Name) (r : Name) : cacheFinal [a, b, safeTempName d r] = false := by
  simp [cacheFinal, parseFileName_safeTemp]

/-! ## shard directory -/

open Shard in
/-- `c` is the serialization of the well-formed content `m` (with some legal chunk table) -/
def HoldsB (c : Bytes) (m : Shard.Mem) : Prop := m.WF ∧ ∃ t, Shard.LegalChunkTable m t ∧ c = (Shard.serialize m t).bytes

theorem holdsB_iff (s : Shard.DirShard) (m : Shard.Mem) : Shard.Holds s m ↔ HoldsB s.bytes m := Iff.rfl

/-- a shard file has one content -/
theorem holdsB_unique {c : Bytes} {m m' : Shard.Mem} (h : HoldsB c m) (h' : HoldsB c m') : m = m' := by
  obtain ⟨w, t, ht, e⟩ := h
  obtain ⟨w', t', ht', e'⟩ := h'
  have la : t.length < 4294967296 := by
    rw [Shard.legal_table_length m t ht]; have := m.numChunks_le; have := w.2.2.2.2.2; omega
  have lb : t'.length < 4294967296 := by
    rw [Shard.legal_table_length m' t' ht']; have := m'.numChunks_le; have := w'.2.2.2.2.2; omega
  have eb : (Shard.serialize m t).bytes = (Shard.serialize m' t').bytes := e.symm.trans e'
  have hfoot : (Shard.serialize m t).footer = (Shard.serialize m' t').footer := by
    have h1 := Shard.loadInfo_serialize m t w la
    have h2 := Shard.loadInfo_serialize m' t' w' lb
    rw [eb, h2] at h1
    exact (Except.ok.inj h1).symm
  obtain ⟨f1, f2⟩ := Shard.serialize_scan_fuel m t w
  obtain ⟨g1, g2⟩ := Shard.serialize_scan_fuel m' t' w'
  have hfiles : m.files = m'.files := by
    have h1 := Shard.readAllFiles_serialize m t w _ f1
    have h2 := Shard.readAllFiles_serialize m' t' w' _ g1
    rw [eb, h2] at h1
    exact (Except.ok.inj h1).symm
  have hcas : m.cas = m'.cas := by
    have h1 := Shard.readAllCas_serialize m t w _ f2
    have h2 := Shard.readAllCas_serialize m' t' w' _ g2
    rw [eb, hfoot, h2] at h1
    exact (Except.ok.inj h1).symm
  cases m; cases m'; simp_all

/-- a valid shard file -/
def ValidShard (c : Bytes) : Prop := ∃ m, HoldsB c m

/-- every record of the shard file `c` is held by the shard file `c'` (same file with at least its
    verification / metadata parts; a block for every xorb hash) -/
def ShardCovers (c' c : Bytes) : Prop := ∀ m, HoldsB c m → ∃ m', HoldsB c' m' ∧ Shard.RecordsContained m m'

theorem ShardCovers.refl (c : Bytes) : ShardCovers c c := fun m h => ⟨m, h, Shard.RecordsContained.refl m⟩

theorem ShardCovers.trans (a b c : Bytes) (h1 : ShardCovers a b) (h2 : ShardCovers b c) : ShardCovers a c := by
  intro m hm
  obtain ⟨m1, hm1, r1⟩ := h2 m hm
  obtain ⟨m2, hm2, r2⟩ := h1 m1 hm1
  exact ⟨m2, hm2, r1.trans r2⟩

/-- invariant of a shard directory: every file the scan accepts is named by the hash of its content and is a
    valid shard file (`V`) -/
def ShardInv (P : HashPrims) (V : Bytes → Prop) (s : FS Name) : Prop :=
  Inv (fun n => shardFinal n = true) (fun n c => shardOk P n c ∧ V c) s

/-- the hex form of hashes reads back (`C06_hex_roundtrip`), passed in by the property file -/
def HexRT : Prop := ∀ h : Hash, Hash.fromHex h.hex = some h

theorem shardName_inj (hrt : HexRT) {a b : Hash} (h : shardName a = shardName b) : a = b := by
  have := parseShardName_shardName a (hrt a)
  rw [h, parseShardName_shardName b (hrt b)] at this
  exact (Option.some.inj this).symm

theorem shardFinal_shardName (hrt : HexRT) (h : Hash) : shardFinal (shardName h) = true := by
  simp [shardFinal, parseShardName_shardName h (hrt h)]

theorem shardOk_shardName (P : HashPrims) (hrt : HexRT) (c : Bytes) : shardOk P (shardName (P.dataHash c)) c :=
  parseShardName_shardName _ (hrt _)

/-- **Shard flush / `write_out_from_reader`, every crash point.** -/
theorem shardWrite_safe (P : HashPrims) (V : Bytes → Prop) (hrt : HexRT) (s : FS Name) (uuid : Name) (content : Bytes)
    (pieces : List Bytes) (hp : pieces.flatten = content) (hinv : ShardInv P V s) (hv : V content) (k : Nat) :
    ShardInv P V (run s ((shardWriteFx P uuid content pieces).take k)) ∧
    (∀ n, shardFinal n = true → n ≠ shardName (P.dataHash content) →
      get (run s ((shardWriteFx P uuid content pieces).take k)) n = get s n) ∧
    (get (run s ((shardWriteFx P uuid content pieces).take k)) (shardName (P.dataHash content)) = get s (shardName (P.dataHash content)) ∨
     get (run s ((shardWriteFx P uuid content pieces).take k)) (shardName (P.dataHash content)) = some content) := by
  have hne : tempShardName uuid ≠ shardName (P.dataHash content) := by
    intro e
    have := shardFinal_shardName hrt (P.dataHash content)
    rw [← e, shardFinal_temp] at this
    cases this
  have := write_safe (fun n => shardFinal n = true) (fun n c => shardOk P n c ∧ V c) s (tempShardName uuid)
    (shardName (P.dataHash content)) pieces hinv (by simp [shardFinal_temp]) hne
    (fun _ => by rw [hp]; exact ⟨shardOk_shardName P hrt content, hv⟩) k
  rw [hp] at this
  exact this

/-- the same for `shard_file_op`, whose output name is the caller's: if that name is one the scan accepts it
    must be the content hash (`hout`); the caller's name is not the (random) temp name -/
theorem shardFileOp_safe (P : HashPrims) (V : Bytes → Prop) (s : FS Name) (uuid out : Name) (content : Bytes)
    (pieces : List Bytes) (hp : pieces.flatten = content) (hinv : ShardInv P V s) (hne : tempShardName uuid ≠ out)
    (hout : shardFinal out = true → shardOk P out content ∧ V content) (k : Nat) :
    ShardInv P V (run s ((shardFileOpFx uuid out pieces).take k)) ∧
    (∀ n, shardFinal n = true → n ≠ out → get (run s ((shardFileOpFx uuid out pieces).take k)) n = get s n) ∧
    (get (run s ((shardFileOpFx uuid out pieces).take k)) out = get s out ∨
     get (run s ((shardFileOpFx uuid out pieces).take k)) out = some content) := by
  have := write_safe (fun n => shardFinal n = true) (fun n c => shardOk P n c ∧ V c) s (tempShardName uuid)
    out pieces hinv (by simp [shardFinal_temp]) hne (fun hf => by rw [hp]; exact hout hf) k
  rw [hp] at this
  exact this

/-! ## consolidation -/

/-- used only inside a case distinction: either there is a collision of the data hash, or this holds -/
def NoCollision (P : HashPrims) : Prop := ∀ a b : Bytes, P.dataHash a = P.dataHash b → a = b

/-- the pieces handed to the copy loop of every round add up to the merged shard; rounds without an oracle entry
    are simply not performed (`zipRounds` stops) -/
def OracleOK : List ConsRound → List (Name × List Bytes) → Prop
  | r :: rs, o :: os => o.2.flatten = r.merged.bytes ∧ OracleOK rs os
  | _, _ => True

/-- the shard directory while `dir` still has to be processed: the invariant holds and every entry of `dir` is in place -/
structure DirState (P : HashPrims) (s : FS Name) (dir : List (Shard.DirShard × Shard.Mem)) : Prop where
  inv : ShardInv P ValidShard s
  present : ∀ q ∈ dir, get s (shardName q.1.name) = some q.1.bytes

theorem DirState.name_eq {P : HashPrims} (hrt : HexRT) {s : FS Name} {dir : List (Shard.DirShard × Shard.Mem)}
    (h : DirState P s dir) {q : Shard.DirShard × Shard.Mem} (hq : q ∈ dir) : q.1.name = P.dataHash q.1.bytes := by
  have := (h.inv _ _ (h.present q hq) (shardFinal_shardName hrt _)).1
  unfold shardOk at this
  rw [parseShardName_shardName _ (hrt _)] at this
  exact Option.some.inj this

abbrev SFinal : Name → Prop := fun n => shardFinal n = true
abbrev SOk (P : HashPrims) : Name → Bytes → Prop := fun n c => shardOk P n c ∧ ValidShard c
/-- coverage between shard files: by content only -/
abbrev SCov : Name × Bytes → Name × Bytes → Prop := fun a b => ShardCovers a.2 b.2

open Shard in
theorem consolidateRounds_safe (P : HashPrims) (hrt : HexRT) (hnc : NoCollision P) (target : Nat) (L : List Mem)
    (hc : DirCompat L) (fuel : Nat) :
    ∀ (dir : List (DirShard × Mem)) (fh : List Hash),
      (∀ p ∈ dir, p.2 ∈ L ∧ Holds p.1 p.2) → dir.length < fuel →
      sumMap (fun p => p.2.fileRecs) dir < 4294967296 → sumMap (fun p => p.2.casRecs) dir < 4294967296 →
      (dir.map (·.1.name)).Nodup →
      ∃ rs, consolidateRounds P target fuel (dir.map (·.1)) fh = .ok rs ∧
        ∀ (s : FS Name), DirState P s dir → ∀ oracle, OracleOK rs oracle →
          RoundsOK SFinal (SOk P) SCov s (zipRounds rs oracle) := by
  induction fuel with
  | zero => intro dir fh _ hf; omega
  | succ fuel ih =>
    intro dir fh hd hfuel hsz hsc hnd
    cases dir with
    | nil => exact ⟨[], by simp [consolidateRounds], fun s _ oracle _ => by simp [zipRounds, RoundsOK]⟩
    | cons p rest =>
      obtain ⟨hpL, wp, tp, htp, hbytes⟩ := hd p List.mem_cons_self
      have hd' : ∀ q ∈ rest, q.2 ∈ L ∧ Holds q.1 q.2 := fun q hq => hd q (List.mem_cons_of_mem _ hq)
      simp only [sumMap_cons] at hsz hsc
      simp only [List.map_cons, List.nodup_cons] at hnd
      simp only [List.map_cons, consolidateRounds]
      generalize hn : groupEnd target p.1.bytes.length (List.map (fun x => x.bytes.length) (List.map (fun x => x.1) rest)) 0 = n
      by_cases h0 : n = 0
      · rw [if_pos h0]
        obtain ⟨rs, hrun, hsafe⟩ := ih rest (p.1.name :: fh) hd' (by simp at hfuel; omega) (by omega) (by omega) hnd.2
        exact ⟨rs, hrun, fun s hs oracle ho =>
          hsafe s ⟨hs.inv, fun q hq => hs.present q (List.mem_cons_of_mem _ hq)⟩ oracle ho⟩
      · rw [if_neg h0]
        have hnle : n ≤ rest.length := by
          have := (groupEnd_spec target p.1.bytes.length (List.map (fun x => x.bytes.length) (List.map (fun x => x.1) rest))).1
          rw [hn] at this; simpa using this
        have e1 : List.take n (List.map (fun x => x.1) rest) = (rest.take n).map (·.1) := by rw [List.map_take]
        have e2 : List.drop n (List.map (fun x => x.1) rest) = (rest.drop n).map (·.1) := by rw [List.map_drop]
        have hsum1 := sumMap_take_drop (fun p : DirShard × Mem => p.2.fileRecs) rest n
        have hsum2 := sumMap_take_drop (fun p : DirShard × Mem => p.2.casRecs) rest n
        have hcG : DirCompat ((p :: rest.take n).map (·.2)) := by
          intro m1 h1 m2 h2
          have sub : ∀ m ∈ (p :: rest.take n).map (·.2), m ∈ L := by
            intro m hm
            obtain ⟨q, hq, rfl⟩ := List.mem_map.mp hm
            rcases List.mem_cons.mp hq with rfl | hq
            · exact hpL
            · exact (hd' q (List.mem_of_mem_take hq)).1
          exact hc m1 (sub m1 h1) m2 (sub m2 h2)
        obtain ⟨t', l1, l2, l3, l4, l5⟩ := unionChain_spec ((p :: rest.take n).map (·.2)) hcG (rest.take n) p.2 tp
          (ChainInv.of_mem List.mem_cons_self wp) htp
          (fun q hq => ⟨List.mem_cons_of_mem _ (List.mem_map.mpr ⟨q, hq, rfl⟩), (hd' q (List.mem_of_mem_take hq)).2⟩)
          (by omega) (by omega)
        rw [e1, e2, hbytes, l2]
        simp only []
        generalize hM : chainMem p.2 (List.map (fun x => x.2) (List.take n rest)) = M at l1 l2 l3 l4 l5 ⊢
        generalize hnew : (serialize M t').bytes = merged
        generalize hrem : List.filter (fun h => !(P.dataHash merged :: fh).contains h)
          (p.1.name :: List.map (fun x => x.name) (List.map (fun x => x.1) (List.take n rest))) = toRemove
        have hnd' : ((rest.drop n).map (·.1.name)).Nodup := by
          have := hnd.2
          rw [← List.take_append_drop n rest, List.map_append] at this
          exact (List.nodup_append.mp this).2.1
        obtain ⟨rs, hrun, hsafe⟩ := ih (rest.drop n) (P.dataHash merged :: fh)
          (fun q hq => hd' q (List.mem_of_mem_drop hq)) (by simp at hfuel ⊢; omega) (by omega) (by omega) hnd'
        rw [hrun]
        refine ⟨_, rfl, fun s hs oracle ho => ?_⟩
        cases oracle with
        | nil => simp [zipRounds, RoundsOK]
        | cons o os =>
          obtain ⟨u, ps⟩ := o
          obtain ⟨hps, hos⟩ := ho
          simp only at hps
          simp only [zipRounds, RoundsOK]
          -- members of the group, and what they are in the state `s`
          have hgroup : ∀ h ∈ toRemove, ∃ q ∈ p :: rest.take n, q.1.name = h := by
            intro h hh
            rw [← hrem] at hh
            have := (List.mem_filter.mp hh).1
            rcases List.mem_cons.mp this with rfl | hm
            · exact ⟨p, List.mem_cons_self, rfl⟩
            · obtain ⟨x, hx, rfl⟩ := List.mem_map.mp hm
              obtain ⟨q, hq, rfl⟩ := List.mem_map.mp hx
              exact ⟨q, List.mem_cons_of_mem _ hq, rfl⟩
          have hgin : ∀ q ∈ p :: rest.take n, q ∈ p :: rest := by
            intro q hq
            rcases List.mem_cons.mp hq with rfl | hq
            · exact List.mem_cons_self
            · exact List.mem_cons_of_mem _ (List.mem_of_mem_take hq)
          have hvalid : HoldsB merged M := ⟨l3.wf, t', l1, hnew.symm⟩
          have hcov : ∀ q ∈ p :: rest.take n, ShardCovers merged q.1.bytes := by
            intro q hq m hm
            have hq2 : Holds q.1 q.2 := (hd q (hgin q hq)).2
            have : m = q.2 := holdsB_unique hm hq2
            subst this
            rcases List.mem_cons.mp hq with rfl | hq'
            · exact ⟨M, hvalid, l4⟩
            · exact ⟨M, hvalid, l5 q hq'⟩
          have hround : RoundOK SFinal (SOk P) SCov s (consRoundFx ⟨⟨P.dataHash merged, merged⟩, toRemove⟩ u ps) := by
            refine ⟨by simp [consRoundFx, shardFinal_temp], shardFinal_shardName hrt _, ?_, ?_, ?_, ?_⟩
            · show shardOk P (shardName (P.dataHash merged)) ps.flatten ∧ ValidShard ps.flatten
              rw [hps]; exact ⟨shardOk_shardName P hrt merged, M, hvalid⟩
            · intro c hcget
              show ShardCovers ps.flatten c
              rw [hps]
              have hcget' : get s (shardName (P.dataHash merged)) = some c := hcget
              have hok := (hs.inv _ _ hcget' (shardFinal_shardName hrt _)).1
              unfold shardOk at hok
              rw [parseShardName_shardName _ (hrt _)] at hok
              have : merged = c := hnc _ _ (Option.some.inj hok)
              subst this
              exact ShardCovers.refl _
            · intro q hq
              obtain ⟨h, hh, rfl⟩ := List.mem_map.mp hq
              intro e
              have := shardName_inj hrt e
              subst this
              rw [← hrem] at hh
              have := (List.mem_filter.mp hh).2
              simp at this
            · intro q hq c hcget _
              obtain ⟨h, hh, rfl⟩ := List.mem_map.mp hq
              obtain ⟨g, hg, rfl⟩ := hgroup h hh
              show ShardCovers ps.flatten c
              rw [hps]
              have := hs.present g (hgin g hg)
              rw [this] at hcget
              cases hcget
              exact hcov g hg
          refine ⟨hround, hsafe _ ⟨?_, ?_⟩ os hos⟩
          · have := (round_safe SFinal (SOk P) SCov (fun c => ShardCovers.refl c.2) s _ hs.inv hround
              (roundFx (consRoundFx ⟨⟨P.dataHash merged, merged⟩, toRemove⟩ u ps)).length).1
            rwa [take_length_self] at this
          · intro q hq
            have hqin : q ∈ p :: rest := List.mem_cons_of_mem _ (List.mem_of_mem_drop hq)
            have hpres := hs.present q hqin
            rw [round_end]
            simp only [consRoundFx]
            have hnotrem : shardName q.1.name ∉ toRemove.map shardName := by
              intro hm
              obtain ⟨h, hh, e⟩ := List.mem_map.mp hm
              have := shardName_inj hrt e
              subst this
              obtain ⟨g, hg, hgn⟩ := hgroup _ hh
              -- `g` is in the group, `q` behind it: their names differ
              rcases List.mem_cons.mp hg with rfl | hg'
              · exact hnd.1 (List.mem_map.mpr ⟨q, List.mem_of_mem_drop hq, hgn.symm⟩)
              · have hn2 := hnd.2
                rw [← List.take_append_drop n rest, List.map_append] at hn2
                exact (List.nodup_append.mp hn2).2.2 _ (List.mem_map.mpr ⟨g, hg', rfl⟩) _ (List.mem_map.mpr ⟨q, hq, rfl⟩) hgn
            simp only [hnotrem, if_false]
            by_cases hout : shardName q.1.name = shardName (P.dataHash merged)
            · simp only [hout, if_true, hps]
              have hqn := shardName_inj hrt hout
              have := hs.name_eq hrt hqin
              rw [hqn] at this
              rw [hnc _ _ this]
            · have htmp : shardName q.1.name ≠ tempShardName u := by
                intro e
                have := shardFinal_shardName hrt q.1.name
                rw [e, shardFinal_temp] at this
                cases this
              simp only [hout, htmp, if_false]
              exact hpres

/-! ## `SafeFileCreator`, local store, chunk cache -/

section SafeFile
variable {P : Type}

theorem strip_appends (t : P) (ps : List Bytes) : strip (ps.map (Effect.append t)) = ps.map (Effect.append t) := by
  induction ps with
  | nil => rfl
  | cons b ps ih => simp only [strip, List.map_cons, List.filter_cons, isNoop] at ih ⊢; simp [ih]

theorem strip_writeSeq (t f : P) (ps : List Bytes) : strip (writeSeq t f ps) = writeSeq t f ps := by
  have := strip_appends t ps
  simp only [strip] at this
  simp [strip, writeSeq, List.filter_append, isNoop]

theorem strip_unlinks (us : List P) : strip (us.map Effect.unlink) = us.map Effect.unlink := by
  induction us with
  | nil => rfl
  | cons b ps ih => simp only [strip, List.map_cons, List.filter_cons, isNoop] at ih ⊢; simp [ih]

theorem strip_append (a b : List (Effect P)) : strip (a ++ b) = strip a ++ strip b := by simp [strip]

theorem strip_chmods (n : Nat) (d : P) : strip (List.replicate n (Effect.chmod d)) = [] := by
  induction n with
  | zero => rfl
  | succ n ih => simp only [strip, List.replicate_succ, List.filter_cons, isNoop] at ih ⊢; simp [ih]

theorem strip_safeFileFx (t f : P) (ps : List Bytes) (n : Nat) : strip (safeFileFx t f ps n) = writeSeq t f ps := by
  simp [safeFileFx, strip_append, strip_writeSeq, strip_chmods]

variable [DecidableEq P]

/-- **`SafeFileCreator`, every crash point** (any directory discipline `Final` / `Ok` under which the temp name
    is not a final name) -/
theorem safeFile_safe (Final : P → Prop) (Ok : P → Bytes → Prop) (s0 : FS P) (t f : P) (ps : List Bytes) (chmods : Nat)
    (hinv : Inv Final Ok s0) (ht : ¬ Final t) (htf : t ≠ f) (hok : Final f → Ok f ps.flatten) (k : Nat) :
    Inv Final Ok (run s0 ((safeFileFx t f ps chmods).take k)) ∧
    (∀ q, Final q → q ≠ f → get (run s0 ((safeFileFx t f ps chmods).take k)) q = get s0 q) ∧
    (get (run s0 ((safeFileFx t f ps chmods).take k)) f = get s0 f ∨
     get (run s0 ((safeFileFx t f ps chmods).take k)) f = some ps.flatten) := by
  obtain ⟨k', hk'⟩ := run_take_strip (safeFileFx t f ps chmods) s0 k
  rw [hk', strip_safeFileFx]
  exact write_safe Final Ok s0 t f ps hinv ht htf hok k'

end SafeFile

/-- invariant of the local xorb store: the file `default.{h}` validates for `h` (`Vx`) -/
def XorbInv (Vx : Hash → Bytes → Prop) (s : FS Name) : Prop :=
  Inv (fun n => xorbFinal n = true) (fun n c => ∀ h, parseXorbName n = some h → Vx h c) s

/-- **`LocalClient::put`, every crash point.** -/
theorem localPut_safe (Vx : Hash → Bytes → Prop) (hrt : HexRT) (s : FS Name) (h : Hash) (dir rnd : Name) (obj : Bytes)
    (pieces : List Bytes) (hp : pieces.flatten = obj) (hinv : XorbInv Vx s) (hv : Vx h obj) (k : Nat) :
    XorbInv Vx (run s ((localPutFx h dir rnd pieces).take k)) ∧
    (∀ n, xorbFinal n = true → n ≠ xorbName h → get (run s ((localPutFx h dir rnd pieces).take k)) n = get s n) ∧
    (get (run s ((localPutFx h dir rnd pieces).take k)) (xorbName h) = get s (xorbName h) ∨
     get (run s ((localPutFx h dir rnd pieces).take k)) (xorbName h) = some obj) := by
  have hne : safeTempName (some dir) rnd ≠ xorbName h := by
    intro e
    have : xorbFinal (xorbName h) = true := by simp [xorbFinal, parseXorbName_xorbName h (hrt h)]
    rw [← e, xorbFinal_safeTemp] at this
    cases this
  have := safeFile_safe (fun n => xorbFinal n = true) (fun n c => ∀ h, parseXorbName n = some h → Vx h c) s
    (safeTempName (some dir) rnd) (xorbName h) pieces 2 hinv (by simp [xorbFinal_safeTemp]) hne
    (fun _ h' hh' => by
      rw [parseXorbName_xorbName h (hrt h)] at hh'
      cases hh'; rw [hp]; exact hv) k
  rw [hp] at this
  exact this

/-- invariant of the cache directory: a file whose name decodes as an item has the length and checksum of its name -/
def CacheInv (crc : Bytes → UInt32) (s : FS Cache.Path) : Prop :=
  Inv (fun p => cacheFinal p = true) (cacheOk crc) s

theorem strip_evicted (ev : List (Cache.Key × Cache.Item × Nat)) :
    strip (ev.flatMap fun e => [Effect.unlink (Cache.itemPath e.1 e.2.1)] ++
      (if e.2.2 ≥ 1 then [Effect.rmdir (Cache.keyPath e.1)] else []) ++
      (if e.2.2 ≥ 2 then [Effect.rmdir [Cache.prefixDirName e.1]] else [])) =
    (ev.map fun e => Cache.itemPath e.1 e.2.1).map Effect.unlink := by
  induction ev with
  | nil => rfl
  | cons e ev ih =>
    simp only [List.flatMap_cons, strip_append, ih, List.map_cons]
    have h1 : strip (if e.2.2 ≥ 1 then [Effect.rmdir (Cache.keyPath e.1)] else []) = ([] : List (Effect Cache.Path)) := by
      split <;> simp [strip, isNoop]
    have h2 : strip (if e.2.2 ≥ 2 then [Effect.rmdir [Cache.prefixDirName e.1]] else []) = ([] : List (Effect Cache.Path)) := by
      split <;> simp [strip, isNoop]
    rw [h1, h2]
    simp [strip, isNoop]

/-- the round of a cache put (subsumed items are the covered deletions) and its exempt deletions (evicted items) -/
def cacheRound (k : Cache.Key) (it : Cache.Item) (rnd : Name) (pieces : List Bytes) (subsumed : List Cache.Item) : Round Cache.Path :=
  ⟨Cache.keyPath k ++ [safeTempName (some (Cache.keyDirName k)) rnd], Cache.itemPath k it, pieces,
   subsumed.map (Cache.itemPath k)⟩

theorem strip_cachePutFx (k : Cache.Key) (it : Cache.Item) (rnd : Name) (pieces : List Bytes)
    (subsumed : List Cache.Item) (evicted : List (Cache.Key × Cache.Item × Nat)) :
    strip (cachePutFx k it rnd pieces subsumed evicted) =
      roundFx (cacheRound k it rnd pieces subsumed) ++ (evicted.map fun e => Cache.itemPath e.1 e.2.1).map Effect.unlink := by
  have hs : strip (subsumed.map fun s => Effect.unlink (Cache.itemPath k s)) =
      (subsumed.map (Cache.itemPath k)).map Effect.unlink := by
    induction subsumed with
    | nil => rfl
    | cons b bs ih => simp only [strip, List.map_cons, List.filter_cons, isNoop] at ih ⊢; simp [ih]
  unfold cachePutFx
  rw [strip_append, strip_append, strip_append, strip_evicted, hs, strip_safeFileFx]
  simp [strip, isNoop, roundFx, cacheRound]

/-- **`DiskCache::put`, every crash point.**  `hround`: the conditions of the write-then-delete-subsumed round in the
    start state (in particular: the new item holds what each subsumed item held); `hev`: the evicted files are
    other files than the new item.  Then in every crash state the invariant holds, and every item file of the start
    state that is not on the eviction list is still there unchanged, or the new item file is there and covers it. -/
theorem cachePut_safe (crc : Bytes → UInt32) (covers : Cache.Path × Bytes → Cache.Path × Bytes → Prop)
    (s : FS Cache.Path) (k : Cache.Key) (it : Cache.Item) (rnd : Name) (pieces : List Bytes)
    (subsumed : List Cache.Item) (evicted : List (Cache.Key × Cache.Item × Nat))
    (hinv : CacheInv crc s)
    (hround : RoundOK (fun p => cacheFinal p = true) (cacheOk crc) covers s (cacheRound k it rnd pieces subsumed))
    (hev : ∀ e ∈ evicted, Cache.itemPath e.1 e.2.1 ≠ Cache.itemPath k it) (j : Nat) :
    CacheInv crc (run s ((cachePutFx k it rnd pieces subsumed evicted).take j)) ∧
    ∀ p c, get s p = some c → cacheFinal p = true → p ∉ evicted.map (fun e => Cache.itemPath e.1 e.2.1) →
      get (run s ((cachePutFx k it rnd pieces subsumed evicted).take j)) p = some c ∨
      ∃ c', get (run s ((cachePutFx k it rnd pieces subsumed evicted).take j)) (Cache.itemPath k it) = some c' ∧
        covers (Cache.itemPath k it, c') (p, c) := by
  obtain ⟨j', hj'⟩ := run_take_strip (cachePutFx k it rnd pieces subsumed evicted) s j
  rw [hj', strip_cachePutFx]
  generalize hds : (evicted.map fun e => Cache.itemPath e.1 e.2.1) = ds
  have hout : Cache.itemPath k it ∉ ds := by
    intro hm
    rw [← hds] at hm
    obtain ⟨e, he, hee⟩ := List.mem_map.mp hm
    exact hev e he hee
  rcases take_append_cases (roundFx (cacheRound k it rnd pieces subsumed)) (ds.map Effect.unlink) j' with ⟨_, e⟩ | ⟨_, e⟩
  · rw [e]
    obtain ⟨i1, i2⟩ := round_safe_explicit _ _ covers s _ hinv hround j'
    exact ⟨i1, fun p c hp hf _ => i2 p c hp hf⟩
  · rw [e, run_append]
    obtain ⟨i1, i2⟩ := round_safe_explicit _ _ covers s _ hinv hround (roundFx (cacheRound k it rnd pieces subsumed)).length
    rw [take_length_self] at i1 i2
    obtain ⟨u1, u2⟩ := unlinks_safe _ _ _ ds i1 (j' - (roundFx (cacheRound k it rnd pieces subsumed)).length)
    refine ⟨u1, fun p c hp hf hpd => ?_⟩
    rcases i2 p c hp hf with h1 | ⟨c', h1, h2⟩
    · exact Or.inl (by rw [u2 p hpd]; exact h1)
    · exact Or.inr ⟨c', by rw [u2 _ hout]; exact h1, h2⟩

/-! ## the rounds of the model are the rounds of `Shard.consolidate` (C10) -/

theorem consolidateRounds_agrees (P : HashPrims) (target : Nat) (fuel : Nat) :
    ∀ (shards : List Shard.DirShard) (fh : List Hash) (acc c : Shard.Consolidated),
      Shard.consolidateAux P target fuel shards fh acc = .ok c →
      ∃ rs, consolidateRounds P target fuel shards fh = .ok rs ∧
        c.written = acc.written ++ rs.map (·.merged) ∧ c.removed = acc.removed ++ rs.flatMap (·.removed) := by
  induction fuel with
  | zero => intro shards fh acc c h; simp [Shard.consolidateAux] at h; subst h; exact ⟨[], by simp [consolidateRounds]⟩
  | succ fuel ih =>
    intro shards fh acc c h
    cases shards with
    | nil => simp [Shard.consolidateAux] at h; subst h; exact ⟨[], by simp [consolidateRounds]⟩
    | cons s rest =>
      simp only [Shard.consolidateAux] at h
      simp only [consolidateRounds]
      split at h
      · rename_i h0
        rw [if_pos h0]
        obtain ⟨rs, r1, r2, r3⟩ := ih _ _ _ _ h
        exact ⟨rs, r1, by simpa using r2, by simpa using r3⟩
      · rename_i h0
        rw [if_neg h0]
        split at h
        · cases h
        · rename_i merged hm
          rw [hm]
          obtain ⟨rs, r1, r2, r3⟩ := ih _ _ _ _ h
          simp only [r1]
          exact ⟨_, rfl, by simpa using r2, by simpa using r3⟩

end Xet.CrashFS
