/-
Helper lemmas for C08, part 2: completeness on serialized objects, validator agreement, no panic.
Model: `XetModel/XorbFormat.lean`.  Core Lean only.
-/
import XetProofs.XorbValidate
import XetProofs.Bg4

namespace Xet.Xorb

/-! ## 1. one passing iteration of each loop -/

theorem walkChunks_step_ok {P : HashPrims} {C : Codec} {m : Nat} {obj : Bytes} {info : Info} {k idx : Nat}
    {st : WalkState} {r : ChunkRead}
    (h0 : st.start ≤ obj.length)
    (hr : deserializeChunkSync C m (obj.drop st.start) = .ok r)
    (h1 : st.cumComp + r.consumed ≤ u32Max) (h2 : st.unp + r.data.length ≤ u32Max)
    (hh : info.hashes[idx]? = some (P.dataHash r.data))
    (hb : info.boundaries[idx]? = some (st.start + r.consumed))
    (h3 : st.start + r.consumed ≤ u32Max)
    (hbv : info.boundariesVersion = boundariesVersion)
    (hu : info.unpacked[idx]? = some (st.unp + r.data.length)) :
    walkChunks P C m obj info (k + 1) idx st =
      walkChunks P C m obj info k (idx + 1)
        ⟨st.start + r.consumed, st.cumComp + r.consumed, st.unp + r.data.length, st.start + r.consumed,
          st.chunks ++ [(P.dataHash r.data, r.data.length)]⟩ := by
  rw [walkChunks, if_neg (by omega)]
  simp only [hr, hh, hb, hu, hbv]
  rw [if_neg (by omega), if_neg (by simp), if_neg (by omega), if_neg (by simp)]
  simp

/-- a valid chunk header never looks like the footer ident (its version byte is 0, `X` is 88) -/
theorem parseChunkHeader_not_ident {m : Nat} {b : Bytes} {hd : ChunkHeader} (h : parseChunkHeader m b = .ok hd) :
    b.take 7 ≠ identMain := by
  intro hc
  cases b with
  | nil => simp [identMain, Gen.casIdent] at hc
  | cons v t =>
    have hv : v = 88 := by
      have := congrArg List.head? hc
      simpa [identMain, Gen.casIdent] using this
    subst hv
    unfold parseChunkHeader at h
    split at h
    · rename_i heq
      split at h; · cases h
      split at h
      · cases h
      · rename_i hver
        injection heq with h1 h2
        subst h1
        exact absurd (by decide) hver
    · cases h

theorem streamLoop_step_chunk {P : HashPrims} {C : Codec} {m fuel : Nat} {input : Bytes} {st : StreamState}
    {hd : ChunkHeader} {out : Bytes}
    (h8 : 8 ≤ input.length)
    (hhd : parseChunkHeader m (input.take 8) = .ok hd) (hlen : hd.clen ≤ (input.drop 8).length)
    (hdec : decompress C hd.scheme ((input.drop 8).take hd.clen) = .ok out) (hul : out.length = hd.ulen)
    (hov : st.bnds.getLastD 0 + 8 + hd.clen ≤ u32Max) :
    streamLoop P C m (fuel + 1) input st =
      streamLoop P C m fuel ((input.drop 8).drop hd.clen)
        ⟨st.bnds ++ [st.bnds.getLastD 0 + 8 + hd.clen], st.chunks ++ [(P.dataHash out, out.length)]⟩ := by
  have hnf := parseChunkHeader_not_ident hhd
  have hne : input.isEmpty = false := by
    cases input with
    | nil => simp at h8
    | cons _ _ => rfl
  rw [streamLoop]
  simp only [hne, Bool.false_eq_true, if_false]
  rw [if_neg (by omega)]
  simp only [hnf, false_and, if_false, hhd, hdec]
  rw [if_neg (by omega), if_neg (by omega), if_neg (by omega)]

/-! ## 2. the seekable validator on serialized objects -/

theorem runningSums_getElem? (s : Nat) (xs : List Nat) (k : Nat) (hk : k < xs.length) :
    (runningSums s xs)[k]? = some (s + (xs.take (k + 1)).sum) := by
  induction xs generalizing s k with
  | nil => simp at hk
  | cons x xs ih =>
    cases k with
    | zero => simp [runningSums]
    | succ k =>
      simp only [runningSums, List.getElem?_cons_succ, List.take_succ_cons, List.sum_cons]
      rw [ih _ k (by simpa using hk)]
      congr 1; omega

theorem take_mid {α} (pre post : List α) (p : α) : (pre ++ p :: post).take (pre.length + 1) = pre ++ [p] := by
  have : pre ++ p :: post = (pre ++ [p]) ++ post := by simp
  rw [this]; exact take_append_of_length _ _ _ (by simp)

theorem walkChunks_serialized (P : HashPrims) (C : Codec) (hC : C.RoundTrip) (m : Nat) (hm : m * 2 < 2 ^ 24)
    (obj : Bytes) (info : Info) (ps : List (Bytes × Scheme)) (tail : Bytes)
    (hobj : obj = serChunks C ps ++ tail)
    (hmaxc : ∀ p ∈ ps, p.1.length ≤ m)
    (hh : info.hashes = ps.map (fun p => P.dataHash p.1))
    (hb : info.boundaries = runningSums 0 (physSizes C ps))
    (hu : info.unpacked = runningSums 0 (ps.map (·.1.length)))
    (hbv : info.boundariesVersion = boundariesVersion)
    (hsz : (serChunks C ps).length ≤ u32Max)
    (hus : (ps.map (·.1.length)).sum ≤ u32Max) :
    ∀ (post pre : List (Bytes × Scheme)) (st : WalkState), ps = pre ++ post →
      st.start = (serChunks C pre).length → st.cumComp = st.start → st.unp = (pre.map (·.1.length)).sum →
      ∃ st', walkChunks P C m obj info post.length pre.length st = .ok st' ∧
        st'.cumComp = (serChunks C ps).length ∧
        st'.chunks = st.chunks ++ post.map (fun p => (P.dataHash p.1, p.1.length)) ∧
        (post ≠ [] → st'.pos = (serChunks C ps).length) ∧ (post = [] → st' = st) := by
  intro post
  induction post with
  | nil =>
    intro pre st hps h1 h2 h3
    simp only [List.append_nil] at hps
    subst hps
    exact ⟨st, rfl, by omega, by simp, by simp, fun _ => rfl⟩
  | cons p post ih =>
    intro pre st hps h1 h2 h3
    have hps' : ps = (pre ++ [p]) ++ post := by simp [hps]
    have hlen : (serChunks C ps).length
        = (serChunks C pre).length + (serializeChunk C p.2 p.1).length + (serChunks C post).length := by
      rw [hps, serChunks_append, serChunks_cons]; simp only [List.length_append]; omega
    have hsum : (ps.map (·.1.length)).sum = (pre.map (·.1.length)).sum + p.1.length + (post.map (·.1.length)).sum := by
      rw [hps]; simp only [List.map_append, List.map_cons, List.sum_append, List.sum_cons]; omega
    have hdrop : obj.drop st.start = serializeChunk C p.2 p.1 ++ (serChunks C post ++ tail) := by
      rw [hobj, hps, serChunks_append, serChunks_cons, List.append_assoc, List.append_assoc]
      exact drop_append_of_length _ _ _ h1.symm
    have hr := deserializeChunkSync_serializeChunk C hC Bg4.regroup_split m hm p.2 p.1 (serChunks C post ++ tail)
      (hmaxc p (by rw [hps]; simp))
    rw [← hdrop] at hr
    have hpre1 : (serChunks C (pre ++ [p])).length = st.start + (serializeChunk C p.2 p.1).length := by
      rw [serChunks_append, serChunks_cons, serChunks_nil]; simp only [List.length_append, List.append_nil]; omega
    have hstep := walkChunks_step_ok (P := P) (C := C) (m := m) (obj := obj) (info := info) (k := post.length)
      (idx := pre.length) (st := st) (r := ⟨p.1, (serializeChunk C p.2 p.1).length, serChunks C post ++ tail⟩)
      (by rw [hobj, List.length_append]; omega) hr (by simp only []; omega) (by simp only []; omega)
      (by rw [hh, hps]; simp) 
      (by rw [hb, runningSums_getElem? _ _ _ (by rw [physSizes_length, hps]; simp), physSizes_take, hps, take_mid,
            physSizes_sum, hpre1]; simp)
      (by simp only []; omega) hbv
      (by rw [hu, runningSums_getElem? _ _ _ (by rw [hps]; simp), ← List.map_take, hps, take_mid]
          simp only [List.map_append, List.map_cons, List.map_nil, List.sum_append, List.sum_cons, List.sum_nil]
          congr 1; omega)
    obtain ⟨st', e1, e2, e3, e4, e5⟩ := ih (pre ++ [p])
      ⟨st.start + (serializeChunk C p.2 p.1).length, st.cumComp + (serializeChunk C p.2 p.1).length,
        st.unp + p.1.length, st.start + (serializeChunk C p.2 p.1).length,
        st.chunks ++ [(P.dataHash p.1, p.1.length)]⟩ hps' hpre1.symm (by simp only []; omega)
      (by simp only [List.map_append, List.map_cons, List.map_nil, List.sum_append, List.sum_cons, List.sum_nil]; omega)
    simp only [List.length_append, List.length_cons, List.length_nil, Nat.zero_add] at e1
    refine ⟨st', by rw [List.length_cons, hstep]; exact e1, e2, ?_, ?_, by simp⟩
    · rw [e3]; simp
    · intro _
      by_cases hp : post = []
      · rw [e5 hp]; simp only []; subst hp; rw [hlen, serChunks_nil]; simp only [List.length_nil]; omega
      · exact e4 hp

theorem zip_map_fst {α β γ} (cs : List α) (ss : List β) (hs : ss.length = cs.length) (f : α → γ) :
    (cs.zip ss).map (fun p => f p.1) = cs.map f := by
  have : (cs.zip ss).map (fun p => f p.1) = ((cs.zip ss).map (·.1)).map f := by
    rw [List.map_map]; rfl
  rw [this, map_fst_zip_eq cs ss hs]

theorem validate_serialized (P : HashPrims) (C : Codec) (hC : C.RoundTrip) (m : Nat) (hm : m * 2 < 2 ^ 24)
    (h : Hash) (cs : List Bytes) (hashes : List Hash) (schemes : List Scheme)
    (ok : SerOK C m h cs hashes schemes) (hhs : hashes = cs.map P.dataHash) (h' : Hash) :
    validate P C m (serialize C h cs hashes schemes).bytes h' =
      if Merkle.validatorRoot P (chunkMeta P cs) [] = h' ∧ Merkle.validatorRoot P (chunkMeta P cs) [] = h
      then .accept (serialize C h cs hashes schemes).cas none else .reject := by
  have hz := zip_length_eq cs schemes ok.schemesLen
  have hmf := map_fst_zip_eq cs schemes ok.schemesLen
  have hsize := ok.size
  have hil := serInfo_bytes_lt C m h cs hashes schemes ok
  rw [serialize_bytes, List.append_assoc] at hsize
  simp only [List.length_append, le32_length] at hsize
  obtain ⟨st', e1, e2, e3, e4, _⟩ := walkChunks_serialized P C hC m hm (serialize C h cs hashes schemes).bytes
    (serInfo C h cs hashes schemes) (cs.zip schemes)
    ((serInfo C h cs hashes schemes).bytes ++ le32 (serInfo C h cs hashes schemes).bytes.length)
    (by rw [serialize_bytes, List.append_assoc])
    (fun p hp => ok.chunkMax p.1 (List.of_mem_zip hp).1)
    (by rw [serInfo_hashes, hhs, zip_map_fst cs schemes ok.schemesLen])
    (serInfo_boundaries C h cs hashes schemes)
    (by rw [serInfo_unpacked, zip_map_fst cs schemes ok.schemesLen])
    rfl (by simp only [u32Max]; omega)
    (by rw [zip_map_fst cs schemes ok.schemesLen]
        have := ok.unpackedSize; simp only [u32Max]; exact Nat.le_of_lt_succ this)
    (cs.zip schemes) [] ⟨0, 0, 0, (serialize C h cs hashes schemes).bytes.length - 4, []⟩ rfl rfl rfl rfl
  rw [hz] at e1
  have hne : cs.zip schemes ≠ [] := by
    intro hc; rw [hc] at hz; have := ok.nonempty; simp at hz; omega
  have hpos := e4 hne
  have hch : st'.chunks = chunkMeta P cs := by
    rw [e3, List.nil_append, chunkMeta]
    exact zip_map_fst cs schemes ok.schemesLen (fun d => (P.dataHash d, d.length))
  have hlen : (serialize C h cs hashes schemes).bytes.length
      = (serChunks C (cs.zip schemes)).length + (serInfo C h cs hashes schemes).bytes.length + 4 := by
    rw [serialize_bytes]; simp only [List.length_append, le32_length]
  have hd := deserialize_serialize C m h cs hashes schemes ok
  have hcas := serialize_cas C h cs hashes schemes
  have hnum := serInfo_numChunks C h cs hashes schemes
  have hcash := serInfo_cashash C h cs hashes schemes
  simp only [List.length_nil] at e1
  generalize serInfo C h cs hashes schemes = info at *
  generalize serialize C h cs hashes schemes = s at *
  unfold validate
  rw [hd]
  simp only [hcas, hnum, e1]
  rw [if_neg (by omega), hpos, e2, hch, hlen]
  rw [if_neg (by simp only [u32Max]; omega)]
  simp only [hcash, ne_eq]
  by_cases hr : Merkle.validatorRoot P (chunkMeta P cs) [] = h' ∧ Merkle.validatorRoot P (chunkMeta P cs) [] = h
  · rw [if_pos hr, if_neg (not_or.mpr ⟨(fun hn => hn hr.1), (fun hn => hn hr.2)⟩)]
  · rw [if_neg hr, if_pos (Classical.not_and_iff_not_or_not.mp hr)]

/-! ## 3. the streaming validator on serialized objects -/

theorem deserializeAsyncV1_bodyBytes (info : Info) (hwf : info.WF) (hlt : info.bytes.length < 2 ^ 32) :
    deserializeAsyncV1 (info.bodyBytes (le32 info.bytes.length)) = .ok ⟨info, info.bytes.length⟩ := by
  have hl := Info.bytes_length info hwf
  obtain ⟨h1, h2, h3, _, _, _, _, h8, _⟩ := id hwf
  unfold deserializeAsyncV1
  rw [parseInfoV1Body_bodyBytes info hwf]
  have hbr : 8 + 32 + info.hashesOffFromEnd = info.bytes.length := by
    rw [hl, h8, h1, h2, h3]; rfl
  simp only [le32, hbr, ofLe32_le32 _ hlt]
  simp

theorem streamLoop_footer (P : HashPrims) (C : Codec) (m fuel : Nat) (info : Info) (hwf : info.WF)
    (hlt : info.bytes.length < 2 ^ 32) (st : StreamState) :
    streamLoop P C m (fuel + 1) (info.bytes ++ le32 info.bytes.length) st
      = .ok (st, some ⟨info, info.bytes.length⟩, none) := by
  have e : info.bytes ++ le32 info.bytes.length
      = (identMain ++ [UInt8.ofNat formatVersion]) ++ info.bodyBytes (le32 info.bytes.length) := by
    rw [Info.bytes_append]; simp
  have hl8 : (identMain ++ [UInt8.ofNat formatVersion]).length = 8 := by simp [identMain_length]
  have t8 := take_append_of_length _ (info.bodyBytes (le32 info.bytes.length)) 8 hl8
  have d8 := drop_append_of_length _ (info.bodyBytes (le32 info.bytes.length)) 8 hl8
  have hlen : 8 ≤ (info.bytes ++ le32 info.bytes.length).length := by
    rw [e, List.length_append, hl8]; omega
  have hne : (info.bytes ++ le32 info.bytes.length).isEmpty = false := by
    cases hc : info.bytes ++ le32 info.bytes.length with
    | nil => rw [hc] at hlen; simp at hlen
    | cons _ _ => rfl
  have t7 : (identMain ++ [UInt8.ofNat formatVersion]).take 7 = identMain :=
    take_append_of_length _ _ 7 identMain_length
  have g7 : ((identMain ++ [UInt8.ofNat formatVersion]).getD 7 0).toNat = formatVersion := by decide
  rw [streamLoop]
  simp only [hne, Bool.false_eq_true, if_false]
  rw [if_neg (by omega)]
  rw [e]
  simp only [t8, d8, t7, g7, true_and]
  rw [if_pos trivial, deserializeAsyncV1_bodyBytes info hwf hlt, if_neg (Nat.lt_irrefl _)]

theorem streamLoop_serialized (P : HashPrims) (C : Codec) (hC : C.RoundTrip) (m : Nat) (hm : m * 2 < 2 ^ 24)
    (info : Info) (hwf : info.WF) (hlt : info.bytes.length < 2 ^ 32) :
    ∀ (post : List (Bytes × Scheme)) (fuel : Nat) (st : StreamState), post.length < fuel →
      (∀ p ∈ post, p.1.length ≤ m) → st.bnds.getLastD 0 + (serChunks C post).length ≤ u32Max →
      streamLoop P C m fuel (serChunks C post ++ (info.bytes ++ le32 info.bytes.length)) st =
        .ok (⟨st.bnds ++ runningSums (st.bnds.getLastD 0) (physSizes C post),
              st.chunks ++ post.map (fun p => (P.dataHash p.1, p.1.length))⟩,
             some ⟨info, info.bytes.length⟩, none) := by
  intro post
  induction post with
  | nil =>
    intro fuel st hf _ _
    cases fuel with
    | zero => simp at hf
    | succ f =>
      rw [serChunks_nil, List.nil_append, streamLoop_footer P C m f info hwf hlt]
      simp [physSizes, runningSums]
  | cons p post ih =>
    intro fuel st hf hmaxc hb
    cases fuel with
    | zero => simp at hf
    | succ f =>
      rw [serChunks_cons, List.length_append] at hb
      rw [serChunks_cons, List.append_assoc]
      have hsync := deserializeChunkSync_serializeChunk C hC Bg4.regroup_split m hm p.2 p.1
        (serChunks C post ++ (info.bytes ++ le32 info.bytes.length)) (hmaxc p (by simp))
      obtain ⟨hd, ok⟩ := deserializeChunkSync_ok hsync
      have hcons : (serializeChunk C p.2 p.1).length = hd.clen + 8 := ok.consumed
      have hrest := ok.rest
      simp only [] at hrest
      have hl : (serializeChunk C p.2 p.1 ++ (serChunks C post ++ (info.bytes ++ le32 info.bytes.length))).length
          = hd.clen + 8 + (serChunks C post ++ (info.bytes ++ le32 info.bytes.length)).length := by
        rw [List.length_append, hcons]
      rw [streamLoop_step_chunk (out := p.1) ok.long ok.header (by rw [List.length_drop, hl]; omega) ok.dec ok.ulen
        (by omega), ← hrest]
      rw [ih f _ (by simpa using hf) (fun q hq => hmaxc q (by simp [hq]))
        (by simp only [getLastD_concat']; omega)]
      simp only [getLastD_concat', physSizes, List.map_cons, runningSums, List.append_assoc, List.singleton_append,
        hcons]
      have e2 : st.bnds.getLastD 0 + 8 + hd.clen = st.bnds.getLastD 0 + (hd.clen + 8) := by omega
      rw [e2]

theorem zip_self_any_ne {α} [DecidableEq α] (l : List α) :
    (l.zip l).any (fun p => decide (p.1 ≠ p.2)) = false := by
  induction l with
  | nil => rfl
  | cons x xs ih => simp only [List.zip_cons_cons, List.any_cons, ih]; simp

theorem streamFooterCheck_eq (h' : Hash) (info : Info) (st : StreamState)
    (h2 : info.numChunks = st.chunks.length) (h3 : info.boundaries = st.bnds)
    (h4 : info.hashes = st.chunks.map (·.1)) (h5 : info.unpacked = runningSums 0 (st.chunks.map (·.2)))
    (h6 : ∀ y ∈ runningSums 0 (st.chunks.map (·.2)), y ≤ u32Max) :
    streamFooterCheck h' info st = if info.cashash ≠ h' then .error .format else .ok () := by
  unfold streamFooterCheck
  by_cases hc : info.cashash ≠ h'
  · rw [if_pos hc, if_pos hc]
  · rw [if_neg hc, if_neg hc, if_neg (by simp [h2]), if_neg (by simp [h3]), if_neg (by simp [h4]),
      if_neg (by simp [h4])]
    simp only []
    rw [if_neg, if_neg]
    · rw [h5, zip_self_any_ne]; simp
    · simp only [List.any_eq_true, decide_eq_true_eq, not_exists, not_and]
      intro y hy; have := h6 y hy; omega

theorem validateStream_serialized (P : HashPrims) (C : Codec) (hC : C.RoundTrip) (m : Nat) (hm : m * 2 < 2 ^ 24)
    (h : Hash) (cs : List Bytes) (hashes : List Hash) (schemes : List Scheme)
    (ok : SerOK C m h cs hashes schemes) (hhs : hashes = cs.map P.dataHash) (h' : Hash) :
    validateStream P C m (serialize C h cs hashes schemes).bytes h' =
      if h = h' ∧ Merkle.validatorRoot P (chunkMeta P cs) [] = h'
      then .accept (serialize C h cs hashes schemes).cas none else .reject := by
  have hz := zip_length_eq cs schemes ok.schemesLen
  have hsize := ok.size
  have hil := serInfo_bytes_lt C m h cs hashes schemes ok
  have hwf := serInfo_WF C m h cs hashes schemes ok
  have h8 := length_le_serChunks_length C (cs.zip schemes)
  rw [serialize_bytes, List.append_assoc] at hsize
  simp only [List.length_append, le32_length] at hsize
  have hloop := streamLoop_serialized P C hC m hm (serInfo C h cs hashes schemes) hwf hil (cs.zip schemes)
    ((serialize C h cs hashes schemes).bytes.length + 1) ⟨[], []⟩
    (by rw [serialize_bytes, List.append_assoc]; simp only [List.length_append]; omega)
    (fun p hp => ok.chunkMax p.1 (List.of_mem_zip hp).1)
    (by simp only [List.getLastD_nil, u32Max]; omega)
  simp only [List.getLastD_nil, List.nil_append] at hloop
  have hmeta : (cs.zip schemes).map (fun p => (P.dataHash p.1, p.1.length)) = chunkMeta P cs :=
    zip_map_fst cs schemes ok.schemesLen (fun d => (P.dataHash d, d.length))
  rw [hmeta] at hloop
  have hchk := streamFooterCheck_eq h' (serInfo C h cs hashes schemes)
    ⟨runningSums 0 (physSizes C (cs.zip schemes)), chunkMeta P cs⟩
    (by rw [serInfo_numChunks]; simp [chunkMeta])
    (serInfo_boundaries C h cs hashes schemes)
    (by rw [serInfo_hashes, hhs, chunkMeta_fst])
    (by rw [serInfo_unpacked, chunkMeta_snd])
    (by simp only [chunkMeta_snd]
        intro y hy
        have := runningSums_le 0 _ y hy
        have := ok.unpackedSize
        simp only [u32Max]; omega)
  rw [serInfo_cashash] at hchk
  have hcas := serialize_cas C h cs hashes schemes
  have hb : (serialize C h cs hashes schemes).bytes = serChunks C (cs.zip schemes) ++
      ((serInfo C h cs hashes schemes).bytes ++ le32 (serInfo C h cs hashes schemes).bytes.length) := by
    rw [serialize_bytes, List.append_assoc]
  rw [← hb] at hloop
  generalize serInfo C h cs hashes schemes = info at *
  generalize serialize C h cs hashes schemes = s at *
  unfold validateStream
  rw [hloop]
  simp only [hchk, hcas]
  by_cases hc : h = h'
  · subst hc
    simp only [ne_eq, not_true_eq_false, if_false, true_and]
    by_cases hr : Merkle.validatorRoot P (chunkMeta P cs) [] = h
    · rw [if_neg (fun hn => hn hr), if_pos hr]
    · rw [if_pos hr, if_neg hr]
  · rw [if_pos hc]
    simp only []
    rw [if_neg (fun hn => hc hn.1)]

/-! ## 4. no panic -/

theorem walkChunks_no_panic (P : HashPrims) (C : Codec) (m : Nat) (obj : Bytes) (info : Info)
    (hobj : obj.length + m * 2 + 8 ≤ u32Max) :
    ∀ (k idx : Nat) (st : WalkState), idx + k ≤ info.hashes.length → idx + k ≤ info.boundaries.length →
      (info.boundariesVersion = boundariesVersion → idx + k ≤ info.unpacked.length) →
      st.cumComp = st.start → st.unp + k * m ≤ u32Max →
      walkChunks P C m obj info k idx st ≠ .error (.error .panic) := by
  intro k
  induction k with
  | zero => intro idx st _ _ _ _ _ h; simp [walkChunks] at h
  | succ k ih =>
    intro idx st hH hB hU hcs hunp h
    rw [Nat.succ_mul] at hunp
    rw [walkChunks] at h
    split at h; · cases h
    rename_i hstart
    split at h
    · cases h
    · rename_i e hne he
      injection h with h; injection h with h; subst h
      rcases deserializeChunkSync_err he with h | h | h <;> cases h
    rename_i r hr
    have hb := deserializeChunkSync_bounds hr
    simp only [] at h
    split at h
    · rename_i hov; omega
    split at h
    · rename_i hnone
      rw [List.getElem?_eq_none_iff] at hnone; omega
    split at h; · cases h
    split at h
    · rename_i hnone
      rw [List.getElem?_eq_none_iff] at hnone; omega
    rename_i b hbb
    split at h
    · rename_i hov; omega
    split at h; · cases h
    rename_i hbe
    have hbe' : st.start + r.consumed = b := by simpa using hbe
    subst hbe'
    split at h
    · rename_i hv
      split at h
      · rename_i hnone
        rw [List.getElem?_eq_none_iff] at hnone; have := hU hv; omega
      split at h; · cases h
      exact ih _ _ (by omega) (by omega) (fun hv => by have := hU hv; omega) (by simp only []; omega)
        (by simp only []; omega) h
    · exact ih _ _ (by omega) (by omega) (fun hv => by have := hU hv; omega) (by simp only []; omega)
        (by simp only []; omega) h

/-- the seekable validator does not panic when the object (plus one maximal chunk) fits `u32` and the
    declared chunk count times the chunk-size cap fits `u32` -/
theorem validate_no_panic (P : HashPrims) (C : Codec) (m : Nat) (obj : Bytes) (h : Hash)
    (hobj : obj.length + m * 2 + 8 ≤ u32Max)
    (hdecl : ∀ cas, deserialize obj = .ok cas → cas.info.numChunks * m ≤ u32Max) :
    validate P C m obj h ≠ .error .panic := by
  intro hv
  unfold validate at hv
  split at hv
  · cases hv
  · rename_i e hne he
    injection hv with hv; subst hv
    rcases deserialize_err _ _ he with h | h | h <;> cases h
  rename_i cas hd
  have ds := deserialize_spec _ _ hd
  split at hv
  · rename_i v hw
    subst hv
    exact walkChunks_no_panic P C m obj cas.info hobj _ _ _ (by rw [ds.ok.hashesLen]; omega)
      (by rw [ds.ok.bndLen]; omega) (fun hv => by rw [ds.ok.unpLen hv]; omega) rfl
      (by have := hdecl cas hd; simp only []; omega) hw
  split at hv
  · have := ds.fits; omega
  simp only [] at hv
  split at hv; · cases hv
  split at hv <;> cases hv

theorem streamLoop_no_panic (P : HashPrims) (C : Codec) (m : Nat) :
    ∀ (fuel : Nat) (input : Bytes) (st : StreamState), st.bnds.getLastD 0 + input.length ≤ u32Max →
      streamLoop P C m fuel input st ≠ .error .panic := by
  intro fuel
  induction fuel with
  | zero => intro input st _ h; simp [streamLoop] at h
  | succ fuel ih =>
    intro input st hb h
    rw [streamLoop] at h
    split at h; · cases h
    split at h; · cases h
    simp only [] at h
    split at h; · cases h
    split at h
    · split at h
      · rename_i e he
        injection h with h; subst h
        rcases deserializeAsyncV1_err _ _ he with h | h <;> cases h
      · cases h
    split at h; · cases h
    split at h
    · rename_i e he
      injection h with h; subst h
      rcases parseChunkHeader_err he with h | h <;> cases h
    rename_i hd hhd
    split at h; · cases h
    rename_i hlen
    simp only [List.length_drop] at hlen
    split at h
    · cases h
    · cases h
    split at h; · cases h
    split at h
    · rename_i hov; omega
    exact ih _ _ (by simp only [getLastD_concat', List.length_drop]; omega) h

/-- chunk-count and size bounds of a decoded segment -/
theorem Seg.bounds {C : Codec} {m : Nat} {input : Bytes} {cs : List Bytes} {sz : List Nat}
    (h : Seg (deserializeChunkAsync C m) input cs sz) :
    8 * cs.length ≤ sz.sum ∧ (cs.map (·.length)).sum ≤ cs.length * m := by
  induction h with
  | nil => simp
  | cons hr _ ih =>
    rw [deserializeChunkAsync_ok_iff] at hr
    have hb := deserializeChunkSync_bounds hr.1
    simp only [List.length_cons, List.sum_cons, List.map_cons, Nat.succ_mul]
    omega

theorem validateStream_no_panic (P : HashPrims) (C : Codec) (m : Nat) (obj : Bytes) (h : Hash)
    (hobj : obj.length ≤ u32Max)
    (hunp : ∀ cs sz, Seg (deserializeChunkAsync C m) obj cs sz → sz.sum ≤ obj.length →
      (cs.map (·.length)).sum ≤ u32Max) :
    validateStream P C m obj h ≠ .error .panic := by
  intro hv
  unfold validateStream at hv
  split at hv
  · cases hv
  · rename_i e hne he
    injection hv with hv; subst hv
    exact streamLoop_no_panic P C m _ _ _ (by simpa using hobj) he
  rename_i st mcas goBack hl
  obtain ⟨cs, sz, sp⟩ := streamLoop_sound P C m _ _ _ _ (by omega) hl
  cases mcas with
  | some c =>
    simp only [] at hv
    split at hv
    · cases hv
    · rename_i e hne he
      injection hv with hv; subst hv
      rcases streamFooterCheck_err _ _ _ _ he with h | ⟨_, hany⟩
      · cases h
      · have hch := sp.chunks
        simp only [List.nil_append] at hch
        rw [hch, chunkMeta_snd] at hany
        simp only [List.any_eq_true, decide_eq_true_eq] at hany
        obtain ⟨y, hy, hgt⟩ := hany
        have := runningSums_le 0 _ y hy
        have := hunp cs sz sp.seg sp.fits
        omega
    · split at hv <;> cases hv
  | none =>
    simp only [] at hv
    split at hv <;> cases hv

/-- sufficient arithmetic condition for the unpacked-size hypothesis: every chunk occupies at least its
    8 header bytes and unpacks to at most `maxChunk` bytes -/
theorem validateStream_no_panic' (P : HashPrims) (C : Codec) (m : Nat) (obj : Bytes) (h : Hash)
    (hobj : obj.length ≤ u32Max) (hunp : obj.length / 8 * m ≤ u32Max) :
    validateStream P C m obj h ≠ .error .panic := by
  apply validateStream_no_panic P C m obj h hobj
  intro cs sz hseg hfit
  have hb := hseg.bounds
  have : cs.length ≤ obj.length / 8 := by omega
  have := Nat.mul_le_mul_right m this
  omega

/-- pure length form of the declared-count hypothesis: every declared chunk costs ≥ 36 footer bytes -/
theorem validate_no_panic' (P : HashPrims) (C : Codec) (m : Nat) (obj : Bytes) (h : Hash)
    (hobj : obj.length + m * 2 + 8 ≤ u32Max) (hdecl : obj.length / 36 * m ≤ u32Max) :
    validate P C m obj h ≠ .error .panic := by
  apply validate_no_panic P C m obj h hobj
  intro cas hd
  have ds := deserialize_spec _ _ hd
  have := ds.size; have := ds.fits
  have : cas.info.numChunks ≤ obj.length / 36 := by omega
  have := Nat.mul_le_mul_right m this
  omega

/-! ## 5. more about `DecodesTo` -/

theorem DecodesWith.mono {one one' : Bytes → Except Err ChunkRead}
    (hm : ∀ input r, one input = .ok r → one' input = .ok r) {input : Bytes} {cs : List Bytes} {sz : List Nat}
    (h : DecodesWith one input cs sz) : DecodesWith one' input cs sz := by
  induction h with
  | nil => exact .nil
  | cons hr hl _ ih => exact .cons (hm _ _ hr) hl ih

/-- whatever the asynchronous decoder decodes, the synchronous one decodes identically -/
theorem DecodesToAsync.toSync {C : Codec} {m : Nat} {input : Bytes} {cs : List Bytes} {sz : List Nat}
    (h : DecodesToAsync C m input cs sz) : DecodesTo C m input cs sz :=
  DecodesWith.mono (fun _ _ hr => ((deserializeChunkAsync_ok_iff C m _ _).mp hr).1) h

/-- a byte string decodes in at most one way -/
theorem DecodesWith.unique {one : Bytes → Except Err ChunkRead} (h0 : ∀ r, one [] ≠ .ok r)
    {input : Bytes} {cs cs' : List Bytes} {sz sz' : List Nat}
    (h : DecodesWith one input cs sz) (h' : DecodesWith one input cs' sz') : cs = cs' ∧ sz = sz' := by
  induction h generalizing cs' sz' with
  | nil =>
    cases h' with
    | nil => exact ⟨rfl, rfl⟩
    | cons hr _ _ => exact absurd hr (h0 _)
  | cons hr hl _ ih =>
    cases h' with
    | nil => exact absurd hr (h0 _)
    | cons hr' hl' hrest' =>
      rw [hr] at hr'
      injection hr' with hr'
      subst hr'
      obtain ⟨e1, e2⟩ := ih hrest'
      rw [e1, e2]; exact ⟨rfl, rfl⟩

theorem DecodesTo.unique {C : Codec} {m : Nat} {input : Bytes} {cs cs' : List Bytes} {sz sz' : List Nat}
    (h : DecodesTo C m input cs sz) (h' : DecodesTo C m input cs' sz') : cs = cs' ∧ sz = sz' :=
  DecodesWith.unique (fun r hr => by simp [deserializeChunkSync, chunkHeaderLen] at hr) h h'

theorem DecodesWith.length_eq {one : Bytes → Except Err ChunkRead} {input : Bytes} {cs : List Bytes} {sz : List Nat}
    (h : DecodesWith one input cs sz) : cs.length = sz.length ∧ sz.sum = input.length := by
  induction h with
  | nil => simp
  | cons _ hl _ ih =>
    simp only [List.length_cons, List.sum_cons, ih.1, true_and]
    have := ih.2
    simp only [List.length_drop] at this
    omega

/-- the chunk area of a serialized object decodes (in the sense of `DecodesTo`) to the chunks it
    was built from -/
theorem decodesTo_serChunks (C : Codec) (hC : C.RoundTrip) (m : Nat) (hm : m * 2 < 2 ^ 24)
    (ps : List (Bytes × Scheme)) (hps : ∀ p ∈ ps, p.1.length ≤ m) :
    DecodesTo C m (serChunks C ps) (ps.map (·.1)) (physSizes C ps) := by
  induction ps with
  | nil => exact .nil
  | cons p ps ih =>
    have hr := deserializeChunkSync_serializeChunk C hC Bg4.regroup_split m hm p.2 p.1 (serChunks C ps)
      (hps p (by simp))
    have := DecodesWith.cons (one := deserializeChunkSync C m) hr (cs := ps.map (·.1)) (sz := physSizes C ps)
      (by simp only [List.length_append]; omega)
      (by simp only [drop_append_of_length _ _ _ rfl]; exact ih (fun q hq => hps q (by simp [hq])))
    exact this

end Xet.Xorb
