/-
Invariants behind the disk part of C13 (`XetProps/C13Disk.lean`):

 * every step of the concurrent semantics changes the in-memory state only through the three
   lock-protected sections (`remove_item`, the commit of `put`, setting a verification flag) and
   the file system only through `writeItemFile`, `unlinkFile`, `checkRemoveDir`
   (`step_ind` / `run_ind`: an induction principle for state and file-system invariants);
 * `ND`: no key occurs twice in the state and no item occurs twice under a key;
 * `CapInv`: the byte total is within the capacity or at most one entry is tracked;
 * `FsWF`: the cache directory contains nothing but prefix directories, key directories and item
   files the cache created, no path twice, every entry inside an existing directory, and the
   length of every item file agrees (mod 2^64) with the length field of its name;
 * counting: sums over duplicate-free lists (`sum_le_of_nodup_subset`), the flattened list of
   tracked `(key, item)` pairs (`pairs`).
Core only.
-/
import XetProofs.CacheFiles

namespace Xet.Cache

/-! ### an induction principle for the steps -/

section Ind

variable (P : CState → Prop) (Q : FS → Prop)

/-- closure conditions for a state predicate `P` (for capacity `cap`, variant `fixed`) -/
structure StClosed (fixed : Bool) (cap : Nat) (P : CState → Prop) : Prop where
  verify : ∀ (st : CState) (v : List Nat), P st → P { st with verified := v }
  remove : ∀ (st st' : CState) (k : Key) (it : Item), removeItemLocked st k it = .ok (some st') → P st → P st'
  commit : ∀ (st : CState) (k : Key) (it : Item) (ch : List EvChoice) (out : CommitOut),
    commit fixed cap st k it ch = .ok out → P st → P out.st

/-- closure conditions for a file-system predicate `Q` -/
structure FsClosed (Q : FS → Prop) : Prop where
  write : ∀ (fs fs' : FS) (k : Key) (it : Item) (content : Bytes),
    writeItemFile fs k it content = some fs' → UInt64.ofNat content.length = it.len → Q fs → Q fs'
  unlink : ∀ (fs : FS) (k : Key) (it : Item), Q fs → Q (unlinkFile fs (itemPath k it))
  rmdir : ∀ (fs : FS) (k : Key), Q fs → Q (checkRemoveDir fs k)

/-- the conclusion: `P`, `Q` hold again, the capacity is unchanged -/
def IndPost (w w' : World) : Prop := P w'.st ∧ Q w'.fs ∧ w'.cap = w.cap

variable {P Q}

theorem IndPost.refl {w : World} (hp : P w.st) (hq : Q w.fs) : IndPost P Q w w := ⟨hp, hq, rfl⟩

theorem removeSeg_ind {fixed : Bool} {w : World} (hP : StClosed fixed w.cap P) (op : Op) (it : Item)
    (hp : P w.st) (hq : Q w.fs) : IndPost P Q w (removeSeg w op it).w := by
  unfold removeSeg
  split
  · exact ⟨hp, hq, rfl⟩
  · split
    · exact ⟨hp, hq, rfl⟩
    · exact ⟨hp, hq, rfl⟩
    · rw [findSeg_w]; exact ⟨hp, hq, rfl⟩
    · rename_i st' hrm
      exact ⟨hP.remove _ _ _ _ hrm hp, hq, rfl⟩

theorem markVerified_ind {fixed : Bool} {w : World} (hP : StClosed fixed w.cap P) (cid : Nat)
    (hp : P w.st) (hq : Q w.fs) : IndPost P Q w (markVerified w cid) := by
  unfold markVerified
  split
  · exact ⟨hp, hq, rfl⟩
  · exact ⟨hP.verify _ _ hp, hq, rfl⟩

theorem getMatchedSeg_ind {fixed : Bool} (crc : Bytes → UInt32) {w : World} (hP : StClosed fixed w.cap P)
    (op : Op) (c : Cell) (hp : P w.st) (hq : Q w.fs) : IndPost P Q w (getMatchedSeg crc w op c).w := by
  unfold getMatchedSeg
  split
  · exact removeSeg_ind hP op c.item hp hq
  · exact ⟨hp, hq, rfl⟩
  · split
    · exact removeSeg_ind hP op c.item hp hq
    · dsimp only
      obtain ⟨a, b, d⟩ := markVerified_ind (Q := Q) hP c.cid hp hq
      split
      · have hP' : StClosed fixed (markVerified w c.cid).cap P := by rw [d]; exact hP
        obtain ⟨a', b', d'⟩ := removeSeg_ind (w := markVerified w c.cid) hP' op c.item a b
        exact ⟨a', b', d'.trans d⟩
      · exact ⟨a, b, d⟩

theorem putMatchedSeg_ind {fixed : Bool} (crc : Bytes → UInt32) {w : World} (hP : StClosed fixed w.cap P)
    (op : Op) (offs : List Nat) (data : Bytes) (c : Cell) (hp : P w.st) (hq : Q w.fs) :
    IndPost P Q w (putMatchedSeg crc w op offs data c).w := by
  unfold putMatchedSeg
  split
  · exact removeSeg_ind hP op c.item hp hq
  · exact ⟨hp, hq, rfl⟩
  · split
    · exact removeSeg_ind hP op c.item hp hq
    · split
      · exact removeSeg_ind hP op c.item hp hq
      · split
        · exact removeSeg_ind hP op c.item hp hq
        · dsimp only
          split
          · split
            · split <;> exact ⟨hp, hq, rfl⟩
            · exact ⟨hp, hq, rfl⟩
          · exact ⟨hp, hq, rfl⟩

theorem mkItem_len (crc : Bytes → UInt32) (r : Range) (offs : List Nat) (data : Bytes) :
    UInt64.ofNat (headerBytes offs ++ data).length = (mkItem crc r offs data).len := by
  simp [mkItem]

theorem segment_ind {fixed : Bool} (crc : Bytes → UInt32) {w : World} (hP : StClosed fixed w.cap P)
    (hQ : FsClosed Q) (pc : PC) (o : Oracle) (s : Seg) (hp : P w.st) (hq : Q w.fs)
    (h : segment crc fixed w pc o = some s) : IndPost P Q w s.w := by
  unfold segment at h
  split at h
  · cases h
  · cases h
  · split at h
    · cases h; exact getMatchedSeg_ind crc hP _ _ hp hq
    · cases h; exact putMatchedSeg_ind crc hP _ _ _ _ hp hq
  · split at h
    · cases h
    · rename_i k r offs data
      dsimp only at h
      split at h
      · cases h; exact ⟨hp, hq, rfl⟩
      · rename_i fs' hwr
        cases h
        exact ⟨hp, hQ.write _ _ _ _ _ hwr (mkItem_len crc r offs data) hq, rfl⟩
  · split at h
    · cases h; exact ⟨hp, hq, rfl⟩
    · rename_i k it _
      split at h
      · cases h
      · cases h; exact ⟨hp, hq, rfl⟩
      · rename_i out hc
        cases h
        rw [unlinkNext_w]
        exact ⟨hP.commit _ _ _ _ _ hc hp, hq, rfl⟩
  · split at h
    · cases h; rw [unlinkNext_w]; exact ⟨hp, hQ.unlink _ _ _ hq, rfl⟩
    · split at h
      · cases h
      · split at h
        · cases h
        · cases h; rw [unlinkNext_w]; exact ⟨hp, hQ.rmdir _ _ (hQ.unlink _ _ _ hq), rfl⟩
  · cases h
    rw [findSeg_w]
    refine ⟨hp, ?_, rfl⟩
    dsimp only
    split
    · exact hq
    · exact hQ.rmdir _ _ (hQ.unlink _ _ _ hq)

theorem step_ind {fixed : Bool} (crc : Bytes → UInt32) {w w' : World} (hP : StClosed fixed w.cap P)
    (hQ : FsClosed Q) (a : Action) (hp : P w.st) (hq : Q w.fs)
    (h : step crc fixed w a = some w') : IndPost P Q w w' := by
  unfold step at h
  split at h
  · split at h
    · cases h; simp only [IndPost, startSeg_w]; exact ⟨hp, hq, trivial⟩
    · cases h; simp only [IndPost, startSeg_w]; exact ⟨hp, hq, trivial⟩
    · cases h
  · split at h
    · cases h
    · rename_i pc _
      split at h
      · cases h
      · rename_i s hs
        cases h
        exact segment_ind crc hP hQ pc _ s hp hq hs

theorem run_ind {fixed : Bool} (crc : Bytes → UInt32) (hQ : FsClosed Q) : ∀ (as : List Action) (w w' : World),
    StClosed fixed w.cap P → P w.st → Q w.fs → run crc fixed w as = some w' → IndPost P Q w w' := by
  intro as
  induction as with
  | nil => intro w w' _ hp hq h; simp [run] at h; subst h; exact ⟨hp, hq, rfl⟩
  | cons a as ih =>
    intro w w' hP hp hq h
    unfold run at h
    split at h
    · cases h
    · rename_i w1 h1
      obtain ⟨a1, b1, d1⟩ := step_ind crc hP hQ a hp hq h1
      have hP1 : StClosed fixed w1.cap P := by rw [d1]; exact hP
      obtain ⟨a2, b2, d2⟩ := ih w1 w' hP1 a1 b1 h
      exact ⟨a2, b2, d2.trans d1⟩

end Ind

/-! ### association-list facts -/

theorem getK_setK (m : Items) (k : Key) (v : List Cell) (k' : Key) :
    getK (setK m k v) k' = if k' = k then v else getK m k' := by
  induction m with
  | nil =>
    by_cases h : k' = k
    · subst h; simp [setK, getK, lookupK]
    · have h' : ¬ k = k' := fun e => h e.symm
      simp [setK, getK, lookupK, h, h']
  | cons e rest ih =>
    obtain ⟨q, w⟩ := e
    by_cases hq : q = k
    · subst hq
      by_cases h : k' = q
      · subst h; simp [setK, getK, lookupK]
      · have h' : ¬ q = k' := fun e => h e.symm
        simp [setK, getK, lookupK, h, h']
    · simp only [setK, hq, if_false]
      by_cases h : q = k'
      · subst h
        have : ¬ q = k := hq
        simp [getK, lookupK, this]
      · simp only [getK, lookupK, h, if_false]
        exact ih

theorem keys_setK (m : Items) (k : Key) (v : List Cell) :
    (setK m k v).map Prod.fst = if k ∈ m.map Prod.fst then m.map Prod.fst else m.map Prod.fst ++ [k] := by
  induction m with
  | nil => simp [setK]
  | cons e rest ih =>
    obtain ⟨q, w⟩ := e
    by_cases hq : q = k
    · subst hq; simp [setK]
    · have hq' : ¬ k = q := fun e => hq e.symm
      simp only [setK, hq, if_false, List.map_cons, ih, List.mem_cons, hq', false_or]
      split <;> simp

theorem getK_eraseK_ne (m : Items) {k k' : Key} (h : k' ≠ k) : getK (eraseK m k) k' = getK m k' := by
  induction m with
  | nil => rfl
  | cons e rest ih =>
    obtain ⟨q, w⟩ := e
    by_cases hq : q = k
    · subst hq
      have : ¬ q = k' := fun e => h e.symm
      simp [eraseK, getK, lookupK, this]
    · simp only [eraseK, hq, if_false]
      by_cases h2 : q = k'
      · simp [getK, lookupK, h2]
      · simp only [getK, lookupK, h2, if_false]
        exact ih

theorem keys_eraseK_sublist (m : Items) (k : Key) : List.Sublist ((eraseK m k).map Prod.fst) (m.map Prod.fst) := by
  induction m with
  | nil => exact List.Sublist.slnil
  | cons e rest ih =>
    obtain ⟨q, w⟩ := e
    by_cases hq : q = k
    · simp only [eraseK, hq, if_true, List.map_cons]
      exact List.sublist_cons_self _ _
    · simp only [eraseK, hq, if_false, List.map_cons]
      exact ih.cons_cons _

theorem getK_eq_nil_of_not_mem {m : Items} {k : Key} (h : k ∉ m.map Prod.fst) : getK m k = [] := by
  induction m with
  | nil => rfl
  | cons e rest ih =>
    obtain ⟨q, w⟩ := e
    simp only [List.map_cons, List.mem_cons, not_or] at h
    have : ¬ q = k := fun e => h.1 e.symm
    simp only [getK, lookupK, this, if_false]
    exact ih h.2

theorem getK_eraseK_self {m : Items} {k : Key} (h : (m.map Prod.fst).Nodup) : getK (eraseK m k) k = [] := by
  induction m with
  | nil => rfl
  | cons e rest ih =>
    obtain ⟨q, w⟩ := e
    simp only [List.map_cons, List.nodup_cons] at h
    by_cases hq : q = k
    · subst hq
      simp only [eraseK, if_true]
      exact getK_eq_nil_of_not_mem h.1
    · simp only [eraseK, hq, if_false, getK, lookupK]
      exact ih h.2

/-- under duplicate-free keys an entry is tracked iff it is in the list `getK` finds -/
theorem trackedIn_iff_getK {m : Items} (h : (m.map Prod.fst).Nodup) (k : Key) (c : Cell) :
    TrackedIn m k c ↔ c ∈ getK m k := by
  constructor
  · intro ⟨v, hm, hc⟩
    induction m with
    | nil => cases hm
    | cons e rest ih =>
      obtain ⟨q, w⟩ := e
      simp only [List.map_cons, List.nodup_cons] at h
      simp only [List.mem_cons] at hm
      rcases hm with hm | hm
      · injection hm with e1 e2
        subst e1 e2
        simp [getK, lookupK, hc]
      · have hq : ¬ q = k := by
          intro e; subst e
          exact h.1 (List.mem_map.mpr ⟨(q, v), hm, rfl⟩)
        simp only [getK, lookupK, hq, if_false]
        exact ih h.2 hm
  · exact trackedIn_getK

/-! ### no key twice, no item twice under a key -/

def ItemsND (l : List Cell) : Prop := (l.map Cell.item).Nodup

structure ND (m : Items) : Prop where
  keys : (m.map Prod.fst).Nodup
  cells : ∀ k : Key, ItemsND (getK m k)

theorem ND.nil : ND [] := ⟨List.nodup_nil, fun _ => List.nodup_nil⟩

theorem ND.setK {m : Items} (h : ND m) (k : Key) {v : List Cell} (hv : ItemsND v) : ND (setK m k v) := by
  constructor
  · rw [keys_setK]
    split
    · exact h.keys
    · rename_i hk
      rw [List.nodup_append]
      exact ⟨h.keys, by simp, fun a ha b hb => by simp at hb; subst hb; intro e; subst e; exact hk ha⟩
  · intro k'
    rw [getK_setK]
    split
    · exact hv
    · exact h.cells k'

theorem ND.eraseK {m : Items} (h : ND m) (k : Key) : ND (eraseK m k) := by
  constructor
  · exact (keys_eraseK_sublist m k).nodup h.keys
  · intro k'
    by_cases hk : k' = k
    · subst hk; rw [getK_eraseK_self h.keys]; exact List.nodup_nil
    · rw [getK_eraseK_ne m hk]; exact h.cells k'

theorem ItemsND.eraseIdx {l : List Cell} (h : ItemsND l) (i : Nat) : ItemsND (l.eraseIdx i) :=
  ((List.eraseIdx_sublist l i).map Cell.item).nodup h

theorem nodup_set_of_snoc {α : Type} : ∀ {xs : List α} {a : α} (i : Nat), (xs ++ [a]).Nodup → (xs.set i a).Nodup := by
  intro xs
  induction xs with
  | nil => intro a i _; simp
  | cons x xs ih =>
    intro a i h
    simp only [List.cons_append, List.nodup_cons, List.mem_append, List.mem_singleton, not_or] at h
    cases i with
    | zero =>
      simp only [List.set_cons_zero, List.nodup_cons]
      rw [List.nodup_append] at h
      refine ⟨?_, h.2.1⟩
      intro ha
      exact h.2.2.2 a ha a (by simp) rfl
    | succ j =>
      simp only [List.set_cons_succ, List.nodup_cons]
      refine ⟨?_, ih j h.2⟩
      intro hx
      rcases List.mem_or_eq_of_mem_set hx with h1 | h1
      · exact h.1.1 h1
      · exact h.1.2 h1

theorem ItemsND.swapRemove {l : List Cell} (h : ItemsND l) (i : Nat) : ItemsND (swapRemove l i) := by
  unfold Xet.Cache.swapRemove
  cases hl : l.getLast? with
  | none => exact List.nodup_nil
  | some z =>
    dsimp only
    have hne : l ≠ [] := by intro e; subst e; simp at hl
    obtain ⟨ys, z', rfl⟩ : ∃ ys z, l = ys ++ [z] := ⟨l.dropLast, l.getLast hne, (List.dropLast_concat_getLast hne).symm⟩
    simp at hl
    subst hl
    simp only [List.dropLast_concat]
    unfold ItemsND at *
    rw [List.map_set]
    apply nodup_set_of_snoc
    simpa using h

/-! ### after the removal loop of `put` no subsumed entry is left -/

theorem DescBelow.lt_of_mem {n : Nat} {is : List Nat} (h : DescBelow n is) : ∀ x ∈ is, x < n := by
  induction is generalizing n with
  | nil => intro x hx; cases hx
  | cons i rest ih =>
    intro x hx
    simp only [List.mem_cons] at hx
    rcases hx with rfl | hx
    · exact h.1
    · exact Nat.lt_trans (ih h.2 x hx) h.1

/-- `is` lists exactly the positions of the subsumed entries -/
def SubIdx (new : Item) (cells : List Cell) (is : List Nat) : Prop :=
  ∀ (j : Nat) (c : Cell), cells[j]? = some c → (isSub new c = true ↔ j ∈ is)

theorem subsumedIdx_mem (new : Item) : ∀ (cs : List Cell) (i j : Nat) (c : Cell), cs[j]? = some c →
    (isSub new c = true ↔ (i + j) ∈ subsumedIdx new i cs) := by
  intro cs
  induction cs with
  | nil => intro i j c h; simp at h
  | cons c0 cs ih =>
    intro i j c h
    cases j with
    | zero =>
      simp at h
      subst h
      unfold subsumedIdx
      split
      · rename_i hs; simp [hs]
      · rename_i hs
        simp only [hs, Nat.add_zero]
        constructor
        · intro h; cases h
        · intro hm
          have := subsumedIdx_bounds new (i + 1) cs i hm
          omega
    | succ j' =>
      simp at h
      have := ih (i + 1) j' c h
      have e : i + (j' + 1) = i + 1 + j' := by omega
      unfold subsumedIdx
      split
      · rw [this, e]
        simp only [List.mem_cons]
        constructor
        · exact fun h => Or.inr h
        · intro h
          rcases h with h | h
          · omega
          · exact h
      · rw [this, e]

theorem subIdx_init (new : Item) (cells : List Cell) : SubIdx new cells (subsumedIdx new 0 cells).reverse := by
  intro j c h
  have := subsumedIdx_mem new cells 0 j c h
  simpa using this

theorem swapRemove_getElem? {l : List Cell} {i j : Nat} {c : Cell} (hi : i < l.length)
    (h : (swapRemove l i)[j]? = some c) :
    (j ≠ i ∧ l[j]? = some c) ∨ (j = i ∧ i + 1 < l.length ∧ l[l.length - 1]? = some c) := by
  have hne : l ≠ [] := by intro e; simp [e] at hi
  obtain ⟨ys, z, rfl⟩ : ∃ ys z, l = ys ++ [z] := ⟨l.dropLast, l.getLast hne, (List.dropLast_concat_getLast hne).symm⟩
  have hl : (ys ++ [z]).getLast? = some z := by simp
  unfold swapRemove at h
  rw [hl] at h
  simp only [List.dropLast_concat] at h
  rw [List.getElem?_set] at h
  by_cases hij : i = j
  · subst hij
    simp only [if_true] at h
    split at h
    · rename_i hlt
      right
      injection h with h
      subst h
      refine ⟨rfl, by simp; omega, by simp⟩
    · cases h
  · simp only [hij, if_false] at h
    left
    refine ⟨fun e => hij e.symm, ?_⟩
    have hj : j < ys.length := by
      rcases Nat.lt_or_ge j ys.length with hj | hj
      · exact hj
      · rw [List.getElem?_eq_none hj] at h; cases h
    rw [List.getElem?_append_left hj]
    exact h

theorem subIdx_step {new : Item} {cells : List Cell} {i : Nat} {rest : List Nat}
    (h : SubIdx new cells (i :: rest)) (hd : DescBelow cells.length (i :: rest)) :
    SubIdx new (swapRemove cells i) rest := by
  have hlt := hd.2.lt_of_mem
  intro j c hj
  rcases swapRemove_getElem? hd.1 hj with ⟨hne, hc⟩ | ⟨he, hlen, hc⟩
  · rw [h j c hc]
    simp [hne]
  · subst he
    have := h (cells.length - 1) c hc
    have hn : cells.length - 1 ∉ j :: rest := by
      simp only [List.mem_cons, not_or]
      refine ⟨by omega, fun hm => ?_⟩
      have := hlt _ hm
      omega
    have hf : ¬ isSub new c = true := fun hs => hn (this.mp hs)
    constructor
    · intro hs; exact absurd hs hf
    · intro hm; have := hlt _ hm; omega

theorem rmFold_subIdx (fixed : Bool) (new : Item) : ∀ (is : List Nat) (acc : RmAcc),
    DescBelow acc.cells.length is → SubIdx new acc.cells is → ItemsND acc.cells →
    SubIdx new (is.foldl (rmStep fixed new) acc).cells [] ∧ ItemsND (is.foldl (rmStep fixed new) acc).cells := by
  intro is
  induction is with
  | nil => intro acc _ h hn; exact ⟨h, hn⟩
  | cons i rest ih =>
    intro acc hd h hn
    have hc := (rmStep_spec fixed new acc i hd.1).1
    obtain ⟨hl, _⟩ := swapRemove_spec acc.cells i hd.1
    have hi := hd.1
    simp only [List.foldl_cons]
    apply ih
    · rw [hc]; exact hd.2.mono (by omega)
    · rw [hc]; exact subIdx_step h hd
    · rw [hc]; exact hn.swapRemove i

theorem removeSubsumed_clean (fixed : Bool) (new : Item) (cells : List Cell) (hn : ItemsND cells) :
    (∀ c ∈ (removeSubsumed fixed new cells).cells, isSub new c = false) ∧
    ItemsND (removeSubsumed fixed new cells).cells := by
  obtain ⟨a, b⟩ := rmFold_subIdx fixed new (subsumedIdx new 0 cells).reverse ⟨cells, 0, []⟩
    (subsumedIdx_desc new cells) (subIdx_init new cells) hn
  refine ⟨?_, b⟩
  intro c hc
  obtain ⟨j, hj⟩ := List.mem_iff_getElem?.mp hc
  have := a j c hj
  simp at this
  simpa [removeSubsumed] using this

theorem isSub_self (it : Item) (c : Cell) (h : c.item = it) : isSub it c = true := by
  subst h; simp [isSub]

/-! ### `ND` is kept by the three lock-protected sections -/

theorem evictLoop_nd (toRemove : Int) : ∀ (choices : List EvChoice) (st : CState) (removed : Int)
    (acc : List (Key × Item)) (out : EvOut), evictLoop toRemove st removed choices acc = .ok out →
    ND st.items → ND out.st.items ∧ (∀ k c, c ∈ getK out.st.items k → c ∈ getK st.items k) ∧
      out.st.numItems ≤ st.numItems := by
  intro choices
  induction choices with
  | nil =>
    intro st removed acc out h hn
    unfold evictLoop at h
    split at h
    · cases h
    · cases h; exact ⟨hn, fun _ _ h => h, Nat.le_refl _⟩
  | cons ch rest ih =>
    intro st removed acc out h hn
    obtain ⟨k, i⟩ := ch
    unfold evictLoop at h
    split at h
    · cases h
    · split at h
      · cases h
      · rename_i cells hk
        split at h
        · cases h
        · split at h
          · cases h
          · have hg : getK st.items k = cells := getK_of_lookup hk
            have hcn : ItemsND (cells.eraseIdx i) := by rw [← hg]; exact (hn.cells k).eraseIdx i
            have hn1 : ND (if (cells.eraseIdx i).isEmpty then eraseK st.items k else setK st.items k (cells.eraseIdx i)) := by
              split
              · exact hn.eraseK k
              · exact hn.setK k hcn
            obtain ⟨a, b, d⟩ := ih _ _ _ out h hn1
            refine ⟨a, ?_, by simp only at d; omega⟩
            intro k' c hc
            have := b k' c hc
            simp only at this
            by_cases hkk : k' = k
            · subst hkk
              rw [hg]
              split at this
              · rw [getK_eraseK_self hn.keys] at this; cases this
              · rw [getK_setK, if_pos rfl] at this
                exact List.mem_of_mem_eraseIdx this
            · split at this
              · rwa [getK_eraseK_ne _ hkk] at this
              · rwa [getK_setK, if_neg hkk] at this

theorem commit_nd {fixed : Bool} {cap : Nat} {st : CState} {k : Key} {it : Item} {choices : List EvChoice}
    {out : CommitOut} (h : commit fixed cap st k it choices = .ok out) (hn : ND st.items) : ND out.st.items := by
  unfold commit at h
  dsimp only at h
  split at h
  · cases h
  · split at h
    · cases h
    · cases h
    · rename_i ev hev
      cases h
      obtain ⟨cl, cn⟩ := removeSubsumed_clean fixed it (getK st.items k) (hn.cells k)
      have hn1 : ND (afterRemove st k (removeSubsumed fixed it (getK st.items k))
          (subsumedIdx it 0 (getK st.items k)).length).items := hn.setK k cn
      obtain ⟨a, b, _⟩ := evictLoop_nd _ _ _ _ _ _ hev hn1
      simp only [addItem]
      apply a.setK
      unfold ItemsND
      rw [List.map_append, List.nodup_append]
      refine ⟨a.cells k, by simp, ?_⟩
      intro x hx y hy
      simp at hy
      subst hy
      intro e
      subst e
      obtain ⟨c, hc, hci⟩ := List.mem_map.mp hx
      have := b k c hc
      simp only [afterRemove, getK_setK, if_true] at this
      have h1 := cl c this
      rw [isSub_self _ c hci] at h1
      cases h1

theorem removeItemLocked_nd {st st' : CState} {k : Key} {it : Item}
    (h : removeItemLocked st k it = .ok (some st')) (hn : ND st.items) :
    ND st'.items ∧ st'.numItems ≤ st.numItems ∧ st'.totalBytes ≤ st.totalBytes := by
  unfold removeItemLocked at h
  split at h
  · cases h; exact ⟨hn, Nat.le_refl _, Nat.le_refl _⟩
  · rename_i cells hk
    split at h
    · cases h
    · rename_i i hi
      split at h
      · cases h
      · cases h
        have hg : getK st.items k = cells := getK_of_lookup hk
        refine ⟨?_, by simp only; omega, by simp only; omega⟩
        simp only
        split
        · exact hn.eraseK k
        · apply hn.setK k
          rw [← hg]
          exact (hn.cells k).swapRemove i

theorem ndClosed (fixed : Bool) (cap : Nat) : StClosed fixed cap (fun st => ND st.items) :=
  ⟨fun _ _ h => h, fun _ _ _ _ h hn => (removeItemLocked_nd h hn).1, fun _ _ _ _ _ h hn => commit_nd h hn⟩

/-! ### the byte total is within the capacity, or at most one entry is tracked -/

theorem removeItemLocked_le {st st' : CState} {k : Key} {it : Item}
    (h : removeItemLocked st k it = .ok (some st')) :
    st'.numItems ≤ st.numItems ∧ st'.totalBytes ≤ st.totalBytes :=
  by
  unfold removeItemLocked at h
  split at h
  · cases h; exact ⟨Nat.le_refl _, Nat.le_refl _⟩
  · split at h
    · cases h
    · split at h
      · cases h
      · cases h; exact ⟨by simp only; omega, by simp only; omega⟩

/-- exact counters and: `total_bytes ≤ capacity`, or at most one entry (an item larger than the
    capacity evicts everything else and stays alone until the next insertion) -/
def CapInv (cap : Nat) (st : CState) : Prop := Exact st ∧ (st.totalBytes ≤ cap ∨ st.numItems ≤ 1)

theorem commit_cap {cap : Nat} {st : CState} {k : Key} {it : Item} {choices : List EvChoice} {out : CommitOut}
    (hex : Exact st) (h : commit true cap st k it choices = .ok out) :
    out.st.totalBytes ≤ cap ∨ out.st.numItems ≤ 1 := by
  have hw := hex.weak
  obtain ⟨r1, r2, r3, _⟩ := removeSubsumed_spec true it (getK st.items k)
  have g1 := getK_length_le_cnt st.items k
  have g2 := getK_sumLen_le_byt st.items k
  have c1 := cnt_setK st.items k (removeSubsumed true it (getK st.items k)).cells
  have c2 := byt_setK st.items k (removeSubsumed true it (getK st.items k)).cells
  have r3' := r3 rfl
  have hex1 : Exact (afterRemove st k (removeSubsumed true it (getK st.items k))
      (subsumedIdx it 0 (getK st.items k)).length) := by
    constructor
    · simp only [afterRemove]; have := hex.1; omega
    · simp only [afterRemove]; have := hex.2; omega
  unfold commit at h
  dsimp only at h
  rw [if_neg (by have := hw.1; have := hw.2; omega)] at h
  have hev := evictLoop_spec
    (((afterRemove st k (removeSubsumed true it (getK st.items k))
        (subsumedIdx it 0 (getK st.items k)).length).totalBytes : Int) - (cap : Int) + (it.len.toNat : Int))
    choices _ 0 [] hex1.weak
  revert hev h
  generalize evictLoop _ _ 0 choices [] = res
  intro h hev
  cases res with
  | illegal => cases h
  | panic => cases h
  | ok ev =>
    cases h
    obtain ⟨_, b, _, _, rf, hrf, hstop⟩ := hev
    have hex2 := b hex1
    simp only [addItem]
    rcases hstop with h | h | h
    · left; omega
    · right; omega
    · right; have := hex2.1; omega

theorem capClosed (cap : Nat) : StClosed true cap (CapInv cap) := by
  refine ⟨fun _ _ h => h, ?_, ?_⟩
  · intro st st' k it h ⟨hex, hc⟩
    have hs := removeItemLocked_spec st k it hex.weak
    rw [h] at hs
    obtain ⟨a, b⟩ := removeItemLocked_le h
    refine ⟨hs.2.1 hex, ?_⟩
    rcases hc with hc | hc
    · left; omega
    · right; omega
  · intro st k it ch out h ⟨hex, _⟩
    have hs := commit_spec true cap st k it ch hex.weak
    rw [h] at hs
    exact ⟨(hs.2 rfl hex).1, commit_cap hex h⟩

/-! ### well-formed cache directories -/

theorem FS.mem_of_get {fs : FS} {p : Path} {n : Node} (h : FS.get fs p = some n) : (p, n) ∈ fs := by
  induction fs with
  | nil => cases h
  | cons e rest ih =>
    obtain ⟨q, m⟩ := e
    unfold FS.get at h
    split at h
    · rename_i hq; injection h with h; subst h; subst hq; simp
    · exact List.mem_cons_of_mem _ (ih h)

theorem FS.get_of_mem {fs : FS} (hn : (fs.map Prod.fst).Nodup) {p : Path} {n : Node} (h : (p, n) ∈ fs) :
    FS.get fs p = some n := by
  induction fs with
  | nil => cases h
  | cons e rest ih =>
    obtain ⟨q, m⟩ := e
    simp only [List.map_cons, List.nodup_cons] at hn
    simp only [List.mem_cons] at h
    rcases h with h | h
    · injection h with e1 e2; subst e1 e2; simp [FS.get]
    · have : ¬ q = p := by
        intro e; subst e
        exact hn.1 (List.mem_map.mpr ⟨(q, n), h, rfl⟩)
      simp only [FS.get, this, if_false]
      exact ih hn.2 h

theorem FS.erase_keys_sublist (fs : FS) (p : Path) : List.Sublist ((FS.erase fs p).map Prod.fst) (fs.map Prod.fst) := by
  induction fs with
  | nil => exact List.Sublist.slnil
  | cons e rest ih =>
    obtain ⟨q, m⟩ := e
    by_cases hq : q = p
    · simp only [FS.erase, hq, if_true, List.map_cons]
      exact ih.cons _
    · simp only [FS.erase, hq, if_false, List.map_cons]
      exact ih.cons_cons _

theorem FS.not_mem_erase_keys (fs : FS) (p : Path) : p ∉ (FS.erase fs p).map Prod.fst := by
  induction fs with
  | nil => simp [FS.erase]
  | cons e rest ih =>
    obtain ⟨q, m⟩ := e
    by_cases hq : q = p
    · simp only [FS.erase, hq, if_true]; exact ih
    · simp only [FS.erase, hq, if_false, List.map_cons, List.mem_cons, not_or]
      exact ⟨fun e => hq e.symm, ih⟩

theorem FS.nodup_put {fs : FS} (h : (fs.map Prod.fst).Nodup) (p : Path) (n : Node) :
    ((FS.put fs p n).map Prod.fst).Nodup := by
  unfold FS.put
  simp only [List.map_cons, List.nodup_cons]
  exact ⟨FS.not_mem_erase_keys fs p, (FS.erase_keys_sublist fs p).nodup h⟩

theorem FS.get_mkdir (fs : FS) (p q : Path) :
    FS.get (FS.mkdir fs p) q = if p = q ∧ FS.get fs p = none then some .dir else FS.get fs q := by
  unfold FS.mkdir
  cases hp : FS.get fs p with
  | some n => simp
  | none =>
    simp only [FS.get_put]
    by_cases h : p = q <;> simp [h]

theorem FS.isDir_iff {fs : FS} {p : Path} : FS.isDir fs p = true ↔ FS.get fs p = some .dir := by
  unfold FS.isDir
  cases h : FS.get fs p with
  | none => simp
  | some n => cases n <;> simp

/-- what a cache directory looks like that only the cache itself has written to -/
structure FsWF (fs : FS) : Prop where
  nodup : (fs.map Prod.fst).Nodup
  shape : ∀ (p : Path) (n : Node), FS.get fs p = some n →
    (∃ k : Key, p = [prefixDirName k] ∧ n = .dir) ∨ (∃ k : Key, p = keyPath k ∧ n = .dir) ∨
    (∃ (k : Key) (it : Item) (c : Bytes), p = itemPath k it ∧ n = .file c ∧ UInt64.ofNat c.length = it.len)
  parent : ∀ (p : Path) (n : Node), FS.get fs p = some n → 2 ≤ p.length → FS.isDir fs p.dropLast = true

theorem FsWF.nil : FsWF [] :=
  ⟨List.nodup_nil, fun _ _ h => by simp [FS.get] at h, fun _ _ h _ => by simp [FS.get] at h⟩

theorem FsWF.length_le {fs : FS} (h : FsWF fs) {p : Path} {n : Node} (hg : FS.get fs p = some n) :
    1 ≤ p.length ∧ p.length ≤ 3 := by
  rcases h.shape p n hg with ⟨k, e, _⟩ | ⟨k, e, _⟩ | ⟨k, it, c, e, _⟩ <;> subst e <;> simp [keyPath, itemPath]

theorem FsWF.dir_of_length {fs : FS} (h : FsWF fs) {p : Path} {n : Node} (hg : FS.get fs p = some n)
    (hl : p.length ≤ 2) : n = .dir := by
  rcases h.shape p n hg with ⟨k, e, hn⟩ | ⟨k, e, hn⟩ | ⟨k, it, c, e, _⟩
  · exact hn
  · exact hn
  · subst e; simp [itemPath] at hl

theorem FsWF.file_of_length {fs : FS} (h : FsWF fs) {p : Path} {n : Node} (hg : FS.get fs p = some n)
    (hl : 3 ≤ p.length) : ∃ (k : Key) (it : Item) (c : Bytes), p = itemPath k it ∧ n = .file c ∧ UInt64.ofNat c.length = it.len := by
  rcases h.shape p n hg with ⟨k, e, hn⟩ | ⟨k, e, hn⟩ | h3
  · subst e; simp at hl
  · subst e; simp [keyPath] at hl
  · exact h3

/-- removing an entry that has nothing below it -/
theorem FsWF.erase {fs : FS} (h : FsWF fs) (p : Path)
    (hleaf : ∀ q n, FS.get fs q = some n → 2 ≤ q.length → q.dropLast ≠ p) : FsWF (FS.erase fs p) := by
  refine ⟨(FS.erase_keys_sublist fs p).nodup h.nodup, ?_, ?_⟩
  · intro q n hg
    rw [FS.get_erase] at hg
    split at hg
    · cases hg
    · exact h.shape q n hg
  · intro q n hg hl
    rw [FS.get_erase] at hg
    split at hg
    · cases hg
    · have hd := h.parent q n hg hl
      rw [FS.isDir_iff] at hd ⊢
      rw [FS.get_erase, if_neg (fun e => hleaf q n hg hl e.symm)]
      exact hd

theorem FsWF.put_dir {fs : FS} (h : FsWF fs) (p : Path)
    (hshape : (∃ k : Key, p = [prefixDirName k]) ∨ (∃ k : Key, p = keyPath k))
    (hpar : 2 ≤ p.length → FS.isDir fs p.dropLast = true) : FsWF (FS.put fs p .dir) := by
  refine ⟨FS.nodup_put h.nodup p _, ?_, ?_⟩
  · intro q n hg
    rw [FS.get_put] at hg
    split at hg
    · rename_i e; subst e; injection hg with hg; subst hg
      rcases hshape with ⟨k, e⟩ | ⟨k, e⟩
      · exact Or.inl ⟨k, e, rfl⟩
      · exact Or.inr (Or.inl ⟨k, e, rfl⟩)
    · exact h.shape q n hg
  · intro q n hg hl
    rw [FS.isDir_iff, FS.get_put]
    rw [FS.get_put] at hg
    split at hg
    · rename_i e; subst e
      have := hpar hl
      rw [FS.isDir_iff] at this
      split
      · rfl
      · exact this
    · have := h.parent q n hg hl
      rw [FS.isDir_iff] at this
      split
      · rfl
      · exact this

theorem FsWF.mkdir {fs : FS} (h : FsWF fs) (p : Path)
    (hshape : (∃ k : Key, p = [prefixDirName k]) ∨ (∃ k : Key, p = keyPath k))
    (hpar : 2 ≤ p.length → FS.isDir fs p.dropLast = true) : FsWF (FS.mkdir fs p) := by
  unfold FS.mkdir
  cases hp : FS.get fs p with
  | some n => exact h
  | none => exact h.put_dir p hshape hpar

theorem FsWF.isDir_mkdir {fs : FS} (h : FsWF fs) (p : Path) (hl : p.length ≤ 2) : FS.isDir (FS.mkdir fs p) p = true := by
  rw [FS.isDir_iff, FS.get_mkdir]
  cases hp : FS.get fs p with
  | none => simp
  | some n =>
    have := h.dir_of_length hp hl
    subst this
    simp

theorem FsWF.put_file {fs : FS} (h : FsWF fs) (k : Key) (it : Item) (c : Bytes)
    (hlen : UInt64.ofNat c.length = it.len) (hpar : FS.isDir fs (keyPath k) = true) :
    FsWF (FS.put fs (itemPath k it) (.file c)) := by
  refine ⟨FS.nodup_put h.nodup _ _, ?_, ?_⟩
  · intro q n hg
    rw [FS.get_put] at hg
    split at hg
    · rename_i e; subst e; injection hg with hg; subst hg
      exact Or.inr (Or.inr ⟨k, it, c, rfl, rfl, hlen⟩)
    · exact h.shape q n hg
  · intro q n hg hl
    rw [FS.isDir_iff, FS.get_put]
    rw [FS.get_put] at hg
    have hne : ∀ q' : Path, FS.get fs q' = some .dir → ¬ itemPath k it = q' := by
      intro q' hq' e
      subst e
      obtain ⟨_, _, _, _, hn, _⟩ := h.file_of_length hq' (by simp [itemPath])
      cases hn
    split at hg
    · rename_i e; subst e
      rw [FS.isDir_iff] at hpar
      have e : (itemPath k it).dropLast = keyPath k := by simp [itemPath, keyPath]
      rw [e, if_neg (hne _ hpar)]
      exact hpar
    · have := h.parent q n hg hl
      rw [FS.isDir_iff] at this
      rw [if_neg (hne _ this)]
      exact this

theorem fsClosed : FsClosed FsWF := by
  refine ⟨?_, ?_, ?_⟩
  · intro fs fs' k it content hw hlen h
    unfold writeItemFile at hw
    dsimp only at hw
    split at hw
    · cases hw
    · cases hw
      have h1 : FsWF (FS.mkdir fs [prefixDirName k]) :=
        h.mkdir _ (Or.inl ⟨k, rfl⟩) (fun hl => by simp at hl)
      have d1 : FS.isDir (FS.mkdir fs [prefixDirName k]) [prefixDirName k] = true := h.isDir_mkdir _ (by simp)
      have h2 : FsWF (FS.mkdir (FS.mkdir fs [prefixDirName k]) (keyPath k)) :=
        h1.mkdir _ (Or.inr ⟨k, rfl⟩) (fun _ => by simpa [keyPath] using d1)
      have d2 := h1.isDir_mkdir (keyPath k) (by simp [keyPath])
      exact h2.put_file k it content hlen d2
  · intro fs k it h
    unfold unlinkFile
    split
    · rename_i c hc
      apply h.erase
      intro q n hg hl e
      have h3 := (h.length_le hg).2
      have : q.dropLast.length = 3 := by rw [e]; simp [itemPath]
      simp at this
      omega
    · exact h
  · intro fs k h
    have key : ∀ (fs : FS) (p : Path), FsWF fs → FS.hasChildren fs p = false → FsWF (FS.erase fs p) := by
      intro fs p h hc
      apply h.erase
      intro q n hg hl e
      have hm := FS.mem_of_get hg
      unfold FS.hasChildren at hc
      have : (fs.any fun e => FS.isChild p e.1) = true := by
        rw [List.any_eq_true]
        refine ⟨(q, n), hm, ?_⟩
        have hq : q ≠ [] := by intro e; subst e; simp at hl
        simp [FS.isChild, hq, e]
      rw [hc] at this
      cases this
    unfold checkRemoveDir
    split
    · exact h
    · split
      · exact h
      · rename_i hc
        have h1 := key fs (keyPath k) h (by simpa using hc)
        dsimp only
        split
        · exact h1
        · split
          · exact h1
          · rename_i hc2
            exact key _ _ h1 (by simpa using hc2)

/-! ### counting -/

theorem sum_le_of_nodup_subset {α : Type} (f : α → Nat) : ∀ {l₁ l₂ : List α}, l₁.Nodup → l₁ ⊆ l₂ →
    (l₁.map f).sum ≤ (l₂.map f).sum := by
  classical
  intro l₁
  induction l₁ with
  | nil => intro l₂ _ _; simp
  | cons a t ih =>
    intro l₂ h₁ hsub
    rw [List.nodup_cons] at h₁
    have ha : a ∈ l₂ := hsub List.mem_cons_self
    have htsub : t ⊆ l₂.erase a := by
      intro x hx
      have hxa : x ≠ a := fun h => h₁.1 (h ▸ hx)
      exact (List.mem_erase_of_ne hxa).2 (hsub (List.mem_cons_of_mem _ hx))
    have hih := ih h₁.2 htsub
    have hp := ((List.perm_cons_erase ha).map f).sum_nat
    simp only [List.map_cons, List.sum_cons] at hp ⊢
    omega

/-- the tracked `(key, item)` pairs, in list order -/
def pairs (m : Items) : List (Key × Item) := m.flatMap fun e => e.2.map fun c => (e.1, c.item)

def pairLen (x : Key × Item) : Nat := x.2.len.toNat

theorem sumLen_eq_map (v : List Cell) (q : Key) :
    sumLen v = ((v.map fun c => (q, c.item)).map pairLen).sum := by
  induction v with
  | nil => rfl
  | cons c cs ih => simp [sumLen, ih, pairLen]

theorem cnt_eq_pairs (m : Items) : cnt m = (pairs m).length := by
  induction m with
  | nil => rfl
  | cons e rest ih =>
    obtain ⟨q, v⟩ := e
    simp only [cnt, ih, pairs, List.flatMap_cons, List.length_append, List.length_map]

theorem byt_eq_pairs (m : Items) : byt m = ((pairs m).map pairLen).sum := by
  induction m with
  | nil => rfl
  | cons e rest ih =>
    obtain ⟨q, v⟩ := e
    simp only [byt, ih, pairs, List.flatMap_cons, List.map_append, List.sum_append_nat]
    rw [sumLen_eq_map v q]

theorem mem_pairs {m : Items} {k : Key} {it : Item} :
    (k, it) ∈ pairs m ↔ ∃ c, TrackedIn m k c ∧ c.item = it := by
  unfold pairs TrackedIn
  simp only [List.mem_flatMap, List.mem_map, Prod.mk.injEq, Prod.exists]
  constructor
  · rintro ⟨q, v, hm, c, hc, rfl, rfl⟩
    exact ⟨c, ⟨v, hm, hc⟩, rfl⟩
  · rintro ⟨c, ⟨v, hm, hc⟩, rfl⟩
    exact ⟨k, v, hm, c, hc, rfl, rfl⟩

theorem ND.tail {q : Key} {v : List Cell} {rest : Items} (h : ND ((q, v) :: rest)) :
    ND rest ∧ ItemsND v ∧ q ∉ rest.map Prod.fst := by
  have hk := h.keys
  simp only [List.map_cons, List.nodup_cons] at hk
  refine ⟨⟨hk.2, ?_⟩, ?_, hk.1⟩
  · intro k
    by_cases hq : q = k
    · subst hq; rw [getK_eq_nil_of_not_mem hk.1]; exact List.nodup_nil
    · have := h.cells k
      simpa [getK, lookupK, hq] using this
  · have := h.cells q
    simpa [getK, lookupK] using this

theorem pairs_nodup {m : Items} (h : ND m) : (pairs m).Nodup := by
  induction m with
  | nil => exact List.nodup_nil
  | cons e rest ih =>
    obtain ⟨q, v⟩ := e
    obtain ⟨h1, h2, h3⟩ := h.tail
    simp only [pairs, List.flatMap_cons]
    rw [List.nodup_append]
    refine ⟨?_, ih h1, ?_⟩
    · have : (v.map fun c => (q, c.item)) = (v.map Cell.item).map fun i => (q, i) := by simp
      rw [this]
      unfold ItemsND at h2
      rw [List.Nodup, List.pairwise_map]
      exact h2.imp (fun hne e => hne (by injection e))
    · intro a ha b hb e
      subst e
      obtain ⟨k, it⟩ := a
      simp only [List.mem_map, Prod.mk.injEq] at ha
      obtain ⟨c, _, hq, _⟩ := ha
      subst hq
      obtain ⟨c', ⟨v', hm, _⟩, _⟩ := mem_pairs.mp hb
      exact h3 (List.mem_map.mpr ⟨(q, v'), hm, rfl⟩)

theorem mem_pairs_of_trackedItem {st : CState} {k : Key} {it : Item} (h : TrackedItem st k it) :
    (k, it) ∈ pairs st.items := by
  obtain ⟨c, ht, hc⟩ := h
  exact mem_pairs.mpr ⟨c, ht, hc⟩

/-- `(k, it)` has a file of the length its name says, not larger than the capacity (and the name
    is one that `CacheItem::parse` accepts) -/
def SmallFile (fs : FS) (cap : Nat) (x : Key × Item) : Prop :=
  ∃ c, fileAt fs (itemPath x.1 x.2) c ∧ c.length = x.2.len.toNat ∧ c.length ≤ cap ∧
    x.2.start.toNat < x.2.stop.toNat

/-- any duplicate-free collection of such files has at most `cap` bytes -/
def SmallBound (fs : FS) (cap : Nat) : Prop :=
  ∀ L : List (Key × Item), L.Nodup → (∀ x ∈ L, SmallFile fs cap x) → (L.map pairLen).sum ≤ cap

theorem smallBound_of {w : World} {cap : Nat}
    (hfiles : ∀ k it c, fileAt w.fs (itemPath k it) c → TrackedItem w.st k it) (hcap : CapInv cap w.st) :
    SmallBound w.fs cap := by
  intro L hL hs
  have hsub : L ⊆ pairs w.st.items := by
    intro x hx
    obtain ⟨c, hf, _⟩ := hs x hx
    exact mem_pairs_of_trackedItem (hfiles _ _ _ hf)
  have h1 := sum_le_of_nodup_subset pairLen hL hsub
  rw [← byt_eq_pairs, ← hcap.1.2] at h1
  rcases hcap.2 with h2 | h2
  · omega
  · have h3 := hL.length_le_of_subset hsub
    rw [← cnt_eq_pairs, ← hcap.1.1] at h3
    match L, hs, h3 with
    | [], _, _ => simp
    | [x], hs, _ =>
      obtain ⟨c, _, h4, h5, _⟩ := hs x (by simp)
      simp [pairLen]; omega
    | _ :: _ :: _, _, h3 => simp at h3; omega

/-! ### tracked entries = files: the counting argument -/

def isFileE (e : Path × Node) : Bool := match e.2 with | .file _ => true | .dir => false
def lenE (e : Path × Node) : Nat := match e.2 with | .file c => c.length | .dir => 0
def lenAt (fs : FS) (p : Path) : Nat := match FS.get fs p with | some (.file c) => c.length | _ => 0

theorem FsWF.item_len {fs : FS} (h : FsWF fs) {k : Key} {it : Item} {c : Bytes}
    (hf : fileAt fs (itemPath k it) c) : UInt64.ofNat c.length = it.len := by
  obtain ⟨k', it', c', e, hn, hl⟩ := h.file_of_length hf (by simp [itemPath])
  obtain ⟨_, e2⟩ := itemPath_inj e
  subst e2
  injection hn with hn
  subst hn
  exact hl

theorem FsWF.item_len_eq {fs : FS} (h : FsWF fs) {k : Key} {it : Item} {c : Bytes}
    (hf : fileAt fs (itemPath k it) c) (hlt : c.length < 2 ^ 64) : c.length = it.len.toNat := by
  rw [← h.item_len hf, UInt64.toNat_ofNat', Nat.mod_eq_of_lt hlt]

theorem disk_count {st : CState} {fs : FS} (hnd : ND st.items) (hex : Exact st) (hfs : FsWF fs)
    (hfiles : ∀ k it c, fileAt fs (itemPath k it) c → TrackedItem st k it)
    (hback : ∀ k c, Tracked st k c → ∃ content, fileAt fs (itemPath k c.item) content)
    (hlen : ∀ p c, fileAt fs p c → c.length < 2 ^ 64) :
    st.numItems = (fs.filter isFileE).length ∧ st.totalBytes = ((fs.filter isFileE).map lenE).sum := by
  have d1 : ((pairs st.items).map fun x => itemPath x.1 x.2).Nodup := by
    rw [List.Nodup, List.pairwise_map]
    exact (pairs_nodup hnd).imp (fun hne e => hne (Prod.ext (itemPath_inj e).1 (itemPath_inj e).2))
  have d2 : ((fs.filter isFileE).map Prod.fst).Nodup := (List.filter_sublist.map _).nodup hfs.nodup
  have hperm : List.Perm ((pairs st.items).map fun x => itemPath x.1 x.2) ((fs.filter isFileE).map Prod.fst) := by
    rw [List.perm_ext_iff_of_nodup d1 d2]
    intro p
    simp only [List.mem_map, List.mem_filter]
    constructor
    · rintro ⟨⟨k, it⟩, hx, rfl⟩
      obtain ⟨c, ht, hc⟩ := mem_pairs.mp hx
      obtain ⟨content, hf⟩ := hback k c ht
      rw [hc] at hf
      exact ⟨(itemPath k it, .file content), ⟨FS.mem_of_get hf, rfl⟩, rfl⟩
    · rintro ⟨⟨q, n⟩, ⟨hm, hfile⟩, rfl⟩
      have hg := FS.get_of_mem hfs.nodup hm
      cases n with
      | dir => simp [isFileE] at hfile
      | file c =>
        rcases hfs.shape q _ hg with ⟨_, _, hn⟩ | ⟨_, _, hn⟩ | ⟨k, it, _, e, _, _⟩
        · cases hn
        · cases hn
        · subst e
          exact ⟨(k, it), mem_pairs_of_trackedItem (hfiles k it c hg), rfl⟩
  constructor
  · rw [hex.1, cnt_eq_pairs]
    have := hperm.length_eq
    simpa using this
  · rw [hex.2, byt_eq_pairs]
    have hs := (hperm.map (lenAt fs)).sum_nat
    have e1 : ((pairs st.items).map fun x => itemPath x.1 x.2).map (lenAt fs) = (pairs st.items).map pairLen := by
      rw [List.map_map]
      apply List.map_congr_left
      rintro ⟨k, it⟩ hx
      obtain ⟨c, ht, hc⟩ := mem_pairs.mp hx
      obtain ⟨content, hf⟩ := hback k c ht
      rw [hc] at hf
      have := hfs.item_len_eq hf (hlen _ _ hf)
      unfold fileAt at hf
      simp [lenAt, hf, pairLen, this]
    have e2 : ((fs.filter isFileE).map Prod.fst).map (lenAt fs) = (fs.filter isFileE).map lenE := by
      rw [List.map_map]
      apply List.map_congr_left
      rintro ⟨q, n⟩ hx
      have hg := FS.get_of_mem hfs.nodup (List.mem_filter.mp hx).1
      cases n <;> simp [lenAt, hg, lenE]
    rw [e1, e2] at hs
    exact hs

/-! ### the invariants of reachable worlds -/

theorem capInv_empty (cap : Nat) : CapInv cap CState.empty := ⟨⟨rfl, rfl⟩, Or.inr (by simp [CState.empty])⟩

structure DiskInv (cap : Nat) (w : World) : Prop where
  nd : ND w.st.items
  capi : CapInv cap w.st
  fs : FsWF w.fs
  cap_eq : w.cap = cap

theorem diskInv_run (crc : Bytes → UInt32) (cap n : Nat) (as : List Action) (w : World)
    (hr : run crc true (World.fresh cap n) as = some w) : DiskInv cap w := by
  have hP : StClosed true (World.fresh cap n).cap (fun st => ND st.items ∧ CapInv cap st) :=
    ⟨fun st v h => ⟨(ndClosed true cap).verify st v h.1, (capClosed cap).verify st v h.2⟩,
     fun st st' k it hrm h => ⟨(ndClosed true cap).remove st st' k it hrm h.1, (capClosed cap).remove st st' k it hrm h.2⟩,
     fun st k it ch out hc h => ⟨(ndClosed true cap).commit st k it ch out hc h.1, (capClosed cap).commit st k it ch out hc h.2⟩⟩
  obtain ⟨a, b, d⟩ := run_ind crc fsClosed as _ w hP ⟨ND.nil, capInv_empty cap⟩ FsWF.nil hr
  exact ⟨a.1, a.2, b, d⟩


end Xet.Cache
