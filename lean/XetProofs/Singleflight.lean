/-
Helper lemmas for C20: the inductive invariant of the singleflight model and its preservation by
every action.
-/
import XetModel.Singleflight

namespace Xet.Singleflight

/-! ### association list -/

@[simp] theorem mapGet_nil (k : Nat) : mapGet [] k = none := rfl

theorem mapGet_cons (p : Nat × Nat) (m : List (Nat × Nat)) (k : Nat) :
    mapGet (p :: m) k = if p.1 = k then some p.2 else mapGet m k := rfl

theorem mapGet_erase_self (m : List (Nat × Nat)) (k : Nat) : mapGet (mapErase m k) k = none := by
  induction m with
  | nil => rfl
  | cons p m ih =>
    simp only [mapErase]
    split
    · exact ih
    · simp [mapGet_cons, *]

theorem mapGet_erase_ne (m : List (Nat × Nat)) (k k' : Nat) (h : k' ≠ k) :
    mapGet (mapErase m k) k' = mapGet m k' := by
  induction m with
  | nil => rfl
  | cons p m ih =>
    simp only [mapErase]
    split
    · rename_i h2
      have : p.1 ≠ k' := by omega
      simp [mapGet_cons, this, ih]
    · simp [mapGet_cons, ih]

theorem getElem?_snoc {α : Type} (l : List α) (a : α) (k : Nat) :
    (l ++ [a])[k]? = if k < l.length then l[k]? else if k = l.length then some a else none := by
  split
  · rename_i h; simp [List.getElem?_append_left h]
  · split
    · rename_i h; subst h; simp
    · rw [List.getElem?_eq_none]; simp; omega

theorem lt_of_getElem?_eq_some {α : Type} (l : List α) (a : α) (k : Nat) (h : l[k]? = some a) :
    k < l.length := by
  have := (List.getElem?_eq_some_iff.mp h).1
  exact this

/-! ### the invariant -/

/-- state of a call's task vs. its stored result, run counter and notifier -/
def TaskOk (cl : Call) : Prop :=
  match cl.task with
  | .idle => cl.res = none ∧ cl.taskRuns = 0 ∧ cl.notified = []
  | .ran _ => cl.res = none ∧ cl.taskRuns = 1 ∧ cl.notified = []
  | .finished o => cl.res = some o ∧ cl.taskRuns = 1 ∧ ∀ c ∈ cl.registered, c ∈ cl.notified

/-- a call `cl` vs. the state `r` of the caller that created it -/
def OwnerOk (cl : Call) (r : CallerSt) : Prop :=
  (cl.task = .idle ↔ r.spawned = false) ∧
  (r.spawned = false → r.pc = .looked ∨ r.pc = .waiting) ∧
  (r.pc = .removed ∨ r.pc = .done → cl.res ≠ none)

/-- a caller `c` (state `r`, past the lookup) vs. the call `cl` it obtained -/
def CallerOk (c : Nat) (r : CallerSt) (cl : Call) : Prop :=
  cl.key = r.key ∧ (r.owner = true ↔ cl.owner = c) ∧
  (r.pc = .waiting → c ∈ cl.registered) ∧
  (r.pc = .have → cl.res ≠ none ∧ r.got = readRes cl) ∧
  (r.pc = .removed → r.owner = true ∧ cl.res ≠ none ∧ r.got = readRes cl) ∧
  (r.pc = .done → cl.res ≠ none ∧ r.ret = some (readRes cl))

structure Inv (s : State) : Prop where
  callerLt : ∀ (c : Nat) (r : CallerSt), s.callers[c]? = some r → r.pc ≠ .idle → r.cid < s.calls.length
  caller : ∀ (c : Nat) (r : CallerSt) (cl : Call), s.callers[c]? = some r → r.pc ≠ .idle → s.calls[r.cid]? = some cl → CallerOk c r cl
  ownerLt : ∀ (k : Nat) (cl : Call), s.calls[k]? = some cl → cl.owner < s.callers.length
  call : ∀ (k : Nat) (cl : Call) (r : CallerSt), s.calls[k]? = some cl → s.callers[cl.owner]? = some r →
    TaskOk cl ∧ r.pc ≠ .idle ∧ r.cid = k ∧ r.owner = true ∧ OwnerOk cl r ∧
      (mapGet s.map cl.key = some k ↔ (r.pc ≠ .removed ∧ r.pc ≠ .done))
  idle : ∀ (c : Nat) (r : CallerSt), s.callers[c]? = some r → r.pc = .idle → r.spawned = false
  mapLt : ∀ (key k : Nat), mapGet s.map key = some k → k < s.calls.length
  mapKey : ∀ (key k : Nat) (cl : Call), mapGet s.map key = some k → s.calls[k]? = some cl → cl.key = key

theorem inv_init (keys : List Nat) : Inv (init keys) := by
  refine ⟨?_, ?_, ?_, ?_, ?_, ?_, ?_⟩ <;> intros <;> simp_all [init, CallerSt.new]
  all_goals grind

macro "sf_norm" : tactic => `(tactic|
  simp only [List.getElem?_set, List.length_set, getElem?_snoc, mapGet_cons, List.length_append,
    List.length_cons, List.length_nil] at *)

theorem inv_lookup (s s' : State) (c : Nat) (hi : Inv s) (h : stepLookup s c = some s') : Inv s' := by
  unfold stepLookup at h
  split at h
  · simp at h
  · rename_i r hr
    split at h
    · simp at h
    · rename_i hpc
      simp at hpc
      have hlt : c < s.callers.length := lt_of_getElem?_eq_some _ _ _ hr
      obtain ⟨h1, h2, h3, h4, h0, h5, h6⟩ := hi
      split at h
      · rename_i k hk
        simp at h; subst h
        refine ⟨?_, ?_, ?_, ?_, ?_, ?_, ?_⟩ <;> intros <;> simp only [List.getElem?_set, List.length_set] at *
        · grind
        · grind [CallerOk]
        · grind
        · grind [OwnerOk]
        · grind
        · grind
        · grind
      · rename_i hk
        simp at h; subst h
        refine ⟨?_, ?_, ?_, ?_, ?_, ?_, ?_⟩ <;> intros <;>
          simp only [List.getElem?_set, List.length_set, getElem?_snoc, mapGet_cons, List.length_append, List.length_cons, List.length_nil] at *
        · grind
        · grind [CallerOk, Call.new]
        · grind [Call.new]
        · grind [OwnerOk, TaskOk, Call.new]
        · grind
        · grind
        · grind [Call.new]
theorem inv_register (s s' : State) (c : Nat) (hi : Inv s) (h : stepRegister s c = some s') : Inv s' := by
  unfold stepRegister at h
  split at h
  · simp at h
  · rename_i r hr
    split at h
    · simp at h
    · rename_i hpc
      simp at hpc
      have hlt : c < s.callers.length := lt_of_getElem?_eq_some _ _ _ hr
      split at h
      · simp at h
      · rename_i cl0 hcl0
        have hlt0 : r.cid < s.calls.length := lt_of_getElem?_eq_some _ _ _ hcl0
        obtain ⟨h1, h2, h3, h4, h0, h5, h6⟩ := hi
        split at h
        · rename_i o ho
          simp at h; subst h
          refine ⟨?_, ?_, ?_, ?_, ?_, ?_, ?_⟩ <;> intros <;> sf_norm
          · grind
          · grind [CallerOk, readRes]
          · grind
          · grind [OwnerOk, TaskOk]
          · grind
          · grind
          · grind
        · rename_i ho
          simp at h; subst h
          refine ⟨?_, ?_, ?_, ?_, ?_, ?_, ?_⟩ <;> intros <;> sf_norm
          · grind
          · grind [CallerOk, readRes]
          · grind
          · grind [OwnerOk, TaskOk]
          · grind
          · grind
          · grind

theorem inv_runTask (s s' : State) (c : Nat) (o : Outcome) (hi : Inv s) (h : stepRunTask s c o = some s') :
    Inv s' := by
  unfold stepRunTask at h
  split at h
  · simp at h
  · rename_i r hr
    split at h
    · simp at h
    · rename_i hpc
      have hlt : c < s.callers.length := lt_of_getElem?_eq_some _ _ _ hr
      split at h
      · simp at h
      · rename_i cl0 hcl0
        have hlt0 : r.cid < s.calls.length := lt_of_getElem?_eq_some _ _ _ hcl0
        obtain ⟨h1, h2, h3, h4, h0, h5, h6⟩ := hi
        simp at h; subst h
        refine ⟨?_, ?_, ?_, ?_, ?_, ?_, ?_⟩ <;> intros <;> sf_norm
        · grind
        · grind [CallerOk, readRes]
        · grind
        · grind [OwnerOk, TaskOk, CallerOk]
        · grind
        · grind
        · grind

theorem inv_completeCall (s : State) (k : Nat) (cl0 : Call) (o : Outcome) (hi : Inv s)
    (hcl0 : s.calls[k]? = some cl0) (ht : cl0.task = .ran o) :
    Inv { s with calls := s.calls.set k (completeCall cl0 o) } := by
  have hlt0 : k < s.calls.length := lt_of_getElem?_eq_some _ _ _ hcl0
  obtain ⟨h1, h2, h3, h4, h0, h5, h6⟩ := hi
  refine ⟨?_, ?_, ?_, ?_, ?_, ?_, ?_⟩ <;> intros <;> sf_norm
  · grind
  · grind [CallerOk, readRes, completeCall, TaskOk]
  · grind [completeCall]
  · grind [OwnerOk, TaskOk, completeCall]
  · grind
  · grind
  · grind [completeCall]

theorem inv_complete (s s' : State) (k : Nat) (hi : Inv s) (h : stepComplete s k = some s') : Inv s' := by
  unfold stepComplete at h
  split at h
  · simp at h
  · rename_i cl0 hcl0
    split at h
    · simp at h; subst h; exact inv_completeCall s k cl0 _ hi hcl0 (by assumption)
    · simp at h; subst h; exact inv_completeCall s k cl0 _ hi hcl0 (by assumption)
    · simp at h

theorem inv_ownerPanic (s s' : State) (k : Nat) (hi : Inv s) (h : stepOwnerPanic s k = some s') : Inv s' := by
  unfold stepOwnerPanic at h
  split at h
  · simp at h
  · rename_i cl0 hcl0
    split at h
    · simp at h; subst h; exact inv_completeCall s k cl0 _ hi hcl0 (by assumption)
    · simp at h

theorem inv_wake (s s' : State) (c : Nat) (hi : Inv s) (h : stepWake s c = some s') : Inv s' := by
  unfold stepWake at h
  split at h
  · simp at h
  · rename_i r hr
    split at h
    · simp at h
    · rename_i hpc
      simp at hpc
      have hlt : c < s.callers.length := lt_of_getElem?_eq_some _ _ _ hr
      split at h
      · simp at h
      · rename_i cl0 hcl0
        have hlt0 : r.cid < s.calls.length := lt_of_getElem?_eq_some _ _ _ hcl0
        obtain ⟨h1, h2, h3, h4, h0, h5, h6⟩ := hi
        split at h
        · rename_i hn
          simp at h; subst h
          refine ⟨?_, ?_, ?_, ?_, ?_, ?_, ?_⟩ <;> intros <;> sf_norm
          · grind
          · grind [CallerOk, readRes, TaskOk]
          · grind
          · grind [OwnerOk, TaskOk]
          · grind
          · grind
          · grind
        · simp at h

theorem inv_remove (s s' : State) (c : Nat) (hi : Inv s) (h : stepRemove s c = some s') : Inv s' := by
  unfold stepRemove at h
  split at h
  · simp at h
  · rename_i r hr
    split at h
    · simp at h
    · rename_i hpc
      have hlt : c < s.callers.length := lt_of_getElem?_eq_some _ _ _ hr
      split at h
      · simp at h
      · rename_i cl0 hcl0
        have hlt0 : r.cid < s.calls.length := lt_of_getElem?_eq_some _ _ _ hcl0
        have hE1 := mapGet_erase_self s.map r.key
        have hE2 := mapGet_erase_ne s.map r.key
        obtain ⟨h1, h2, h3, h4, h0, h5, h6⟩ := hi
        split at h
        · rename_i o ho
          split at h
          · rename_i hm
            exfalso
            grind [CallerOk, OwnerOk]
          · rename_i k' hm
            simp at h; subst h
            refine ⟨?_, ?_, ?_, ?_, ?_, ?_, ?_⟩ <;> intros <;> sf_norm
            · grind
            · grind [CallerOk, readRes, TaskOk, ownerResult]
            · grind
            · grind [OwnerOk, TaskOk, CallerOk]
            · grind
            · grind
            · grind
        · simp at h

theorem inv_return (s s' : State) (c : Nat) (hi : Inv s) (h : stepReturn s c = some s') : Inv s' := by
  unfold stepReturn at h
  split at h
  · simp at h
  · rename_i r hr
    split at h
    · rename_i hpc
      simp at h; subst h
      have hlt : c < s.callers.length := lt_of_getElem?_eq_some _ _ _ hr
      obtain ⟨h1, h2, h3, h4, h0, h5, h6⟩ := hi
      refine ⟨?_, ?_, ?_, ?_, ?_, ?_, ?_⟩ <;> intros <;> sf_norm
      · grind
      · grind [CallerOk]
      · grind
      · grind [OwnerOk]
      · grind
      · grind
      · grind
    · simp at h

/-- every action preserves the invariant -/
theorem inv_step (s s' : State) (a : Action) (hi : Inv s) (h : step s a = some s') : Inv s' := by
  cases a with
  | lookupOrCreate c => exact inv_lookup s s' c hi h
  | registerOrRead c => exact inv_register s s' c hi h
  | runTask c o => exact inv_runTask s s' c o hi h
  | complete k => exact inv_complete s s' k hi h
  | ownerPanic k => exact inv_ownerPanic s s' k hi h
  | wake c => exact inv_wake s s' c hi h
  | remove c => exact inv_remove s s' c hi h
  | ret c => exact inv_return s s' c hi h

theorem inv_run (acts : List Action) : ∀ (s s' : State), Inv s → run s acts = some s' → Inv s' := by
  induction acts with
  | nil => intro s s' hi h; simp [run] at h; subst h; exact hi
  | cons a as ih =>
    intro s s' hi h
    simp only [run] at h
    split at h
    · simp at h
    · rename_i s1 h1
      exact ih s1 s' (inv_step s s1 a hi h1) h

/-- the invariant holds in every reachable state -/
theorem inv_reachable (keys : List Nat) (s : State) (h : Reachable keys s) : Inv s := by
  obtain ⟨acts, h⟩ := h
  exact inv_run acts _ _ (inv_init keys) h

end Xet.Singleflight
