/-
Helper lemmas for C17 (file reconstruction): positioned writes, tiling, the two writers' loops.
Core only.
-/
import XetModel.Reconstruct

namespace Xet.Recon

/-! ### positioned writes -/

theorem writeAt_nil (b : Bytes) (o : Nat) : writeAt b o [] = b := by simp [writeAt]

theorem writeAt_length_le (b d : Bytes) (o n : Nat) (hb : b.length ≤ n) (hw : o + d.length ≤ n) :
    (writeAt b o d).length ≤ n := by
  unfold writeAt
  split
  · exact hb
  · simp only [List.length_append, List.length_take, List.length_drop, List.length_replicate]
    omega

theorem writeAt_get_in (b d : Bytes) (o i : Nat) (h1 : o ≤ i) (h2 : i < o + d.length) :
    (writeAt b o d)[i]? = d[i - o]? := by
  unfold writeAt
  split
  · rename_i h; subst h; simp at h2; omega
  · have hl : ((b ++ List.replicate (o - b.length) 0).take o).length = o := by
      simp only [List.length_take, List.length_append, List.length_replicate]; omega
    rw [List.append_assoc, List.getElem?_append_right (by omega), hl,
      List.getElem?_append_left (by omega)]

theorem writeAt_get_out (b d : Bytes) (o i : Nat) (h : i < o ∨ o + d.length ≤ i) (hi : i < b.length) :
    (writeAt b o d)[i]? = b[i]? := by
  unfold writeAt
  split
  · rfl
  · have hl : ((b ++ List.replicate (o - b.length) 0).take o).length = o := by
      simp only [List.length_take, List.length_append, List.length_replicate]; omega
    rcases h with h | h
    · rw [List.append_assoc, List.getElem?_append_left (by omega), List.getElem?_take_of_lt h,
        List.getElem?_append_left hi]
    · rw [List.getElem?_append_right (by simp only [List.length_append, hl]; omega)]
      simp only [List.length_append, hl, List.getElem?_drop]
      rw [List.getElem?_append_left (by omega)]
      congr 1; omega

/-- a write that is a correct slice of `E` at its position -/
def OKw (E : Bytes) (w : PWrite) : Prop :=
  w.off + w.data.length ≤ E.length ∧ ∀ j, j < w.data.length → E[w.off + j]? = w.data[j]?

def Covers (w : PWrite) (i : Nat) : Prop := w.off ≤ i ∧ i < w.off + w.data.length

/-- invariant of applying correct slices of `E` in any order -/
theorem applyWrites_inv (E : Bytes) (ws : List PWrite) (hok : ∀ w ∈ ws, OKw E w) :
    ∀ buf : Bytes, buf.length ≤ E.length →
      (applyWrites buf ws).length ≤ E.length ∧
      ∀ i, i < E.length → ((∃ w ∈ ws, Covers w i) ∨ buf[i]? = E[i]?) → (applyWrites buf ws)[i]? = E[i]? := by
  induction ws with
  | nil =>
    intro buf hb
    refine ⟨by simpa [applyWrites] using hb, ?_⟩
    intro i _ h
    rcases h with ⟨w, hw, _⟩ | h
    · cases hw
    · simpa [applyWrites] using h
  | cons w ws ih =>
    intro buf hb
    have hw : OKw E w := hok w (List.mem_cons_self)
    have hrest : ∀ w' ∈ ws, OKw E w' := fun w' h => hok w' (List.mem_cons_of_mem _ h)
    have hb' : (writeAt buf w.off w.data).length ≤ E.length := writeAt_length_le _ _ _ _ hb hw.1
    have := ih hrest (writeAt buf w.off w.data) hb'
    refine ⟨by simpa [applyWrites] using this.1, ?_⟩
    intro i hi h
    have key : (∃ w' ∈ ws, Covers w' i) ∨ (writeAt buf w.off w.data)[i]? = E[i]? := by
      by_cases hc : Covers w i
      · right
        rw [writeAt_get_in _ _ _ _ hc.1 hc.2]
        have := hw.2 (i - w.off) (by have := hc.1; have := hc.2; omega)
        rw [← this]; congr 1; have := hc.1; omega
      · rcases h with ⟨w', hw', hcov⟩ | h
        · rcases List.mem_cons.mp hw' with rfl | hmem
          · exact absurd hcov hc
          · exact Or.inl ⟨w', hmem, hcov⟩
        · right
          have hib : i < buf.length := by
            rcases Nat.lt_or_ge i buf.length with h' | h'
            · exact h'
            · rw [List.getElem?_eq_none h', List.getElem?_eq_getElem hi] at h; cases h
          rw [writeAt_get_out _ _ _ _ (by unfold Covers at hc; omega) hib]; exact h
    simpa [applyWrites] using this.2 i hi key

/-- **any order**: if every write is a correct slice of `E` and together they cover `[0,|E|)`, the file
    ends up equal to `E` whatever the order of application -/
theorem applyWrites_eq (E : Bytes) (ws : List PWrite) (hok : ∀ w ∈ ws, OKw E w)
    (hcov : ∀ i, i < E.length → ∃ w ∈ ws, Covers w i) : applyWrites [] ws = E := by
  have h := applyWrites_inv E ws hok [] (by simp)
  apply List.ext_getElem?
  intro i
  rcases Nat.lt_or_ge i E.length with hi | hi
  · exact h.2 i hi (Or.inl (hcov i hi))
  · rw [List.getElem?_eq_none hi, List.getElem?_eq_none (by omega)]

/-! ### consecutive writes tile their concatenation -/

/-- writes whose offsets are the running sum of the previous lengths, starting at `b` -/
def Consec : Nat → List PWrite → Prop
  | _, [] => True
  | b, w :: ws => w.off = b ∧ Consec (b + w.data.length) ws

def catData (ws : List PWrite) : Bytes := (ws.map (·.data)).flatten

theorem catData_cons (w : PWrite) (ws : List PWrite) : catData (w :: ws) = w.data ++ catData ws := by
  simp [catData]

theorem consec_ok (ws : List PWrite) : ∀ (b : Nat) (pre : Bytes), pre.length = b → Consec b ws →
    ∀ w ∈ ws, OKw (pre ++ catData ws) w := by
  induction ws with
  | nil => intro _ _ _ _ w hw; cases hw
  | cons w0 ws ih =>
    intro b pre hpre hc w hw
    obtain ⟨h0, hc'⟩ := hc
    rcases List.mem_cons.mp hw with rfl | hmem
    · refine ⟨by simp [catData_cons]; omega, ?_⟩
      intro j hj
      rw [catData_cons, List.getElem?_append_right (by omega)]
      rw [List.getElem?_append_left (by omega)]
      congr 1; omega
    · have := ih (b + w0.data.length) (pre ++ w0.data) (by simp [hpre]) hc' w hmem
      simpa [catData_cons, List.append_assoc] using this

theorem consec_cover (ws : List PWrite) : ∀ (b : Nat), Consec b ws →
    ∀ i, b ≤ i → i < b + (catData ws).length → ∃ w ∈ ws, Covers w i := by
  induction ws with
  | nil => intro b _ i h1 h2; simp [catData] at h2; omega
  | cons w0 ws ih =>
    intro b hc i h1 h2
    obtain ⟨h0, hc'⟩ := hc
    rw [catData_cons, List.length_append] at h2
    by_cases hi : i < b + w0.data.length
    · exact ⟨w0, List.mem_cons_self, by unfold Covers; omega⟩
    · obtain ⟨w, hw, hcv⟩ := ih (b + w0.data.length) hc' i (by omega) (by omega)
      exact ⟨w, List.mem_cons_of_mem _ hw, hcv⟩

/-- consecutive writes are pairwise disjoint -/
def Disjoint (a b : PWrite) : Prop := a.off + a.data.length ≤ b.off ∨ b.off + b.data.length ≤ a.off

theorem consec_off_ge (ws : List PWrite) : ∀ b, Consec b ws → ∀ w ∈ ws, b ≤ w.off := by
  induction ws with
  | nil => intro _ _ w hw; cases hw
  | cons w0 ws ih =>
    intro b hc w hw
    obtain ⟨h0, hc'⟩ := hc
    rcases List.mem_cons.mp hw with rfl | hmem
    · omega
    · have := ih _ hc' w hmem; omega

theorem consec_pairwise (ws : List PWrite) : ∀ b, Consec b ws → ws.Pairwise Disjoint := by
  induction ws with
  | nil => intro _ _; exact List.Pairwise.nil
  | cons w0 ws ih =>
    intro b hc
    obtain ⟨h0, hc'⟩ := hc
    refine List.Pairwise.cons ?_ (ih _ hc')
    intro w hw
    have := consec_off_ge ws _ hc' w hw
    left; omega

/-- consecutive writes from 0, applied in any order, give their concatenation -/
theorem consec_any_order (ws order : List PWrite) (hc : Consec 0 ws) (hp : order.Perm ws) :
    applyWrites [] order = catData ws := by
  apply applyWrites_eq
  · intro w hw
    have := consec_ok ws 0 [] rfl hc w (hp.mem_iff.mp hw)
    simpa using this
  · intro i hi
    obtain ⟨w, hw, hcv⟩ := consec_cover ws 0 hc i (Nat.zero_le _) (by omega)
    exact ⟨w, hp.mem_iff.mpr hw, hcv⟩

/-! ### slicing arithmetic shared by both writers -/

theorem take_split (d rest : Bytes) (s total : Nat) (hs : s ≤ d.length) :
    (d.take (min (total + s) d.length)).drop s ++ rest.take (total - (min (total + s) d.length - s))
      = ((d ++ rest).drop s).take total := by
  rw [List.drop_append_of_le_length hs, List.take_append, List.drop_take, List.length_drop]
  rcases Nat.le_total (total + s) d.length with h | h
  · rw [Nat.min_eq_left h]
    have e1 : total + s - s = total := by omega
    have e2 : total - total = 0 := by omega
    have e3 : total - (d.length - s) = 0 := by omega
    rw [e1, e2, e3]
  · rw [Nat.min_eq_right h]
    congr 1
    rw [List.take_of_length_le (by simp), List.take_of_length_le (by simp <;> omega)]

theorem startOf_succ (idx offset : Nat) : startOf (idx + 1) offset = 0 := by simp [startOf]

/-- head condition: the start used for the first remaining term lies inside it -/
def HeadOK (s : Nat) (ds : List Bytes) : Prop :=
  match ds with
  | [] => True
  | d :: _ => s ≤ d.length

/-- the sequential loop appends exactly the requested slice of the remaining term data -/
theorem seqLoop_spec (offset : Nat) (ds : List Bytes) : ∀ (idx : Nat) (st : SeqState),
    HeadOK (startOf idx offset) ds →
    ∃ st', seqLoop offset idx st (ds.map Except.ok) = .ok st' ∧
      st'.out = st.out ++ (ds.flatten.drop (startOf idx offset)).take st.remaining := by
  induction ds with
  | nil => intro idx st _; exact ⟨st, by simp [seqLoop], by simp⟩
  | cons d ds ih =>
    intro idx st hh
    have hs : startOf idx offset ≤ d.length := hh
    generalize hgen : startOf idx offset = s at hs
    have hge : ¬ min (st.remaining + s) d.length < s := by omega
    obtain ⟨st'', h1, h2⟩ := ih (idx + 1)
      ⟨st.out ++ (d.take (min (st.remaining + s) d.length)).drop s,
        st.remaining - (min (st.remaining + s) d.length - s)⟩
      (by rw [startOf_succ]; cases ds <;> simp [HeadOK])
    refine ⟨st'', ?_, ?_⟩
    · simp only [List.map_cons, seqLoop, seqStep]
      rw [hgen, if_neg hge]
      exact h1
    · rw [h2, startOf_succ, List.drop_zero, List.flatten_cons, List.append_assoc,
        take_split d ds.flatten s st.remaining hs]

/-- the parallel writer's tasks: consecutive writes whose concatenation is the requested slice -/
theorem par_spec (offset : Nat) (ds : List Bytes) : ∀ (idx bw rem : Nat),
    HeadOK (startOf idx offset) ds →
    ∃ ss ws, planSlices offset idx bw rem (ds.map List.length) = .ok ss ∧
      writeTerms (ds.map Except.ok) ss = .ok ws ∧ Consec bw ws ∧
      catData ws = (ds.flatten.drop (startOf idx offset)).take rem ∧
      (ss.map fun s => s.stop - s.start).sum = (catData ws).length := by
  induction ds with
  | nil => intro idx bw rem _; exact ⟨[], [], by simp [planSlices], by simp [writeTerms], trivial, by simp [catData], by simp [catData]⟩
  | cons d ds ih =>
    intro idx bw rem hh
    have hs : startOf idx offset ≤ d.length := hh
    generalize hgen : startOf idx offset = s at hs
    have hge : ¬ min (s + rem) d.length < s := by omega
    obtain ⟨ss, ws, h1, h2, h3, h4, h5⟩ := ih (idx + 1) (bw + (min (s + rem) d.length - s))
      (rem - (min (s + rem) d.length - s)) (by rw [startOf_succ]; cases ds <;> simp [HeadOK])
    have hlen : ((d.take (min (s + rem) d.length)).drop s).length = min (s + rem) d.length - s := by
      simp only [List.length_drop, List.length_take]; omega
    refine ⟨⟨s, min (s + rem) d.length, bw⟩ :: ss,
            ⟨bw, (d.take (min (s + rem) d.length)).drop s⟩ :: ws, ?_, ?_, ?_, ?_, ?_⟩
    · simp only [List.map_cons, planSlices]
      rw [hgen, if_neg hge, h1]
    · have hle : ¬ d.length < min (s + rem) d.length := by omega
      simp only [List.map_cons, writeTerms, writeTerm]
      rw [if_neg hle, h2]
    · exact ⟨rfl, by rw [hlen]; exact h3⟩
    · rw [catData_cons, h4, startOf_succ, List.drop_zero, List.flatten_cons]
      have := take_split d ds.flatten s rem hs
      rw [Nat.add_comm rem s] at this
      exact this
    · simp only [List.map_cons, List.sum_cons, catData_cons, List.length_append]
      rw [h5, hlen]

/-! ### chunk byte indices and trimming -/

theorem byteIndices_get (cs : List Bytes) : ∀ (acc k : Nat), k ≤ cs.length →
    (byteIndices cs acc)[k]? = some (acc + (cs.take k).flatten.length) := by
  induction cs with
  | nil => intro acc k hk; simp at hk; subst hk; simp [byteIndices]
  | cons c cs ih =>
    intro acc k hk
    cases k with
    | zero => simp [byteIndices]
    | succ k =>
      simp only [byteIndices, List.getElem?_cons_succ, List.take_succ_cons, List.flatten_cons,
        List.length_append]
      rw [ih (acc + c.length) k (by simpa using hk)]
      congr 1; omega

theorem flatten_pos (l : List Bytes) (hne : l ≠ []) (h : ∀ c ∈ l, c ≠ []) : 0 < l.flatten.length := by
  cases l with
  | nil => exact absurd rfl hne
  | cons c l =>
    have : c ≠ [] := h c List.mem_cons_self
    have : 0 < c.length := List.length_pos_iff.mpr this
    simp only [List.flatten_cons, List.length_append]; omega

theorem flatten_take_split (cs : List Bytes) (a b : Nat) (hab : a ≤ b) :
    (cs.take b).flatten = (cs.take a).flatten ++ ((cs.drop a).take (b - a)).flatten := by
  have : cs.take b = (cs.take b).take a ++ (cs.take b).drop a := (List.take_append_drop a _).symm
  rw [this, List.flatten_append, List.take_take, Nat.min_eq_left hab, List.drop_take]

theorem flatten_split (cs : List Bytes) (b : Nat) :
    cs.flatten = (cs.take b).flatten ++ (cs.drop b).flatten := by
  rw [← List.flatten_append, List.take_append_drop]

/-- slicing the fetched data between the byte indices of chunks `a` and `b` gives chunks `[a,b)` -/
theorem take_drop_byteIndices (cs : List Bytes) (a b : Nat) (hab : a ≤ b) :
    (cs.flatten.take (cs.take b).flatten.length).drop (cs.take a).flatten.length
      = ((cs.drop a).take (b - a)).flatten := by
  have h1 : cs.flatten.take (cs.take b).flatten.length = (cs.take b).flatten := by
    conv => lhs; arg 2; rw [flatten_split cs b]
    exact List.take_left' rfl
  rw [h1, flatten_take_split cs a b hab]
  exact List.drop_left' rfl

theorem trim_spec (cs : List Bytes) (fr tr : CRange)
    (h1 : fr.start ≤ tr.start) (h2 : tr.start < tr.stop) (h3 : tr.stop ≤ fr.stop)
    (hlen : cs.length = fr.stop - fr.start) (hne : ∀ c ∈ cs, c ≠ []) :
    trim ⟨cs.flatten, byteIndices cs 0⟩ fr tr
      = .ok (chunkSlice cs ⟨tr.start - fr.start, tr.stop - fr.start⟩).flatten := by
  unfold trim
  split
  · rename_i heq
    subst heq
    simp only [chunkSlice, Nat.sub_self, List.drop_zero]
    rw [List.take_of_length_le (by omega)]
  · rw [if_neg (by omega)]
    simp only
    rw [byteIndices_get cs 0 _ (by omega), byteIndices_get cs 0 _ (by omega)]
    simp only [Nat.zero_add]
    have hab : tr.start - fr.start ≤ tr.stop - fr.start := by omega
    have hsplit := flatten_take_split cs _ _ hab
    have hpos : 0 < ((cs.drop (tr.start - fr.start)).take (tr.stop - fr.start - (tr.start - fr.start))).flatten.length := by
      apply flatten_pos
      · intro h
        have := congrArg List.length h
        simp only [List.length_take, List.length_drop, List.length_nil] at this
        omega
      · intro c hc
        exact hne c (List.mem_of_mem_drop (List.mem_of_mem_take hc))
    have hb : (cs.take (tr.stop - fr.start)).flatten.length ≤ cs.flatten.length := by
      rw [flatten_split cs (tr.stop - fr.start), List.length_append]; omega
    have hlt : (cs.take (tr.start - fr.start)).flatten.length < (cs.take (tr.stop - fr.start)).flatten.length := by
      rw [hsplit, List.length_append]; omega
    rw [if_pos ⟨by omega, hb, hlt⟩, take_drop_byteIndices cs _ _ hab]
    simp [chunkSlice]

theorem chunkSlice_chunkSlice (X : List Bytes) (fr tr : CRange)
    (h1 : fr.start ≤ tr.start) (h3 : tr.stop ≤ fr.stop) :
    chunkSlice (chunkSlice X fr) ⟨tr.start - fr.start, tr.stop - fr.start⟩ = chunkSlice X tr := by
  simp only [chunkSlice, List.drop_take, List.drop_drop, List.take_take]
  have e1 : fr.start + (tr.start - fr.start) = tr.start := by omega
  have e2 : min (tr.stop - fr.start - (tr.start - fr.start)) (fr.stop - fr.start - (tr.start - fr.start))
      = tr.stop - tr.start := by omega
  rw [e2]
  congr 2

theorem chunkSlice_length (X : List Bytes) (r : CRange) (h : r.stop ≤ X.length) :
    (chunkSlice X r).length = r.stop - r.start := by
  simp only [chunkSlice, List.length_take, List.length_drop]; omega

theorem chunkSlice_mem (X : List Bytes) (r : CRange) (c : Bytes) (h : c ∈ chunkSlice X r) : c ∈ X :=
  List.mem_of_mem_drop (List.mem_of_mem_take h)

/-! ### `get_one_term` on well-formed terms -/

theorem chunksOf_eq (xs : List (List Bytes)) (x : Nat) (h : x < xs.length) : xs[x]? = some (chunksOf xs x) := by
  simp [chunksOf, List.getElem?_eq_getElem h]

theorem fetchTerm_wf (p : Plan) (t : Term) (h : WFTerm p t) : fetchTerm p t = .ok (p.termBytes t) := by
  obtain ⟨hx, hr1, hr2, hne, hul, hf⟩ := h
  unfold fetchTerm
  split at hf
  · exact absurd hf id
  · rename_i fis hfis
    obtain ⟨hall, fr0, hfr0, hc1, hc2⟩ := hf
    have hfind : ∃ fr, findFetch fis t.range = some fr := by
      cases hq : findFetch fis t.range with
      | some fr => exact ⟨fr, rfl⟩
      | none =>
        have := List.find?_eq_none.mp hq fr0 hfr0
        simp [hc1, hc2] at this
    obtain ⟨fr, hfr⟩ := hfind
    rw [hfr]
    have hmem : fr ∈ fis := List.mem_of_find?_eq_some hfr
    have hprop := List.find?_some hfr
    simp only [Bool.and_eq_true, decide_eq_true_eq] at hprop
    obtain ⟨hs1, hs2⟩ := hprop
    obtain ⟨ha1, ha2⟩ := hall fr hmem
    simp only [download, chunksOf_eq p.xorbs t.xorb hx]
    rw [trim_spec (chunkSlice (chunksOf p.xorbs t.xorb) fr) fr t.range hs1 hr1 hs2
      (chunkSlice_length _ _ ha2) (fun c hc => hne c (chunkSlice_mem _ _ _ hc))]
    simp only
    rw [chunkSlice_chunkSlice _ _ _ hs1 hs2]
    unfold checkLen
    rw [if_neg (by simp [hul, Plan.termBytes])]
    rfl

theorem getOneTerm_wf (p : Plan) (cache : Option Cache) (t : Term) (ht : t ∈ p.terms) (h : WFTerm p t)
    (hc : ∀ c, cache = some c → CacheFaithful p c) : getOneTerm p cache t = .ok (p.termBytes t) := by
  unfold getOneTerm
  rw [if_neg (by have := h.2.1; omega)]
  cases cache with
  | none => exact fetchTerm_wf p t h
  | some c =>
    simp only
    cases hq : c t.xorb t.range with
    | none => exact fetchTerm_wf p t h
    | some d => simp only; rw [hc c rfl t ht d hq]

theorem results_wf (p : Plan) (cache : Option Cache) (h : ∀ t ∈ p.terms, WFTerm p t)
    (hc : ∀ c, cache = some c → CacheFaithful p c) :
    p.results cache = (p.terms.map p.termBytes).map Except.ok := by
  unfold Plan.results
  rw [List.map_map]
  apply List.map_congr_left
  intro t ht
  exact getOneTerm_wf p cache t ht (h t ht) hc

theorem lens_wf (p : Plan) (h : ∀ t ∈ p.terms, WFTerm p t) :
    p.lens = (p.terms.map p.termBytes).map List.length := by
  unfold Plan.lens
  rw [List.map_map]
  apply List.map_congr_left
  intro t ht
  exact (h t ht).2.2.2.2.1

theorem headOK_wf (p : Plan) (h : ∀ t ∈ p.terms, WFTerm p t) (ho : OffsetOK p) :
    HeadOK (startOf 0 p.offset) (p.terms.map p.termBytes) := by
  unfold OffsetOK at ho
  cases hts : p.terms with
  | nil => simp [HeadOK]
  | cons t ts =>
    rw [hts] at ho
    have := (h t (by rw [hts]; exact List.mem_cons_self)).2.2.2.2.1
    simp only [List.map_cons, HeadOK, startOf]
    simp only [if_true]
    omega

theorem totalLen_wf (p : Plan) (range : Option CRange) (h : ∀ t ∈ p.terms, WFTerm p t)
    (hr : RangeOK p range) : totalLen p.lens range = .ok (reqLen p range) := by
  unfold totalLen reqLen
  cases range with
  | none =>
    simp only
    rw [lens_wf p h, Plan.allBytes, List.length_flatten]
  | some r =>
    simp only
    rw [if_neg (by have := hr.1; omega)]

end Xet.Recon
