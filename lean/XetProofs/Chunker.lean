import XetModel.Chunker

namespace Xet.Chunker

/-! ## Automaton lemmas -/

@[ext] theorem Run.ext' {a b : Run} (h1 : a.chunks = b.chunks) (h2 : a.st = b.st) (h3 : a.acc = b.acc) : a = b := by
  cases a; cases b; simp_all

def Run.andThen (r : Run) (f : St → Bytes → Run) : Run :=
  ⟨r.chunks ++ (f r.st r.acc).chunks, (f r.st r.acc).st, (f r.st r.acc).acc⟩

theorem auto_append (p : Params) (s : St) (acc a b : Bytes) :
    auto p s acc (a ++ b) = (auto p s acc a).andThen (fun s' acc' => auto p s' acc' b) := by
  induction a generalizing s acc with
  | nil => simp [auto, Run.andThen]
  | cons x xs ih =>
    simp only [List.cons_append, auto]
    split
    · simp [ih, Run.andThen]
    · exact ih _ _

theorem auto_flatten (p : Params) (s : St) (acc data : Bytes) :
    (auto p s acc data).chunks.flatten ++ (auto p s acc data).acc = acc ++ data := by
  induction data generalizing s acc with
  | nil => simp [auto]
  | cons x xs ih =>
    simp only [auto]
    split
    · have := ih (stepByte p s x).st []
      simp_all
    · have := ih (stepByte p s x).st (acc ++ [x])
      simp_all

/-- state invariant of the automaton: `cur` counts the buffered bytes and is below `maxC`. -/
def Good (p : Params) (s : St) (acc : Bytes) : Prop := s.cur = acc.length ∧ s.cur < p.maxC

theorem stepByte_skip (p : Params) (s : St) (b : UInt8) (h : s.cur + 65 < p.minC) :
    stepByte p s b = ⟨⟨s.h, s.cur + 1⟩, false⟩ := by
  simp [stepByte, h]

theorem stepByte_hash_cut (p : Params) (s : St) (b : UInt8) (h : ¬ s.cur + 65 < p.minC)
    (hc : isCut p.mask (hashStep s.h b) = true ∨ p.maxC ≤ s.cur + 1) :
    stepByte p s b = ⟨St.init, true⟩ := by
  simp only [stepByte, h, if_false]
  rw [if_pos]
  rcases hc with hc | hc
  · simp [hc]
  · simp [hc]

theorem stepByte_hash_nocut (p : Params) (s : St) (b : UInt8) (h : ¬ s.cur + 65 < p.minC)
    (hc : isCut p.mask (hashStep s.h b) = false) (hm : s.cur + 1 < p.maxC) :
    stepByte p s b = ⟨⟨hashStep s.h b, s.cur + 1⟩, false⟩ := by
  simp only [stepByte, h, if_false]
  rw [if_neg]
  simp [hc]; omega

theorem stepByte_cases (p : Params) (s : St) (b : UInt8) :
    (s.cur + 65 < p.minC ∧ stepByte p s b = ⟨⟨s.h, s.cur + 1⟩, false⟩) ∨
    (¬ s.cur + 65 < p.minC ∧ (isCut p.mask (hashStep s.h b) = true ∨ p.maxC ≤ s.cur + 1) ∧
        stepByte p s b = ⟨St.init, true⟩) ∨
    (¬ s.cur + 65 < p.minC ∧ isCut p.mask (hashStep s.h b) = false ∧ s.cur + 1 < p.maxC ∧
        stepByte p s b = ⟨⟨hashStep s.h b, s.cur + 1⟩, false⟩) := by
  by_cases h : s.cur + 65 < p.minC
  · exact Or.inl ⟨h, stepByte_skip p s b h⟩
  · by_cases hc : isCut p.mask (hashStep s.h b) = true
    · exact Or.inr (Or.inl ⟨h, Or.inl hc, stepByte_hash_cut p s b h (Or.inl hc)⟩)
    · by_cases hm : p.maxC ≤ s.cur + 1
      · exact Or.inr (Or.inl ⟨h, Or.inr hm, stepByte_hash_cut p s b h (Or.inr hm)⟩)
      · have hc' : isCut p.mask (hashStep s.h b) = false := by simpa using hc
        exact Or.inr (Or.inr ⟨h, hc', by omega, stepByte_hash_nocut p s b h hc' (by omega)⟩)

theorem stepByte_cut_st (p : Params) (s : St) (b : UInt8) (h : (stepByte p s b).cut = true) :
    (stepByte p s b).st = St.init := by
  rcases stepByte_cases p s b with ⟨_, e⟩ | ⟨_, _, e⟩ | ⟨_, _, _, e⟩ <;> rw [e] at h ⊢ <;> simp_all

theorem stepByte_nocut (p : Params) (s : St) (b : UInt8) (hmm : p.minC < p.maxC) (hg : s.cur < p.maxC)
    (h : (stepByte p s b).cut = false) :
    (stepByte p s b).st.cur = s.cur + 1 ∧ s.cur + 1 < p.maxC := by
  rcases stepByte_cases p s b with ⟨h1, e⟩ | ⟨_, _, e⟩ | ⟨_, _, h3, e⟩ <;> rw [e] at h ⊢ <;> simp_all <;> omega

theorem stepByte_cut_len (p : Params) (s : St) (b : UInt8)
    (h : (stepByte p s b).cut = true) : p.minC ≤ s.cur + 65 := by
  rcases stepByte_cases p s b with ⟨h1, e⟩ | ⟨h1, _, e⟩ | ⟨h1, _, h3, e⟩ <;> rw [e] at h <;> simp_all <;> omega

theorem auto_good (p : Params) (hmm : p.minC < p.maxC) (s : St) (acc data : Bytes) (hg : Good p s acc) :
    Good p (auto p s acc data).st (auto p s acc data).acc := by
  induction data generalizing s acc with
  | nil => simpa [auto]
  | cons x xs ih =>
    simp only [auto]
    split
    · rename_i hc
      apply ih
      rw [stepByte_cut_st p s x hc]
      exact ⟨rfl, by simp [St.init]; omega⟩
    · rename_i hc
      apply ih
      have := stepByte_nocut p s x hmm hg.2 (by simpa using hc)
      exact ⟨by simp [this.1, hg.1], by omega⟩

/-- every completed chunk is non-empty, at most `maxC` long and at least `minC - 64` long. -/
theorem auto_chunk_bounds (p : Params) (hmm : p.minC < p.maxC) (s : St) (acc data : Bytes) (hg : Good p s acc) :
    ∀ c ∈ (auto p s acc data).chunks, 0 < c.length ∧ c.length ≤ p.maxC ∧ p.minC ≤ c.length + 64 := by
  induction data generalizing s acc with
  | nil => simp [auto]
  | cons x xs ih =>
    simp only [auto]
    split
    · rename_i hc
      intro c hcmem
      simp only [List.mem_cons] at hcmem
      rcases hcmem with rfl | hcmem
      · have := stepByte_cut_len p s x hc
        have h1 := hg.1; have h2 := hg.2
        simp; omega
      · refine ih _ _ ?_ c hcmem
        rw [stepByte_cut_st p s x hc]
        exact ⟨rfl, by simp [St.init]; omega⟩
    · rename_i hc
      have := stepByte_nocut p s x hmm hg.2 (by simpa using hc)
      exact ih _ _ ⟨by simp [this.1, hg.1], by omega⟩

end Xet.Chunker

namespace Xet.Chunker

/-! ## Code-shaped layer refines the automaton -/

def State.toSt (s : State) : St := ⟨s.h, s.cur⟩

/-- invariant of the Rust struct between calls: `cur_chunk_len = chunkbuf.len() < maximum_chunk`. -/
def Rel (p : Params) (s : State) : Prop := s.cur = s.buf.length ∧ s.cur < p.maxC

theorem auto_skip (p : Params) (s : St) (acc xs : Bytes) (h : s.cur + xs.length + 65 ≤ p.minC) :
    auto p s acc xs = ⟨[], ⟨s.h, s.cur + xs.length⟩, acc ++ xs⟩ := by
  induction xs generalizing s acc with
  | nil => simp [auto]
  | cons x xs ih =>
    simp only [List.length_cons] at h
    rw [auto, stepByte_skip p s x (by omega)]
    simp only [Bool.false_eq_true, if_false]
    rw [ih _ _ (by simp; omega)]
    simp; omega

theorem nextMatch_some_pos (mask : UInt64) (h : UInt64) (xs : Bytes) (k : Nat)
    (hk : (nextMatch mask h xs).pos = some k) : 0 < k ∧ k ≤ xs.length := by
  induction xs generalizing h k with
  | nil => simp [nextMatch] at hk
  | cons x xs ih =>
    simp only [nextMatch] at hk
    split at hk
    · simp at hk; subst hk; simp
    · simp only [Option.map_eq_some_iff] at hk
      obtain ⟨a, ha, rfl⟩ := hk
      have := ih _ _ ha
      simp; omega

/-- scanning with `next_match` when the skip region is over and the slice ends at or before `maxC`:
    a match at `k` is exactly the automaton's first cut. -/
theorem auto_scan_some (p : Params) (h : UInt64) (cur : Nat) (acc xs : Bytes) (k : Nat)
    (hns : ¬ cur + 65 < p.minC) (hlen : cur + xs.length ≤ p.maxC)
    (hk : (nextMatch p.mask h xs).pos = some k) :
    auto p ⟨h, cur⟩ acc (xs.take k) = ⟨[acc ++ xs.take k], St.init, []⟩ := by
  induction xs generalizing h cur acc k with
  | nil => simp [nextMatch] at hk
  | cons x xs ih =>
    simp only [nextMatch] at hk
    simp only [List.length_cons] at hlen
    split at hk
    · rename_i hc
      simp at hk; subst hk
      simp only [List.take_succ_cons, List.take_zero, auto]
      rw [stepByte_hash_cut p ⟨h, cur⟩ x hns (Or.inl hc)]
      simp
    · rename_i hc
      simp only [Option.map_eq_some_iff] at hk
      obtain ⟨a, ha, rfl⟩ := hk
      have hpos := nextMatch_some_pos _ _ _ _ ha
      simp only [List.take_succ_cons, auto]
      rw [stepByte_hash_nocut p ⟨h, cur⟩ x hns (by simpa using hc) (by simp; omega)]
      simp only [Bool.false_eq_true, if_false]
      rw [ih (hashStep h x) (cur + 1) (acc ++ [x]) a (by omega) (by omega) ha]
      simp

theorem auto_scan_none (p : Params) (h : UInt64) (cur : Nat) (acc xs : Bytes)
    (hns : ¬ cur + 65 < p.minC) (hlen : cur + xs.length < p.maxC)
    (hk : (nextMatch p.mask h xs).pos = none) :
    auto p ⟨h, cur⟩ acc xs = ⟨[], ⟨(nextMatch p.mask h xs).h, cur + xs.length⟩, acc ++ xs⟩ := by
  induction xs generalizing h cur acc with
  | nil => simp [nextMatch, auto]
  | cons x xs ih =>
    simp only [nextMatch] at hk ⊢
    simp only [List.length_cons] at hlen
    split at hk
    · simp at hk
    · rename_i hc
      simp only [Option.map_eq_none_iff] at hk
      simp only [hc, auto]
      rw [stepByte_hash_nocut p ⟨h, cur⟩ x hns (by simpa using hc) (by simp; omega)]
      simp only [Bool.false_eq_true, if_false]
      rw [ih (hashStep h x) (cur + 1) (acc ++ [x]) (by omega) (by omega) hk]
      simp; omega

/-- no match, and the slice ends exactly at `maxC`: forced cut after the last byte. -/
theorem auto_scan_none_max (p : Params) (h : UInt64) (cur : Nat) (acc xs : Bytes)
    (hns : ¬ cur + 65 < p.minC) (hlen : cur + xs.length = p.maxC) (hne : xs ≠ [])
    (hk : (nextMatch p.mask h xs).pos = none) :
    auto p ⟨h, cur⟩ acc xs = ⟨[acc ++ xs], St.init, []⟩ := by
  induction xs generalizing h cur acc with
  | nil => simp at hne
  | cons x xs ih =>
    simp only [nextMatch] at hk
    simp only [List.length_cons] at hlen
    split at hk
    · simp at hk
    · rename_i hc
      simp only [Option.map_eq_none_iff] at hk
      by_cases hxs : xs = []
      · subst hxs
        simp only [auto]
        rw [stepByte_hash_cut p ⟨h, cur⟩ x hns (Or.inr (by simp at hlen ⊢; omega))]
        simp [auto]
      · simp only [auto]
        have : 0 < xs.length := List.length_pos_iff.mpr hxs
        rw [stepByte_hash_nocut p ⟨h, cur⟩ x hns (by simpa using hc) (by simp; omega)]
        simp only [Bool.false_eq_true, if_false]
        rw [ih (hashStep h x) (cur + 1) (acc ++ [x]) (by omega) (by omega) hxs hk]
        simp

end Xet.Chunker

namespace Xet.Chunker

theorem scanPart_spec (p : Params) (h : UInt64) (cur1 : Nat) (acc slice : Bytes)
    (hns : slice = [] ∨ ¬ cur1 + 65 < p.minC) (hcur : cur1 < p.maxC)
    (hlen : cur1 + slice.length ≤ p.maxC) :
    (scanPart p h cur1 slice).toB ≤ slice.length ∧
    ((scanPart p h cur1 slice).create = true → 0 < (scanPart p h cur1 slice).toB ∧
      auto p ⟨h, cur1⟩ acc (slice.take (scanPart p h cur1 slice).toB)
        = ⟨[acc ++ slice.take (scanPart p h cur1 slice).toB], St.init, []⟩) ∧
    ((scanPart p h cur1 slice).create = false →
      (scanPart p h cur1 slice).toB = slice.length ∧ cur1 + slice.length < p.maxC ∧
      auto p ⟨h, cur1⟩ acc slice = ⟨[], ⟨(scanPart p h cur1 slice).h, cur1 + slice.length⟩, acc ++ slice⟩) := by
  cases hm : (nextMatch p.mask h slice).pos with
  | some k =>
    have hk := nextMatch_some_pos _ _ _ _ hm
    have hns' : ¬ cur1 + 65 < p.minC := by
      rcases hns with rfl | h' 
      · simp at hk; omega
      · exact h'
    have hauto := auto_scan_some p h cur1 acc slice k hns' hlen hm
    by_cases hf : k + cur1 ≥ p.maxC
    · have : p.maxC - cur1 = k := by omega
      simp [scanPart, hm, hf, this, hauto]; omega
    · simp [scanPart, hm, hf, hauto]; omega
  | none =>
    by_cases hf : slice.length + cur1 ≥ p.maxC
    · have hne : slice ≠ [] := by
        intro h0; subst h0; simp at hf; omega
      have hns' : ¬ cur1 + 65 < p.minC := by
        rcases hns with h' | h'
        · exact absurd h' hne
        · exact h'
      have hauto := auto_scan_none_max p h cur1 acc slice hns' (by omega) hne hm
      have : p.maxC - cur1 = slice.length := by omega
      have hpos : 0 < slice.length := List.length_pos_iff.mpr hne
      simp [scanPart, hm, hf, this, hauto, hpos]
    · rcases hns with h' | hns'
      · subst h'
        simp [scanPart, hm, nextMatch, auto]; omega
      · have hauto := auto_scan_none p h cur1 acc slice hns' (by omega) hm
        simp [scanPart, hm, hf, hauto]; omega

end Xet.Chunker

namespace Xet.Chunker

theorem skipAmount_facts (p : Params) (cur n : Nat) (hmm : p.minC < p.maxC) (hc : cur < p.maxC) :
    skipAmount p cur n ≤ n ∧ cur + skipAmount p cur n < p.maxC ∧
    (skipAmount p cur n = 0 ∨ cur + skipAmount p cur n + 65 ≤ p.minC) ∧
    (skipAmount p cur n < n → ¬ (cur + skipAmount p cur n) + 65 < p.minC) := by
  unfold skipAmount
  split <;> omega

theorem take_skip_add (data : Bytes) (skip readEnd t : Nat) (ht : t ≤ readEnd - skip) :
    data.take (skip + t) = data.take skip ++ ((data.take readEnd).drop skip).take t := by
  rw [List.take_add, List.drop_take, List.take_take, Nat.min_eq_left ht]

theorem nextScan_spec (p : Params) (hmm : p.minC < p.maxC) (s : State) (hR : Rel p s)
    (data : Bytes) (hne : data ≠ []) :
    1 ≤ (nextScan p s data).consumed ∧ (nextScan p s data).consumed ≤ data.length ∧
    (nextScan p s data).st.buf = s.buf ++ data.take (nextScan p s data).consumed ∧
    ((nextScan p s data).create = true →
       auto p s.toSt s.buf (data.take (nextScan p s data).consumed)
         = ⟨[(nextScan p s data).st.buf], St.init, []⟩) ∧
    ((nextScan p s data).create = false →
       (nextScan p s data).consumed = data.length ∧
       auto p s.toSt s.buf data = ⟨[], (nextScan p s data).st.toSt, (nextScan p s data).st.buf⟩ ∧
       Rel p (nextScan p s data).st) := by
  have hn : 0 < data.length := List.length_pos_iff.mpr hne
  obtain ⟨hs1, hs2, hs3, hs4⟩ := skipAmount_facts p s.cur data.length hmm hR.2
  generalize hskip : skipAmount p s.cur data.length = skip at hs1 hs2 hs3 hs4
  -- the slice handed to `next_match`
  generalize hre : min data.length (skip + p.maxC - (s.cur + skip)) = readEnd
  generalize hsl : (data.take readEnd).drop skip = slice
  have hsl_len : slice.length = readEnd - skip := by
    rw [← hsl]; simp; omega
  have hre_le : readEnd ≤ data.length := by omega
  have hns : slice = [] ∨ ¬ (s.cur + skip) + 65 < p.minC := by
    by_cases h : skip < data.length
    · exact Or.inr (hs4 h)
    · left; apply List.eq_nil_of_length_eq_zero; omega
  have hlen : (s.cur + skip) + slice.length ≤ p.maxC := by omega
  obtain ⟨hsp1, hsp2, hsp3⟩ := scanPart_spec p s.h (s.cur + skip) (s.buf ++ data.take skip) slice hns hs2 hlen
  have hunf : nextScan p s data =
      ⟨(scanPart p s.h (s.cur + skip) slice).create, skip + (scanPart p s.h (s.cur + skip) slice).toB,
       ⟨(scanPart p s.h (s.cur + skip) slice).h, s.cur + skip + (scanPart p s.h (s.cur + skip) slice).toB,
        s.buf ++ data.take (skip + (scanPart p s.h (s.cur + skip) slice).toB)⟩⟩ := by
    simp only [nextScan, hskip, hre, hsl]
  generalize hsp : scanPart p s.h (s.cur + skip) slice = sp at *
  rw [hunf]
  simp only
  -- the skipped prefix
  have hskipauto : auto p s.toSt s.buf (data.take skip) = ⟨[], ⟨s.h, s.cur + skip⟩, s.buf ++ data.take skip⟩ := by
    rcases hs3 with h0 | h0
    · simp [h0, auto, State.toSt]
    · have := auto_skip p s.toSt s.buf (data.take skip) (by simp [State.toSt]; omega)
      rw [this]; simp [State.toSt]; omega
  have htake := take_skip_add data skip readEnd sp.toB (by omega)
  rw [hsl] at htake
  refine ⟨?_, by omega, trivial, ?_, ?_⟩
  · -- at least one byte is consumed
    by_cases hc : sp.create = true
    · have := (hsp2 hc).1; omega
    · have hc' : sp.create = false := by simpa using hc
      have := (hsp3 hc').1
      omega
  · intro hc
    obtain ⟨_, ha⟩ := hsp2 hc
    rw [htake, auto_append, hskipauto]
    simp [Run.andThen, ha]
  · intro hc
    obtain ⟨h1, h2, ha⟩ := hsp3 hc
    have hall : skip + sp.toB = data.length := by omega
    have hdata : data = data.take skip ++ slice := by
      have := take_skip_add data skip readEnd sp.toB (by omega)
      rw [hsl, hall, List.take_length, h1, List.take_length] at this
      exact this
    refine ⟨hall, ?_, ?_⟩
    · conv => lhs; rw [hdata]
      rw [auto_append, hskipauto]
      simp only [Run.andThen, ha, State.toSt, h1]
      have e : List.take (skip + slice.length) data = data := by
        rw [← h1, hall]; exact List.take_length
      rw [e, List.append_assoc, ← hdata]; simp
    · refine ⟨?_, by simp; omega⟩
      simp [hall, hR.1]; omega

end Xet.Chunker

namespace Xet.Chunker

theorem Rel_init (p : Params) (hmm : p.minC < p.maxC) : Rel p State.init := by
  simp [Rel, State.init]; omega

theorem nextBlockAux_nil (p : Params) (f : Bool) (fuel : Nat) (s : State) :
    nextBlockAux p f fuel s [] = ⟨[], s⟩ := by
  cases fuel <;> simp [nextBlockAux]

/-- `next_block(data, false)` is the automaton run over `data`. -/
theorem nextBlockAux_spec (p : Params) (hmm : p.minC < p.maxC) (fuel : Nat) (s : State) (hR : Rel p s)
    (data : Bytes) (hf : data.length < fuel) :
    auto p s.toSt s.buf data =
      ⟨(nextBlockAux p false fuel s data).chunks, (nextBlockAux p false fuel s data).st.toSt,
       (nextBlockAux p false fuel s data).st.buf⟩ ∧ Rel p (nextBlockAux p false fuel s data).st := by
  induction fuel generalizing s data with
  | zero => omega
  | succ fuel ih =>
    by_cases hne : data = []
    · subst hne; simp [nextBlockAux, auto, hR]
    · have hlen : 0 < data.length := List.length_pos_iff.mpr hne
      obtain ⟨h1, h2, _, h4, h5⟩ := nextScan_spec p hmm s hR data hne
      have hnext : next p s data false =
          (if (nextScan p s data).create then ⟨some (nextScan p s data).st.buf, (nextScan p s data).consumed, State.init⟩
           else ⟨none, (nextScan p s data).consumed, (nextScan p s data).st⟩) := by
        have h0 : ¬ data.length = 0 := by omega
        simp only [next, if_neg h0]
        simp
      have hemp : data.isEmpty = false := by simp [hne]
      by_cases hc : (nextScan p s data).create = true
      · have hn' : next p s data false = ⟨some (nextScan p s data).st.buf, (nextScan p s data).consumed, State.init⟩ := by
          rw [hnext, if_pos hc]
        have ha := h4 hc
        have hd : data = data.take (nextScan p s data).consumed ++ data.drop (nextScan p s data).consumed :=
          (List.take_append_drop _ _).symm
        obtain ⟨ih1, ih2⟩ := ih State.init (Rel_init p hmm) (data.drop (nextScan p s data).consumed)
          (by simp only [List.length_drop]; omega)
        constructor
        · conv => lhs; rw [hd]
          rw [auto_append, ha]
          simp only [Run.andThen, nextBlockAux, hemp, hn']
          have e : State.init.toSt = St.init := rfl
          have e2 : State.init.buf = [] := rfl
          rw [e, e2] at ih1
          rw [ih1]; simp
        · simp only [nextBlockAux, hemp, hn']; exact ih2
      · have hc' : (nextScan p s data).create = false := by simpa using hc
        have hn' : next p s data false = ⟨none, (nextScan p s data).consumed, (nextScan p s data).st⟩ := by
          rw [hnext, if_neg hc]
        obtain ⟨h51, h52, h53⟩ := h5 hc'
        have hdrop : data.drop (nextScan p s data).consumed = [] := by
          rw [h51]; simp
        simp only [nextBlockAux, hemp, hn', hdrop, nextBlockAux_nil]
        exact ⟨h52, h53⟩

theorem nextBlock_spec (p : Params) (hmm : p.minC < p.maxC) (s : State) (hR : Rel p s) (data : Bytes) :
    auto p s.toSt s.buf data =
      ⟨(nextBlock p s data false).chunks, (nextBlock p s data false).st.toSt,
       (nextBlock p s data false).st.buf⟩ ∧ Rel p (nextBlock p s data false).st :=
  nextBlockAux_spec p hmm _ s hR data (by omega)

theorem feedParts_spec (p : Params) (hmm : p.minC < p.maxC) (s : State) (hR : Rel p s) (parts : List Bytes) :
    auto p s.toSt s.buf parts.flatten =
      ⟨(feedParts p s parts).chunks, (feedParts p s parts).st.toSt, (feedParts p s parts).st.buf⟩ ∧
    Rel p (feedParts p s parts).st := by
  induction parts generalizing s with
  | nil => simp [feedParts, auto, hR]
  | cons part parts ih =>
    obtain ⟨h1, h2⟩ := nextBlock_spec p hmm s hR part
    obtain ⟨i1, i2⟩ := ih (nextBlock p s part false).st h2
    constructor
    · simp only [List.flatten_cons, feedParts]
      rw [auto_append, h1]
      simp only [Run.andThen]
      rw [i1]
    · simpa [feedParts] using i2

theorem finish_eq (p : Params) (s : State) :
    finish p s = if s.buf = [] then none else some s.buf := by
  simp only [finish, next, List.length_nil]
  by_cases h : s.buf = [] <;> simp [h]

/-- **Partition independence**: however the stream is split over `next_block` calls (including
    empty and one-byte calls), the chunks produced are those of the reference automaton on the
    concatenated stream. -/
theorem feed_eq_specSplit (p : Params) (hmm : p.minC < p.maxC) (parts : List Bytes) :
    feed p parts = specSplit p parts.flatten := by
  obtain ⟨h1, _⟩ := feedParts_spec p hmm State.init (Rel_init p hmm) parts
  have e : State.init.toSt = St.init := rfl
  have e2 : State.init.buf = [] := rfl
  rw [e, e2] at h1
  simp only [feed, specSplit, finish_eq, h1]
  by_cases h : (feedParts p State.init parts).st.buf = [] <;> simp [h]

end Xet.Chunker

namespace Xet.Chunker

theorem autoR_eq (p : Params) (s : St) (racc data : Bytes) :
    autoR p s racc data = auto p s racc.reverse data := by
  induction data generalizing s racc with
  | nil => simp [autoR, auto]
  | cons x xs ih =>
    simp only [autoR, auto]
    split
    · rw [ih]; simp
    · rw [ih]; simp

theorem specSplitR_eq (p : Params) (data : Bytes) : specSplitR p data = specSplit p data := by
  simp [specSplitR, specSplit, autoR_eq]

end Xet.Chunker
