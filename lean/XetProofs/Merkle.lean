import XetModel.Merkle

namespace Xet.Merkle

/-! ## Progress and termination of `merge` -/

theorem mergeOneLevelAux_length_le (P : HashPrims) (B : Nat) (hB : 1 ≤ B) (m : Memo) (cur rest : List Node) :
    (mergeOneLevelAux P B m cur rest).parents.length * 3 ≤ cur.length + rest.length + 2 := by
  induction rest generalizing m cur with
  | nil => simp [mergeOneLevelAux]
  | cons n rest ih =>
    simp only [mergeOneLevelAux]
    split
    · rename_i hc
      have := ih (m.add (hashNodeSeq P (cur ++ [n])) (sumLen (cur ++ [n]))).memo []
      simp only [List.length_cons, List.length_nil] at this ⊢
      -- a cut needs two earlier children, 2B ≥ 2 earlier children, or the last node
      simp only [cutHere, Bool.or_eq_true, Bool.and_eq_true, decide_eq_true_eq] at hc
      rcases hc with (⟨h2, _⟩ | h2) | hlast
      · omega
      · omega
      · have : rest = [] := by simpa using hlast
        subst this
        simp [mergeOneLevelAux]
    · have := ih m (cur ++ [n])
      simp only [List.length_append, List.length_cons, List.length_nil] at this ⊢
      omega

theorem mergeOneLevelAux_length_pos (P : HashPrims) (B : Nat) (m : Memo) (cur rest : List Node) (h : rest ≠ []) :
    1 ≤ (mergeOneLevelAux P B m cur rest).parents.length := by
  induction rest generalizing m cur with
  | nil => exact absurd rfl h
  | cons n rest ih =>
    simp only [mergeOneLevelAux]
    split
    · simp
    · rename_i hc
      by_cases hr : rest = []
      · subst hr; simp [cutHere] at hc
      · exact ih m (cur ++ [n]) hr

/-- one level strictly shrinks any list of at least two nodes, and never yields an empty level. -/
theorem mergeOneLevel_progress (P : HashPrims) (B : Nat) (hB : 1 ≤ B) (m : Memo) (nodes : List Node)
    (h2 : 2 ≤ nodes.length) :
    1 ≤ (mergeOneLevel P B m nodes).parents.length ∧ (mergeOneLevel P B m nodes).parents.length < nodes.length := by
  have h1 := mergeOneLevelAux_length_le P B hB m [] nodes
  have h3 := mergeOneLevelAux_length_pos P B m [] nodes (by intro h; subst h; simp at h2)
  simp only [mergeOneLevel, List.length_nil] at *
  omega

/-- `merge` terminates with exactly one node when started from a non-empty list: the `while
    nodes.len() > 1` loop needs at most `nodes.len()` iterations. -/
theorem mergeAux_single (P : HashPrims) (B : Nat) (hB : 1 ≤ B) (fuel : Nat) (m : Memo) (nodes : List Node)
    (hne : 1 ≤ nodes.length) (hf : nodes.length ≤ fuel) :
    (mergeAux P B fuel m nodes).parents.length = 1 := by
  induction fuel generalizing m nodes with
  | zero => omega
  | succ fuel ih =>
    simp only [mergeAux]
    split
    · simp only; omega
    · rename_i h
      have hp := mergeOneLevel_progress P B hB m nodes (by omega)
      exact ih _ _ hp.1 (by omega)

theorem merge_single (P : HashPrims) (B : Nat) (hB : 1 ≤ B) (m : Memo) (nodes : List Node) (hne : nodes ≠ []) :
    (merge P B m nodes).parents.length = 1 :=
  mergeAux_single P B hB _ m nodes (List.length_pos_iff.mpr hne) (Nat.le_refl _)

/-- merging a single node returns it unchanged, whatever the memo contains. -/
theorem merge_of_single (P : HashPrims) (B : Nat) (m : Memo) (x : Node) :
    (merge P B m [x]).parents = [x] := by
  simp [merge, mergeAux]

theorem addLeaves_length (m : Memo) (cs : List (Hash × Nat)) : (addLeaves m cs).nodes.length = cs.length := by
  induction cs generalizing m with
  | nil => simp [addLeaves]
  | cons c cs ih => obtain ⟨h, l⟩ := c; simp [addLeaves, ih]

/-! ## Hex text form -/

theorem ofDigits16_append (a : List Nat) (d : Nat) : Hash.ofDigits16 (a ++ [d]) = Hash.ofDigits16 a * 16 + d := by
  simp [Hash.ofDigits16, List.foldl_append]

theorem ofDigits16_natDigits16 (k n : Nat) : Hash.ofDigits16 (Hash.natDigits16 k n) = n % 16 ^ k := by
  induction k generalizing n with
  | zero => simp [Hash.natDigits16, Hash.ofDigits16, Nat.mod_one]
  | succ k ih =>
    rw [Hash.natDigits16, ofDigits16_append, ih]
    rw [Nat.pow_succ, Nat.mul_comm (16 ^ k) 16, Nat.mod_mul]
    omega

theorem natDigits16_lt (k n : Nat) : ∀ d ∈ Hash.natDigits16 k n, d < 16 := by
  induction k generalizing n with
  | zero => simp [Hash.natDigits16]
  | succ k ih =>
    intro d hd
    rw [Hash.natDigits16] at hd
    rcases List.mem_append.mp hd with h | h
    · exact ih _ d h
    · simp at h; omega

theorem natDigits16_length (k n : Nat) : (Hash.natDigits16 k n).length = k := by
  induction k generalizing n with
  | zero => simp [Hash.natDigits16]
  | succ k ih => simp [Hash.natDigits16, ih]

theorem charDigit_digitChar (d : Nat) (h : d < 16) : Hash.charDigit (Hash.digitChar d) = some d := by
  have : d = 0 ∨ d = 1 ∨ d = 2 ∨ d = 3 ∨ d = 4 ∨ d = 5 ∨ d = 6 ∨ d = 7 ∨ d = 8 ∨ d = 9 ∨ d = 10 ∨ d = 11 ∨
      d = 12 ∨ d = 13 ∨ d = 14 ∨ d = 15 := by omega
  rcases this with h|h|h|h|h|h|h|h|h|h|h|h|h|h|h|h <;> subst h <;> decide

theorem mapM_charDigit_digits (ds : List Nat) (h : ∀ d ∈ ds, d < 16) :
    (ds.map Hash.digitChar).mapM Hash.charDigit = some ds := by
  induction ds with
  | nil => rfl
  | cons d ds ih =>
    simp only [List.map_cons, List.mapM_cons]
    rw [charDigit_digitChar d (h d (by simp)), ih (fun x hx => h x (by simp [hx]))]
    rfl

theorem parseWord_wordHex (w : UInt64) : Hash.parseWord (Hash.wordHex w) = some w := by
  simp only [Hash.parseWord, Hash.wordHex]
  rw [mapM_charDigit_digits _ (natDigits16_lt 16 _)]
  simp only [Option.map_some, ofDigits16_natDigits16]
  congr 1
  have : w.toNat < 16 ^ 16 := by
    have := w.toNat_lt
    simpa using this
  rw [Nat.mod_eq_of_lt this]
  exact UInt64.ofNat_toNat

theorem wordHex_length (w : UInt64) : (Hash.wordHex w).length = 16 := by
  simp [Hash.wordHex, natDigits16_length]

/-! ## HashedWrite -/

theorem HW_writeAll_inv (s : HW) (buf : Bytes) (accepts : List Nat) (h : s.hashed = s.written) :
    (HW.writeAll s buf accepts).hashed = (HW.writeAll s buf accepts).written := by
  induction accepts generalizing s buf with
  | nil => cases buf <;> simp [HW.writeAll, h]
  | cons a as ih =>
    cases buf with
    | nil => simp [HW.writeAll, h]
    | cons b bs =>
      simp only [HW.writeAll]
      split
      · exact h
      · apply ih
        simp [HW.write, h]

theorem HW_writeRetry_inv (s : HW) (buf : Bytes) (events : List Nat) (h : s.hashed = s.written) :
    (HW.writeRetry s buf events).hashed = (HW.writeRetry s buf events).written := by
  induction events generalizing s buf with
  | nil => cases buf <;> simp [HW.writeRetry, h]
  | cons a as ih =>
    cases buf with
    | nil => simp [HW.writeRetry, h]
    | cons b bs =>
      simp only [HW.writeRetry]
      split
      · exact ih s _ h
      · apply ih
        simp [HW.write, h]

/-- what reached the inner writer, followed by what the caller still holds, is the caller's data: nothing is written twice or skipped -/
theorem HW_writeRetry_prefix (s : HW) (buf : Bytes) (events : List Nat) :
    ∃ k, k ≤ buf.length ∧ (HW.writeRetry s buf events).written = s.written ++ buf.take k := by
  induction events generalizing s buf with
  | nil => cases buf <;> exact ⟨0, by simp [HW.writeRetry]⟩
  | cons a as ih =>
    cases buf with
    | nil => exact ⟨0, by simp [HW.writeRetry]⟩
    | cons b bs =>
      simp only [HW.writeRetry]
      split
      · exact ih s _
      · obtain ⟨k, hk, e⟩ := ih (s.write (b :: bs) a).1 ((b :: bs).drop (s.write (b :: bs) a).2)
        refine ⟨min a (b :: bs).length + k, ?_, ?_⟩
        · simp only [HW.write, List.length_drop] at hk ⊢; omega
        · rw [e]
          simp only [HW.write, List.append_assoc, List.append_cancel_left_eq]
          rw [List.take_add]

/-- exact account of the retry loop: what reached the inner writer is the first `events.sum` bytes of the caller's data
    (a failed call contributes 0, an accepting call at most its allowance, never more than is left) -/
theorem HW_writeRetry_exact (s : HW) (buf : Bytes) (events : List Nat) :
    (HW.writeRetry s buf events).written = s.written ++ buf.take events.sum := by
  induction events generalizing s buf with
  | nil => cases buf <;> simp [HW.writeRetry]
  | cons a as ih =>
    cases buf with
    | nil => simp [HW.writeRetry]
    | cons b bs =>
      simp only [HW.writeRetry]
      split
      · rename_i h0; subst h0; simpa using ih s (b :: bs)
      · rw [ih]
        simp only [HW.write, List.append_assoc, List.append_cancel_left_eq, List.sum_cons]
        by_cases hle : a ≤ (b :: bs).length
        · rw [Nat.min_eq_left hle, ← List.take_add]
        · have hlt : (b :: bs).length < a := Nat.lt_of_not_le hle
          rw [Nat.min_eq_right (Nat.le_of_lt hlt)]
          rw [List.drop_length, List.take_nil, List.append_nil, List.take_length]
          exact (List.take_of_length_le (by omega)).symm

end Xet.Merkle
