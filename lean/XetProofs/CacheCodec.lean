/-
Codec round trips and injectivity for the chunk-cache model (`XetModel/Cache.lean`, layer (1)):
little-endian integers, canonical URL-safe base64, cache item file names, key directory names.
Core only.
-/
import XetModel.Cache

namespace Xet.Cache

/-! ### little-endian integers -/

theorem byte_of_nat {a : UInt8} {n : Nat} (h : n = a.toNat) : UInt8.ofNat n = a := by
  rw [h, UInt8.ofNat_toNat]

theorem rd32_le32_bytes (x : UInt32) :
    rd32 (UInt8.ofNat (x.toNat % 256)) (UInt8.ofNat (x.toNat / 256 % 256))
      (UInt8.ofNat (x.toNat / 65536 % 256)) (UInt8.ofNat (x.toNat / 16777216 % 256)) = x := by
  have hx := x.toNat_lt
  unfold rd32
  simp only [UInt8.toNat_ofNat']
  have : x.toNat % 256 % 2 ^ 8 + 256 * (x.toNat / 256 % 256 % 2 ^ 8)
      + 65536 * (x.toNat / 65536 % 256 % 2 ^ 8) + 16777216 * (x.toNat / 16777216 % 256 % 2 ^ 8)
      = x.toNat := by omega
  rw [this, UInt32.ofNat_toNat]

theorem rd32_le32 (x : UInt32) :
    ∃ b0 b1 b2 b3, le32 x = [b0, b1, b2, b3] ∧ rd32 b0 b1 b2 b3 = x :=
  ⟨_, _, _, _, rfl, rd32_le32_bytes x⟩

theorem rd64_le64_bytes (x : UInt64) :
    rd64 (UInt8.ofNat (x.toNat % 256)) (UInt8.ofNat (x.toNat / 256 % 256))
      (UInt8.ofNat (x.toNat / 65536 % 256)) (UInt8.ofNat (x.toNat / 16777216 % 256))
      (UInt8.ofNat (x.toNat / 4294967296 % 256)) (UInt8.ofNat (x.toNat / 1099511627776 % 256))
      (UInt8.ofNat (x.toNat / 281474976710656 % 256))
      (UInt8.ofNat (x.toNat / 72057594037927936 % 256)) = x := by
  have hx := x.toNat_lt
  unfold rd64
  simp only [UInt8.toNat_ofNat']
  have : x.toNat % 256 % 2 ^ 8 + 256 * (x.toNat / 256 % 256 % 2 ^ 8)
      + 65536 * (x.toNat / 65536 % 256 % 2 ^ 8) + 16777216 * (x.toNat / 16777216 % 256 % 2 ^ 8)
      + 4294967296 * (x.toNat / 4294967296 % 256 % 2 ^ 8)
      + 1099511627776 * (x.toNat / 1099511627776 % 256 % 2 ^ 8)
      + 281474976710656 * (x.toNat / 281474976710656 % 256 % 2 ^ 8)
      + 72057594037927936 * (x.toNat / 72057594037927936 % 256 % 2 ^ 8)
      = x.toNat := by omega
  rw [this, UInt64.ofNat_toNat]

theorem rd64_le64 (x : UInt64) :
    ∃ b0 b1 b2 b3 b4 b5 b6 b7, le64 x = [b0, b1, b2, b3, b4, b5, b6, b7] ∧
      rd64 b0 b1 b2 b3 b4 b5 b6 b7 = x :=
  ⟨_, _, _, _, _, _, _, _, rfl, rd64_le64_bytes x⟩

theorem le32_rd32 (b0 b1 b2 b3 : UInt8) : le32 (rd32 b0 b1 b2 b3) = [b0, b1, b2, b3] := by
  have h0 := b0.toNat_lt
  have h1 := b1.toNat_lt
  have h2 := b2.toNat_lt
  have h3 := b3.toNat_lt
  unfold le32 rd32
  rw [UInt32.toNat_ofNat']
  rw [byte_of_nat (a := b0) (by omega), byte_of_nat (a := b1) (by omega),
    byte_of_nat (a := b2) (by omega), byte_of_nat (a := b3) (by omega)]

theorem le64_rd64 (b0 b1 b2 b3 b4 b5 b6 b7 : UInt8) :
    le64 (rd64 b0 b1 b2 b3 b4 b5 b6 b7) = [b0, b1, b2, b3, b4, b5, b6, b7] := by
  have h0 := b0.toNat_lt
  have h1 := b1.toNat_lt
  have h2 := b2.toNat_lt
  have h3 := b3.toNat_lt
  have h4 := b4.toNat_lt
  have h5 := b5.toNat_lt
  have h6 := b6.toNat_lt
  have h7 := b7.toNat_lt
  unfold le64 rd64
  rw [UInt64.toNat_ofNat']
  rw [byte_of_nat (a := b0) (by omega), byte_of_nat (a := b1) (by omega),
    byte_of_nat (a := b2) (by omega), byte_of_nat (a := b3) (by omega),
    byte_of_nat (a := b4) (by omega), byte_of_nat (a := b5) (by omega),
    byte_of_nat (a := b6) (by omega), byte_of_nat (a := b7) (by omega)]

theorem le32_length (x : UInt32) : (le32 x).length = 4 := rfl

theorem le64_length (x : UInt64) : (le64 x).length = 8 := rfl

theorem le32_inj {x y : UInt32} (h : le32 x = le32 y) : x = y := by
  rw [← rd32_le32_bytes x, ← rd32_le32_bytes y]
  simp only [le32, List.cons.injEq, and_true] at h
  obtain ⟨h0, h1, h2, h3⟩ := h
  rw [h0, h1, h2, h3]

theorem le64_inj {x y : UInt64} (h : le64 x = le64 y) : x = y := by
  rw [← rd64_le64_bytes x, ← rd64_le64_bytes y]
  simp only [le64, List.cons.injEq, and_true] at h
  obtain ⟨h0, h1, h2, h3, h4, h5, h6, h7⟩ := h
  rw [h0, h1, h2, h3, h4, h5, h6, h7]

/-! ### base64 alphabet -/

theorem b64Val_b64Char_fin : ∀ n : Fin 64, b64Val (b64Char n.val) = some n.val := by decide

theorem b64Char_ne_pad_fin : ∀ n : Fin 64, b64Char n.val ≠ b64Pad := by decide

theorem b64Val_b64Char (n : Nat) (h : n < 64) : b64Val (b64Char n) = some n :=
  b64Val_b64Char_fin ⟨n, h⟩

theorem b64Char_ne_pad (n : Nat) (h : n < 64) : b64Char n ≠ b64Pad :=
  b64Char_ne_pad_fin ⟨n, h⟩

theorem b64Val_pad : b64Val b64Pad = none := by decide

theorem b64Char_of_b64Val {c : UInt8} {n : Nat} (h : b64Val c = some n) :
    n < 64 ∧ b64Char n = c := by
  have hc := c.toNat_lt
  unfold b64Val at h
  split at h
  · injection h with h; subst h
    refine ⟨by omega, ?_⟩
    have e : b64Char (c.toNat - 65) = UInt8.ofNat (65 + (c.toNat - 65)) := by
      unfold b64Char; rw [if_pos (by omega)]
    rw [e, show 65 + (c.toNat - 65) = c.toNat by omega, UInt8.ofNat_toNat]
  · split at h
    · injection h with h; subst h
      refine ⟨by omega, ?_⟩
      have e : b64Char (c.toNat - 71) = UInt8.ofNat (71 + (c.toNat - 71)) := by
        unfold b64Char; rw [if_neg (by omega), if_pos (by omega)]
      rw [e, show 71 + (c.toNat - 71) = c.toNat by omega, UInt8.ofNat_toNat]
    · split at h
      · injection h with h; subst h
        refine ⟨by omega, ?_⟩
        have e : b64Char (c.toNat + 4) = UInt8.ofNat (c.toNat + 4 - 4) := by
          unfold b64Char; rw [if_neg (by omega), if_neg (by omega), if_pos (by omega)]
        rw [e, show c.toNat + 4 - 4 = c.toNat by omega, UInt8.ofNat_toNat]
      · split at h
        · injection h with h; subst h
          refine ⟨by omega, ?_⟩
          rename_i h45
          rw [← UInt8.ofNat_toNat (x := c), h45]; rfl
        · split at h
          · injection h with h; subst h
            refine ⟨by omega, ?_⟩
            rename_i h95
            rw [← UInt8.ofNat_toNat (x := c), h95]; rfl
          · cases h

/-! ### base64 round trip -/

theorem b64Decode_encode (bs : Bytes) : b64Decode (b64Encode bs) = some bs := by
  fun_induction b64Encode bs with
  | case1 => rfl
  | case2 a =>
    have ha := a.toNat_lt
    unfold b64Decode
    rw [if_pos ⟨rfl, rfl⟩, if_pos rfl]
    unfold b64Dec1
    rw [b64Val_b64Char _ (by omega), b64Val_b64Char _ (by omega)]
    simp only
    rw [if_pos (by omega), byte_of_nat (a := a) (by omega)]
  | case3 a b =>
    have ha := a.toNat_lt
    have hb := b.toNat_lt
    unfold b64Decode
    rw [if_pos ⟨rfl, rfl⟩, if_neg (b64Char_ne_pad _ (by omega))]
    unfold b64Dec2
    rw [b64Val_b64Char _ (by omega), b64Val_b64Char _ (by omega), b64Val_b64Char _ (by omega)]
    simp only
    rw [if_pos (by omega), byte_of_nat (a := a) (by omega), byte_of_nat (a := b) (by omega)]
  | case4 a b c rest ih =>
    have ha := a.toNat_lt
    have hb := b.toNat_lt
    have hc := c.toNat_lt
    unfold b64Decode
    rw [if_neg (fun h => b64Char_ne_pad _ (by omega) h.2), ih]
    unfold b64Dec3
    rw [b64Val_b64Char _ (by omega), b64Val_b64Char _ (by omega), b64Val_b64Char _ (by omega),
      b64Val_b64Char _ (by omega)]
    simp only
    rw [byte_of_nat (a := a) (by omega), byte_of_nat (a := b) (by omega),
      byte_of_nat (a := c) (by omega)]

theorem b64Encode_inj {a b : Bytes} (h : b64Encode a = b64Encode b) : a = b := by
  have h1 := b64Decode_encode a
  rw [h, b64Decode_encode b] at h1
  injection h1 with h1
  exact h1.symm

/-- canonicity: the strict decoder accepts only outputs of the encoder -/
theorem b64Encode_decode {s : List UInt8} {bs : Bytes} (h : b64Decode s = some bs) :
    b64Encode bs = s := by
  fun_induction b64Decode s generalizing bs with
  | case1 => injection h with h; subst h; rfl
  | case2 c0 c1 c3 rest hc =>
    obtain ⟨hr, h3⟩ := hc
    subst hr; subst h3
    unfold b64Dec1 at h
    split at h
    · rename_i v0 v1 e0 e1
      obtain ⟨l0, k0⟩ := b64Char_of_b64Val e0
      obtain ⟨l1, k1⟩ := b64Char_of_b64Val e1
      split at h
      · rename_i hz
        injection h with h; subst h
        have t : (UInt8.ofNat (v0 * 4 + v1 / 16)).toNat = v0 * 4 + v1 / 16 := by
          rw [UInt8.toNat_ofNat']; omega
        unfold b64Encode
        rw [t, show (v0 * 4 + v1 / 16) / 4 = v0 by omega,
          show (v0 * 4 + v1 / 16) % 4 * 16 = v1 by omega, k0, k1]
      · cases h
    · cases h
  | case3 c0 c1 c2 c3 rest hc hc2 =>
    obtain ⟨hr, h3⟩ := hc
    subst hr; subst h3
    unfold b64Dec2 at h
    split at h
    · rename_i v0 v1 v2 e0 e1 e2
      obtain ⟨l0, k0⟩ := b64Char_of_b64Val e0
      obtain ⟨l1, k1⟩ := b64Char_of_b64Val e1
      obtain ⟨l2, k2⟩ := b64Char_of_b64Val e2
      split at h
      · rename_i hz
        injection h with h; subst h
        have t0 : (UInt8.ofNat (v0 * 4 + v1 / 16)).toNat = v0 * 4 + v1 / 16 := by
          rw [UInt8.toNat_ofNat']; omega
        have t1 : (UInt8.ofNat (v1 % 16 * 16 + v2 / 4)).toNat = v1 % 16 * 16 + v2 / 4 := by
          rw [UInt8.toNat_ofNat']; omega
        unfold b64Encode
        rw [t0, t1, show (v0 * 4 + v1 / 16) / 4 = v0 by omega,
          show (v0 * 4 + v1 / 16) % 4 * 16 + (v1 % 16 * 16 + v2 / 4) / 16 = v1 by omega,
          show (v1 % 16 * 16 + v2 / 4) % 16 * 4 = v2 by omega, k0, k1, k2]
      · cases h
    · cases h
  | case4 c0 c1 c2 c3 rest hc ih =>
    unfold b64Dec3 at h
    split at h
    · rename_i v0 v1 v2 v3 t e0 e1 e2 e3 et
      obtain ⟨l0, k0⟩ := b64Char_of_b64Val e0
      obtain ⟨l1, k1⟩ := b64Char_of_b64Val e1
      obtain ⟨l2, k2⟩ := b64Char_of_b64Val e2
      obtain ⟨l3, k3⟩ := b64Char_of_b64Val e3
      injection h with h; subst h
      have t0 : (UInt8.ofNat (v0 * 4 + v1 / 16)).toNat = v0 * 4 + v1 / 16 := by
        rw [UInt8.toNat_ofNat']; omega
      have t1 : (UInt8.ofNat (v1 % 16 * 16 + v2 / 4)).toNat = v1 % 16 * 16 + v2 / 4 := by
        rw [UInt8.toNat_ofNat']; omega
      have t2 : (UInt8.ofNat (v2 % 4 * 64 + v3)).toNat = v2 % 4 * 64 + v3 := by
        rw [UInt8.toNat_ofNat']; omega
      unfold b64Encode
      rw [t0, t1, t2, show (v0 * 4 + v1 / 16) / 4 = v0 by omega,
        show (v0 * 4 + v1 / 16) % 4 * 16 + (v1 % 16 * 16 + v2 / 4) / 16 = v1 by omega,
        show (v1 % 16 * 16 + v2 / 4) % 16 * 4 + (v2 % 4 * 64 + v3) / 64 = v2 by omega,
        show (v2 % 4 * 64 + v3) % 64 = v3 by omega, k0, k1, k2, k3, ih et]
    · cases h
  | case5 s h1 h2 => cases h

/-! ### cache item file names -/

theorem itemOfBuf_bytes (it : Item) (h : it.start.toNat < it.stop.toNat) :
    itemOfBuf (le32 it.start ++ le32 it.stop ++ le64 it.len ++ le32 it.crc) = some it := by
  simp only [le32, le64, List.cons_append, List.nil_append, itemOfBuf, rd32_le32_bytes,
    rd64_le64_bytes]
  rw [if_neg (by omega)]

theorem parseFileName_fileName (it : Item) (h : it.start.toNat < it.stop.toNat) :
    parseFileName (fileName it) = some it := by
  unfold parseFileName fileName
  rw [b64Decode_encode]
  exact itemOfBuf_bytes it h

theorem fileName_inj {a b : Item} (h : fileName a = fileName b) : a = b := by
  have h := b64Encode_inj h
  have h1 := List.append_inj h (by simp [le32_length, le64_length])
  have h2 := List.append_inj h1.1 (by simp [le32_length])
  have h3 := List.append_inj h2.1 (by simp only [le32_length])
  have e0 := le32_inj h3.1
  have e1 := le32_inj h3.2
  have e2 := le64_inj h2.2
  have e3 := le32_inj h1.2
  cases a; cases b
  simp only at e0 e1 e2 e3
  subst e0 e1 e2 e3
  rfl

theorem itemOfBuf_some {buf : Bytes} {it : Item} (h : itemOfBuf buf = some it) :
    buf = le32 it.start ++ le32 it.stop ++ le64 it.len ++ le32 it.crc := by
  unfold itemOfBuf at h
  split at h
  · simp only at h
    split at h
    · cases h
    · injection h with h; subst h
      simp only [le32_rd32, le64_rd64, List.cons_append, List.nil_append]
  · cases h

/-- canonicity of file names: only `fileName it` parses to `it` -/
theorem fileName_parse {n : Name} {it : Item} (h : parseFileName n = some it) :
    fileName it = n := by
  unfold parseFileName at h
  split at h
  · cases h
  · rename_i buf hb
    rw [fileName, ← itemOfBuf_some h]
    exact b64Encode_decode hb

/-! ### key directories and item paths -/

theorem keyDirName_inj {a b : Key} (h : keyDirName a = keyDirName b) : a = b :=
  b64Encode_inj h

theorem itemPath_inj {k k' : Key} {it it' : Item} (h : itemPath k it = itemPath k' it') :
    k = k' ∧ it = it' := by
  simp only [itemPath, List.cons.injEq, and_true] at h
  exact ⟨keyDirName_inj h.2.1, fileName_inj h.2.2⟩

end Xet.Cache
